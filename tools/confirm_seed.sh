#!/bin/bash
# confirm_seed.sh <name> <seed-worktree-dir> <property> [test-pkg-pattern]
# Confirms a seeded breaking change independently in a fresh scratch worktree:
#   builds; existing suite still passes (except the baseline's always-failing TestDuration);
#   the demonstration fails with the change and passes without it;
# then runs every implemented check against the changed tree and records which fire.
# Keeps the patch + demo + meta.json under /verif/seeded/<name>/ and removes the scratch worktree.
set -u
export GOFLAGS=-mod=mod GOPROXY=off GOSUMDB=off GOTOOLCHAIN=local GOWORK=off
name=$1; src=$2; prop=$3
out=/verif/seeded/$name
wt=/var/tmp/cs-$name
mkdir -p $out
cp $src/SEED_patch.diff $out/patch.diff
cp $src/SEED_notes.md $out/notes.md 2>/dev/null
demos=$(cd $src && git status --short | grep '^??' | awk '{print $2}' | grep '_test.go$')
git -C /repo worktree add -q --force $wt HEAD || exit 2
cd $wt
git apply $out/patch.diff || { echo "patch does not apply"; git -C /repo worktree remove --force $wt; exit 2; }
build=ok; go build ./... >/dev/null 2>$out/build.log || build=fail
# existing suite without the demo
go test -vet=off -count=1 -timeout 25m ./... > $out/suite.log 2>&1
fails=$(grep -E '^--- FAIL' $out/suite.log | grep -v 'TestDuration' | tr '\n' ';')
# demo with the change
for d in $demos; do mkdir -p $out/demo/$(dirname $d); cp $src/$d $out/demo/$d; cp $src/$d $wt/$d; done
pkgs=$(for d in $demos; do echo ./$(dirname $d)/; done | sort -u | tr '\n' ' ')
go test -vet=off -count=1 -run 'Seed|seed|Demo' $pkgs > $out/demo_with.log 2>&1; with=$?
# checks against the changed tree
fired=""; mkdir -p /var/tmp/vd-$name; cp /verif/known_findings.txt /var/tmp/vd-$name/
for p in $(/verif/bin/pvcheck -list); do
  if ! PILOSA_REPO=$wt VERIF_DIR=/var/tmp/vd-$name /verif/bin/pvcheck -prop $p > $out/check_$p.log 2>&1; then fired="$fired $p"; else rm -f $out/check_$p.log; fi
done
rm -rf /var/tmp/vd-$name
git apply -R $out/patch.diff
go test -vet=off -count=1 -run 'Seed|seed|Demo' $pkgs > $out/demo_without.log 2>&1; without=$?
cd /; git -C /repo worktree remove --force $wt
python3 - <<PY
import json
json.dump({"name":"$name","property":"$prop","base_commit":"$(git -C /repo rev-parse --short HEAD)",
 "build":"$build","suite_failures_other_than_TestDuration":"$fails",
 "demo_with_change_exit":$with,"demo_without_change_exit":$without,
 "confirmed": ("$build"=="ok" and "$fails"=="" and $with!=0 and $without==0),
 "checks_that_fire":"$fired".split(),
 "what_i_ran":"tools/confirm_seed.sh: fresh worktree of /repo HEAD, git apply, go build ./..., go test ./... (demo absent), demo test with the change, every pvcheck property against the changed tree, git apply -R, demo test again"},
 open("$out/meta.json","w"),indent=1)
PY
cat $out/meta.json
