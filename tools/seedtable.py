#!/usr/bin/env python3
# Regenerates the seeded-changes table in DESIGN.md (between the SEEDTABLE markers)
# from /verif/seeded/*/meta.json and the first line of each notes.md.
import json, glob, os, re
rows = []
for d in sorted(glob.glob('/verif/seeded/*/')):
    m = json.load(open(d + 'meta.json'))
    what = ''
    for fn in ('notes.md', 'SEED_notes.md'):
        p = d + fn
        if os.path.exists(p):
            for line in open(p):
                line = line.strip().lstrip('#').strip()
                if line and not line.lower().startswith('seed'):
                    what = line
                    break
            break
    what = m.get('summary', what)
    fired = m.get('checks_that_fire', [])
    own = m['property'] in fired
    verdict = 'detected by ' + ', '.join(fired) if fired else '**not detected** (see below)'
    if fired and not own:
        verdict += ' (not by its own property)'
    rows.append('| %s | %s | %s | %s |' % (m['name'], m['property'], what[:160].replace('|', '/'), verdict))
table = '| seed | property | change | checks |\n|------|----------|--------|--------|\n' + '\n'.join(rows)
s = open('/verif/DESIGN.md').read()
if '<!-- SEEDTABLE -->' in s and '<!-- /SEEDTABLE -->' not in s:
    s = s.replace('<!-- SEEDTABLE -->', '<!-- SEEDTABLE -->\n' + table + '\n<!-- /SEEDTABLE -->')
else:
    s = re.sub(r'<!-- SEEDTABLE -->.*?<!-- /SEEDTABLE -->', '<!-- SEEDTABLE -->\n' + table + '\n<!-- /SEEDTABLE -->', s, flags=re.S)
open('/verif/DESIGN.md', 'w').write(s)
print(len(rows), 'seeds')
