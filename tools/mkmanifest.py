#!/usr/bin/env python3
"""Regenerates /verif/MANIFEST.json from the table below (one entry per claimed property)."""
import json, sys, os

ENV = "GOFLAGS=-mod=mod GOPROXY=off GOSUMDB=off GOTOOLCHAIN=local GOWORK=off"
SETUP = f"cd /verif/checker && {ENV} go build -o /verif/bin/pvcheck ./cmd/pvcheck"

# id -> (technique, level text, level note, design ref)
CLAIMED = json.load(open(os.path.join(os.path.dirname(__file__), "claims.json")))
NA = json.load(open(os.path.join(os.path.dirname(__file__), "not_applicable.json")))

ALL = [json.loads(l)["id"] for l in open("/verif/properties.jsonl")]
for pid in ALL:
    if pid not in CLAIMED and pid not in NA:
        NA[pid] = "check not built yet (planned: see DESIGN.md section 3); nothing is claimed for it until its checker exists"
checks = []
for pid in sorted(CLAIMED):
    c = CLAIMED[pid]
    checks.append({
        "property_id": pid,
        "quick_cmd": f"/verif/run.sh {pid} quick",
        "thorough_cmd": f"/verif/run.sh {pid} thorough",
        "evidence_file": f"/verif/evidence/{pid}.json",
        "replay_cmd_template": "/verif/bin/pvcheck -replay {path}",
        "engine": "pvcheck",
        "level_claimed": {"category": "other", "text": c["text"], "design_ref": f"DESIGN.md section 3, {pid}"},
        "level_note": c["note"],
        "technique": c["technique"],
    })
m = {
    "version": 1,
    "setup_cmd": SETUP,
    "hooks": {
        "guard": "verif",
        "enable": "none needed: static analysis does not instrument the program; the guard name is reserved and unused",
        "baseline_off_cmd": "cd /repo && GOFLAGS=-mod=mod go test -json -vet=off -count=1 -timeout 25m ./...",
        "source_commits": [],
        "add_only": True,
    },
    "engines": [{
        "name": "pvcheck",
        "path": "/verif/checker",
        "serves_properties": sorted(CLAIMED),
        "kind_free_text": "custom static analyzer for this repository: go/packages + go/types loader, a structured abstract interpreter over syntax trees (finite-state path rules with summaries), registry/table extraction, who-may-call and lock rules; no pilosa code is executed",
    }],
    "checks": checks,
    "notes": "Every check re-loads /repo's working tree with go/packages and decides from source only. Known findings: /verif/known_findings.txt. Seeded breaking changes: /verif/seeded/.",
    "not_applicable": [{"property_id": k, "reason": NA[k]} for k in sorted(NA)],
}
json.dump(m, open("/verif/MANIFEST.json", "w"), indent=1)
print("claimed", len(checks), "not_applicable", len(NA))
