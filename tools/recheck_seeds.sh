#!/bin/bash
# recheck_seeds.sh: re-run, against each kept seeded change applied to /repo's HEAD in a scratch
# worktree, the check of its own property and every check recorded as catching it; rewrite
# "checks_that_fire" in meta.json. (The full sweep over all checks is done once, by confirm_seed.sh.)
PV=${PVCHECK:-/verif/bin/pvcheck}
export GOFLAGS=-mod=mod GOPROXY=off GOSUMDB=off GOTOOLCHAIN=local GOWORK=off
wt=/var/tmp/rs-wt
git -C /repo worktree remove --force $wt 2>/dev/null
git -C /repo worktree add -q --force --detach $wt HEAD || exit 2
mkdir -p /var/tmp/rs-vd; cp /verif/known_findings.txt /var/tmp/rs-vd/
for d in /verif/seeded/*/; do
  name=$(basename $d)
  [ -f $d/meta.json ] || continue
  (cd $wt && git checkout -q -- . && git clean -fdq)
  if ! (cd $wt && git apply $d/patch.diff 2>/dev/null); then echo "$name: patch no longer applies to HEAD"; continue; fi
  props=$(jq -r '([.property] + .checks_that_fire) | unique | .[]' $d/meta.json)
  fired=""
  for p in $props; do
    if ! PILOSA_REPO=$wt VERIF_DIR=/var/tmp/rs-vd $PV -prop $p > /var/tmp/rs-check.log 2>&1; then fired="$fired $p"; cp /var/tmp/rs-check.log $d/check_$p.log; else rm -f $d/check_$p.log; fi
  done
  python3 - <<PY
import json
m=json.load(open("$d/meta.json")); m["checks_that_fire"]="$fired".split(); m["rechecked_at_commit"]="$(git -C /repo rev-parse --short HEAD)"
json.dump(m,open("$d/meta.json","w"),indent=1); print(m["name"],m["checks_that_fire"])
PY
done
git -C /repo worktree remove --force $wt; rm -rf /var/tmp/rs-vd /var/tmp/rs-check.log
