#!/bin/bash
# recheck_seeds.sh: re-run every implemented check against each kept seeded change (no test suite),
# and rewrite "checks_that_fire" in its meta.json. Scratch worktree under /var/tmp, removed afterwards.
export GOFLAGS=-mod=mod GOPROXY=off GOSUMDB=off GOTOOLCHAIN=local GOWORK=off
for d in /verif/seeded/*/; do
  name=$(basename $d); wt=/var/tmp/rs-$name
  git -C /repo worktree add -q --force $wt HEAD || continue
  if (cd $wt && git apply $d/patch.diff); then
    mkdir -p /var/tmp/vd-$name; cp /verif/known_findings.txt /var/tmp/vd-$name/
    fired=""
    rm -f $d/check_*.log
    for p in $(/verif/bin/pvcheck -list); do
      if ! PILOSA_REPO=$wt VERIF_DIR=/var/tmp/vd-$name /verif/bin/pvcheck -prop $p > $d/check_$p.log 2>&1; then fired="$fired $p"; else rm -f $d/check_$p.log; fi
    done
    rm -rf /var/tmp/vd-$name
    python3 - <<PY
import json
m=json.load(open("$d/meta.json")); m["checks_that_fire"]="$fired".split(); m["rechecked_at_commit"]="$(git -C /repo rev-parse --short HEAD)"
json.dump(m,open("$d/meta.json","w"),indent=1); print(m["name"],m["checks_that_fire"])
PY
  else
    echo "$name: patch no longer applies to HEAD"
  fi
  git -C /repo worktree remove --force $wt
done
