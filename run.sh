#!/bin/sh
# run.sh <property> <quick|thorough>: builds pvcheck if needed, then decides the property on /repo's working tree.
export GOFLAGS=-mod=mod GOPROXY=off GOSUMDB=off GOTOOLCHAIN=local GOWORK=off
cd /verif/checker || exit 2
if [ ! -x /verif/bin/pvcheck ] || [ -n "$(find . -name '*.go' -newer /verif/bin/pvcheck 2>/dev/null | head -1)" ]; then
  go build -o /verif/bin/pvcheck ./cmd/pvcheck || exit 2
fi
cd /verif
exec /verif/bin/pvcheck -prop "$1" -tier "${2:-quick}"
