package pilosa

import (
	"reflect"
	"testing"
)

func TestWitness_C13_LastWriteInBatchWins(t *testing.T) {
	f := mustOpenFragment("i", "f", viewStandard, 0, "")
	f.mutexVector = newRowsVector(f)
	defer f.Clean(t)
	if _, err := f.setBit(1, 5); err != nil { // column 5 holds row 1
		t.Fatal(err)
	}
	// the batch writes row 2 and then row 1 again to column 5: the last write is row 1
	if err := f.bulkImport([]uint64{2, 1}, []uint64{5, 5}, &ImportOptions{}); err != nil {
		t.Fatal(err)
	}
	var rows []uint64
	for _, r := range []uint64{1, 2} {
		if f.row(r).Count() > 0 {
			rows = append(rows, r)
		}
	}
	if !reflect.DeepEqual(rows, []uint64{1}) {
		t.Errorf("column 5 holds rows %v after [(2,5),(1,5)] over stored row 1; want [1]", rows)
	}
	// and a batch ending in a new row over a stored one
	if err := f.bulkImport([]uint64{3, 1, 4}, []uint64{5, 5, 5}, &ImportOptions{}); err != nil {
		t.Fatal(err)
	}
	rows = nil
	for _, r := range []uint64{1, 2, 3, 4} {
		if f.row(r).Count() > 0 {
			rows = append(rows, r)
		}
	}
	if !reflect.DeepEqual(rows, []uint64{4}) {
		t.Errorf("column 5 holds rows %v after [(3,5),(1,5),(4,5)]; want [4]", rows)
	}
}
