package pilosa_test

import (
	"context"
	"testing"
	"time"

	"github.com/pilosa/pilosa"
	"github.com/pilosa/pilosa/test"
)

// C16: a three-field GroupBy must terminate when the last rows of the first
// field intersect no row of the second.
func TestWitness_C16_GroupByTerminates(t *testing.T) {
	c := test.MustRunCluster(t, 1)
	defer c.Close()
	ctx := context.Background()
	api := c[0].API
	if _, err := api.CreateIndex(ctx, "i", pilosa.IndexOptions{}); err != nil {
		t.Fatal(err)
	}
	for _, f := range []string{"a", "b", "c"} {
		if _, err := api.CreateField(ctx, "i", f, pilosa.OptFieldTypeSet(pilosa.CacheTypeRanked, 100)); err != nil {
			t.Fatal(err)
		}
	}
	if _, err := api.Query(ctx, &pilosa.QueryRequest{Index: "i", Query: "Set(1, a=1) Set(2, a=2) Set(1, b=1) Set(1, c=1)"}); err != nil {
		t.Fatal(err)
	}
	done := make(chan error, 1)
	go func() {
		res, err := api.Query(ctx, &pilosa.QueryRequest{Index: "i", Query: "GroupBy(Rows(field=a), Rows(field=b), Rows(field=c))"})
		if err == nil {
			if gcs := res.Results[0].([]pilosa.GroupCount); len(gcs) != 1 || gcs[0].Count != 1 {
				t.Errorf("unexpected groups: %v", gcs)
			}
		}
		done <- err
	}()
	select {
	case err := <-done:
		if err != nil {
			t.Fatal(err)
		}
	case <-time.After(10 * time.Second):
		t.Fatal("GroupBy did not return within 10s (the iterator wraps forever)")
	}
}
