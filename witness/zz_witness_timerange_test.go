package pilosa_test

import (
	"context"
	"fmt"
	"math/rand"
	"reflect"
	"testing"
	"time"

	"github.com/pilosa/pilosa"
	"github.com/pilosa/pilosa/test"
)

// C18: a time-range query returns exactly the columns set with a timestamp in [from, to)
// at the resolution of the field's finest quantum unit.
func TestWitness_C18_TimeRangeExact(t *testing.T) {
	rng := rand.New(rand.NewSource(3))
	base := time.Date(2017, 11, 28, 0, 0, 0, 0, time.UTC)
	for _, q := range []string{"YMDH", "YMD", "YM", "Y", "MDH", "MD", "M", "DH", "D", "H"} {
		t.Run(q, func(t *testing.T) {
			c := test.MustRunCluster(t, 1)
			defer c.Close()
			hldr := test.Holder{Holder: c[0].Server.Holder()}
			idx, err := hldr.CreateIndex("i", pilosa.IndexOptions{})
			if err != nil {
				t.Fatal(err)
			}
			if _, err := idx.CreateField("f", pilosa.OptFieldTypeTime(pilosa.TimeQuantum(q))); err != nil {
				t.Fatal(err)
			}
			ctx := context.Background()
			// finest unit
			fin := q[len(q)-1]
			trunc := func(ts time.Time) time.Time {
				switch fin {
				case 'Y':
					return time.Date(ts.Year(), 1, 1, 0, 0, 0, 0, time.UTC)
				case 'M':
					return time.Date(ts.Year(), ts.Month(), 1, 0, 0, 0, 0, time.UTC)
				case 'D':
					return time.Date(ts.Year(), ts.Month(), ts.Day(), 0, 0, 0, 0, time.UTC)
				}
				return time.Date(ts.Year(), ts.Month(), ts.Day(), ts.Hour(), 0, 0, 0, time.UTC)
			}
			next := func(ts time.Time) time.Time {
				switch fin {
				case 'Y':
					return ts.AddDate(1, 0, 0)
				case 'M':
					return ts.AddDate(0, 1, 0)
				case 'D':
					return ts.AddDate(0, 0, 1)
				}
				return ts.Add(time.Hour)
			}
			stamps := map[uint64]time.Time{}
			pql := ""
			for col := uint64(1); col <= 40; col++ {
				var ts time.Time
				switch rng.Intn(4) {
				case 0:
					ts = base.Add(time.Duration(rng.Intn(72)) * time.Hour)
				case 1:
					ts = base.AddDate(0, rng.Intn(15), rng.Intn(28)).Add(time.Duration(rng.Intn(24)) * time.Hour)
				case 2:
					ts = base.AddDate(rng.Intn(3), rng.Intn(12), 0)
				default:
					ts = time.Date(2018+rng.Intn(2), time.Month(1+rng.Intn(12)), []int{1, 28, 31}[rng.Intn(3)], []int{0, 23}[rng.Intn(2)], 0, 0, 0, time.UTC)
				}
				stamps[col] = ts
				pql += fmt.Sprintf("Set(%d, f=1, %s) ", col, ts.Format("2006-01-02T15:04"))
			}
			if _, err := c[0].API.Query(ctx, &pilosa.QueryRequest{Index: "i", Query: pql}); err != nil {
				t.Fatal(err)
			}
			fails := 0
			for i := 0; i < 300 && fails < 8; i++ {
				from := base.AddDate(0, rng.Intn(30)-2, rng.Intn(31)).Add(time.Duration(rng.Intn(24)) * time.Hour)
				var to time.Time
				switch rng.Intn(4) {
				case 0:
					to = from.Add(time.Duration(1+rng.Intn(50)) * time.Hour)
				case 1:
					to = from.AddDate(0, 0, 1+rng.Intn(40))
				case 2:
					to = from.AddDate(0, 1+rng.Intn(14), 0)
				default:
					to = from.AddDate(1+rng.Intn(2), rng.Intn(3), rng.Intn(5))
				}
				// the query selects whole finest-unit buckets: [from, to) must be bucket aligned to be exact;
				// align both to the finest unit to state the expectation unambiguously
				from, to = trunc(from), trunc(to)
				if !from.Before(to) {
					continue
				}
				var exp []uint64
				for col := uint64(1); col <= 40; col++ {
					b := trunc(stamps[col])
					if !b.Before(from) && b.Before(to) {
						exp = append(exp, col)
					}
				}
				_ = next
				qs := fmt.Sprintf("Row(f=1, from=%s, to=%s)", from.Format("2006-01-02T15:04"), to.Format("2006-01-02T15:04"))
				res, err := c[0].API.Query(ctx, &pilosa.QueryRequest{Index: "i", Query: qs})
				if err != nil {
					t.Errorf("%s: %v", qs, err)
					fails++
					continue
				}
				got := res.Results[0].(*pilosa.Row).Columns()
				if len(got)+len(exp) > 0 && !reflect.DeepEqual(got, exp) {
					t.Errorf("%s %s: got %v want %v", q, qs, got, exp)
					fails++
				}
			}
		})
	}
}
