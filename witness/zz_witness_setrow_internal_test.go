package pilosa

import (
	"reflect"
	"testing"
)

// C03: a row handed to fragment.setRow and the fragment's stored row must not
// share writable containers.
func TestWitness_C03_SetRowIsolatesCallerRow(t *testing.T) {
	f := mustOpenFragment("i", "f", viewStandard, 0, "")
	defer f.Clean(t)

	src := NewRow(1, 2)
	if _, err := f.setRow(src, 7); err != nil {
		t.Fatal(err)
	}
	// mutate the caller's row afterwards
	src.SetBit(3)
	if got := f.row(7).Columns(); !reflect.DeepEqual(got, []uint64{1, 2}) {
		t.Errorf("fragment row changed when the row passed to setRow was mutated afterwards: %v", got)
	}

	// and the other way round
	src2 := NewRow(10, 11)
	if _, err := f.setRow(src2, 8); err != nil {
		t.Fatal(err)
	}
	if _, err := f.setBit(8, 12); err != nil {
		t.Fatal(err)
	}
	if got := src2.Columns(); !reflect.DeepEqual(got, []uint64{10, 11}) {
		t.Errorf("caller's row changed when the fragment row was written afterwards: %v", got)
	}
}
