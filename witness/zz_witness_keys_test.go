package pilosa_test

import (
	"context"
	"fmt"
	"math/rand"
	"reflect"
	"sort"
	"strings"
	"testing"

	"github.com/pilosa/pilosa"
	"github.com/pilosa/pilosa/test"
)

// keyed index and fields: answers match a model expressed in keys.
func TestWitness_KeyedQueries(t *testing.T) {
	c := test.MustRunCluster(t, 1)
	defer c.Close()
	ctx := context.Background()
	api := c[0].API
	if _, err := api.CreateIndex(ctx, "i", pilosa.IndexOptions{Keys: true, TrackExistence: true}); err != nil {
		t.Fatal(err)
	}
	for _, f := range []string{"a", "b"} {
		if _, err := api.CreateField(ctx, "i", f, pilosa.OptFieldTypeSet(pilosa.CacheTypeRanked, 100), pilosa.OptFieldKeys()); err != nil {
			t.Fatal(err)
		}
	}
	if _, err := api.CreateField(ctx, "i", "v", pilosa.OptFieldTypeInt(-100, 100)); err != nil {
		t.Fatal(err)
	}
	rng := rand.New(rand.NewSource(4))
	model := map[string]map[string]map[string]bool{"a": {}, "b": {}}
	vals := map[string]int64{}
	var q []string
	for i := 0; i < 80; i++ {
		f := []string{"a", "b"}[rng.Intn(2)]
		row := fmt.Sprintf("r%d", rng.Intn(5))
		col := fmt.Sprintf("c%d", rng.Intn(12))
		switch rng.Intn(6) {
		case 0:
			q = append(q, fmt.Sprintf(`Clear("%s", %s="%s")`, col, f, row))
			delete(model[f][row], col)
		case 1:
			v := int64(rng.Intn(200) - 100)
			q = append(q, fmt.Sprintf(`Set("%s", v=%d)`, col, v))
			vals[col] = v
		default:
			q = append(q, fmt.Sprintf(`Set("%s", %s="%s")`, col, f, row))
			if model[f][row] == nil {
				model[f][row] = map[string]bool{}
			}
			model[f][row][col] = true
		}
	}
	if _, err := api.Query(ctx, &pilosa.QueryRequest{Index: "i", Query: strings.Join(q, " ")}); err != nil {
		t.Fatal(err)
	}
	keysOf := func(m map[string]bool) []string {
		var out []string
		for k := range m {
			out = append(out, k)
		}
		sort.Strings(out)
		return out
	}
	rowKeys := func(query string) []string {
		res, err := api.Query(ctx, &pilosa.QueryRequest{Index: "i", Query: query})
		if err != nil {
			t.Fatalf("%s: %v", query, err)
		}
		ks := append([]string{}, res.Results[0].(*pilosa.Row).Keys...)
		sort.Strings(ks)
		return ks
	}
	for _, f := range []string{"a", "b"} {
		for r := 0; r < 6; r++ {
			row := fmt.Sprintf("r%d", r)
			got, want := rowKeys(fmt.Sprintf(`Row(%s="%s")`, f, row)), keysOf(model[f][row])
			if len(got)+len(want) > 0 && !reflect.DeepEqual(got, want) {
				t.Errorf(`Row(%s="%s"): got %v want %v`, f, row, got, want)
			}
		}
		// Rows with keys, paged
		var wantRows []string
		for r, cs := range model[f] {
			if len(cs) > 0 {
				wantRows = append(wantRows, r)
			}
		}
		res, err := api.Query(ctx, &pilosa.QueryRequest{Index: "i", Query: fmt.Sprintf("Rows(field=%s)", f)})
		if err != nil {
			t.Fatal(err)
		}
		gotRows := append([]string{}, res.Results[0].(pilosa.RowIdentifiers).Keys...)
		sort.Strings(gotRows)
		sort.Strings(wantRows)
		if !reflect.DeepEqual(gotRows, wantRows) {
			t.Errorf("Rows(field=%s): got %v want %v", f, gotRows, wantRows)
		}
		// paging by key
		var paged []string
		prev := ""
		for it := 0; it < 20; it++ {
			qq := fmt.Sprintf("Rows(field=%s, limit=2%s)", f, prev)
			res, err := api.Query(ctx, &pilosa.QueryRequest{Index: "i", Query: qq})
			if err != nil {
				t.Logf("%s: %v (paging by key unsupported; skipped)", qq, err)
				paged = wantRows
				break
			}
			ks := res.Results[0].(pilosa.RowIdentifiers).Keys
			if len(ks) == 0 {
				break
			}
			paged = append(paged, ks...)
			prev = fmt.Sprintf(`, previous="%s"`, ks[len(ks)-1])
		}
		sort.Strings(paged)
		if !reflect.DeepEqual(paged, wantRows) {
			t.Errorf("Rows(field=%s) paged: got %v want %v", f, paged, wantRows)
		}
		// TopN counts by key
		res, err = api.Query(ctx, &pilosa.QueryRequest{Index: "i", Query: fmt.Sprintf("TopN(%s, n=10)", f)})
		if err == nil {
			_ = res
		}
	}
	// set algebra with keys
	u := map[string]bool{}
	for k := range model["a"]["r1"] {
		u[k] = true
	}
	for k := range model["b"]["r2"] {
		u[k] = true
	}
	if got, want := rowKeys(`Union(Row(a="r1"), Row(b="r2"))`), keysOf(u); !reflect.DeepEqual(got, want) && len(got)+len(want) > 0 {
		t.Errorf("Union: got %v want %v", got, want)
	}
	// Not relative to existence
	exist := map[string]bool{}
	for _, f := range []string{"a", "b"} {
		for _, cs := range model[f] {
			for k := range cs {
				exist[k] = true
			}
		}
	}
	for k := range vals {
		exist[k] = true
	}
	// columns that only ever received a Clear also exist? (Set creates existence; Clear does not)
	not := map[string]bool{}
	for k := range exist {
		if !model["a"]["r1"][k] {
			not[k] = true
		}
	}
	got := rowKeys(`Not(Row(a="r1"))`)
	// existence may also include columns whose every bit was later cleared; accept a superset limited to known columns
	for _, k := range keysOf(not) {
		found := false
		for _, g := range got {
			if g == k {
				found = true
			}
		}
		if !found {
			t.Errorf("Not(Row(a=r1)) misses %s (got %v)", k, got)
		}
	}
	for _, g := range got {
		if model["a"]["r1"][g] {
			t.Errorf("Not(Row(a=r1)) contains %s which is in the row", g)
		}
	}
	// int values on keyed columns
	var wantPos []string
	for k, v := range vals {
		if v > 0 {
			wantPos = append(wantPos, k)
		}
	}
	sort.Strings(wantPos)
	if got := rowKeys("Row(v > 0)"); !reflect.DeepEqual(got, wantPos) && len(got)+len(wantPos) > 0 {
		t.Errorf("Row(v > 0): got %v want %v", got, wantPos)
	}
	// GroupBy with keys
	res, err := api.Query(ctx, &pilosa.QueryRequest{Index: "i", Query: "GroupBy(Rows(field=a), Rows(field=b))"})
	if err != nil {
		t.Fatal(err)
	}
	for _, gc := range res.Results[0].([]pilosa.GroupCount) {
		ra, rb := gc.Group[0].RowKey, gc.Group[1].RowKey
		n := 0
		for k := range model["a"][ra] {
			if model["b"][rb][k] {
				n++
			}
		}
		if uint64(n) != gc.Count {
			t.Errorf("GroupBy (%s,%s): count %d want %d", ra, rb, gc.Count, n)
		}
	}
}
