package pilosa

import (
	"fmt"
	"testing"
)

func TestWitness_C21_ResizePlanSources(t *testing.T) {
	idx := newIndexWithTempPath("i")
	field, err := idx.CreateFieldIfNotExists("f", OptFieldTypeDefault())
	if err != nil {
		t.Fatal(err)
	}
	for s := uint64(0); s < 12; s++ {
		if _, err := field.SetBit(1, s*ShardWidth+1, nil); err != nil {
			t.Fatal(err)
		}
	}
	mkNodes := func(n int) []*Node {
		var out []*Node
		for i := 0; i < n; i++ {
			uri, _ := NewURIFromAddress(fmt.Sprintf("host%d", i))
			out = append(out, &Node{ID: fmt.Sprintf("node%d", i), URI: *uri})
		}
		return out
	}
	all := mkNodes(6)
	mk := func(ids []int, replicaN int) *cluster {
		c := newCluster()
		c.ReplicaN = replicaN
		for _, i := range ids {
			c.addNodeBasicSorted(all[i])
		}
		return c
	}
	owners := func(c *cluster, shard uint64) map[string]bool {
		m := map[string]bool{}
		for _, n := range c.shardNodes("i", shard) {
			m[n.ID] = true
		}
		return m
	}
	for size := 1; size <= 5; size++ {
		for replicaN := 1; replicaN <= 3; replicaN++ {
			var ids []int
			for i := 0; i < size; i++ {
				ids = append(ids, i)
			}
			from := mk(ids, replicaN)
			// add
			{
				to := mk(append(append([]int{}, ids...), size), replicaN)
				name := fmt.Sprintf("add size=%d replicas=%d", size, replicaN)
				m, err := from.fragSources(to, idx)
				if err != nil {
					t.Errorf("%s: refused: %v", name, err)
				} else {
					checkPlan(t, name, from, to, m, "", owners)
				}
			}
			// remove each node
			for rm := 0; rm < size && size > 1; rm++ {
				var rest []int
				for _, i := range ids {
					if i != rm {
						rest = append(rest, i)
					}
				}
				to := mk(rest, replicaN)
				name := fmt.Sprintf("remove node%d size=%d replicas=%d", rm, size, replicaN)
				m, err := from.fragSources(to, idx)
				removed := fmt.Sprintf("node%d", rm)
				// is there a shard newly owned by someone whose only previous owner is the removed node?
				impossible := false
				for s := uint64(0); s < 12; s++ {
					fo := owners(from, s)
					for id := range owners(to, s) {
						if !fo[id] {
							surv := false
							for o := range fo {
								if o != removed {
									surv = true
								}
							}
							if !surv {
								impossible = true
							}
						}
					}
				}
				if err != nil {
					if !impossible {
						t.Errorf("%s: refused although every newly owned shard has a surviving owner: %v", name, err)
					}
					continue
				}
				if impossible {
					t.Errorf("%s: accepted although some newly owned shard has no surviving owner", name)
				}
				checkPlan(t, name, from, to, m, removed, owners)
			}
		}
	}
}

func checkPlan(t *testing.T, name string, from, to *cluster, m map[string][]*ResizeSource, removed string, owners func(*cluster, uint64) map[string]bool) {
	for s := uint64(0); s < 12; s++ {
		fo, tow := owners(from, s), owners(to, s)
		for id := range tow {
			if fo[id] {
				continue
			}
			// id newly owns shard s: a source must be named
			var src *ResizeSource
			for _, r := range m[id] {
				if r.Shard == s && r.Field == "f" {
					src = r
				}
			}
			if src == nil {
				t.Errorf("%s: %s newly owns shard %d but the plan names no source", name, id, s)
				continue
			}
			if src.Node == nil {
				t.Errorf("%s: %s shard %d: source node is nil", name, id, s)
				continue
			}
			if !fo[src.Node.ID] {
				t.Errorf("%s: %s shard %d: source %s did not own the shard before", name, id, s, src.Node.ID)
			}
			if src.Node.ID == removed {
				t.Errorf("%s: %s shard %d: source is the node being removed", name, id, s)
			}
		}
	}
}
