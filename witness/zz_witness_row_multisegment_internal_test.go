package pilosa

import (
	"reflect"
	"testing"
)

// Witness for C15 (reported by a seeding agent from reading the code):
// mergeSegmentIterator.next returns the other row's segment in the receiver's
// slot when that segment's shard is lower, so Row.Difference on rows that
// span several shards includes columns of the subtrahend.
func TestWitness_C15_RowOpsAcrossSegments(t *testing.T) {
	mk := func(cols ...uint64) *Row { return NewRow(cols...) }
	a := mk(ShardWidth+1, ShardWidth+2, 3*ShardWidth+5)
	b := mk(7, ShardWidth+2, 2*ShardWidth+9)
	model := func(f func(x, y bool) bool) []uint64 {
		all := []uint64{7, ShardWidth + 1, ShardWidth + 2, 2*ShardWidth + 9, 3*ShardWidth + 5}
		in := func(r []uint64, c uint64) bool {
			for _, v := range r {
				if v == c {
					return true
				}
			}
			return false
		}
		out := []uint64{}
		for _, c := range all {
			if f(in(a.Columns(), c), in(b.Columns(), c)) {
				out = append(out, c)
			}
		}
		return out
	}
	check := func(name string, got *Row, f func(x, y bool) bool) {
		if want := model(f); !reflect.DeepEqual(got.Columns(), want) && !(len(got.Columns()) == 0 && len(want) == 0) {
			t.Errorf("%s = %v, want %v", name, got.Columns(), want)
		}
	}
	check("a.Difference(b)", a.Difference(b), func(x, y bool) bool { return x && !y })
	check("b.Difference(a)", b.Difference(a), func(x, y bool) bool { return y && !x })
	check("a.Intersect(b)", a.Intersect(b), func(x, y bool) bool { return x && y })
	check("a.Union(b)", a.Union(b), func(x, y bool) bool { return x || y })
	check("a.Xor(b)", a.Xor(b), func(x, y bool) bool { return x != y })
	if n := a.intersectionCount(b); n != 1 {
		t.Errorf("a.intersectionCount(b) = %d, want 1", n)
	}
}
