package pilosa_test

import (
	"context"
	"reflect"
	"testing"

	"github.com/pilosa/pilosa"
	"github.com/pilosa/pilosa/test"
)

// C16: Rows() lists exactly the rows that have a bit set.
func TestWitness_C16_RowsAfterClear(t *testing.T) {
	c := test.MustRunCluster(t, 1)
	defer c.Close()
	ctx := context.Background()
	api := c[0].API
	if _, err := api.CreateIndex(ctx, "i", pilosa.IndexOptions{}); err != nil {
		t.Fatal(err)
	}
	if _, err := api.CreateField(ctx, "i", "f", pilosa.OptFieldTypeSet(pilosa.CacheTypeRanked, 100)); err != nil {
		t.Fatal(err)
	}
	if _, err := api.Query(ctx, &pilosa.QueryRequest{Index: "i", Query: "Set(2, f=5)"}); err != nil {
		t.Fatal(err)
	}
	// clear a bit of a row that was never written, through the import path
	if err := api.Import(ctx, &pilosa.ImportRequest{Index: "i", Field: "f", Shard: 0, RowIDs: []uint64{3}, ColumnIDs: []uint64{1}}, pilosa.OptImportOptionsClear(true)); err != nil {
		t.Fatal(err)
	}
	res, err := api.Query(ctx, &pilosa.QueryRequest{Index: "i", Query: "Rows(field=f)"})
	if err != nil {
		t.Fatal(err)
	}
	if got := []uint64(res.Results[0].(pilosa.RowIdentifiers).Rows); !reflect.DeepEqual(got, []uint64{5}) {
		t.Errorf("Rows(field=f) = %v, want [5] (row 3 never had a bit)", got)
	}
}
