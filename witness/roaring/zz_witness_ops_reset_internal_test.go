package roaring

import (
	"bytes"
	"testing"
)

// Witness for C05 (reported by a seeding agent): UnmarshalBinary resets opN
// but not ops, so decoding into a bitmap that was decoded (or written) before
// -- which is what a fragment does when it re-reads its file -- leaves the op
// count of the earlier contents added to the new one.
func TestWitness_DecodeResetsBothCounters(t *testing.T) {
	src := NewFileBitmap()
	var log bytes.Buffer
	var snap bytes.Buffer
	if _, err := src.WriteTo(&snap); err != nil {
		t.Fatal(err)
	}
	src.OpWriter = &log
	for _, v := range []uint64{1, 2, 3} {
		if _, err := src.Add(v); err != nil {
			t.Fatal(err)
		}
	}
	data := append(append([]byte{}, snap.Bytes()...), log.Bytes()...)
	dst := NewFileBitmap()
	for round := 1; round <= 3; round++ {
		if err := dst.UnmarshalBinary(data); err != nil {
			t.Fatal(err)
		}
		ops, opN := dst.Ops()
		if ops != 3 || opN != 3 {
			t.Errorf("decode %d of the same file: Ops() = (%d, %d), the file holds 3 ops changing 3 bits", round, ops, opN)
		}
	}
}
