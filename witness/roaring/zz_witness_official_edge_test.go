package roaring_test

import (
	"encoding/binary"
	"testing"

	"github.com/pilosa/pilosa/roaring"
)

type obuf struct{ b []byte }

func (o *obuf) u16(v uint16) { var t [2]byte; binary.LittleEndian.PutUint16(t[:], v); o.b = append(o.b, t[:]...) }
func (o *obuf) u32(v uint32) { var t [4]byte; binary.LittleEndian.PutUint32(t[:], v); o.b = append(o.b, t[:]...) }

// official format, no-run cookie, one container holding exactly 4096 values:
// the specification stores cardinality <= 4096 as an array container.
func TestWitness_C04_OfficialArrayOf4096(t *testing.T) {
	o := &obuf{}
	o.u32(12346) // SERIAL_COOKIE_NO_RUNCONTAINER
	o.u32(1)     // one container
	o.u16(0)     // key
	o.u16(4095)  // cardinality - 1
	o.u32(uint32(4 + 4 + 4 + 4))
	for i := 0; i < 4096; i++ {
		o.u16(uint16(i * 3)) // 0,3,6,...
	}
	bm := roaring.NewBitmap()
	if err := bm.UnmarshalBinary(o.b); err != nil {
		t.Fatal(err)
	}
	if n := bm.Count(); n != 4096 {
		t.Errorf("count = %d, want 4096", n)
	}
	for _, v := range []uint64{0, 3, 6, 12285} {
		if !bm.Contains(v) {
			t.Errorf("value %d missing", v)
		}
	}
	if bm.Contains(1) {
		t.Errorf("value 1 present")
	}
	tgt := roaring.NewBitmap()
	changed, _, err := tgt.ImportRoaringBits(o.b, false, false, 0)
	if err != nil {
		t.Fatal(err)
	}
	if changed != 4096 || !tgt.Contains(12285) || tgt.Contains(1) {
		t.Errorf("import: changed=%d contains(12285)=%v contains(1)=%v", changed, tgt.Contains(12285), tgt.Contains(1))
	}
}

// official format with the run cookie and 2^16 containers: the count is
// stored minus one in 16 bits.
func TestWitness_C04_Official65536Containers(t *testing.T) {
	const n = 1 << 16
	o := &obuf{}
	o.u32(12347 | uint32(n-1)<<16)
	o.b = append(o.b, make([]byte, n/8)...) // is-run bitset: none
	for k := 0; k < n; k++ {
		o.u16(uint16(k))
		o.u16(0) // one value
	}
	base := uint32(len(o.b) + 4*n)
	for k := 0; k < n; k++ {
		o.u32(base + uint32(2*k))
	}
	for k := 0; k < n; k++ {
		o.u16(7)
	}
	bm := roaring.NewBitmap()
	if err := bm.UnmarshalBinary(o.b); err != nil {
		t.Fatal(err)
	}
	if c := bm.Count(); c != n {
		t.Errorf("count = %d, want %d", c, n)
	}
	if !bm.Contains(uint64(n-1)<<16 | 7) {
		t.Errorf("last container's value missing")
	}
}
