package roaring_test

import (
	"encoding/binary"
	"reflect"
	"testing"

	"github.com/pilosa/pilosa/roaring"
)

// officialRunBitmapWithOffsets builds, by the rules of the Roaring format
// specification, a bitmap with the run cookie and FOUR containers. With the
// run cookie the offset header is present exactly when there are at least 4
// (NO_OFFSET_THRESHOLD) containers.
func officialRunBitmapWithOffsets() []byte {
	var b []byte
	u16 := func(v uint16) { var t [2]byte; binary.LittleEndian.PutUint16(t[:], v); b = append(b, t[:]...) }
	u32 := func(v uint32) { var t [4]byte; binary.LittleEndian.PutUint32(t[:], v); b = append(b, t[:]...) }
	u32(12347 | (4-1)<<16) // cookie, container count - 1
	b = append(b, 0x01)    // is-run bitset: container 0 is a run container
	// descriptive header: key, cardinality-1
	u16(0); u16(2)
	u16(1); u16(0)
	u16(2); u16(0)
	u16(3); u16(0)
	// offset header (present because count >= 4): from the start of the stream
	u32(37); u32(43); u32(45); u32(47)
	// container 0: one run, start 5 length-1 2 -> 5,6,7
	u16(1); u16(5); u16(2)
	// containers 1..3: arrays holding the value 1
	u16(1); u16(1); u16(1)
	return b
}

func TestWitness_C04_OfficialRunFormatWithOffsetHeader(t *testing.T) {
	data := officialRunBitmapWithOffsets()
	bm := roaring.NewBitmap()
	if err := bm.UnmarshalBinary(data); err != nil {
		t.Fatalf("valid official-format bytes rejected: %v", err)
	}
	want := []uint64{5, 6, 7, 65537, 131073, 196609}
	if got := bm.Slice(); !reflect.DeepEqual(got, want) {
		t.Fatalf("decoded %v, want %v", got, want)
	}
	// the import path uses the iterator
	tgt := roaring.NewBitmap()
	changed, _, err := tgt.ImportRoaringBits(data, false, false, 0)
	if err != nil {
		t.Fatalf("import: %v", err)
	}
	if got := tgt.Slice(); !reflect.DeepEqual(got, want) || changed != len(want) {
		t.Fatalf("imported %v (changed %d), want %v", got, changed, want)
	}
}
