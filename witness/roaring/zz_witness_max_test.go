package roaring_test

import (
	"testing"

	"github.com/pilosa/pilosa/roaring"
)

// Witness for C02 (reported by a seeding agent): Bitmap.Max takes the last
// container whatever it holds; after the bits of the highest container were
// removed it answers that container's key with low bits 0 -- a value that is
// not in the set.
func TestWitness_MaxAfterRemovingHighestContainer(t *testing.T) {
	for _, mk := range []struct {
		name string
		f    func(...uint64) *roaring.Bitmap
	}{{"slice", roaring.NewBitmap}, {"btree", roaring.NewFileBitmap}} {
		t.Run(mk.name, func(t *testing.T) {
			b := mk.f(5, 65535, 65545, 3*65536+7)
			check := func(step string, want uint64) {
				got := b.Max()
				sl := b.Slice()
				if len(sl) > 0 && sl[len(sl)-1] != want {
					t.Fatalf("test bug: %v", sl)
				}
				if got != want {
					t.Errorf("%s: Max() = %d, the largest value is %d (values %v)", step, got, want, sl)
				}
			}
			check("initial", 3*65536+7)
			if _, err := b.Remove(3*65536 + 7); err != nil {
				t.Fatal(err)
			}
			check("after removing the only value of the last container", 65545)
			if _, err := b.Remove(65545); err != nil {
				t.Fatal(err)
			}
			check("after removing the next one", 65535)
			if _, err := b.Remove(65535, 5); err != nil {
				t.Fatal(err)
			}
			if got := b.Max(); got != 0 {
				t.Errorf("empty bitmap: Max() = %d", got)
			}
		})
	}
}
