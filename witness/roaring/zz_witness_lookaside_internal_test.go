package roaring

import (
	"bytes"
	"testing"
)

// C02/C07 witnesses: the B-tree container lookaside is not initialised to an
// invalid key and is not refreshed by Update/UpdateEvery/PutContainerValues.

func TestWitness_C02_ImportIntoFreshBTreeBitmap(t *testing.T) {
	src := NewBitmap(1, 2, 3)
	var buf bytes.Buffer
	if _, err := src.WriteTo(&buf); err != nil {
		t.Fatal(err)
	}
	b := NewBTreeBitmap()
	if _, _, err := b.ImportRoaringBits(buf.Bytes(), false, false, 1<<4); err != nil {
		t.Fatal(err)
	}
	if b.Count() != 3 {
		t.Fatalf("count %d", b.Count())
	}
	if !b.Contains(1) {
		t.Errorf("Contains(1) = false after importing {1,2,3} into a fresh file-backed bitmap (Count says 3)")
	}
}

func TestWitness_C02_CloneOfBTreeBitmap(t *testing.T) {
	b := NewBTreeBitmap(1)
	if !b.Clone().Contains(1) {
		t.Errorf("NewBTreeBitmap(1).Clone().Contains(1) = false")
	}
}

func TestWitness_C02_ImportReplacesLookedUpContainer(t *testing.T) {
	b := NewBTreeBitmap(1)
	if !b.Contains(1) { // caches container 0 in the lookaside
		t.Fatal("setup")
	}
	b = b.Freeze() // frozen containers: an import must replace, not mutate
	if !b.Contains(1) {
		t.Fatal("setup2")
	}
	src := NewBitmap(7)
	var buf bytes.Buffer
	if _, err := src.WriteTo(&buf); err != nil {
		t.Fatal(err)
	}
	if _, _, err := b.ImportRoaringBits(buf.Bytes(), false, false, 1<<4); err != nil {
		t.Fatal(err)
	}
	if !b.Contains(7) {
		t.Errorf("Contains(7) = false right after importing it: Get answered from the stale lookaside (Slice=%v)", b.Slice())
	}
}

func TestWitness_C02_UnmarshalIntoUsedBTreeBitmap(t *testing.T) {
	src := NewBitmap(5)
	var buf bytes.Buffer
	if _, err := src.WriteTo(&buf); err != nil {
		t.Fatal(err)
	}
	b := NewBTreeBitmap()
	_ = b.Contains(5) // lookaside now says: key 0 absent
	if err := b.UnmarshalBinary(buf.Bytes()); err != nil {
		t.Fatal(err)
	}
	if !b.Contains(5) {
		t.Errorf("Contains(5) = false after UnmarshalBinary of {5}")
	}
}
