package roaring_test

import (
	"bytes"
	"runtime/debug"
	"fmt"
	"math/rand"
	"sort"
	"strings"
	"testing"

	"github.com/pilosa/pilosa/roaring"
)

// C06: malformed encodings are rejected with an error, never with a panic.
func TestWitness_C06_MalformedRoaring(t *testing.T) {
	rng := rand.New(rand.NewSource(9))
	var seeds [][]byte
	for i := 0; i < 12; i++ {
		m := genSet(rand.New(rand.NewSource(int64(100 + i))))
		b := build(t, m, rng)
		var buf bytes.Buffer
		if _, err := b.WriteTo(&buf); err != nil {
			t.Fatal(err)
		}
		seeds = append(seeds, buf.Bytes())
	}
	// official-format seeds
	seeds = append(seeds, officialRunBitmap(), officialRunBitmapWithOffsets())
	panics := map[string]int{}
	try := func(name string, data []byte, f func([]byte) error) {
		defer func() {
			if r := recover(); r != nil {
				msg := fmt.Sprint(r)
				if i := strings.Index(msg, "["); i > 0 {
					msg = msg[:i]
				}
				// innermost frame in package roaring
				where := ""
				for _, line := range strings.Split(string(debug.Stack()), "\n") {
					line = strings.TrimSpace(line)
					if strings.Contains(line, "/roaring/roaring.go:") || strings.Contains(line, "/roaring/container") {
						where = line[strings.LastIndex(line, "/")+1:]
						if i := strings.Index(where, " "); i > 0 {
							where = where[:i]
						}
						break
					}
				}
				panics[name+" at "+where+": "+msg]++
			}
		}()
		_ = f(data)
	}
	for round := 0; round < 60000; round++ {
		src := seeds[rng.Intn(len(seeds))]
		data := append([]byte{}, src...)
		switch rng.Intn(5) {
		case 0: // truncate
			data = data[:rng.Intn(len(data)+1)]
		case 1: // flip a header byte
			if len(data) > 0 {
				i := rng.Intn(min(len(data), 64))
				data[i] ^= byte(1 << uint(rng.Intn(8)))
			}
		case 2: // overwrite a header field with a large number
			if len(data) > 8 {
				i := rng.Intn(min(len(data)-4, 60))
				data[i], data[i+1], data[i+2], data[i+3] = 0xff, 0xff, byte(rng.Intn(256)), byte(rng.Intn(256))
			}
		case 3: // random byte anywhere
			if len(data) > 0 {
				data[rng.Intn(len(data))] = byte(rng.Intn(256))
			}
		case 4: // truncate then append garbage
			data = data[:rng.Intn(len(data)+1)]
			for k := 0; k < rng.Intn(20); k++ {
				data = append(data, byte(rng.Intn(256)))
			}
		}
		try("UnmarshalBinary", data, func(d []byte) error { return roaring.NewBitmap().UnmarshalBinary(d) })
		try("ImportRoaringBits", data, func(d []byte) error {
			_, _, err := roaring.NewBitmap().ImportRoaringBits(d, false, false, 0)
			return err
		})
		try("ImportRoaringBits/clear", data, func(d []byte) error {
			b := roaring.NewBitmap(1, 2, 3, 70000)
			_, _, err := b.ImportRoaringBits(d, true, false, 1<<4)
			return err
		})
	}
	if len(panics) > 0 {
		var ks []string
		for k, n := range panics {
			ks = append(ks, fmt.Sprintf("%5d x %s", n, k))
		}
		sort.Strings(ks)
		t.Errorf("decoders panicked on malformed input:\n%s", strings.Join(ks, "\n"))
	}
}

func min(a, b int) int {
	if a < b {
		return a
	}
	return b
}
