package roaring

import (
	"encoding/binary"
	"hash/fnv"
	"testing"
)

// Witness for C06: an op-log record of a roaring op whose length field is
// close to 2^64: 13+4+value wraps, the truncation check passes, and the slice
// of the payload panics.
func TestWitness_OpRoaringLengthWraps(t *testing.T) {
	for _, typ := range []opType{opTypeAddRoaring, opTypeRemoveRoaring} {
		for _, v := range []uint64{^uint64(0), ^uint64(0) - 16, ^uint64(0) - 17, 1 << 63, (1 << 63) - 17, 1 << 62} {
			data := make([]byte, 40)
			data[0] = byte(typ)
			binary.LittleEndian.PutUint64(data[1:9], v)
			h := fnv.New32a()
			_, _ = h.Write(data[0:9])
			binary.LittleEndian.PutUint32(data[9:13], h.Sum32())
			func() {
				defer func() {
					if r := recover(); r != nil {
						t.Errorf("type %d value %#x: panic: %v", typ, v, r)
					}
				}()
				var o op
				err := o.UnmarshalBinary(data)
				if err == nil {
					t.Errorf("type %d value %#x: accepted", typ, v)
				}
			}()
		}
	}
}
