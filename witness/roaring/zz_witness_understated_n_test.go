package roaring_test

import (
	"bytes"
	"encoding/binary"
	"testing"

	"github.com/pilosa/pilosa/roaring"
)

// A bitmap container whose header understates its cardinality (n=10 with 5000
// bits set) must be rejected, or accepted in a way that later operations
// survive: Optimize/WriteTo run from the background snapshot queue, where a
// panic ends the process.
func pilosaBitmapContainer(headerN int, bits int) []byte {
	var buf bytes.Buffer
	w := func(v interface{}) { binary.Write(&buf, binary.LittleEndian, v) }
	w(uint32(12348))         // cookie, version 0
	w(uint32(1))             // one container
	w(uint64(0))             // key
	w(uint16(2))             // type: bitmap
	w(uint16(headerN - 1))   // n-1
	w(uint32(8 + 12 + 4))    // offset
	words := make([]uint64, 1024)
	for i := 0; i < bits; i++ {
		words[(2*i)/64] |= 1 << uint((2*i)%64) // every other bit: no long runs
	}
	w(words)
	return buf.Bytes()
}

// The same for a run container: n=3 with one run of 1001 values, next to 3000
// more runs so that Optimize prefers an array.
func TestWitness_UnderstatedRunCardinality(t *testing.T) {
	var buf bytes.Buffer
	w := func(v interface{}) { binary.Write(&buf, binary.LittleEndian, v) }
	w(uint32(12348))
	w(uint32(1))
	w(uint64(0))
	w(uint16(3)) // type: run
	w(uint16(3 - 1))
	w(uint32(8 + 12 + 4))
	w(uint16(1))
	w(uint16(0))
	w(uint16(1000))
	defer func() {
		if r := recover(); r != nil {
			t.Errorf("panicked: %v", r)
		}
	}()
	b := roaring.NewFileBitmap()
	err := b.UnmarshalBinary(buf.Bytes())
	t.Logf("err=%v count=%d", err, b.Count())
	if err != nil {
		return
	}
	// a remove splits the run; the container is then converted
	b.DirectRemoveN(500)
	b.Optimize()
	for i := uint64(0); i < 1000; i += 2 {
		b.DirectRemoveN(i)
	}
	b.Optimize()
	var out bytes.Buffer
	_, _ = b.WriteTo(&out)
}

func TestWitness_UnderstatedBitmapCardinality(t *testing.T) {
	data := pilosaBitmapContainer(10, 5000)
	for _, mode := range []string{"unmarshal", "import"} {
		func() {
			defer func() {
				if r := recover(); r != nil {
					t.Errorf("%s: panicked: %v", mode, r)
				}
			}()
			b := roaring.NewFileBitmap()
			var err error
			if mode == "unmarshal" {
				err = b.UnmarshalBinary(data)
			} else {
				_, _, err = b.ImportRoaringBits(data, false, false, 1<<20)
			}
			t.Logf("%s: err=%v count=%d", mode, err, b.Count())
			if err != nil {
				return
			}
			b.Optimize()
			var out bytes.Buffer
			if _, err := b.WriteTo(&out); err != nil {
				t.Logf("%s: WriteTo: %v", mode, err)
			}
			if got := b.Count(); got != 5000 {
				t.Errorf("%s: count %d after accept, want 5000", mode, got)
			}
		}()
	}
}
