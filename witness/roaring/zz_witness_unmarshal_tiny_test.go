package roaring_test

import (
	"testing"

	"github.com/pilosa/pilosa/roaring"
)

func TestWitness_C06_UnmarshalTinyInput(t *testing.T) {
	for _, data := range [][]byte{{}, {0x3c}} {
		func() {
			defer func() {
				if r := recover(); r != nil {
					t.Errorf("UnmarshalBinary(%v) panicked: %v", data, r)
				}
			}()
			if err := roaring.NewBitmap().UnmarshalBinary(data); err == nil {
				t.Errorf("UnmarshalBinary(%v) accepted", data)
			}
		}()
	}
}
