package roaring_test

import (
	"bytes"
	"encoding/binary"
	"testing"

	"github.com/pilosa/pilosa/roaring"
)

func TestWitness_C06_ImportUnknownContainerType(t *testing.T) {
	var buf bytes.Buffer
	if _, err := roaring.NewBitmap(1, 2, 3).WriteTo(&buf); err != nil {
		t.Fatal(err)
	}
	data := buf.Bytes()
	// descriptive header of the first container starts at byte 8: key(8) type(2) n-1(2)
	binary.LittleEndian.PutUint16(data[16:18], 9) // a container type that does not exist
	defer func() {
		if r := recover(); r != nil {
			t.Fatalf("importing a payload with an unknown container type panicked: %v", r)
		}
	}()
	if _, _, err := roaring.NewBitmap().ImportRoaringBits(data, false, false, 0); err == nil {
		t.Errorf("payload with an unknown container type accepted")
	}
}
