package roaring_test

import (
	"bytes"
	"math/rand"
	"testing"

	"github.com/pilosa/pilosa/roaring"
)

// C05: replaying the op log on the snapshot reproduces the in-memory bitmap.
func TestWitness_C05_OpLogReplay(t *testing.T) {
	for seed := int64(1); seed <= 80; seed++ {
		rng := rand.New(rand.NewSource(seed))
		m := genSet(rng)
		b := build(t, m, rng)
		var file bytes.Buffer
		if _, err := b.WriteTo(&file); err != nil {
			t.Fatal(err)
		}
		b.OpWriter = &file
		pool := m.slice()
		val := func() uint64 {
			if len(pool) > 0 && rng.Intn(2) == 0 {
				return pool[rng.Intn(len(pool))]
			}
			return uint64(rng.Intn(17 << 16))
		}
		for k := 0; k < 60; k++ {
			switch rng.Intn(6) {
			case 0:
				v := val()
				if _, err := b.Add(v); err != nil {
					t.Fatal(err)
				}
				m[v] = true
			case 1:
				v := val()
				if _, err := b.Remove(v); err != nil {
					t.Fatal(err)
				}
				delete(m, v)
			case 2:
				var vs []uint64
				for j := 0; j < 1+rng.Intn(6); j++ {
					vs = append(vs, val())
				}
				in := append([]uint64{}, vs...)
				if _, err := b.AddN(in...); err != nil {
					t.Fatal(err)
				}
				for _, v := range vs {
					m[v] = true
				}
			case 3:
				var vs []uint64
				for j := 0; j < 1+rng.Intn(6); j++ {
					vs = append(vs, val())
				}
				in := append([]uint64{}, vs...)
				if _, err := b.RemoveN(in...); err != nil {
					t.Fatal(err)
				}
				for _, v := range vs {
					delete(m, v)
				}
			default:
				other := genSet(rng)
				ob := build(t, other, rng)
				var ob2 bytes.Buffer
				if _, err := ob.WriteTo(&ob2); err != nil {
					t.Fatal(err)
				}
				clear := rng.Intn(2) == 0
				if _, _, err := b.ImportRoaringBits(ob2.Bytes(), clear, true, 0); err != nil {
					t.Fatal(err)
				}
				for v := range other {
					if clear {
						delete(m, v)
					} else {
						m[v] = true
					}
				}
			}
		}
		if got := b.Slice(); !eq(got, m.slice()) {
			t.Fatalf("seed %d: live bitmap differs from the model: %s", seed, firstDiff(got, m.slice()))
		}
		r := roaring.NewBitmap()
		if err := r.UnmarshalBinary(file.Bytes()); err != nil {
			t.Fatalf("seed %d: replay: %v", seed, err)
		}
		if got := r.Slice(); !eq(got, m.slice()) {
			t.Fatalf("seed %d: replayed bitmap differs: %s", seed, firstDiff(got, m.slice()))
		}
		lo, ln := b.Ops()
		ro, rn := r.Ops()
		if lo != ro || ln != rn {
			t.Fatalf("seed %d: op counters live (%d,%d) vs replay (%d,%d)", seed, lo, ln, ro, rn)
		}
	}
}
