package roaring

import (
	"bytes"
	"testing"
)

func TestWitness_C02_ImportIntoSliceBitmapNewKey(t *testing.T) {
	src := NewBitmap(1, 70000)
	var buf bytes.Buffer
	if _, err := src.WriteTo(&buf); err != nil {
		t.Fatal(err)
	}
	defer func() {
		if r := recover(); r != nil {
			t.Fatalf("ImportRoaringBits into a slice-backed bitmap panicked: %v", r)
		}
	}()
	b := NewBitmap(5)
	if _, _, err := b.ImportRoaringBits(buf.Bytes(), false, false, 0); err != nil {
		t.Fatal(err)
	}
	if b.Count() != 3 {
		t.Fatalf("%v", b.Slice())
	}
}
