package roaring

import "testing"

func TestWitness_C01_RunCountRangeEdges(t *testing.T) {
	c := NewContainerRun([]interval16{{start: 5, last: 10}})
	for _, tc := range []struct{ s, e, want int32 }{{5, 8, 3}, {3, 8, 3}, {5, 11, 6}, {0, 5, 0}, {10, 11, 1}, {6, 9, 3}, {0, 100, 6}, {5, 5, 0}, {4, 11, 6}} {
		if got := c.countRange(tc.s, tc.e); got != tc.want {
			t.Errorf("run [5,10] countRange(%d,%d) = %d, want %d", tc.s, tc.e, got, tc.want)
		}
	}
	c2 := NewContainerRun([]interval16{{start: 3, last: 8}})
	if got := c2.countRange(5, 8); got != 3 {
		t.Errorf("run [3,8] countRange(5,8) = %d, want 3", got)
	}
}
