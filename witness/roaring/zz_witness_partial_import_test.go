package roaring_test

import (
	"bytes"
	"encoding/binary"
	"testing"

	"github.com/pilosa/pilosa/roaring"
)

// A rejected import must leave the bitmap unchanged: two containers, the first
// valid (array {1,2,3} at key 0), the second with a payload offset outside the
// data.
func TestWitness_RejectedImportChangesNothing(t *testing.T) {
	var buf bytes.Buffer
	w := func(v interface{}) { binary.Write(&buf, binary.LittleEndian, v) }
	w(uint32(12348))
	w(uint32(2))
	// descriptors
	w(uint64(0))
	w(uint16(1)) // array
	w(uint16(3 - 1))
	w(uint64(1))
	w(uint16(1)) // array
	w(uint16(5 - 1))
	// offsets
	w(uint32(8 + 24 + 8))
	w(uint32(1 << 30)) // outside
	w([]uint16{1, 2, 3})
	data := buf.Bytes()

	b := roaring.NewFileBitmap()
	b.DirectAdd(100)
	changed, _, err := b.ImportRoaringBits(data, false, false, 1<<20)
	if err == nil {
		t.Fatalf("malformed payload accepted")
	}
	t.Logf("rejected: changed=%d err=%v", changed, err)
	if got := b.Slice(); len(got) != 1 || got[0] != 100 {
		t.Fatalf("rejected import changed the bitmap: %v", got)
	}
}
