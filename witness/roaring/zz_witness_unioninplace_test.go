package roaring_test

import (
	"bytes"
	"math/rand"
	"testing"

	"github.com/pilosa/pilosa/roaring"
)

// Witness for C02/C03: Bitmap.UnionInPlace against a set model, with mixed
// container types (array, bitmap, run, full), mapped (decoded) operands,
// several operands sharing keys; operands must not change; counts must agree.
func wuipGen(rng *rand.Rand, keys int) (*roaring.Bitmap, map[uint64]bool) {
	b := roaring.NewBitmap()
	m := map[uint64]bool{}
	for k := 0; k < keys; k++ {
		if rng.Intn(3) == 0 {
			continue
		}
		base := uint64(k) << 16
		switch rng.Intn(5) {
		case 0: // small array
			for i := 0; i < 1+rng.Intn(6); i++ {
				v := base + uint64(rng.Intn(65536))
				b.DirectAdd(v)
				m[v] = true
			}
		case 1: // bitmap
			for i := 0; i < 5000+rng.Intn(2000); i++ {
				v := base + uint64(rng.Intn(65536))
				b.DirectAdd(v)
				m[v] = true
			}
		case 2: // run
			s := rng.Intn(60000)
			for i := s; i < s+1+rng.Intn(5000); i++ {
				v := base + uint64(i)
				b.DirectAdd(v)
				m[v] = true
			}
		case 3: // full
			for i := 0; i < 65536; i++ {
				v := base + uint64(i)
				b.DirectAdd(v)
				m[v] = true
			}
		case 4: // array near the limit
			for i := 0; i < 4000; i++ {
				v := base + uint64(rng.Intn(65536))
				b.DirectAdd(v)
				m[v] = true
			}
		}
	}
	if rng.Intn(2) == 0 {
		b.Optimize()
	}
	if rng.Intn(3) == 0 {
		// a decoded (mapped/frozen) copy
		var buf bytes.Buffer
		if _, err := b.WriteTo(&buf); err != nil {
			panic(err)
		}
		nb := roaring.NewBitmap()
		if err := nb.UnmarshalBinary(buf.Bytes()); err != nil {
			panic(err)
		}
		b = nb
	}
	return b, m
}

func wuipCheck(t *testing.T, what string, b *roaring.Bitmap, m map[uint64]bool) bool {
	t.Helper()
	if got, want := b.Count(), uint64(len(m)); got != want {
		t.Errorf("%s: Count()=%d, model %d (Slice has %d)", what, got, want, len(b.Slice()))
		for k := uint64(0); k < 8; k++ {
			n := uint64(0)
			for v := range m {
				if v>>16 == k {
					n++
				}
			}
			t.Logf("key %d: CountRange=%d model=%d", k, b.CountRange(k<<16, (k+1)<<16), n)
		}
		return false
	}
	sl := b.Slice()
	if len(sl) != len(m) {
		t.Errorf("%s: Slice has %d values, model %d", what, len(sl), len(m))
		return false
	}
	for _, v := range sl {
		if !m[v] {
			t.Errorf("%s: value %d not in model", what, v)
			return false
		}
	}
	for k := uint64(0); k < 8; k++ {
		n := uint64(0)
		for v := range m {
			if v>>16 == k {
				n++
			}
		}
		if got := b.CountRange(k<<16, (k+1)<<16); got != n {
			t.Errorf("%s: CountRange(key %d)=%d, model %d", what, k, got, n)
			return false
		}
	}
	return true
}

func TestWitness_UnionInPlace_Model(t *testing.T) {
	for seed := int64(0); seed < 1500; seed++ {
		rng := rand.New(rand.NewSource(seed))
		target, tm := wuipGen(rng, 4)
		n := 1 + rng.Intn(4)
		var others []*roaring.Bitmap
		var oms []map[uint64]bool
		for i := 0; i < n; i++ {
			o, om := wuipGen(rng, 4)
			others = append(others, o)
			oms = append(oms, om)
		}
		want := map[uint64]bool{}
		for v := range tm {
			want[v] = true
		}
		for _, om := range oms {
			for v := range om {
				want[v] = true
			}
		}
		target.UnionInPlace(others...)
		if !wuipCheck(t, "target", target, want) {
			t.Fatalf("seed %d", seed)
		}
		for i, o := range others {
			if !wuipCheck(t, "operand", o, oms[i]) {
				t.Fatalf("seed %d operand %d changed", seed, i)
			}
		}
		// mutate the target; operands must stay
		for k := uint64(0); k < 4; k++ {
			v := k<<16 + uint64(rng.Intn(65536))
			if _, err := target.Add(v); err != nil {
				t.Fatal(err)
			}
			want[v] = true
			v2 := k<<16 + uint64(rng.Intn(65536))
			if _, err := target.Remove(v2); err != nil {
				t.Fatal(err)
			}
			delete(want, v2)
		}
		if !wuipCheck(t, "target after mutation", target, want) {
			t.Fatalf("seed %d", seed)
		}
		for i, o := range others {
			if !wuipCheck(t, "operand after target mutation", o, oms[i]) {
				t.Fatalf("seed %d operand %d changed by a mutation of the target", seed, i)
			}
		}
		// a second union into the same target
		o2, om2 := wuipGen(rng, 4)
		for v := range om2 {
			want[v] = true
		}
		for v := range oms[0] {
			want[v] = true
		}
		target.UnionInPlace(o2, others[0])
		if !wuipCheck(t, "target after second union", target, want) {
			t.Fatalf("seed %d", seed)
		}
	}
}
