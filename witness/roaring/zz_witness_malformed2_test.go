package roaring_test

import (
	"encoding/binary"
	"fmt"
	"testing"

	"github.com/pilosa/pilosa/roaring"
)

// Witness for C06 (reported by a seeding agent as already present on the
// tree): two more ways for malformed input to panic a decoder.
func wm2NoPanic(t *testing.T, what string, fn func() error) {
	t.Helper()
	defer func() {
		if r := recover(); r != nil {
			t.Errorf("%s: panic: %v", what, r)
		}
	}()
	err := fn()
	t.Logf("%s: err=%v", what, err)
}

// Official format, no-run cookie, truncated inside the offset header: the
// iterator slices the offsets without comparing with len(data).
func TestWitness_OfficialNoRunTruncatedOffsets(t *testing.T) {
	const serialCookieNoRun = 12346
	for _, keys := range []int{1, 2, 3, 8} {
		// cookie, count, keys*(key,card-1), then only part of the offsets
		full := make([]byte, 8+4*keys+4*keys+2*keys)
		binary.LittleEndian.PutUint32(full[0:], serialCookieNoRun)
		binary.LittleEndian.PutUint32(full[4:], uint32(keys))
		for i := 0; i < keys; i++ {
			binary.LittleEndian.PutUint16(full[8+4*i:], uint16(i))
			binary.LittleEndian.PutUint16(full[8+4*i+2:], 0) // one value
			binary.LittleEndian.PutUint32(full[8+4*keys+4*i:], uint32(8+8*keys+2*i))
			binary.LittleEndian.PutUint16(full[8+8*keys+2*i:], uint16(7))
		}
		for cut := 8 + 4*keys + 1; cut < len(full); cut++ {
			// exact-capacity copy so that slicing past len panics
			data := make([]byte, cut)
			copy(data, full[:cut])
			what := fmt.Sprintf("keys=%d cut=%d/%d", keys, cut, len(full))
			wm2NoPanic(t, "ImportRoaringBits "+what, func() error {
				b := roaring.NewBitmap()
				_, _, err := b.ImportRoaringBits(data, false, false, 0)
				return err
			})
			wm2NoPanic(t, "UnmarshalBinary "+what, func() error {
				return roaring.NewBitmap().UnmarshalBinary(data)
			})
		}
	}
}
