package roaring

import "testing"

func TestWitness_C02_SliceLookasideAfterPut(t *testing.T) {
	b := NewBitmap(1).Freeze()
	b.DirectAdd(2)
	b.DirectAdd(3)
	for _, v := range []uint64{1, 2, 3} {
		if !b.Contains(v) {
			t.Errorf("lost %d: %v", v, b.Slice())
		}
	}
	c := NewBitmap(1).Freeze()
	c.DirectAddN(2)
	c.DirectAddN(3)
	if c.Count() != 3 {
		t.Errorf("DirectAddN: %v", c.Slice())
	}
}
