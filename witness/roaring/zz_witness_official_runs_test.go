package roaring_test

import (
	"bytes"
	"encoding/hex"
	"reflect"
	"testing"

	"github.com/pilosa/pilosa/roaring"
)

// official-format bitmap with one run container holding three runs
func officialRunBitmap() []byte {
	// cookie 12347 | (numContainers-1)<<16, run flag bitset, key/card, then runs (start,len-1)
	b, _ := hex.DecodeString("3b300000" + "01" + "0000" + "0800" + "0300" + "0100" + "0200" + "1400" + "0200" + "2800" + "0200")
	return b
}

func TestWitness_C04_DecodingLeavesInputUntouched(t *testing.T) {
	data := officialRunBitmap()
	orig := append([]byte{}, data...)
	a := roaring.NewBitmap()
	if err := a.UnmarshalBinary(data); err != nil {
		t.Fatal(err)
	}
	first := a.Slice()
	if !bytes.Equal(data, orig) {
		t.Errorf("decoding modified the caller's bytes:\n before %x\n after  %x", orig, data)
	}
	b := roaring.NewBitmap()
	if err := b.UnmarshalBinary(data); err != nil {
		t.Fatal(err)
	}
	if second := b.Slice(); !reflect.DeepEqual(first, second) {
		t.Errorf("decoding the same bytes twice gives different sets: %v vs %v", first, second)
	}
}
