package roaring_test

import (
	"math/rand"
	"reflect"
	"testing"

	"github.com/pilosa/pilosa/roaring"
)

// Witness for C15/C01 (reported by a seeding agent from reading the code):
// Bitmap.Shift discards the result of o.add(0) when it carries a bit into the
// next container: the bit is lost when that container was shifted out
// entirely, or when adding it converts an array at its size limit.
func TestWitness_BitmapShift_Model(t *testing.T) {
	check := func(name string, vals []uint64) {
		b := roaring.NewBitmap()
		want := []uint64{}
		seen := map[uint64]bool{}
		for _, v := range vals {
			if !seen[v] {
				seen[v] = true
				b.DirectAdd(v)
			}
		}
		for v := range seen {
			want = append(want, v+1)
		}
		sortU64(want)
		got, err := b.Shift(1)
		if err != nil {
			t.Fatal(err)
		}
		g := got.Slice()
		if len(g) == 0 && len(want) == 0 {
			return
		}
		if !reflect.DeepEqual(g, want) {
			if len(want) > 12 {
				t.Errorf("%s: Shift has %d values (Count %d), want %d; missing/extra example: %v", name, len(g), got.Count(), len(want), diffU64(g, want))
			} else {
				t.Errorf("%s: Shift = %v, want %v", name, g, want)
			}
		}
		if got.Count() != uint64(len(want)) {
			t.Errorf("%s: Count() = %d, want %d", name, got.Count(), len(want))
		}
	}
	check("carry into a container that is shifted out", []uint64{65535, 65536 + 65535})
	check("carry chain", []uint64{65535, 2*65536 - 1, 3*65536 - 1})
	check("carry into the following absent container", []uint64{65535, 3 * 65536})
	// an array container at its size limit receives the carried bit
	var vals []uint64
	for i := 0; i < 4096; i++ {
		vals = append(vals, 65536+uint64(2*i+1)) // odd values 1..8191 -> after shift even 2..8192, 4096 values
	}
	vals = append(vals, 65535)
	check("carry into an array container of 4096 values", vals)
	rng := rand.New(rand.NewSource(3))
	for trial := 0; trial < 300; trial++ {
		var vs []uint64
		for k := uint64(0); k < 4; k++ {
			switch rng.Intn(4) {
			case 0:
			case 1:
				vs = append(vs, k<<16+65535)
			case 2:
				vs = append(vs, k<<16+65535, k<<16, k<<16+uint64(rng.Intn(65536)))
			case 3:
				for i := 0; i < rng.Intn(20); i++ {
					vs = append(vs, k<<16+uint64(65530+rng.Intn(6)))
				}
			}
		}
		check("random", vs)
	}
}

func sortU64(a []uint64) {
	for i := 1; i < len(a); i++ {
		for j := i; j > 0 && a[j] < a[j-1]; j-- {
			a[j], a[j-1] = a[j-1], a[j]
		}
	}
}

func diffU64(got, want []uint64) []uint64 {
	m := map[uint64]int{}
	for _, v := range got {
		m[v]++
	}
	for _, v := range want {
		m[v]--
	}
	var out []uint64
	for v, n := range m {
		if n != 0 && len(out) < 5 {
			out = append(out, v)
		}
	}
	return out
}
