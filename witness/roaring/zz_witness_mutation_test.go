package roaring_test

import (
	"bytes"
	"fmt"
	"math/rand"
	"testing"

	"github.com/pilosa/pilosa/roaring"
)

// C02: reads agree with the sequentially applied mutations, for both container collections.
func TestWitness_C02_MutationSequences(t *testing.T) {
	for _, kind := range []string{"slice", "btree"} {
		for seed := int64(1); seed <= 60; seed++ {
			rng := rand.New(rand.NewSource(seed))
			var b *roaring.Bitmap
			if kind == "slice" {
				b = roaring.NewBitmap()
			} else {
				b = roaring.NewFileBitmap()
			}
			m := mset{}
			// values concentrated on a few containers
			keys := []uint64{0, 1, 7, 8, 500}
			val := func() uint64 {
				k := keys[rng.Intn(len(keys))]
				switch rng.Intn(4) {
				case 0:
					return k<<16 | uint64(rng.Intn(64))
				case 1:
					return k<<16 | uint64(65535-rng.Intn(64))
				default:
					return k<<16 | uint64(rng.Intn(65536))
				}
			}
			fail := func(step int, f string, a ...interface{}) {
				t.Fatalf("%s seed %d step %d: %s", kind, seed, step, fmt.Sprintf(f, a...))
			}
			for step := 0; step < 400; step++ {
				switch op := rng.Intn(14); op {
				case 0, 1:
					v := val()
					ch, err := b.Add(v)
					if err != nil {
						t.Fatal(err)
					}
					if ch == m[v] {
						fail(step, "Add(%d) changed=%v, present before=%v", v, ch, m[v])
					}
					m[v] = true
				case 2:
					v := val()
					ch, err := b.Remove(v)
					if err != nil {
						t.Fatal(err)
					}
					if ch != m[v] {
						fail(step, "Remove(%d) changed=%v, present before=%v", v, ch, m[v])
					}
					delete(m, v)
				case 3, 4:
					// a dense or run-like batch
					start := val()
					n := 1 + rng.Intn(6000)
					stride := uint64(1 + rng.Intn(2))
					var vs []uint64
					want := 0
					seen := map[uint64]bool{}
					for i := 0; i < n; i++ {
						v := start + uint64(i)*stride
						vs = append(vs, v)
						if !m[v] && !seen[v] {
							want++
						}
						seen[v] = true
					}
					var got int
					var err error
					if op == 3 {
						got, err = b.AddN(vs...)
					} else {
						got = b.DirectAddN(vs...)
					}
					if err != nil {
						t.Fatal(err)
					}
					if got != want {
						fail(step, "AddN/DirectAddN of %d values reported %d changed, want %d", len(vs), got, want)
					}
					for v := range seen {
						m[v] = true
					}
				case 5, 6:
					start := val()
					n := 1 + rng.Intn(3000)
					var vs []uint64
					want := 0
					seen := map[uint64]bool{}
					for i := 0; i < n; i++ {
						v := start + uint64(i)
						vs = append(vs, v)
						if m[v] && !seen[v] {
							want++
						}
						seen[v] = true
					}
					var got int
					var err error
					if op == 5 {
						got, err = b.RemoveN(vs...)
					} else {
						got = b.DirectRemoveN(vs...)
					}
					if err != nil {
						t.Fatal(err)
					}
					if got != want {
						fail(step, "RemoveN/DirectRemoveN reported %d changed, want %d", got, want)
					}
					for v := range seen {
						delete(m, v)
					}
				case 7:
					other := mset{}
					for i := 0; i < 1+rng.Intn(3); i++ {
						s := val()
						for j := 0; j < 1+rng.Intn(5000); j++ {
							other[s+uint64(j)] = true
						}
					}
					ob := build(t, other, rng)
					var buf bytes.Buffer
					if _, err := ob.WriteTo(&buf); err != nil {
						t.Fatal(err)
					}
					clear := rng.Intn(2) == 0
					want := 0
					for v := range other {
						if clear == m[v] {
							want++
						}
					}
					got, _, err := b.ImportRoaringBits(buf.Bytes(), clear, false, 0)
					if err != nil {
						t.Fatal(err)
					}
					if got != want {
						fail(step, "ImportRoaringBits(clear=%v) reported %d changed, want %d", clear, got, want)
					}
					for v := range other {
						if clear {
							delete(m, v)
						} else {
							m[v] = true
						}
					}
				case 8:
					b.Optimize()
				case 9:
					v := val()
					if b.Contains(v) != m[v] {
						fail(step, "Contains(%d)=%v", v, b.Contains(v))
					}
				case 10:
					if b.Count() != uint64(len(m)) {
						fail(step, "Count=%d want %d", b.Count(), len(m))
					}
				case 11:
					lo := val()
					hi := lo + uint64(rng.Intn(200000))
					want := uint64(0)
					for v := range m {
						if v >= lo && v < hi {
							want++
						}
					}
					if got := b.CountRange(lo, hi); got != want {
						var near []uint64
						for _, v := range m.slice() {
							if v>>16 == lo>>16 || v>>16 == (hi-1)>>16 {
								near = append(near, v)
							}
						}
						desc := fmt.Sprintf("%d values in the end containers", len(near))
						if len(near) > 0 {
							desc += fmt.Sprintf(" min %d max %d", near[0], near[len(near)-1])
						}
						c0 := b.Containers.Get(lo >> 16)
						extra := "no container"
						if c0 != nil {
							extra = fmt.Sprintf("container %s", c0.String())
						}
						fail(step, "CountRange(%d,%d)=%d want %d; %s; %s; Contains(lo)=%v slicerange=%d", lo, hi, got, want, desc, extra, b.Contains(lo), len(b.SliceRange(lo, hi)))
					}
				case 12:
					from := val()
					itr := b.Iterator()
					itr.Seek(from)
					var got []uint64
					for v, eof := itr.Next(); !eof && len(got) < 50; v, eof = itr.Next() {
						got = append(got, v)
					}
					all := m.slice()
					var want []uint64
					for _, v := range all {
						if v >= from && len(want) < 50 {
							want = append(want, v)
						}
					}
					if !eq(got, want) {
						fail(step, "iteration from %d: %s", from, firstDiff(got, want))
					}
				case 13:
					if got := b.Slice(); !eq(got, m.slice()) {
						fail(step, "Slice: %s", firstDiff(got, m.slice()))
					}
					if err := b.Check(); err != nil {
						fail(step, "Check: %v", err)
					}
				}
			}
			if got := b.Slice(); !eq(got, m.slice()) {
				t.Fatalf("%s seed %d end: %s", kind, seed, firstDiff(got, m.slice()))
			}
		}
	}
}
