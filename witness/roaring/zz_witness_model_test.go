package roaring_test

import (
	"bytes"
	"fmt"
	"math/rand"
	"sort"
	"testing"

	"github.com/pilosa/pilosa/roaring"
)

type mset map[uint64]bool

func (m mset) slice() []uint64 {
	out := make([]uint64, 0, len(m))
	for v := range m {
		out = append(out, v)
	}
	sort.Slice(out, func(i, j int) bool { return out[i] < out[j] })
	return out
}

func eq(a, b []uint64) bool {
	if len(a) != len(b) {
		return false
	}
	for i := range a {
		if a[i] != b[i] {
			return false
		}
	}
	return true
}

// random set with a mix of sparse values, dense stretches (bitmap containers) and long runs
func genSet(rng *rand.Rand) mset {
	m := mset{}
	keys := []uint64{0, 1, 2, 15, 16}
	for _, k := range keys {
		base := k << 16
		switch rng.Intn(6) {
		case 0: // empty
		case 1: // sparse array
			for i := 0; i < 1+rng.Intn(20); i++ {
				m[base+uint64(rng.Intn(65536))] = true
			}
		case 2: // dense: every other value over a stretch > 4096
			start := rng.Intn(30000)
			for i := 0; i < 5000+rng.Intn(3000); i++ {
				m[base+uint64(start+2*i)%65536+0] = true
			}
		case 3: // runs
			for r := 0; r < 1+rng.Intn(4); r++ {
				s := rng.Intn(60000)
				l := 1 + rng.Intn(5000)
				for v := s; v < s+l && v < 65536; v++ {
					m[base+uint64(v)] = true
				}
			}
		case 4: // full container
			for v := 0; v < 65536; v++ {
				m[base+uint64(v)] = true
			}
		case 5: // boundary values
			for _, v := range []uint64{0, 1, 63, 64, 65, 4095, 4096, 65534, 65535} {
				if rng.Intn(2) == 0 {
					m[base+v] = true
				}
			}
		}
	}
	return m
}

func build(t *testing.T, m mset, rng *rand.Rand) *roaring.Bitmap {
	b := roaring.NewBitmap()
	vals := m.slice()
	switch rng.Intn(3) {
	case 0:
		for _, v := range vals {
			if _, err := b.Add(v); err != nil {
				t.Fatal(err)
			}
		}
	case 1:
		if _, err := b.AddN(vals...); err != nil {
			t.Fatal(err)
		}
	default:
		rng.Shuffle(len(vals), func(i, j int) { vals[i], vals[j] = vals[j], vals[i] })
		for _, v := range vals {
			b.DirectAdd(v)
		}
	}
	if rng.Intn(2) == 0 {
		b.Optimize()
	}
	return b
}

func TestWitness_C01_SetAlgebraModel(t *testing.T) {
	for seed := int64(1); seed <= 60; seed++ {
		rng := rand.New(rand.NewSource(seed))
		ma, mb := genSet(rng), genSet(rng)
		a, b := build(t, ma, rng), build(t, mb, rng)
		check := func(name string, got *roaring.Bitmap, want mset) {
			if g := got.Slice(); !eq(g, want.slice()) {
				t.Fatalf("seed %d %s: got %d values, want %d (first diff around %v)", seed, name, len(g), len(want), firstDiff(g, want.slice()))
			}
			if got.Count() != uint64(len(want)) {
				t.Fatalf("seed %d %s: Count %d want %d", seed, name, got.Count(), len(want))
			}
		}
		check("a", a, ma)
		check("b", b, mb)
		u, i, d, x := mset{}, mset{}, mset{}, mset{}
		for v := range ma {
			u[v] = true
			if mb[v] {
				i[v] = true
			} else {
				d[v] = true
				x[v] = true
			}
		}
		for v := range mb {
			u[v] = true
			if !ma[v] {
				x[v] = true
			}
		}
		check("union", a.Union(b), u)
		check("intersect", a.Intersect(b), i)
		check("difference", a.Difference(b), d)
		check("xor", a.Xor(b), x)
		if n := a.IntersectionCount(b); n != uint64(len(i)) {
			t.Fatalf("seed %d IntersectionCount %d want %d", seed, n, len(i))
		}
		// sources untouched
		check("a after ops", a, ma)
		check("b after ops", b, mb)
		// shift
		sh := mset{}
		for v := range ma {
			sh[v+1] = true
		}
		if s, err := a.Shift(1); err != nil {
			t.Fatal(err)
		} else {
			check("shift", s, sh)
		}
		// CountRange / Contains / Max / Min on random ranges
		vals := ma.slice()
		for k := 0; k < 30; k++ {
			lo := uint64(rng.Intn(17 << 16))
			hi := lo + uint64(rng.Intn(3<<16))
			if rng.Intn(4) == 0 && len(vals) > 0 {
				lo = vals[rng.Intn(len(vals))]
				hi = lo + uint64(rng.Intn(70000))
			}
			want := uint64(0)
			for _, v := range vals {
				if v >= lo && v < hi {
					want++
				}
			}
			if got := a.CountRange(lo, hi); got != want {
				t.Fatalf("seed %d CountRange(%d,%d) = %d want %d", seed, lo, hi, got, want)
			}
			if got := a.SliceRange(lo, hi); uint64(len(got)) != want {
				t.Fatalf("seed %d SliceRange(%d,%d) len %d want %d", seed, lo, hi, len(got), want)
			}
			probe := lo
			if a.Contains(probe) != ma[probe] {
				t.Fatalf("seed %d Contains(%d) = %v", seed, probe, a.Contains(probe))
			}
		}
		if len(vals) > 0 {
			if a.Max() != vals[len(vals)-1] {
				t.Fatalf("seed %d Max %d want %d", seed, a.Max(), vals[len(vals)-1])
			}
			if mn, ok := a.Min(); !ok || mn != vals[0] {
				t.Fatalf("seed %d Min %d want %d", seed, mn, vals[0])
			}
		}
		// OffsetRange: container aligned
		{
			k := uint64(rng.Intn(3))
			start, end := k<<16, (k+2)<<16
			off := uint64(rng.Intn(4)) << 16
			want := mset{}
			for v := range ma {
				if v >= start && v < end {
					want[off+(v-start)] = true
				}
			}
			check("offsetrange", a.OffsetRange(off, start, end), want)
		}
		// round trip
		var buf bytes.Buffer
		if _, err := a.WriteTo(&buf); err != nil {
			t.Fatal(err)
		}
		rt := roaring.NewBitmap()
		if err := rt.UnmarshalBinary(buf.Bytes()); err != nil {
			t.Fatalf("seed %d unmarshal: %v", seed, err)
		}
		check("roundtrip", rt, ma)
		// import into b
		tgt := build(t, mb, rng)
		changed, _, err := tgt.ImportRoaringBits(buf.Bytes(), false, false, 0)
		if err != nil {
			t.Fatal(err)
		}
		check("import set", tgt, u)
		if changed != len(u)-len(mb) {
			t.Fatalf("seed %d import set changed %d want %d", seed, changed, len(u)-len(mb))
		}
		tgt2 := build(t, mb, rng)
		changed, _, err = tgt2.ImportRoaringBits(buf.Bytes(), true, false, 0)
		if err != nil {
			t.Fatal(err)
		}
		md := mset{}
		for v := range mb {
			if !ma[v] {
				md[v] = true
			}
		}
		check("import clear", tgt2, md)
		if changed != len(mb)-len(md) {
			t.Fatalf("seed %d import clear changed %d want %d", seed, changed, len(mb)-len(md))
		}
		// mutate a copy heavily, then compare, and the original must not move
		cl := a.Clone()
		mc := mset{}
		for v := range ma {
			mc[v] = true
		}
		fr := a.Freeze()
		for k := 0; k < 300; k++ {
			v := uint64(rng.Intn(17 << 16))
			if rng.Intn(3) == 0 && len(vals) > 0 {
				v = vals[rng.Intn(len(vals))]
			}
			if rng.Intn(2) == 0 {
				ch, _ := cl.Add(v)
				if ch == mc[v] {
					t.Fatalf("seed %d Add(%d) changed=%v but present=%v", seed, v, ch, mc[v])
				}
				mc[v] = true
			} else {
				ch, _ := cl.Remove(v)
				if ch != mc[v] {
					t.Fatalf("seed %d Remove(%d) changed=%v but present=%v", seed, v, ch, mc[v])
				}
				delete(mc, v)
			}
		}
		check("clone after mutation", cl, mc)
		check("original after clone mutated", a, ma)
		check("frozen copy", fr, ma)
		// mutate the original: the frozen copy must not move
		for k := 0; k < 100; k++ {
			v := uint64(rng.Intn(17 << 16))
			a.Add(v)
		}
		check("frozen copy after original mutated", fr, ma)
	}
}

func firstDiff(a, b []uint64) string {
	for i := 0; i < len(a) && i < len(b); i++ {
		if a[i] != b[i] {
			return fmt.Sprintf("index %d: got %d want %d", i, a[i], b[i])
		}
	}
	return fmt.Sprintf("length %d vs %d", len(a), len(b))
}
