package pilosa_test

import (
	"context"
	"fmt"
	"math/rand"
	"strings"
	"testing"

	"github.com/pilosa/pilosa"
	"github.com/pilosa/pilosa/test"
)

// C17: answers do not depend on how many nodes hold the data or which node coordinates.
func TestWitness_C17_PlacementIndependence(t *testing.T) {
	rng := rand.New(rand.NewSource(5))
	var ops []string
	cols := []uint64{0, 1, 2, pilosa.ShardWidth, pilosa.ShardWidth + 1, 2 * pilosa.ShardWidth, 3*pilosa.ShardWidth + 5, 4 * pilosa.ShardWidth, 5*pilosa.ShardWidth + 9, 6 * pilosa.ShardWidth, 7*pilosa.ShardWidth + 1}
	for i := 0; i < 150; i++ {
		col := cols[rng.Intn(len(cols))]
		switch rng.Intn(5) {
		case 0, 1:
			ops = append(ops, fmt.Sprintf("Set(%d, s=%d)", col, rng.Intn(5)))
		case 2:
			ops = append(ops, fmt.Sprintf("Set(%d, g=%d)", col, rng.Intn(3)))
		case 3:
			ops = append(ops, fmt.Sprintf("Set(%d, v=%d)", col, rng.Intn(200)-100))
		case 4:
			ops = append(ops, fmt.Sprintf("Set(%d, m=%d)", col, rng.Intn(3)))
		}
	}
	queries := []string{
		"Row(s=0)", "Row(s=3)", "Count(Row(s=1))", "Union(Row(s=0), Row(g=1))", "Intersect(Row(s=0), Row(g=1))", "Difference(Row(s=1), Row(g=2))", "Xor(Row(s=2), Row(g=0))",
		"Not(Row(s=0))", "Rows(field=s)", "Rows(field=g, limit=2)", "Rows(field=s, previous=1)", "Rows(field=s, column=1)",
		"GroupBy(Rows(field=s), Rows(field=g))", "GroupBy(Rows(field=s), Rows(field=g), limit=3)", "GroupBy(Rows(field=s), Rows(field=g), Rows(field=m))",
		"Sum(field=v)", "Min(field=v)", "Max(field=v)", "Sum(Row(s=1), field=v)", "Min(Row(g=1), field=v)", "Max(Row(g=0), field=v)",
		"Row(v > 10)", "Row(v < -10)", "Row(-20 < v < 20)", "Row(v != null)", "Row(m=1)", "Count(Row(m=2))",
		"TopN(s, ids=[0,1,2,3,4])", "TopN(g, Row(s=1), ids=[0,1,2])",
		"MinRow(field=s)", "MaxRow(field=s)",
	}
	answers := map[string][]string{}
	for _, cfg := range []struct {
		name  string
		nodes int
	}{{"1node", 1}, {"3nodes", 3}} {
		c := test.MustRunCluster(t, cfg.nodes)
		ctx := context.Background()
		api := c[0].API
		if _, err := api.CreateIndex(ctx, "i", pilosa.IndexOptions{TrackExistence: true}); err != nil {
			t.Fatal(err)
		}
		mk := func(name string, opts ...pilosa.FieldOption) {
			if _, err := api.CreateField(ctx, "i", name, opts...); err != nil {
				t.Fatal(err)
			}
		}
		mk("s", pilosa.OptFieldTypeSet(pilosa.CacheTypeRanked, 100))
		mk("g", pilosa.OptFieldTypeSet(pilosa.CacheTypeRanked, 100))
		mk("m", pilosa.OptFieldTypeMutex(pilosa.CacheTypeRanked, 100))
		mk("v", pilosa.OptFieldTypeInt(-1000, 1000))
		if _, err := api.Query(ctx, &pilosa.QueryRequest{Index: "i", Query: strings.Join(ops, " ")}); err != nil {
			t.Fatal(err)
		}
		for ni := 0; ni < cfg.nodes; ni++ {
			for _, q := range queries {
				res, err := c[ni].API.Query(ctx, &pilosa.QueryRequest{Index: "i", Query: q})
				key := fmt.Sprintf("%s", q)
				var a string
				if err != nil {
					a = "error: " + err.Error()
				} else {
					switch v := res.Results[0].(type) {
					case *pilosa.Row:
						a = fmt.Sprint(v.Columns())
					default:
						a = fmt.Sprintf("%v", v)
					}
				}
				answers[key] = append(answers[key], fmt.Sprintf("%s/coord%d: %s", cfg.name, ni, a))
			}
		}
		c.Close()
	}
	for _, q := range queries {
		as := answers[q]
		base := as[0][strings.Index(as[0], ": ")+2:]
		for _, a := range as[1:] {
			if a[strings.Index(a, ": ")+2:] != base {
				t.Errorf("%s:\n  %s\n  %s", q, as[0], a)
			}
		}
	}
}
