package pilosa_test

import (
	"bytes"
	"context"
	"testing"

	"github.com/pilosa/pilosa"
	"github.com/pilosa/pilosa/roaring"
	"github.com/pilosa/pilosa/test"
)

func TestWitness_C28_ImportRoaringSkipsExistence(t *testing.T) {
	c := test.MustRunCluster(t, 1)
	defer c.Close()
	hldr := test.Holder{Holder: c[0].Server.Holder()}
	index := hldr.MustCreateIndexIfNotExists("i", pilosa.IndexOptions{TrackExistence: true})
	if _, err := index.CreateField("f", pilosa.OptFieldTypeDefault()); err != nil {
		t.Fatal(err)
	}
	// column 5, row 1 through the roaring import path
	bm := roaring.NewBitmap(1*pilosa.ShardWidth + 5)
	var buf bytes.Buffer
	if _, err := bm.WriteTo(&buf); err != nil {
		t.Fatal(err)
	}
	if err := c[0].API.ImportRoaring(context.Background(), "i", "f", 0, false, &pilosa.ImportRoaringRequest{Views: map[string][]byte{"": buf.Bytes()}}); err != nil {
		t.Fatal(err)
	}
	// column 6, row 1 through Set
	if _, err := c[0].API.Query(context.Background(), &pilosa.QueryRequest{Index: "i", Query: `Set(6, f=1)`}); err != nil {
		t.Fatal(err)
	}
	resp, err := c[0].API.Query(context.Background(), &pilosa.QueryRequest{Index: "i", Query: `Not(Row(f=2))`})
	if err != nil {
		t.Fatal(err)
	}
	cols := resp.Results[0].(*pilosa.Row).Columns()
	if len(cols) != 2 {
		t.Errorf("Not(Row(f=2)) = %v, want [5 6]: the column written by the roaring import is not in the existence set", cols)
	}
}
