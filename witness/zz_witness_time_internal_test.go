package pilosa

import "testing"

func TestWitness_C18_HourViewParses(t *testing.T) {
	for _, v := range []string{"standard_2019050600", "standard_2019050612", "standard_2019050613", "standard_2019050623"} {
		tm, err := timeOfView(v, false)
		if err != nil {
			t.Errorf("timeOfView(%s): %v", v, err)
		} else if got := viewByTimeUnit("standard", tm, 'H'); got != v {
			t.Errorf("round trip %s -> %s", v, got)
		}
	}
}
