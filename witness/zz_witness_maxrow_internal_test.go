package pilosa

import (
	"testing"
	"time"
)

func TestWitness_C16_MaxRowFilterRowZeroHang(t *testing.T) {
	f := mustOpenFragment("i", "f", viewStandard, 0, "")
	defer f.Clean(t)
	f.mustSetBits(0, 1)
	f.mustSetBits(2, 1)
	done := make(chan [2]uint64, 1)
	go func() {
		id, n := f.maxRow(NewRow(5))
		done <- [2]uint64{id, n}
	}()
	select {
	case r := <-done:
		if r != [2]uint64{0, 0} {
			t.Fatalf("got %v", r)
		}
	case <-time.After(3 * time.Second):
		t.Fatalf("maxRow(filter) does not terminate when row 0 exists and nothing intersects")
	}
}
