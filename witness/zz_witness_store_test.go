package pilosa_test

import (
	"context"
	"testing"

	"github.com/pilosa/pilosa"
	"github.com/pilosa/pilosa/test"
)

func TestWitness_C17_StoreErrorDoesNotPanic(t *testing.T) {
	c := test.MustRunCluster(t, 1)
	defer c.Close()
	hldr := test.Holder{Holder: c[0].Server.Holder()}
	index := hldr.MustCreateIndexIfNotExists("i", pilosa.IndexOptions{})
	if _, err := index.CreateField("f", pilosa.OptFieldTypeDefault()); err != nil {
		t.Fatal(err)
	}
	if _, err := c[0].API.Query(context.Background(), &pilosa.QueryRequest{Index: "i", Query: `Set(3, f=10)`}); err != nil {
		t.Fatal(err)
	}
	defer func() {
		if r := recover(); r != nil {
			t.Fatalf("Store with a failing source row panicked instead of returning an error: %v", r)
		}
	}()
	// the source row names a field that does not exist: every shard errs
	if _, err := c[0].API.Query(context.Background(), &pilosa.QueryRequest{Index: "i", Query: `Store(Row(nosuchfield=1), f=20)`}); err == nil {
		t.Fatalf("expected an error")
	}
}
