package gossip

import (
	"testing"
	"time"

	"github.com/hashicorp/memberlist"
	"github.com/pilosa/pilosa"
	"github.com/pilosa/pilosa/encoding/proto"
	"github.com/pilosa/pilosa/logger"
)

// A member whose node meta does not decode (the meta is a serialized
// pilosa.Node supplied by the peer) must not end the process: listen runs in
// a goroutine with no recover.
func TestWitness_EventWithUndecodableMeta(t *testing.T) {
	g := newEventReceiver(logger.NopLogger, &pilosa.API{Serializer: proto.Serializer{}})
	g.NotifyJoin(&memberlist.Node{Name: "peer", Meta: []byte{0x0a, 0x7f, 0x01}}) // string field longer than the data
	time.Sleep(200 * time.Millisecond)
	t.Log("still running")
}
