package pilosa_test

import (
	"context"
	"reflect"
	"testing"

	"github.com/pilosa/pilosa"
	"github.com/pilosa/pilosa/test"
)

// Rows(f, from=, to=, limit=n) over a range that spans several time views
// returns the n smallest row IDs that have a bit in the range, whichever view
// holds them.
func TestWitness_C16_RowsLimitAcrossTimeViews(t *testing.T) {
	c := test.MustRunCluster(t, 1)
	defer c.Close()
	ctx := context.Background()
	api := c[0].API
	if _, err := api.CreateIndex(ctx, "i", pilosa.IndexOptions{}); err != nil {
		t.Fatal(err)
	}
	if _, err := api.CreateField(ctx, "i", "f", pilosa.OptFieldTypeTime(pilosa.TimeQuantum("YM"))); err != nil {
		t.Fatal(err)
	}
	q := "Set(1, f=5, 2018-12-10T00:00) Set(1, f=6, 2018-12-11T00:00) Set(1, f=1, 2019-01-10T00:00) Set(1, f=2, 2019-01-11T00:00)"
	if _, err := api.Query(ctx, &pilosa.QueryRequest{Index: "i", Query: q}); err != nil {
		t.Fatal(err)
	}
	rows := func(q string) []uint64 {
		res, err := api.Query(ctx, &pilosa.QueryRequest{Index: "i", Query: q})
		if err != nil {
			t.Fatalf("%s: %v", q, err)
		}
		return res.Results[0].(pilosa.RowIdentifiers).Rows
	}
	all := rows("Rows(f, from=2018-12-01T00:00, to=2019-02-01T00:00)")
	if !reflect.DeepEqual(all, []uint64{1, 2, 5, 6}) {
		t.Fatalf("without limit: %v", all)
	}
	got := rows("Rows(f, from=2018-12-01T00:00, to=2019-02-01T00:00, limit=2)")
	if !reflect.DeepEqual(got, []uint64{1, 2}) {
		t.Errorf("limit=2: got %v, want [1 2]", got)
	}
}
