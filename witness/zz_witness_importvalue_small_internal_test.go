package pilosa

import "testing"

// The small path of importValue passes importPositions a row set of rows
// 0..bitDepth, but the highest value bit lives in row bitDepth+1
// (bsiOffsetBit + bitDepth - 1), so that row's cached row is never dropped.
func TestWitness_C07_ImportValueSmallTopBitRow(t *testing.T) {
	f := mustOpenBSIFragment("i", "f", viewBSIGroupPrefix+"f", 0)
	defer f.Close()
	const bitDepth = 4
	if err := f.importValue([]uint64{1}, []int64{8}, bitDepth, false); err != nil { // 8 = 0b1000: top bit only
		t.Fatal(err)
	}
	top := uint64(bsiOffsetBit + bitDepth - 1)
	if got := f.row(top).Columns(); len(got) != 1 { // materialise the top-bit row
		t.Fatalf("setup: %v", got)
	}
	before := wChecksumW(f, 0)
	if err := f.importValue([]uint64{1}, []int64{1}, bitDepth, false); err != nil { // overwrite with 1
		t.Fatal(err)
	}
	if v, ok, err := f.value(1, bitDepth); err != nil || !ok || v != 1 {
		t.Fatalf("value=%d ok=%v err=%v", v, ok, err)
	}
	if got := f.row(top).Columns(); len(got) != 0 {
		t.Errorf("row %d still reports column %v after the value was overwritten with 1", top, got)
	}
	r, err := f.rangeOp(0, bitDepth, 8)
	_ = r
	_ = err
	_ = before
}

func wChecksumW(f *fragment, block int) []byte {
	for _, b := range f.Blocks() {
		if b.ID == block {
			return b.Checksum
		}
	}
	return nil
}
