package pilosa_test

import (
	"context"
	"reflect"
	"testing"

	"github.com/pilosa/pilosa"
	"github.com/pilosa/pilosa/test"
)

// C15 (known finding): Shift does not carry a bit across a shard boundary.
func TestWitness_C15_ShiftAcrossShardBoundary(t *testing.T) {
	c := test.MustRunCluster(t, 1)
	defer c.Close()
	ctx := context.Background()
	api := c[0].API
	if _, err := api.CreateIndex(ctx, "i", pilosa.IndexOptions{TrackExistence: true}); err != nil {
		t.Fatal(err)
	}
	if _, err := api.CreateField(ctx, "i", "a", pilosa.OptFieldTypeSet(pilosa.CacheTypeRanked, 100)); err != nil {
		t.Fatal(err)
	}
	last := uint64(pilosa.ShardWidth - 1)
	q := "Set(" + itoa(int64(last)) + ", a=1) Set(" + itoa(int64(last+1)) + ", a=1) Set(" + itoa(int64(last+2)) + ", a=2)"
	if _, err := api.Query(ctx, &pilosa.QueryRequest{Index: "i", Query: q}); err != nil {
		t.Fatal(err)
	}
	res, err := api.Query(ctx, &pilosa.QueryRequest{Index: "i", Query: "Shift(Row(a=1), n=1)"})
	if err != nil {
		t.Fatal(err)
	}
	if got, want := res.Results[0].(*pilosa.Row).Columns(), []uint64{last + 1, last + 2}; !reflect.DeepEqual(got, want) {
		t.Errorf("Shift(Row(a=1), n=1): got %v, want %v", got, want)
	}
	res, err = api.Query(ctx, &pilosa.QueryRequest{Index: "i", Query: "Intersect(Shift(Row(a=1), n=1), Row(a=1))"})
	if err != nil {
		t.Fatal(err)
	}
	if got, want := res.Results[0].(*pilosa.Row).Columns(), []uint64{last + 1}; !reflect.DeepEqual(got, want) {
		t.Errorf("Intersect(Shift(Row(a=1), n=1), Row(a=1)): got %v, want %v", got, want)
	}
}
