package pilosa_test

import (
	"context"
	"fmt"
	"testing"
	"time"

	"github.com/pilosa/pilosa"
	"github.com/pilosa/pilosa/test"
)

func TestWitness_C19_ClearRemovesFromEveryTimeRange(t *testing.T) {
	stamps := []string{"2017-12-31T23:00", "2018-01-01T00:00", "2018-05-12T07:00", "2018-05-12T08:00", "2018-05-13T07:00", "2018-06-01T00:00", "2019-05-12T07:00", "2021-02-03T04:00"}
	for _, q := range []string{"YMDH", "YMD", "YM", "Y", "MDH", "MD", "M", "DH", "D", "H"} {
		for mask := 1; mask < 1<<uint(len(stamps)); mask += 37 { // a spread of subsets
			t.Run(fmt.Sprintf("%s/%d", q, mask), func(t *testing.T) {
				c := test.MustRunCluster(t, 1)
				defer c.Close()
				hldr := test.Holder{Holder: c[0].Server.Holder()}
				idx, err := hldr.CreateIndex("i", pilosa.IndexOptions{})
				if err != nil {
					t.Fatal(err)
				}
				if _, err := idx.CreateField("f", pilosa.OptFieldTypeTime(pilosa.TimeQuantum(q))); err != nil {
					t.Fatal(err)
				}
				ctx := context.Background()
				pql := ""
				var used []string
				for i, s := range stamps {
					if mask&(1<<uint(i)) != 0 {
						pql += fmt.Sprintf("Set(7, f=1, %s) ", s)
						used = append(used, s)
					}
				}
				// another column, set everywhere, must survive
				for _, s := range stamps {
					pql += fmt.Sprintf("Set(9, f=1, %s) ", s)
				}
				if _, err := c[0].API.Query(ctx, &pilosa.QueryRequest{Index: "i", Query: pql}); err != nil {
					t.Fatal(err)
				}
				if _, err := c[0].API.Query(ctx, &pilosa.QueryRequest{Index: "i", Query: "Clear(7, f=1)"}); err != nil {
					t.Fatal(err)
				}
				check := func(query string) {
					res, err := c[0].API.Query(ctx, &pilosa.QueryRequest{Index: "i", Query: query})
					if err != nil {
						t.Fatalf("%s: %v", query, err)
					}
					for _, col := range res.Results[0].(*pilosa.Row).Columns() {
						if col == 7 {
							t.Errorf("set with %v, cleared: %s still returns column 7", used, query)
						}
					}
				}
				check("Row(f=1)")
				for _, s := range stamps {
					ts, _ := time.Parse("2006-01-02T15:04", s)
					for _, d := range []time.Duration{time.Hour, 24 * time.Hour, 31 * 24 * time.Hour, 366 * 24 * time.Hour} {
						from := ts.Add(-d / 2).Format("2006-01-02T15:04")
						to := ts.Add(d/2 + time.Hour).Format("2006-01-02T15:04")
						check(fmt.Sprintf("Row(f=1, from=%s, to=%s)", from, to))
					}
				}
				check("Row(f=1, from=2000-01-01T00:00, to=2030-01-01T00:00)")
			})
		}
	}
}
