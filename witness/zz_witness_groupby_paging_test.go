package pilosa_test

import (
	"context"
	"fmt"
	"strings"
	"testing"

	"github.com/pilosa/pilosa"
	"github.com/pilosa/pilosa/test"
)

// Witness for C16/C17 (reported by a seeding agent from reading the code):
//  (a) GroupBy's limit is applied while merging, before offset: pages taken
//      with offset+limit do not concatenate to the unpaged result;
//  (b) a child Rows(.., limit=N) is evaluated by each node over its own shards
//      on a remote leg, so the row set that is grouped depends on placement.
func TestWitness_C16_GroupByOffsetLimit(t *testing.T) {
	c := test.MustRunCluster(t, 1)
	defer c.Close()
	ctx := context.Background()
	if _, err := c[0].API.CreateIndex(ctx, "i", pilosa.IndexOptions{}); err != nil {
		t.Fatal(err)
	}
	if _, err := c[0].API.CreateField(ctx, "i", "s", pilosa.OptFieldTypeSet(pilosa.CacheTypeRanked, 100)); err != nil {
		t.Fatal(err)
	}
	var q []string
	for row := 0; row < 5; row++ {
		for shard := 0; shard < 2; shard++ {
			q = append(q, fmt.Sprintf("Set(%d, s=%d)", uint64(shard)*pilosa.ShardWidth+uint64(row), row))
		}
	}
	if _, err := c[0].API.Query(ctx, &pilosa.QueryRequest{Index: "i", Query: strings.Join(q, " ")}); err != nil {
		t.Fatal(err)
	}
	ask := func(q string) []pilosa.GroupCount {
		resp, err := c[0].API.Query(ctx, &pilosa.QueryRequest{Index: "i", Query: q})
		if err != nil {
			t.Fatalf("%s: %v", q, err)
		}
		return resp.Results[0].([]pilosa.GroupCount)
	}
	all := ask("GroupBy(Rows(field=s))")
	if len(all) != 5 {
		t.Fatalf("unpaged: %v", all)
	}
	var paged []pilosa.GroupCount
	for off := 0; off < 7; off += 2 {
		paged = append(paged, ask(fmt.Sprintf("GroupBy(Rows(field=s), limit=2, offset=%d)", off))...)
	}
	if fmt.Sprint(paged) != fmt.Sprint(all) {
		t.Errorf("pages of 2 by offset concatenate to\n  %v\nthe unpaged result is\n  %v", paged, all)
	}
}

func TestWitness_C17_GroupByChildLimitPlacement(t *testing.T) {
	answers := map[string][]string{}
	queries := []string{"GroupBy(Rows(field=s, limit=2))", "GroupBy(Rows(field=s, limit=2), Rows(field=g))", "GroupBy(Rows(field=s), Rows(field=g, limit=1))"}
	for _, nodes := range []int{1, 3} {
		c := test.MustRunCluster(t, nodes)
		ctx := context.Background()
		if _, err := c[0].API.CreateIndex(ctx, "i", pilosa.IndexOptions{}); err != nil {
			t.Fatal(err)
		}
		for _, f := range []string{"s", "g"} {
			if _, err := c[0].API.CreateField(ctx, "i", f, pilosa.OptFieldTypeSet(pilosa.CacheTypeRanked, 100)); err != nil {
				t.Fatal(err)
			}
		}
		var q []string
		// rows of s (and g) grow with the shard number: a later shard lacks the first rows
		for shard := 0; shard < 8; shard++ {
			col := uint64(shard)*pilosa.ShardWidth + 1
			q = append(q, fmt.Sprintf("Set(%d, s=%d) Set(%d, g=%d)", col, shard, col, shard/2))
		}
		if _, err := c[0].API.Query(ctx, &pilosa.QueryRequest{Index: "i", Query: strings.Join(q, " ")}); err != nil {
			t.Fatal(err)
		}
		for ni := 0; ni < nodes; ni++ {
			for _, qq := range queries {
				resp, err := c[ni].API.Query(ctx, &pilosa.QueryRequest{Index: "i", Query: qq})
				a := ""
				if err != nil {
					a = "error: " + err.Error()
				} else {
					a = fmt.Sprint(resp.Results[0])
				}
				answers[qq] = append(answers[qq], fmt.Sprintf("%dnode/coord%d: %s", nodes, ni, a))
			}
		}
		c.Close()
	}
	for _, qq := range queries {
		as := answers[qq]
		base := as[0][strings.Index(as[0], ": ")+2:]
		for _, a := range as[1:] {
			if a[strings.Index(a, ": ")+2:] != base {
				t.Errorf("%s:\n  %s\n  %s", qq, as[0], a)
			}
		}
	}
}
