package pilosa_test

import (
	"bytes"
	"context"
	"testing"
	"time"

	"github.com/pilosa/pilosa"
	"github.com/pilosa/pilosa/test"
)

// A ResizeInstruction cluster message that carries no NodeStatus sub-message
// (three bytes on the wire) must be rejected or followed with an error; it must
// not crash the process. followResizeInstruction runs in a goroutine with no
// recover, so a nil dereference there ends the test binary.
func TestWitness_ResizeInstructionWithoutNodeStatus(t *testing.T) {
	c := test.MustRunCluster(t, 1)
	defer c.Close()
	m0 := c[0]
	// type byte 8 = ResizeInstruction; protobuf field 1 (JobID) varint 7
	buf := []byte{0x08, 0x08, 0x07}
	err := m0.API.ClusterMessage(context.Background(), bytes.NewReader(buf))
	t.Logf("ClusterMessage: %v", err)
	time.Sleep(500 * time.Millisecond)
	if _, err := m0.API.CreateIndex(context.Background(), "after", pilosa.IndexOptions{}); err != nil {
		t.Fatalf("node does not serve after the message: %v", err)
	}
}
