package boltdb_test

import (
	"bytes"
	"fmt"
	"io/ioutil"
	"math/rand"
	"os"
	"reflect"
	"sort"
	"testing"

	"github.com/pilosa/pilosa"
	"github.com/pilosa/pilosa/boltdb"
)

func TestWitness_C25_AttrStoreModel(t *testing.T) {
	for seed := int64(1); seed <= 6; seed++ {
		t.Run(fmt.Sprint("seed", seed), func(t *testing.T) {
			rng := rand.New(rand.NewSource(seed))
			open := func() (pilosa.AttrStore, string) {
				f, err := ioutil.TempFile("", "attr-")
				if err != nil {
					t.Fatal(err)
				}
				f.Close()
				s := boltdb.NewAttrStore(f.Name())
				if err := s.Open(); err != nil {
					t.Fatal(err)
				}
				return s, f.Name()
			}
			a, pa := open()
			b, pb := open()
			defer os.Remove(pa)
			defer os.Remove(pb)
			defer func() { a.Close(); b.Close() }()
			model := map[uint64]map[string]interface{}{}
			ids := []uint64{0, 1, 2, 99, 100, 101, 199, 200, 250, 1000}
			keys := []string{"a", "b", "c"}
			val := func() interface{} {
				switch rng.Intn(6) {
				case 0:
					return nil
				case 1:
					return int64(rng.Intn(100) - 50)
				case 2:
					return fmt.Sprintf("s%d", rng.Intn(5))
				case 3:
					return rng.Intn(2) == 0
				case 4:
					return float64(rng.Intn(10)) + 0.5
				default:
					return float64(rng.Intn(10)) // integral float
				}
			}
			apply := func(id uint64, m map[string]interface{}) {
				if model[id] == nil {
					model[id] = map[string]interface{}{}
				}
				for k, v := range m {
					if v == nil {
						delete(model[id], k)
					} else {
						model[id][k] = v
					}
				}
			}
			var log []func(pilosa.AttrStore) error
			check := func(stage string, s pilosa.AttrStore) {
				for _, id := range append(ids, 5, 150) {
					got, err := s.Attrs(id)
					if err != nil {
						t.Fatal(err)
					}
					want := model[id]
					if len(got)+len(want) == 0 {
						continue
					}
					if !reflect.DeepEqual(got, want) {
						t.Fatalf("%s: Attrs(%d) = %#v, want %#v", stage, id, got, want)
					}
					// mutate the returned map: must not show through
					for k := range got {
						got[k] = "clobbered"
					}
					got["zz"] = 1
				}
				// block data lists exactly the ids of the block
				blocks, err := s.Blocks()
				if err != nil {
					t.Fatal(err)
				}
				seenIDs := map[uint64]bool{}
				for _, blk := range blocks {
					data, err := s.BlockData(blk.ID)
					if err != nil {
						t.Fatal(err)
					}
					for id, m := range data {
						if id/100 != blk.ID {
							t.Fatalf("%s: block %d lists id %d", stage, blk.ID, id)
						}
						if !reflect.DeepEqual(m, model[id]) && len(m)+len(model[id]) > 0 {
							t.Fatalf("%s: BlockData(%d)[%d] = %#v, want %#v", stage, blk.ID, id, m, model[id])
						}
						seenIDs[id] = true
					}
				}
				for id, m := range model {
					if len(m) > 0 && !seenIDs[id] {
						t.Fatalf("%s: id %d (attrs %v) is in no block", stage, id, m)
					}
				}
			}
			for step := 0; step < 120; step++ {
				if rng.Intn(3) == 0 {
					bulk := map[uint64]map[string]interface{}{}
					for k := 0; k < 1+rng.Intn(3); k++ {
						id := ids[rng.Intn(len(ids))]
						m := map[string]interface{}{}
						for j := 0; j < 1+rng.Intn(2); j++ {
							m[keys[rng.Intn(len(keys))]] = val()
						}
						bulk[id] = m
					}
					cp := map[uint64]map[string]interface{}{}
					for id, m := range bulk {
						cp[id] = map[string]interface{}{}
						for k, v := range m {
							cp[id][k] = v
						}
						apply(id, m)
					}
					log = append(log, func(s pilosa.AttrStore) error {
						c2 := map[uint64]map[string]interface{}{}
						for id, m := range cp {
							c2[id] = map[string]interface{}{}
							for k, v := range m {
								c2[id][k] = v
							}
						}
						return s.SetBulkAttrs(c2)
					})
				} else {
					id := ids[rng.Intn(len(ids))]
					m := map[string]interface{}{}
					for j := 0; j < 1+rng.Intn(2); j++ {
						m[keys[rng.Intn(len(keys))]] = val()
					}
					cp := map[string]interface{}{}
					for k, v := range m {
						cp[k] = v
					}
					apply(id, m)
					log = append(log, func(s pilosa.AttrStore) error {
						c2 := map[string]interface{}{}
						for k, v := range cp {
							c2[k] = v
						}
						return s.SetAttrs(id, c2)
					})
				}
				if err := log[len(log)-1](a); err != nil {
					t.Fatal(err)
				}
				check(fmt.Sprintf("step %d", step), a)
				if step%30 == 29 {
					if err := a.Close(); err != nil {
						t.Fatal(err)
					}
					if err := a.Open(); err != nil {
						t.Fatal(err)
					}
					check(fmt.Sprintf("step %d after reopen", step), a)
				}
			}
			// store b receives the same final content by a different route: only final values
			for id, m := range model {
				if len(m) == 0 {
					continue
				}
				c2 := map[string]interface{}{}
				for k, v := range m {
					c2[k] = v
				}
				if err := b.SetAttrs(id, c2); err != nil {
					t.Fatal(err)
				}
			}
			ba, _ := a.Blocks()
			bb, _ := b.Blocks()
			sort.Slice(ba, func(i, j int) bool { return ba[i].ID < ba[j].ID })
			sort.Slice(bb, func(i, j int) bool { return bb[i].ID < bb[j].ID })
			if len(ba) != len(bb) {
				t.Fatalf("same content, different block lists: %v vs %v", ba, bb)
			}
			for i := range ba {
				if ba[i].ID != bb[i].ID || !bytes.Equal(ba[i].Checksum, bb[i].Checksum) {
					t.Fatalf("same content, block %d differs: %x vs %x", ba[i].ID, ba[i].Checksum, bb[i].Checksum)
				}
			}
			// change one value in b: exactly that block's checksum changes
			if err := b.SetAttrs(101, map[string]interface{}{"q": int64(1)}); err != nil {
				t.Fatal(err)
			}
			bb2, _ := b.Blocks()
			changed := 0
			m1 := map[uint64][]byte{}
			for _, x := range bb {
				m1[x.ID] = x.Checksum
			}
			for _, x := range bb2 {
				if !bytes.Equal(m1[x.ID], x.Checksum) {
					changed++
					if x.ID != 1 {
						t.Fatalf("changing id 101 changed the checksum of block %d", x.ID)
					}
				}
			}
			if changed != 1 {
				t.Fatalf("changing id 101 changed %d block checksums", changed)
			}
		})
	}
}
