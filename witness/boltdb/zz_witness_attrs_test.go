package boltdb_test

import (
	"io/ioutil"
	"os"
	"testing"

	"github.com/pilosa/pilosa/boltdb"
)

func TestWitness_C25_ReturnedMapsAreIsolated(t *testing.T) {
	f, _ := ioutil.TempFile("", "pilosa-attr-")
	f.Close()
	defer os.Remove(f.Name())
	s := boltdb.NewAttrStore(f.Name())
	if err := s.Open(); err != nil {
		t.Fatal(err)
	}
	defer s.Close()
	m, err := s.Attrs(99) // absent id
	if err != nil {
		t.Fatal(err)
	}
	m["k"] = "v" // a caller scribbles on what it was handed
	if other, _ := s.Attrs(100); len(other) != 0 {
		t.Errorf("attrs of absent id 100 = %v after a caller modified the map returned for id 99", other)
	}
	if err := s.SetAttrs(7, map[string]interface{}{"a": int64(1)}); err != nil {
		t.Fatal(err)
	}
	s2 := boltdb.NewAttrStore(f.Name() + ".2")
	_ = s2
	m7, _ := s.Attrs(7)
	m7["a"] = int64(2)
	if again, _ := s.Attrs(7); again["a"] != int64(1) {
		t.Errorf("stored attrs changed through a returned map: %v", again)
	}
}
