package pilosa_test

import (
	"context"
	"fmt"
	"sync"
	"testing"

	"github.com/pilosa/pilosa"
	"github.com/pilosa/pilosa/test"
)

// Witness for C29 (reported by a seeding agent from reading the code): the
// bit depth of an int field is grown check-then-act. Two concurrent first
// writes that both see the old depth each assign their own requirement under
// the lock; if the smaller one is assigned last the depth shrinks, and the
// larger value is written (and read) with too few planes.
func TestWitness_C29_ConcurrentBitDepthGrowth(t *testing.T) {
	c := test.MustRunCluster(t, 1)
	defer c.Close()
	ctx := context.Background()
	if _, err := c[0].API.CreateIndex(ctx, "i", pilosa.IndexOptions{}); err != nil {
		t.Fatal(err)
	}
	bad := 0
	for trial := 0; trial < 300 && bad == 0; trial++ {
		name := fmt.Sprintf("v%d", trial)
		if _, err := c[0].API.CreateField(ctx, "i", name, pilosa.OptFieldTypeInt(-1<<40, 1<<40)); err != nil {
			t.Fatal(err)
		}
		vals := []int64{1 << 30, 5, 1 << 20, 3}
		var wg sync.WaitGroup
		start := make(chan struct{})
		for k, v := range vals {
			wg.Add(1)
			go func(k int, v int64) {
				defer wg.Done()
				<-start
				if _, err := c[0].API.Query(ctx, &pilosa.QueryRequest{Index: "i", Query: fmt.Sprintf("Set(%d, %s=%d)", k+1, name, v)}); err != nil {
					t.Errorf("set: %v", err)
				}
			}(k, v)
		}
		close(start)
		wg.Wait()
		f, _ := c[0].API.Field(ctx, "i", name)
		for k, v := range vals {
			resp, err := c[0].API.Query(ctx, &pilosa.QueryRequest{Index: "i", Query: fmt.Sprintf("Row(%s == %d)", name, v)})
			if err != nil {
				t.Fatal(err)
			}
			cols := resp.Results[0].(*pilosa.Row).Columns()
			if len(cols) != 1 || cols[0] != uint64(k+1) {
				t.Errorf("trial %d: after concurrent Set of %v the field (bit depth %d) answers Row(%s == %d) = %v, want [%d]", trial, vals, f.Options().BitDepth, name, v, cols, k+1)
				bad++
			}
		}
	}
}
