package pilosa

import "testing"

func TestWitness_C17_ValCountTieSumsCounts(t *testing.T) {
	a, b := ValCount{Val: 3, Count: 2}, ValCount{Val: 3, Count: 5}
	if got := a.smaller(b); got != (ValCount{Val: 3, Count: 7}) {
		t.Errorf("smaller tie: %+v", got)
	}
	if x, y := a.smaller(b), b.smaller(a); x != y {
		t.Errorf("smaller depends on arrival order: %+v vs %+v", x, y)
	}
	if x, y := a.larger(b), b.larger(a); x != y || x.Count != 7 {
		t.Errorf("larger depends on arrival order: %+v vs %+v", x, y)
	}
}
