package pilosa

import (
	"fmt"
	"math/rand"
	"reflect"
	"sort"
	"testing"
)

func TestWitness_C11_MergeBlockMajority(t *testing.T) {
	type bit struct{ r, c uint64 }
	for _, shard := range []uint64{0, 3} {
		for seed := int64(1); seed <= 40; seed++ {
			t.Run(fmt.Sprintf("shard%d/seed%d", shard, seed), func(t *testing.T) {
				rng := rand.New(rand.NewSource(seed))
				f := mustOpenFragment("i", "f", viewStandard, shard, "")
				defer f.Clean(t)
				nRemote := 1 + rng.Intn(4)
				blockID := rng.Intn(2)
				// candidate positions: rows of block 0, 1 and 2; a few columns
				var cands []bit
				for _, r := range []uint64{0, 1, 99, 100, 101, 199, 200} {
					for _, c := range []uint64{0, 1, 65536, ShardWidth - 1} {
						cands = append(cands, bit{r, c})
					}
				}
				contents := make([]map[bit]bool, nRemote+1)
				for i := range contents {
					contents[i] = map[bit]bool{}
					for _, b := range cands {
						if rng.Intn(3) == 0 {
							contents[i][b] = true
						}
					}
				}
				for b := range contents[0] {
					if _, err := f.setBit(b.r, shard*ShardWidth+b.c); err != nil {
						t.Fatal(err)
					}
				}
				inBlock := func(b bit) bool { return int(b.r/HashBlockSize) == blockID }
				var data []pairSet
				for i := 1; i <= nRemote; i++ {
					var bs []bit
					for b := range contents[i] {
						if inBlock(b) {
							bs = append(bs, b)
						}
					}
					sort.Slice(bs, func(x, y int) bool {
						if bs[x].r != bs[y].r {
							return bs[x].r < bs[y].r
						}
						return bs[x].c < bs[y].c
					})
					var ps pairSet
					for _, b := range bs {
						ps.rowIDs = append(ps.rowIDs, b.r)
						ps.columnIDs = append(ps.columnIDs, b.c)
					}
					data = append(data, ps)
				}
				sets, clears, err := f.mergeBlock(blockID, data)
				if err != nil {
					t.Fatal(err)
				}
				// majority per candidate in the block (ties -> set)
				want := map[bit]bool{}
				for _, b := range cands {
					if !inBlock(b) {
						continue
					}
					n := 0
					for i := range contents {
						if contents[i][b] {
							n++
						}
					}
					if 2*n >= nRemote+1 {
						want[b] = true
					}
				}
				// local
				for _, b := range cands {
					got := f.row(b.r).Columns()
					has := false
					for _, c := range got {
						if c == shard*ShardWidth+b.c {
							has = true
						}
					}
					exp := contents[0][b]
					if inBlock(b) {
						exp = want[b]
					}
					if has != exp {
						t.Fatalf("local bit (%d,%d): has=%v want=%v (block %d, remotes %d)", b.r, b.c, has, exp, blockID, nRemote)
					}
				}
				if len(sets) != nRemote || len(clears) != nRemote {
					t.Fatalf("got %d/%d diffs for %d remotes", len(sets), len(clears), nRemote)
				}
				for i := 1; i <= nRemote; i++ {
					after := map[bit]bool{}
					for b := range contents[i] {
						if inBlock(b) {
							after[b] = true
						}
					}
					for k := range sets[i-1].rowIDs {
						after[bit{sets[i-1].rowIDs[k], sets[i-1].columnIDs[k]}] = true
					}
					for k := range clears[i-1].rowIDs {
						delete(after, bit{clears[i-1].rowIDs[k], clears[i-1].columnIDs[k]})
					}
					if !reflect.DeepEqual(after, want) && len(after)+len(want) > 0 {
						t.Fatalf("remote %d after applying its diff: %v, want %v", i, after, want)
					}
				}
			})
		}
	}
}
