package pilosa

import (
	"reflect"
	"testing"
)

func TestWitness_C11_MergeBlockSetsAndClears(t *testing.T) {
	f := mustOpenFragment("i", "f", viewStandard, 0, "")
	defer f.Clean(t)
	f.mustSetBits(0, 1, 2, 3)
	// replica A holds only {9}; replica B agrees with local.
	a := pairSet{rowIDs: []uint64{0}, columnIDs: []uint64{9}}
	b := pairSet{rowIDs: []uint64{0, 0, 0}, columnIDs: []uint64{1, 2, 3}}
	sets, clears, err := f.mergeBlock(0, []pairSet{a, b})
	if err != nil {
		t.Fatal(err)
	}
	if !reflect.DeepEqual(sets[0].columnIDs, []uint64{1, 2, 3}) {
		t.Errorf("sets for A = %v", sets[0].columnIDs)
	}
	if !reflect.DeepEqual(clears[0].columnIDs, []uint64{9}) {
		t.Errorf("clears for A = %v, want [9]", clears[0].columnIDs)
	}
}
