package pilosa_test

import (
	"context"
	"math"
	"testing"

	"github.com/pilosa/pilosa"
	"github.com/pilosa/pilosa/test"
)

// An int field created with the default bounds accepts every int64; the
// smallest one must read back as written, or be refused when it is written.
func TestWitness_C14_MinInt64(t *testing.T) {
	c := test.MustRunCluster(t, 1)
	defer c.Close()
	ctx := context.Background()
	api := c[0].API
	if _, err := api.CreateIndex(ctx, "i", pilosa.IndexOptions{}); err != nil {
		t.Fatal(err)
	}
	fld, err := api.CreateField(ctx, "i", "v", pilosa.OptFieldTypeInt(math.MinInt64, math.MaxInt64))
	if err != nil {
		t.Logf("field refused: %v", err)
		return
	}
	for _, val := range []int64{math.MinInt64, math.MinInt64 + 1, -1 << 62} {
		if _, err := fld.SetValue(1, val); err != nil {
			t.Logf("SetValue(%d) refused: %v", val, err)
			continue
		}
		got, exists, err := fld.Value(1)
		if err != nil || !exists || got != val {
			t.Errorf("SetValue(%d) accepted, Value = %d exists=%v err=%v", val, got, exists, err)
		}
	}
	// import path
	if err := api.ImportValue(ctx, &pilosa.ImportValueRequest{Index: "i", Field: "v", Shard: 0, ColumnIDs: []uint64{2}, Values: []int64{math.MinInt64}}); err != nil {
		t.Logf("ImportValue(MinInt64) refused: %v", err)
	} else if got, exists, err := fld.Value(2); err != nil || !exists || got != math.MinInt64 {
		t.Errorf("ImportValue(MinInt64) accepted, Value = %d exists=%v err=%v", got, exists, err)
	}
}
