package pilosa

import "testing"

func TestWitness_C06_MessagesForUnknownSchema(t *testing.T) {
	s := &Server{holder: NewHolder()}
	for _, m := range []Message{&DeleteFieldMessage{Index: "nope", Field: "f"}, &DeleteAvailableShardMessage{Index: "nope", Field: "f", ShardID: 1}} {
		func() {
			defer func() {
				if r := recover(); r != nil {
					t.Errorf("%T for an unknown index panicked: %v", m, r)
				}
			}()
			if err := s.receiveMessage(m); err == nil {
				t.Errorf("%T for an unknown index accepted", m)
			}
		}()
	}
}
