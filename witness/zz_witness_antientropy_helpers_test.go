package pilosa_test

import (
	"github.com/pilosa/pilosa"
)

func fragOf(h *pilosa.Holder, index, field, view string, shard uint64) []uint64 {
	f := h.Field(index, field)
	if f == nil {
		return nil
	}
	return []uint64{shard}
}

func fragSet(h *pilosa.Holder, index, field, view string, row, col uint64) error {
	return pilosa.WitnessFragSet(h, index, field, view, row, col)
}

func fragHas(h *pilosa.Holder, index, field, view string, row, col uint64) bool {
	return pilosa.WitnessFragHas(h, index, field, view, row, col)
}
