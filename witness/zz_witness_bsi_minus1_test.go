package pilosa_test

import (
	"context"
	"reflect"
	"testing"

	"github.com/pilosa/pilosa"
	"github.com/pilosa/pilosa/test"
)

func TestWitness_C14_RangeAroundMinusOne(t *testing.T) {
	c := test.MustRunCluster(t, 1)
	defer c.Close()
	hldr := test.Holder{Holder: c[0].Server.Holder()}
	idx, err := hldr.CreateIndex("i", pilosa.IndexOptions{})
	if err != nil {
		t.Fatal(err)
	}
	if _, err := idx.CreateField("v", pilosa.OptFieldTypeInt(-1000, 1000)); err != nil {
		t.Fatal(err)
	}
	// column k holds value k-3: -2,-1,0,1,2
	if _, err := c[0].API.Query(context.Background(), &pilosa.QueryRequest{Index: "i", Query: `Set(1, v=-2) Set(2, v=-1) Set(3, v=0) Set(4, v=1) Set(5, v=2)`}); err != nil {
		t.Fatal(err)
	}
	vals := map[uint64]int64{1: -2, 2: -1, 3: 0, 4: 1, 5: 2}
	for _, op := range []string{"<", "<=", ">", ">=", "==", "!="} {
		for p := int64(-3); p <= 3; p++ {
			var exp []uint64
			for col := uint64(1); col <= 5; col++ {
				v := vals[col]
				ok := false
				switch op {
				case "<":
					ok = v < p
				case "<=":
					ok = v <= p
				case ">":
					ok = v > p
				case ">=":
					ok = v >= p
				case "==":
					ok = v == p
				case "!=":
					ok = v != p
				}
				if ok {
					exp = append(exp, col)
				}
			}
			q := "Row(v " + op + " " + itoa(p) + ")"
			res, err := c[0].API.Query(context.Background(), &pilosa.QueryRequest{Index: "i", Query: q})
			if err != nil {
				t.Errorf("%s: %v", q, err)
				continue
			}
			got := res.Results[0].(*pilosa.Row).Columns()
			if len(got) == 0 && len(exp) == 0 {
				continue
			}
			if !reflect.DeepEqual(got, exp) {
				t.Errorf("%s: got %v, want %v", q, got, exp)
			}
		}
	}
}

func itoa(v int64) string {
	if v < 0 {
		return "-" + itoa(-v)
	}
	if v < 10 {
		return string(rune('0' + v))
	}
	return itoa(v/10) + string(rune('0'+v%10))
}
