package pilosa_test

import (
	"context"
	"testing"

	"github.com/pilosa/pilosa"
	"github.com/pilosa/pilosa/test"
)

// Witness for C14: while an int field has stored nothing but its base value
// its bit depth is 0; fragment.minUnsigned/maxUnsigned then ran no iteration
// and returned count 0, so Min/Max answered "no values" where Sum counted them.
func TestWitness_C14_MinMaxAtDepthZero(t *testing.T) {
	c := test.MustRunCluster(t, 1)
	defer c.Close()
	ctx := context.Background()
	if _, err := c[0].API.CreateIndex(ctx, "i", pilosa.IndexOptions{}); err != nil {
		t.Fatal(err)
	}
	if _, err := c[0].API.CreateField(ctx, "i", "v", pilosa.OptFieldTypeInt(-10, 100)); err != nil {
		t.Fatal(err)
	}
	for _, col := range []uint64{1, 7, pilosa.ShardWidth + 3} {
		if _, err := c[0].API.Query(ctx, &pilosa.QueryRequest{Index: "i", Query: "Set(" + itoa(col) + ", v=0)"}); err != nil {
			t.Fatal(err)
		}
	}
	for _, q := range []string{"Sum(field=v)", "Min(field=v)", "Max(field=v)"} {
		resp, err := c[0].API.Query(ctx, &pilosa.QueryRequest{Index: "i", Query: q})
		if err != nil {
			t.Fatal(err)
		}
		vc := resp.Results[0].(pilosa.ValCount)
		want := int64(3)
		if q != "Sum(field=v)" {
			want = 3 // every column holds the minimum and the maximum
		}
		if vc.Val != 0 || vc.Count != want {
			t.Errorf("%s = %+v, want value 0 count %d", q, vc, want)
		}
	}
}

func itoa(v uint64) string {
	if v == 0 {
		return "0"
	}
	var b []byte
	for v > 0 {
		b = append([]byte{byte('0' + v%10)}, b...)
		v /= 10
	}
	return string(b)
}
