package pilosa_test

import (
	"context"
	"testing"

	"github.com/pilosa/pilosa"
	"github.com/pilosa/pilosa/test"
)

func TestWitness_C19_ClearWithoutStandardView(t *testing.T) {
	c := test.MustRunCluster(t, 1)
	defer c.Close()
	hldr := test.Holder{Holder: c[0].Server.Holder()}
	idx, err := hldr.CreateIndex("i", pilosa.IndexOptions{})
	if err != nil {
		t.Fatal(err)
	}
	if _, err := idx.CreateField("f", pilosa.OptFieldTypeTime(pilosa.TimeQuantum("YMD"), true)); err != nil {
		t.Fatal(err)
	}
	ctx := context.Background()
	if _, err := c[0].API.Query(ctx, &pilosa.QueryRequest{Index: "i", Query: "Set(7, f=1, 2018-05-12T07:00) Set(9, f=1, 2018-05-12T07:00)"}); err != nil {
		t.Fatal(err)
	}
	res, err := c[0].API.Query(ctx, &pilosa.QueryRequest{Index: "i", Query: "Clear(7, f=1)"})
	if err != nil {
		t.Fatal(err)
	}
	t.Logf("Clear returned %v", res.Results[0])
	res, err = c[0].API.Query(ctx, &pilosa.QueryRequest{Index: "i", Query: "Row(f=1, from=2018-05-01T00:00, to=2018-06-01T00:00)"})
	if err != nil {
		t.Fatal(err)
	}
	for _, col := range res.Results[0].(*pilosa.Row).Columns() {
		if col == 7 {
			t.Errorf("column 7 still returned after Clear on a field without a standard view")
		}
	}
}
