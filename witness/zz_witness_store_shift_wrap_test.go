package pilosa_test

import (
	"context"
	"fmt"
	"testing"

	"github.com/pilosa/pilosa"
	"github.com/pilosa/pilosa/test"
)

// Store(Shift(Row(f=1), n=1), f=2) with the last column of shard 0 set: the
// shifted bit belongs to column ShardWidth (shard 1). Whatever happens to it
// (Shift across a shard boundary is a recorded finding), it must not come back
// as column 0 of shard 0.
func TestWitness_C15_StoreShiftDoesNotWrapIntoColumnZero(t *testing.T) {
	c := test.MustRunCluster(t, 1)
	defer c.Close()
	ctx := context.Background()
	api := c[0].API
	if _, err := api.CreateIndex(ctx, "i", pilosa.IndexOptions{}); err != nil {
		t.Fatal(err)
	}
	if _, err := api.CreateField(ctx, "i", "f", pilosa.OptFieldTypeSet(pilosa.DefaultCacheType, 100)); err != nil {
		t.Fatal(err)
	}
	q := fmt.Sprintf("Set(%d, f=1) Set(7, f=1)", pilosa.ShardWidth-1)
	if _, err := api.Query(ctx, &pilosa.QueryRequest{Index: "i", Query: q}); err != nil {
		t.Fatal(err)
	}
	if _, err := api.Query(ctx, &pilosa.QueryRequest{Index: "i", Query: "Store(Shift(Row(f=1), n=1), f=2)"}); err != nil {
		t.Fatal(err)
	}
	res, err := api.Query(ctx, &pilosa.QueryRequest{Index: "i", Query: "Row(f=2)"})
	if err != nil {
		t.Fatal(err)
	}
	cols := res.Results[0].(*pilosa.Row).Columns()
	t.Logf("Row(f=2) = %v", cols)
	for _, col := range cols {
		if col == 0 {
			t.Errorf("column 0 appeared in the stored row: %v (want [8] or [8 %d])", cols, pilosa.ShardWidth)
		}
	}
}
