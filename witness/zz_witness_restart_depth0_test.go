package pilosa_test

import (
	"context"
	"fmt"
	"reflect"
	"testing"

	"github.com/pilosa/pilosa"
	"github.com/pilosa/pilosa/test"
)

// Witness for C08 (reported by a seeding agent as present on the tree): an
// int field whose declared range spans zero, Min < 0, and that has stored
// nothing but the value 0 keeps BitDepth 0 in its .meta. Field.loadMeta takes
// BitDepth == 0 for "written by the v1 BSI format" and sets Base = Min, so
// after a restart the stored 0 reads as Min.
func TestWitness_C08_IntFieldDepthZeroRestart(t *testing.T) {
	for _, rng := range [][2]int64{{-10, 100}, {-1, 1}, {0, 100}, {5, 100}, {-100, -5}} {
		t.Run(fmt.Sprintf("min%d_max%d", rng[0], rng[1]), func(t *testing.T) {
			c := test.MustRunCluster(t, 1)
			defer c.Close()
			ctx := context.Background()
			if _, err := c[0].API.CreateIndex(ctx, "i", pilosa.IndexOptions{}); err != nil {
				t.Fatal(err)
			}
			if _, err := c[0].API.CreateField(ctx, "i", "v", pilosa.OptFieldTypeInt(rng[0], rng[1])); err != nil {
				t.Fatal(err)
			}
			// the only value ever stored is the field's base
			base := int64(0)
			if rng[0] > 0 {
				base = rng[0]
			} else if rng[1] < 0 {
				base = rng[1]
			}
			if _, err := c[0].API.Query(ctx, &pilosa.QueryRequest{Index: "i", Query: fmt.Sprintf("Set(1, v=%d)", base)}); err != nil {
				t.Fatal(err)
			}
			ask := func() []interface{} {
				var out []interface{}
				for _, q := range []string{"Sum(field=v)", "Min(field=v)", "Max(field=v)", fmt.Sprintf("Row(v==%d)", base), fmt.Sprintf("Row(v==%d)", rng[0])} {
					resp, err := c[0].API.Query(ctx, &pilosa.QueryRequest{Index: "i", Query: q})
					if err != nil {
						t.Fatal(err)
					}
					switch r := resp.Results[0].(type) {
					case *pilosa.Row:
						out = append(out, r.Columns())
					default:
						out = append(out, r)
					}
				}
				return out
			}
			before := ask()
			f, _ := c[0].API.Field(ctx, "i", "v")
			optsBefore := f.Options()
			if err := c[0].Reopen(); err != nil {
				t.Fatal(err)
			}
			after := ask()
			f, _ = c[0].API.Field(ctx, "i", "v")
			if o := f.Options(); !reflect.DeepEqual(o, optsBefore) {
				t.Errorf("options changed over a restart:\n before %+v\n after  %+v", optsBefore, o)
			}
			if !reflect.DeepEqual(before, after) {
				t.Errorf("answers changed over a restart:\n before %v\n after  %v", before, after)
			}
		})
	}
}
