package pilosa

import (
	"bytes"
	"context"
	"testing"
)

func TestWitness_C06_ClusterMessageMalformed(t *testing.T) {
	api := &API{cluster: newCluster()}
	api.cluster.state = ClusterStateNormal
	api.server = &Server{}
	for name, body := range map[string][]byte{"empty": {}, "unknown type": {0xEE, 1, 2, 3}} {
		func() {
			defer func() {
				if r := recover(); r != nil {
					t.Errorf("%s cluster message panicked: %v", name, r)
				}
			}()
			if err := api.ClusterMessage(context.Background(), bytes.NewReader(body)); err == nil {
				t.Errorf("%s cluster message accepted", name)
			}
		}()
	}
}
