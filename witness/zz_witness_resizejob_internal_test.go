package pilosa

import (
	"testing"
	"time"
)

func TestWitness_C22_CompletionMessagesNeverBlock(t *testing.T) {
	c := newCluster()
	// unknown job: must be an error, not a nil dereference
	func() {
		defer func() {
			if r := recover(); r != nil {
				t.Errorf("completion for an unknown job panicked: %v", r)
			}
		}()
		if err := c.markResizeInstructionComplete(&ResizeInstructionComplete{JobID: 12345, Node: &Node{ID: "x"}}); err == nil {
			t.Errorf("expected an error for an unknown job")
		}
	}()
	// duplicate / late error completions for a known job must not block the handler
	j := newResizeJob([]*Node{{ID: "a"}}, &Node{ID: "b"}, resizeJobActionAdd)
	c.jobs[j.ID] = j
	done := make(chan struct{})
	go func() {
		for i := 0; i < 3; i++ {
			_ = c.markResizeInstructionComplete(&ResizeInstructionComplete{JobID: j.ID, Node: &Node{ID: "a"}, Error: "boom"})
		}
		close(done)
	}()
	select {
	case <-done:
	case <-time.After(3 * time.Second):
		t.Fatalf("the completion-message handler blocked on the job's result channel")
	}
}
