package pilosa

import (
	"archive/tar"
	"bytes"
	"testing"
)

// A fragment archive whose data file is not a bitmap is rejected by ReadFrom;
// the fragment must then still hold, and serve, what it held before.
func TestWitness_RejectedArchiveKeepsStoredData(t *testing.T) {
	f := mustOpenFragment("i", "f", viewStandard, 0, "")
	defer f.Clean(t)
	if _, err := f.setBit(3, 7); err != nil {
		t.Fatal(err)
	}
	var buf bytes.Buffer
	tw := tar.NewWriter(&buf)
	garbage := bytes.Repeat([]byte{0xAB}, 100)
	if err := tw.WriteHeader(&tar.Header{Name: "data", Mode: 0600, Size: int64(len(garbage))}); err != nil {
		t.Fatal(err)
	}
	if _, err := tw.Write(garbage); err != nil {
		t.Fatal(err)
	}
	tw.Close()
	_, err := f.ReadFrom(&buf)
	if err == nil {
		t.Fatal("garbage archive accepted")
	}
	t.Logf("rejected: %v", err)
	func() {
		defer func() {
			if r := recover(); r != nil {
				t.Fatalf("reading after the rejected archive panicked: %v", r)
			}
		}()
		if cols := f.row(3).Columns(); len(cols) != 1 || cols[0] != 7 {
			t.Fatalf("row 3 after the rejected archive: %v, want [7]", cols)
		}
		if _, err := f.setBit(3, 8); err != nil {
			t.Fatalf("write after the rejected archive: %v", err)
		}
	}()
	// and after a restart
	if err := f.Reopen(); err != nil {
		t.Fatalf("reopen after the rejected archive: %v", err)
	}
	if cols := f.row(3).Columns(); len(cols) != 2 {
		t.Fatalf("row 3 after reopen: %v, want [7 8]", cols)
	}
}
