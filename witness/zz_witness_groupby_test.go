package pilosa_test

import (
	"context"
	"fmt"
	"math/rand"
	"reflect"
	"sort"
	"strings"
	"testing"

	"github.com/pilosa/pilosa"
	"github.com/pilosa/pilosa/test"
)

func TestWitness_C16_GroupByAndRowsPaging(t *testing.T) {
	for seed := int64(1); seed <= 6; seed++ {
		t.Run(fmt.Sprint("seed", seed), func(t *testing.T) {
			rng := rand.New(rand.NewSource(seed))
			c := test.MustRunCluster(t, 1)
			defer c.Close()
			ctx := context.Background()
			api := c[0].API
			if _, err := api.CreateIndex(ctx, "i", pilosa.IndexOptions{}); err != nil {
				t.Fatal(err)
			}
			fields := []string{"a", "b", "c"}
			for _, f := range fields {
				if _, err := api.CreateField(ctx, "i", f, pilosa.OptFieldTypeSet(pilosa.CacheTypeRanked, 100)); err != nil {
					t.Fatal(err)
				}
			}
			cols := []uint64{1, 2, 3, 4, pilosa.ShardWidth + 1, pilosa.ShardWidth + 2, 2*pilosa.ShardWidth + 7, 2*pilosa.ShardWidth + 8}
			rowsOf := map[string]map[uint64]map[uint64]bool{} // field -> row -> cols
			var q []string
			for _, f := range fields {
				rowsOf[f] = map[uint64]map[uint64]bool{}
				for i := 0; i < 14; i++ {
					row := uint64(rng.Intn(5)) * uint64(1+rng.Intn(3))
					col := cols[rng.Intn(len(cols))]
					if rowsOf[f][row] == nil {
						rowsOf[f][row] = map[uint64]bool{}
					}
					rowsOf[f][row][col] = true
					q = append(q, fmt.Sprintf("Set(%d, %s=%d)", col, f, row))
				}
			}
			if _, err := api.Query(ctx, &pilosa.QueryRequest{Index: "i", Query: strings.Join(q, " ")}); err != nil {
				t.Fatal(err)
			}
			// ---- Rows paging
			for _, f := range fields {
				var all []uint64
				for r := range rowsOf[f] {
					all = append(all, r)
				}
				sort.Slice(all, func(i, j int) bool { return all[i] < all[j] })
				res, err := api.Query(ctx, &pilosa.QueryRequest{Index: "i", Query: fmt.Sprintf("Rows(field=%s)", f)})
				if err != nil {
					t.Fatal(err)
				}
				if got := []uint64(res.Results[0].(pilosa.RowIdentifiers).Rows); !reflect.DeepEqual(got, all) {
					t.Errorf("Rows(%s): got %v want %v", f, got, all)
				}
				for _, limit := range []int{1, 2, 3} {
					var paged []uint64
					prev := ""
					for iter := 0; iter < 20; iter++ {
						res, err := api.Query(ctx, &pilosa.QueryRequest{Index: "i", Query: fmt.Sprintf("Rows(field=%s, limit=%d%s)", f, limit, prev)})
						if err != nil {
							t.Fatal(err)
						}
						got := res.Results[0].(pilosa.RowIdentifiers).Rows
						if len(got) == 0 {
							break
						}
						paged = append(paged, got...)
						prev = fmt.Sprintf(", previous=%d", got[len(got)-1])
					}
					if !reflect.DeepEqual(paged, all) {
						t.Errorf("Rows(%s) paged by %d: got %v want %v", f, limit, paged, all)
					}
				}
			}
			// ---- GroupBy
			type group struct {
				rows  []uint64
				count uint64
			}
			model := func(fs []string) []group {
				var out []group
				var rec func(i int, rows []uint64, cs map[uint64]bool)
				rec = func(i int, rows []uint64, cs map[uint64]bool) {
					if i == len(fs) {
						if len(cs) > 0 {
							out = append(out, group{append([]uint64{}, rows...), uint64(len(cs))})
						}
						return
					}
					var rs []uint64
					for r := range rowsOf[fs[i]] {
						rs = append(rs, r)
					}
					sort.Slice(rs, func(a, b int) bool { return rs[a] < rs[b] })
					for _, r := range rs {
						ncs := map[uint64]bool{}
						for c := range rowsOf[fs[i]][r] {
							if cs == nil || cs[c] {
								ncs[c] = true
							}
						}
						if len(ncs) == 0 {
							continue
						}
						rec(i+1, append(rows, r), ncs)
					}
				}
				rec(0, nil, nil)
				return out
			}
			render := func(gcs []pilosa.GroupCount) []group {
				var out []group
				for _, gc := range gcs {
					g := group{count: gc.Count}
					for _, fr := range gc.Group {
						g.rows = append(g.rows, fr.RowID)
					}
					out = append(out, g)
				}
				return out
			}
			for _, fs := range [][]string{{"a"}, {"a", "b"}, {"a", "b", "c"}, {"c", "a", "b"}} {
				want := model(fs)
				var rowsCalls []string
				for _, f := range fs {
					rowsCalls = append(rowsCalls, fmt.Sprintf("Rows(field=%s)", f))
				}
				qq := "GroupBy(" + strings.Join(rowsCalls, ", ") + ")"
				res, err := api.Query(ctx, &pilosa.QueryRequest{Index: "i", Query: qq})
				if err != nil {
					t.Fatal(err)
				}
				got := render(res.Results[0].([]pilosa.GroupCount))
				if len(got)+len(want) > 0 && !reflect.DeepEqual(got, want) {
					t.Errorf("%s:\n got  %v\n want %v", qq, got, want)
					continue
				}
				// paging with limit and previous
				for _, limit := range []int{1, 2, 5} {
					var paged []group
					var prev []uint64
					for iter := 0; iter < 5000; iter++ {
						var rc []string
						for i, f := range fs {
							if prev != nil {
								rc = append(rc, fmt.Sprintf("Rows(field=%s, previous=%d)", f, prev[i]))
							} else {
								rc = append(rc, fmt.Sprintf("Rows(field=%s)", f))
							}
						}
						pq := fmt.Sprintf("GroupBy(%s, limit=%d)", strings.Join(rc, ", "), limit)
						res, err := api.Query(ctx, &pilosa.QueryRequest{Index: "i", Query: pq})
						if err != nil {
							t.Fatal(err)
						}
						g := render(res.Results[0].([]pilosa.GroupCount))
						if len(g) == 0 {
							break
						}
						paged = append(paged, g...)
						prev = g[len(g)-1].rows
					}
					if len(paged)+len(want) > 0 && !reflect.DeepEqual(paged, want) {
						t.Errorf("%s paged by %d:\n got  %v\n want %v", qq, limit, paged, want)
					}
				}
			}
		})
	}
}
