package pilosa

// Triage witnesses for defects exposed by the static rules (C07, C10, C12,
// C16). Each test fails on the pinned tree and passes after the matching
// "fix:" commit. They are triage evidence only; no check executes them.

import (
	"bytes"
	"context"
	"testing"

	"github.com/pilosa/pilosa/roaring"
)

func wChecksum(f *fragment, block int) []byte {
	for _, b := range f.Blocks() {
		if b.ID == block {
			return b.Checksum
		}
	}
	return nil
}

func TestWitness_C10_ClearRowChecksum(t *testing.T) {
	f := mustOpenFragment("i", "f", viewStandard, 0, "")
	defer f.Clean(t)
	f.mustSetBits(5, 1, 2, 3)
	f.mustSetBits(6, 1)
	before := wChecksum(f, 0)
	if _, err := f.clearRow(5); err != nil {
		t.Fatal(err)
	}
	after := wChecksum(f, 0)
	if bytes.Equal(before, after) {
		t.Fatalf("stale checksum after clearRow")
	}
}

func TestWitness_C10_SetRowChecksum(t *testing.T) {
	f := mustOpenFragment("i", "f", viewStandard, 0, "")
	defer f.Clean(t)
	f.mustSetBits(5, 1, 2, 3)
	before := wChecksum(f, 0)
	if _, err := f.setRow(NewRow(7, 8), 5); err != nil {
		t.Fatal(err)
	}
	if bytes.Equal(before, wChecksum(f, 0)) {
		t.Fatalf("stale checksum after setRow")
	}
}

func TestWitness_C10_ImportRoaringChecksum(t *testing.T) {
	f := mustOpenFragment("i", "f", viewStandard, 0, "")
	defer f.Clean(t)
	f.mustSetBits(5, 1, 2, 3)
	before := wChecksum(f, 0)
	bm := roaring.NewBitmap(5*ShardWidth + 9)
	var buf bytes.Buffer
	if _, err := bm.WriteTo(&buf); err != nil {
		t.Fatal(err)
	}
	if err := f.importRoaring(context.Background(), buf.Bytes(), false); err != nil {
		t.Fatal(err)
	}
	if bytes.Equal(before, wChecksum(f, 0)) {
		t.Fatalf("stale checksum after importRoaring")
	}
}

func TestWitness_C10_C07_ImportValueLarge(t *testing.T) {
	f := mustOpenBSIFragment("i", "f", viewBSIGroupPrefix+"f", 0)
	defer f.Clean(t)
	f.MaxOpN = 1 // force the large path
	if err := f.importValue([]uint64{1}, []int64{3}, 4, false); err != nil {
		t.Fatal(err)
	}
	before := wChecksum(f, 0)
	if got := f.row(bsiOffsetBit + 1).Columns(); len(got) != 1 { // populate row cache (3 = 0b011)
		t.Fatalf("setup: %v", got)
	}
	if err := f.importValue([]uint64{1}, []int64{5}, 4, false); err != nil {
		t.Fatal(err)
	}
	if bytes.Equal(before, wChecksum(f, 0)) {
		t.Errorf("stale checksum after large importValue")
	}
	v, ok, err := f.value(1, 4)
	if err != nil || !ok || v != 5 {
		t.Fatalf("value=%d ok=%v err=%v", v, ok, err)
	}
	// rows read through the row cache must reflect the overwrite
	if got := f.row(bsiOffsetBit + 1).Columns(); len(got) != 0 {
		t.Errorf("row cache stale after large importValue: bit-1 row = %v, want empty (5 = 0b101)", got)
	}
}

func TestWitness_C07_C12_SetRowEmptySegment(t *testing.T) {
	f := mustOpenFragment("i", "f", viewStandard, 0, CacheTypeRanked)
	defer f.Clean(t)
	f.mustSetBits(7, 3)
	if got := f.row(7).Columns(); len(got) != 1 {
		t.Fatalf("setup: %v", got)
	}
	// a row with no segment for shard 0
	if _, err := f.setRow(NewRow(), 7); err != nil {
		t.Fatal(err)
	}
	if got := f.row(7).Columns(); len(got) != 0 {
		t.Errorf("row cache stale after setRow(empty): %v", got)
	}
	if n := f.cache.Get(7); n != 0 {
		t.Errorf("count cache stale after setRow(empty): %d", n)
	}
}

func TestWitness_C16_MaxRowAfterImport(t *testing.T) {
	f := mustOpenFragment("i", "f", viewStandard, 0, "")
	defer f.Clean(t)
	if err := f.bulkImport([]uint64{100}, []uint64{1}, &ImportOptions{}); err != nil {
		t.Fatal(err)
	}
	if id, n := f.maxRow(nil); id != 100 || n != 1 {
		t.Errorf("maxRow after bulkImport of row 100 = (%d,%d)", id, n)
	}
	if id, n := f.maxRow(NewRow(1)); id != 100 || n != 1 {
		t.Errorf("maxRow(filter) after bulkImport of row 100 = (%d,%d)", id, n)
	}
}

func TestWitness_C16_MaxRowAfterClear(t *testing.T) {
	f := mustOpenFragment("i", "f", viewStandard, 0, "")
	defer f.Clean(t)
	f.mustSetBits(3, 1)
	f.mustSetBits(9, 1)
	if _, err := f.clearBit(9, 1); err != nil {
		t.Fatal(err)
	}
	if id, n := f.maxRow(nil); id != 3 || n != 1 {
		t.Errorf("maxRow after clearing row 9 = (%d,%d), want (3,1)", id, n)
	}
}

func TestWitness_C12_ImportRoaringEvictedRow(t *testing.T) {
	f := mustOpenFragment("i", "f", viewStandard, 0, CacheTypeRanked)
	defer f.Clean(t)
	f.CacheSize = 1
	f.mustSetBits(1, 1, 2, 3, 4)
	f.mustSetBits(2, 1) // below threshold once cache is full and recalculated
	f.cache.Recalculate()
	// make the cache forget row 1 entirely (evicted / never admitted state)
	f.cache = NewRankCache(10)
	bm := roaring.NewBitmap(1*ShardWidth + 9)
	var buf bytes.Buffer
	if _, err := bm.WriteTo(&buf); err != nil {
		t.Fatal(err)
	}
	if err := f.importRoaring(context.Background(), buf.Bytes(), false); err != nil {
		t.Fatal(err)
	}
	if n := f.cache.Get(1); n != 5 {
		t.Errorf("count for row 1 after importRoaring = %d, want 5", n)
	}
}

func TestWitness_C12_BulkAddZero(t *testing.T) {
	c := NewRankCache(10)
	c.BulkAdd(1, 5)
	c.BulkAdd(2, 7)
	c.Recalculate()
	c.BulkAdd(1, 0)
	if n := c.Get(1); n != 0 {
		t.Errorf("rankCache.BulkAdd(1,0) left count %d", n)
	}
}
