package pql_test

import (
	"testing"

	"github.com/pilosa/pilosa/pql"
)

func TestWitness_C26_NonASCIILiterals(t *testing.T) {
	for _, tc := range []struct{ q, key, want string }{
		{`Row(f="é")`, "f", "é"},
		{`Row(f="日本語", g="abc")`, "g", "abc"},
		{`Row(f='naïve')`, "f", "naïve"},
	} {
		q, err := pql.ParseString(tc.q)
		if err != nil {
			t.Errorf("%s: %v", tc.q, err)
			continue
		}
		if got := q.Calls[0].Args[tc.key]; got != tc.want {
			t.Errorf("%s: %s = %#v, want %q", tc.q, tc.key, got, tc.want)
		}
	}
}
