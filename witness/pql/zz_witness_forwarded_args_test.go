package pql_test

import (
	"reflect"
	"testing"

	"github.com/pilosa/pilosa/pql"
)

func TestWitness_C26_ForwardedArgsReparse(t *testing.T) {
	for name, v := range map[string]interface{}{
		"ids_int64": []int64{1, 2, 3},
		"null":      nil,
		"float":     float64(12345678.5),
		"bigfloat":  float64(1e21),
		"int":       int64(-7),
		"bool":      true,
		"str":       "naïve \"q\"",
	} {
		c := &pql.Call{Name: "TopN", Args: map[string]interface{}{"x": v}}
		q, err := pql.ParseString(c.String())
		if err != nil {
			t.Errorf("%s: %s does not re-parse: %v", name, c.String(), err)
			continue
		}
		got := q.Calls[0].Args["x"]
		want := v
		if s, ok := v.([]int64); ok {
			w := make([]interface{}, len(s))
			for i := range s {
				w[i] = s[i]
			}
			want = w
		}
		if !reflect.DeepEqual(got, want) {
			t.Errorf("%s: %s re-parses to %#v, want %#v", name, c.String(), got, want)
		}
	}
}
