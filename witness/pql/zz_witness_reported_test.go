package pql_test

import (
	"fmt"
	"reflect"
	"testing"

	"github.com/pilosa/pilosa/pql"
)

// Witness for C26: items a seeding agent reported as present on the tree.
func TestWitness_C26_Reported(t *testing.T) {
	// 1. a raw newline inside a double-quoted literal
	t.Run("RawNewlineDoubleQuoted", func(t *testing.T) {
		q, err := pql.ParseString("Row(f=\"a\nb\")")
		if err != nil {
			t.Logf("rejected: %v", err)
			return
		}
		if got := q.Calls[0].Args["f"]; got != "a\nb" {
			t.Errorf("Row(f=\"a<LF>b\") parsed f=%q, written \"a\\nb\"", got)
		}
	})
	// 2. condition with a list of strings
	t.Run("ConditionWithList", func(t *testing.T) {
		defer func() {
			if r := recover(); r != nil {
				t.Errorf("panic: %v", r)
			}
		}()
		_, err := pql.ParseString(`Row(f == ["a","b"])`)
		t.Logf("err=%v", err)
	})
	// 3. between overflow
	t.Run("BetweenOverflow", func(t *testing.T) {
		q, err := pql.ParseString(`Row(9223372036854775807 < f < 5)`)
		if err != nil {
			t.Logf("rejected: %v", err)
			return
		}
		t.Logf("parsed: %v", q.Calls[0])
		c, _ := q.Calls[0].Args["f"].(*pql.Condition)
		if c != nil {
			if v, ok := c.Value.([]interface{}); ok && len(v) == 2 {
				if lo, ok := v[0].(int64); ok && lo < 0 {
					t.Errorf("Row(9223372036854775807 < f < 5) parsed with lower bound %d", lo)
				}
			}
		}
	})
	// 4./5. forwarded calls: Call.String() must re-parse to the same call
	t.Run("ForwardedLists", func(t *testing.T) {
		for _, args := range []map[string]interface{}{
			{"a": []interface{}{int64(1), int64(2)}},
			{"a": []interface{}{"x", "y z", "q\"uote"}},
			{"a": []interface{}{2.0, 1.5}},
			{"a": []interface{}{1e21}},
			{"a": []interface{}{true, false}},
			{"a": []interface{}{nil}},
			{"ids": []uint64{1, 2, 3}},
			{"ids": []int64{1, -2, 3}},
			{"a": uint64(1) << 63},
			{"a": []interface{}{uint64(1) << 63}},
		} {
			c := &pql.Call{Name: "TopN", Args: args}
			s := c.String()
			q, err := pql.ParseString(s)
			if err != nil {
				t.Errorf("%v prints as %s, which does not re-parse: %v", args, s, err)
				continue
			}
			got := q.Calls[0].Args
			// normalise typed slices
			want := map[string]interface{}{}
			for k, v := range args {
				switch x := v.(type) {
				case []uint64:
					var l []interface{}
					for _, e := range x {
						l = append(l, int64(e))
					}
					want[k] = l
				case []int64:
					var l []interface{}
					for _, e := range x {
						l = append(l, e)
					}
					want[k] = l
				default:
					want[k] = v
				}
			}
			if !reflect.DeepEqual(got, want) {
				t.Errorf("%v prints as %s, re-parsed as %s", fmtArgs(want), s, fmtArgs(got))
			}
		}
	})
	// 6. escapes in single-quoted strings and positional keys
	t.Run("Escapes", func(t *testing.T) {
		for _, tc := range []struct {
			q, key string
			want   interface{}
		}{
			{`Row(f='it\'s')`, "f", "it's"},
			{`Row(f="it\"s")`, "f", `it"s`},
			{`Set("a\"b", f=1)`, "_col", `a"b`},
			{`Set('a\'b', f=1)`, "_col", `a'b`},
			{`Set(1, f="r\"k")`, "f", `r"k`},
		} {
			q, err := pql.ParseString(tc.q)
			if err != nil {
				t.Logf("%s rejected: %v", tc.q, err)
				continue
			}
			if got := q.Calls[0].Args[tc.key]; got != tc.want {
				t.Errorf("%s parsed %s=%q, written %q", tc.q, tc.key, got, tc.want)
			}
		}
	})
}

func fmtArgs(m map[string]interface{}) string {
	s := ""
	for k, v := range m {
		s += fmt.Sprintf("%s=%#v ", k, v)
	}
	return s
}
