package pql_test

import (
	"reflect"
	"testing"

	"github.com/pilosa/pilosa/pql"
)

// C26: parse -> String() -> parse yields the same calls.
func TestWitness_C26_RoundTrip(t *testing.T) {
	queries := []string{
		`Row(f=1)`,
		`Row(f="a b")`,
		`Row(f='single')`,
		`Row(f="quote\"inside")`,
		`Row(f="back\\slash")`,
		`Row(f="tab\tchar")`,
		`Row(f="new\nline")`,
		`Row(f="héllo wörld ✓")`,
		`Row(f="日本語")`,
		`Row(f=-5)`,
		`Row(f=1.5)`,
		`Row(f=-0.25)`,
		`Row(f=10.0)`,
		`Row(f=null)`,
		`Row(f=true)`,
		`Row(f=false)`,
		`Row(f > 5)`,
		`Row(f >= -5)`,
		`Row(f < 5)`,
		`Row(f <= 5)`,
		`Row(f == 5)`,
		`Row(f != 5)`,
		`Row(f != null)`,
		`Row(f == null)`,
		`Row(-5 < f < 10)`,
		`Row(-5 <= f <= 10)`,
		`Row(f >< [1, 10])`,
		`Row(f=1, from=2018-01-01T00:00, to=2019-01-01T00:00)`,
		`Row(f=1, from='2018-01-01T00:00', to="2019-01-01T00:00")`,
		`Set(1, f=2)`,
		`Set(1, f=2, 2018-03-04T05:06)`,
		`Set("col", f="row")`,
		`Set('col', f='row')`,
		`Clear(1, f=2)`,
		`ClearRow(f=2)`,
		`Store(Row(f=1), g=2)`,
		`TopN(f, n=5)`,
		`TopN(f, Row(g=1), n=5, attrName="x", attrValues=[1, "a", 2.5, true, null])`,
		`TopN(f, ids=[1, 2, 3])`,
		`Rows(field=f, limit=5, previous=3, column=7)`,
		`Rows(field=f, previous="k")`,
		`GroupBy(Rows(field=a), Rows(field=b), limit=3, filter=Row(c=1))`,
		`Union(Row(a=1), Intersect(Row(b=2), Not(Row(c=3))), Xor(Row(d=4), Difference(Row(e=5), Row(f=6))))`,
		`Shift(Row(a=1), n=2)`,
		`Count(Row(a=1))`,
		`Sum(Row(a=1), field=v)`,
		`Min(field=v)`,
		`Max(field=v)`,
		`SetRowAttrs(f, 1, a="x", b=2, c=1.5, d=true, e=null)`,
		`SetColumnAttrs(1, a="x y", b=-2)`,
		`Options(Row(f=1), columnAttrs=true, excludeColumns=true, excludeRowAttrs=false, shards=[1, 3])`,
		`Row(f=1)Row(g=2) Count(Row(h=3))`,
		`Row(f_1-x=1)`,
		`Row(f=9223372036854775807)`,
		`Row(f=-9223372036854775808)`,
		`Set(18446744073709551615, f=1)`,
		`Row(f="")`,
		`Row(f=a_bare_word)`,
		`Row(f=[1,2,3])`,
		`Row(f=["a","b"])`,
		`Row(f=[])`,
	}
	for _, src := range queries {
		q1, err := pql.ParseString(src)
		if err != nil {
			t.Logf("%s: does not parse: %v (skipped)", src, err)
			continue
		}
		s := q1.String()
		q2, err := pql.ParseString(s)
		if err != nil {
			t.Errorf("%s\n  formatted as %s\n  which does not parse: %v", src, s, err)
			continue
		}
		if !reflect.DeepEqual(q1.Calls, q2.Calls) {
			t.Errorf("%s\n  formatted as %s\n  re-parses differently:\n   %#v\n   %#v", src, s, describe(q1), describe(q2))
		}
	}
}

func describe(q *pql.Query) []string {
	var out []string
	for _, c := range q.Calls {
		out = append(out, c.String())
	}
	return out
}
