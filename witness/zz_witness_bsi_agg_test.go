package pilosa_test

import (
	"context"
	"fmt"
	"reflect"
	"testing"

	"github.com/pilosa/pilosa"
	"github.com/pilosa/pilosa/test"
)

func TestWitness_C14_BetweenAndAggregates(t *testing.T) {
	for _, bounds := range [][2]int64{{-1000, 1000}, {-50, -1}, {3, 90}, {0, 7}, {-7, 0}} {
		t.Run(fmt.Sprint(bounds), func(t *testing.T) {
			c := test.MustRunCluster(t, 1)
			defer c.Close()
			hldr := test.Holder{Holder: c[0].Server.Holder()}
			idx, err := hldr.CreateIndex("i", pilosa.IndexOptions{})
			if err != nil {
				t.Fatal(err)
			}
			if _, err := idx.CreateField("v", pilosa.OptFieldTypeInt(bounds[0], bounds[1])); err != nil {
				t.Fatal(err)
			}
			if _, err := idx.CreateField("f", pilosa.OptFieldTypeDefault()); err != nil {
				t.Fatal(err)
			}
			// values spread over the declared range
			var stored []int64
			span := bounds[1] - bounds[0]
			for i, v := range []int64{bounds[0], bounds[0] + 1, bounds[0] + span/3, bounds[0] + span/2, bounds[1] - 1, bounds[1]} {
				_ = i
				stored = append(stored, v)
			}
			vals := map[uint64]int64{}
			q := ""
			for i, v := range stored {
				col := uint64(i + 1)
				if i == 5 {
					col = pilosa.ShardWidth + 3
				}
				vals[col] = v
				q += fmt.Sprintf("Set(%d, v=%d) ", col, v)
				if i%2 == 0 {
					q += fmt.Sprintf("Set(%d, f=1) ", col)
				}
			}
			if _, err := c[0].API.Query(context.Background(), &pilosa.QueryRequest{Index: "i", Query: q}); err != nil {
				t.Fatal(err)
			}
			run := func(q string) interface{} {
				res, err := c[0].API.Query(context.Background(), &pilosa.QueryRequest{Index: "i", Query: q})
				if err != nil {
					t.Errorf("%s: %v", q, err)
					return nil
				}
				return res.Results[0]
			}
			cols := func(pred func(int64) bool) []uint64 {
				var out []uint64
				for _, col := range []uint64{1, 2, 3, 4, 5, pilosa.ShardWidth + 3} {
					if pred(vals[col]) {
						out = append(out, col)
					}
				}
				return out
			}
			probes := []int64{bounds[0] - 2, bounds[0] - 1, bounds[0], bounds[0] + 1, -2, -1, 0, 1, 2, bounds[1] - 1, bounds[1], bounds[1] + 1, bounds[1] + 2}
			for _, p := range probes {
				for _, op := range []string{"<", "<=", ">", ">=", "==", "!="} {
					p := p
					var pred func(int64) bool
					switch op {
					case "<":
						pred = func(v int64) bool { return v < p }
					case "<=":
						pred = func(v int64) bool { return v <= p }
					case ">":
						pred = func(v int64) bool { return v > p }
					case ">=":
						pred = func(v int64) bool { return v >= p }
					case "==":
						pred = func(v int64) bool { return v == p }
					case "!=":
						pred = func(v int64) bool { return v != p }
					}
					q := fmt.Sprintf("Row(v %s %d)", op, p)
					r := run(q)
					if r == nil {
						continue
					}
					got, exp := r.(*pilosa.Row).Columns(), cols(pred)
					if len(got)+len(exp) > 0 && !reflect.DeepEqual(got, exp) {
						t.Errorf("%s: got %v, want %v", q, got, exp)
					}
				}
				for _, p2 := range probes {
					if p2 < p {
						continue
					}
					p, p2 := p, p2
					q := fmt.Sprintf("Row(%d <= v <= %d)", p, p2)
					r := run(q)
					if r != nil {
						got, exp := r.(*pilosa.Row).Columns(), cols(func(v int64) bool { return p <= v && v <= p2 })
						if len(got)+len(exp) > 0 && !reflect.DeepEqual(got, exp) {
							t.Errorf("%s: got %v, want %v", q, got, exp)
						}
					}
					q = fmt.Sprintf("Row(%d < v < %d)", p, p2)
					r = run(q)
					if r != nil {
						got, exp := r.(*pilosa.Row).Columns(), cols(func(v int64) bool { return p < v && v < p2 })
						if len(got)+len(exp) > 0 && !reflect.DeepEqual(got, exp) {
							t.Errorf("%s: got %v, want %v", q, got, exp)
						}
					}
				}
			}
			// aggregates
			var sum, n int64
			min, max := int64(1<<62), int64(-1<<62)
			var nmin, nmax int64
			for _, v := range vals {
				sum += v
				n++
				if v < min {
					min, nmin = v, 0
				}
				if v == min {
					nmin++
				}
				if v > max {
					max, nmax = v, 0
				}
				if v == max {
					nmax++
				}
			}
			if r := run("Sum(field=v)"); r != nil {
				if got := r.(pilosa.ValCount); got.Val != sum || got.Count != n {
					t.Errorf("Sum: got %+v want %d/%d", got, sum, n)
				}
			}
			if r := run("Min(field=v)"); r != nil {
				if got := r.(pilosa.ValCount); got.Val != min || got.Count != nmin {
					t.Errorf("Min: got %+v want %d/%d", got, min, nmin)
				}
			}
			if r := run("Max(field=v)"); r != nil {
				if got := r.(pilosa.ValCount); got.Val != max || got.Count != nmax {
					t.Errorf("Max: got %+v want %d/%d", got, max, nmax)
				}
			}
			// filtered
			var fsum, fn int64
			fmin, fmax := int64(1<<62), int64(-1<<62)
			for col, v := range vals {
				idx := col
				if col > 10 {
					idx = 6
				}
				if (idx-1)%2 != 0 {
					continue
				}
				fsum += v
				fn++
				if v < fmin {
					fmin = v
				}
				if v > fmax {
					fmax = v
				}
			}
			if r := run("Sum(Row(f=1), field=v)"); r != nil {
				if got := r.(pilosa.ValCount); got.Val != fsum || got.Count != fn {
					t.Errorf("Sum filtered: got %+v want %d/%d", got, fsum, fn)
				}
			}
			if r := run("Min(Row(f=1), field=v)"); r != nil {
				if got := r.(pilosa.ValCount); got.Val != fmin {
					t.Errorf("Min filtered: got %+v want %d", got, fmin)
				}
			}
			if r := run("Max(Row(f=1), field=v)"); r != nil {
				if got := r.(pilosa.ValCount); got.Val != fmax {
					t.Errorf("Max filtered: got %+v want %d", got, fmax)
				}
			}
		})
	}
}
