package pilosa_test

import (
	"context"
	"reflect"
	"testing"

	"github.com/pilosa/pilosa"
	"github.com/pilosa/pilosa/test"
)

// Witness for C18 (reported by a seeding agent as present on the tree):
// minMaxViews recognises a time view of the quantum's coarsest unit by the
// length of the last "_" part of its name; "standard" has 8 characters, the
// length of a day stamp, so on a field whose coarsest unit is the day the
// standard view is taken for a day view and Rows(from=, to=) fails.
func TestWitness_C18_RowsRangeDayQuantum(t *testing.T) {
	for _, q := range []string{"D", "DH", "MD", "YMD", "YMDH", "H"} {
		t.Run(q, func(t *testing.T) {
			c := test.MustRunCluster(t, 1)
			defer c.Close()
			ctx := context.Background()
			if _, err := c[0].API.CreateIndex(ctx, "i", pilosa.IndexOptions{}); err != nil {
				t.Fatal(err)
			}
			if _, err := c[0].API.CreateField(ctx, "i", "t", pilosa.OptFieldTypeTime(pilosa.TimeQuantum(q))); err != nil {
				t.Fatal(err)
			}
			for _, s := range []string{"Set(1, t=10, 2018-03-04T05:00)", "Set(2, t=11, 2018-03-05T06:00)", "Set(3, t=12, 2018-04-09T07:00)"} {
				if _, err := c[0].API.Query(ctx, &pilosa.QueryRequest{Index: "i", Query: s}); err != nil {
					t.Fatal(err)
				}
			}
			for _, tc := range []struct {
				q    string
				want []uint64
			}{
				{"Rows(t, from=2018-03-04T00:00, to=2018-03-06T00:00)", []uint64{10, 11}},
				{"Rows(t, from=2018-03-05T00:00, to=2018-05-01T00:00)", []uint64{11, 12}},
				{"Rows(t, from=2018-03-05T00:00)", []uint64{11, 12}},
				{"Rows(t, to=2018-03-05T00:00)", []uint64{10}},
				{"Rows(t)", []uint64{10, 11, 12}},
			} {
				resp, err := c[0].API.Query(ctx, &pilosa.QueryRequest{Index: "i", Query: tc.q})
				if err != nil {
					t.Errorf("%s: %v", tc.q, err)
					continue
				}
				got := []uint64(resp.Results[0].(pilosa.RowIdentifiers).Rows)
				if !(len(got) == 0 && len(tc.want) == 0) && !reflect.DeepEqual(got, tc.want) {
					t.Errorf("%s: got %v, want %v", tc.q, got, tc.want)
				}
			}
		})
	}
}
