package pilosa

import (
	"errors"
	"sync"
	"testing"
	"time"
)

// Witness for C22 (reported by a seeding agent from reading the code): when a
// resize job cannot distribute its instructions, run() reports "aborted" and
// returns the error; handleNodeAction then returned errors.Wrap(nil, ..) = nil
// before completing the job, so currentJob stayed set and every later resize
// was refused with "there is currently a resize job running".
type witnessFailingBroadcaster struct {
	mu   sync.Mutex
	fail bool
	sent int
}

func (b *witnessFailingBroadcaster) SendSync(Message) error  { return nil }
func (b *witnessFailingBroadcaster) SendAsync(Message) error { return nil }
func (b *witnessFailingBroadcaster) SendTo(to *Node, m Message) error {
	b.mu.Lock()
	defer b.mu.Unlock()
	if _, ok := m.(*ResizeInstruction); ok {
		b.sent++
		if b.fail {
			return errors.New("node unreachable")
		}
	}
	return nil
}

func TestWitness_C22_FailedDistributionFreesTheJobSlot(t *testing.T) {
	tc := NewClusterCluster(0)
	if err := tc.addNode(); err != nil {
		t.Fatalf("adding node: %v", err)
	}
	coord := tc.Clusters[0]
	b := &witnessFailingBroadcaster{fail: true}
	coord.broadcaster = b
	if err := tc.Open(); err != nil {
		t.Fatal(err)
	}
	defer func() {
		done := make(chan struct{})
		go func() { _ = tc.Close(); close(done) }()
		select {
		case <-done:
		case <-time.After(5 * time.Second):
			t.Errorf("closing the cluster blocked")
		}
	}()
	if err := tc.CreateField("i", "f", OptFieldTypeDefault()); err != nil {
		t.Fatal(err)
	}
	for s := uint64(0); s < 8; s++ {
		if err := tc.SetBit("i", "f", 1, s*ShardWidth+1, nil); err != nil {
			t.Fatal(err)
		}
	}
	node1 := &Node{ID: "node1", URI: NewTestURI("http", "host1", 0)}
	err := coord.handleNodeAction(nodeAction{node: node1, action: resizeJobActionAdd})
	t.Logf("handleNodeAction with an unreachable node: err=%v, instructions attempted=%d", err, b.sent)
	coord.mu.RLock()
	stuck := coord.currentJob != nil
	coord.mu.RUnlock()
	if stuck {
		t.Errorf("the failed job still occupies currentJob")
	}
	// the node becomes reachable: the next attempt must be able to start
	b.mu.Lock()
	b.fail = false
	b.mu.Unlock()
	coord.mu.Lock()
	_, err = coord.unprotectedGenerateResizeJob(nodeAction{node: node1, action: resizeJobActionAdd})
	coord.mu.Unlock()
	if err != nil {
		t.Errorf("a later resize is refused: %v", err)
	}
}
