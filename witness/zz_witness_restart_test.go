package pilosa_test

import (
	"context"
	"fmt"
	"math/rand"
	"reflect"
	"strings"
	"testing"

	"github.com/pilosa/pilosa"
	"github.com/pilosa/pilosa/test"
)

// C05/C08: after a clean restart every query answers as before.
func TestWitness_C08_RestartPreservesAnswers(t *testing.T) {
	for seed := int64(1); seed <= 4; seed++ {
		t.Run(fmt.Sprint("seed", seed), func(t *testing.T) {
			rng := rand.New(rand.NewSource(seed))
			c := test.MustRunCluster(t, 1)
			defer c.Close()
			ctx := context.Background()
			api := func() *pilosa.API { return c[0].API }
			if _, err := api().CreateIndex(ctx, "i", pilosa.IndexOptions{TrackExistence: true}); err != nil {
				t.Fatal(err)
			}
			if _, err := api().CreateIndex(ctx, "k", pilosa.IndexOptions{Keys: true}); err != nil {
				t.Fatal(err)
			}
			mk := func(idx, name string, opts ...pilosa.FieldOption) {
				if _, err := api().CreateField(ctx, idx, name, opts...); err != nil {
					t.Fatal(err)
				}
			}
			mk("i", "s", pilosa.OptFieldTypeSet(pilosa.CacheTypeRanked, 50))
			mk("i", "m", pilosa.OptFieldTypeMutex(pilosa.CacheTypeRanked, 50))
			mk("i", "b", pilosa.OptFieldTypeBool())
			mk("i", "v", pilosa.OptFieldTypeInt(-500, 500))
			mk("i", "t", pilosa.OptFieldTypeTime(pilosa.TimeQuantum("YMD")))
			mk("k", "ks", pilosa.OptFieldTypeSet(pilosa.CacheTypeRanked, 50), pilosa.OptFieldKeys())
			cols := []uint64{0, 1, 2, 3, 65536, pilosa.ShardWidth, pilosa.ShardWidth + 9, 3*pilosa.ShardWidth + 1}
			var ops []string
			for i := 0; i < 120; i++ {
				col := cols[rng.Intn(len(cols))]
				switch rng.Intn(9) {
				case 0, 1:
					ops = append(ops, fmt.Sprintf("Set(%d, s=%d)", col, rng.Intn(4)))
				case 2:
					ops = append(ops, fmt.Sprintf("Clear(%d, s=%d)", col, rng.Intn(4)))
				case 3:
					ops = append(ops, fmt.Sprintf("Set(%d, m=%d)", col, rng.Intn(4)))
				case 4:
					ops = append(ops, fmt.Sprintf("Set(%d, b=%v)", col, rng.Intn(2) == 0))
				case 5:
					ops = append(ops, fmt.Sprintf("Set(%d, v=%d)", col, rng.Intn(1000)-500))
				case 6:
					ops = append(ops, fmt.Sprintf("Set(%d, t=%d, 2018-0%d-1%dT00:00)", col, rng.Intn(3), 1+rng.Intn(9), rng.Intn(9)))
				case 7:
					ops = append(ops, fmt.Sprintf("ClearRow(s=%d)", rng.Intn(4)))
				case 8:
					ops = append(ops, fmt.Sprintf("SetRowAttrs(s, %d, x=%d, y=\"a%d\")", rng.Intn(4), rng.Intn(9), rng.Intn(9)))
				}
			}
			if _, err := api().Query(ctx, &pilosa.QueryRequest{Index: "i", Query: strings.Join(ops, " ")}); err != nil {
				t.Fatal(err)
			}
			if _, err := api().Query(ctx, &pilosa.QueryRequest{Index: "i", Query: "Store(Union(Row(s=0), Row(s=1)), s=9) SetColumnAttrs(1, z=3)"}); err != nil {
				t.Fatal(err)
			}
			var kops []string
			for i := 0; i < 20; i++ {
				kops = append(kops, fmt.Sprintf(`Set("c%d", ks="r%d")`, rng.Intn(6), rng.Intn(3)))
			}
			if _, err := api().Query(ctx, &pilosa.QueryRequest{Index: "k", Query: strings.Join(kops, " ")}); err != nil {
				t.Fatal(err)
			}
			type probe struct{ idx, q string }
			var probes []probe
			for r := 0; r < 4; r++ {
				probes = append(probes, probe{"i", fmt.Sprintf("Row(s=%d)", r)}, probe{"i", fmt.Sprintf("Row(m=%d)", r)}, probe{"i", fmt.Sprintf("Row(t=%d, from=2018-01-01T00:00, to=2018-06-15T00:00)", r)})
			}
			probes = append(probes, probe{"i", "Row(s=9)"}, probe{"i", "Row(b=true)"}, probe{"i", "Row(b=false)"}, probe{"i", "Row(v > -100)"}, probe{"i", "Row(v < 0)"}, probe{"i", "Row(v != null)"},
				probe{"i", "Sum(field=v)"}, probe{"i", "Min(field=v)"}, probe{"i", "Max(field=v)"}, probe{"i", "Not(Row(s=0))"},
				probe{"i", "Rows(field=s)"}, probe{"i", "Rows(field=t)"}, probe{"i", "GroupBy(Rows(field=s), Rows(field=m))"}, probe{"i", "Count(Row(s=1))"},
				probe{"k", `Row(ks="r0")`}, probe{"k", `Row(ks="r1")`}, probe{"k", "Rows(field=ks)"})
			ask := func() []interface{} {
				var out []interface{}
				for _, p := range probes {
					res, err := api().Query(ctx, &pilosa.QueryRequest{Index: p.idx, Query: p.q})
					if err != nil {
						out = append(out, "error: "+err.Error())
						continue
					}
					switch v := res.Results[0].(type) {
					case *pilosa.Row:
						out = append(out, fmt.Sprint(v.Columns(), v.Keys, v.Attrs))
					default:
						out = append(out, fmt.Sprintf("%v", v))
					}
				}
				return out
			}
			before := ask()
			schemaBefore := schemaString(api().Schema(ctx))
			if err := c[0].Reopen(); err != nil {
				t.Fatal(err)
			}
			after := ask()
			for i := range probes {
				if !reflect.DeepEqual(before[i], after[i]) {
					t.Errorf("%s %s:\n before %v\n after  %v", probes[i].idx, probes[i].q, before[i], after[i])
				}
			}
			if s := schemaString(api().Schema(ctx)); s != schemaBefore {
				t.Errorf("schema changed:\n before %s\n after  %s", schemaBefore, s)
			}
			// and once more after further writes
			if _, err := api().Query(ctx, &pilosa.QueryRequest{Index: "i", Query: "Set(2, s=1) Clear(1, s=0) Set(3, v=77) Set(3, m=2)"}); err != nil {
				t.Fatal(err)
			}
			before = ask()
			if err := c[0].Reopen(); err != nil {
				t.Fatal(err)
			}
			after = ask()
			for i := range probes {
				if !reflect.DeepEqual(before[i], after[i]) {
					t.Errorf("(2nd restart) %s %s:\n before %v\n after  %v", probes[i].idx, probes[i].q, before[i], after[i])
				}
			}
		})
	}
}

func schemaString(s []*pilosa.IndexInfo) string {
	out := ""
	for _, ii := range s {
		out += fmt.Sprintf("%s %+v [", ii.Name, ii.Options)
		for _, f := range ii.Fields {
			out += fmt.Sprintf("%s %+v views=%d; ", f.Name, f.Options, len(f.Views))
		}
		out += "] "
	}
	return out
}
