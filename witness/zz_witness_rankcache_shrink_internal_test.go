package pilosa

import (
	"io/ioutil"
	"testing"
)

// Witness for C12: a cached row that shrinks to a non-zero count below the
// rank cache's admission threshold. rankCache.Add/BulkAdd ignored such an
// update without touching the existing entry, so the old, larger count stayed
// in the cache and TopN(ids=[row]) reported it.
func TestWitness_RankCache_ShrinkBelowThreshold(t *testing.T) {
	for _, how := range []string{"clearBit", "import"} {
		t.Run(how, func(t *testing.T) {
			file, err := ioutil.TempFile(*TempDir, "pilosa-fragment-")
			if err != nil {
				t.Fatal(err)
			}
			file.Close()
			f := newFragment(file.Name(), "i", "f", viewStandard, 0, 0)
			f.CacheType = CacheTypeRanked
			f.CacheSize = 3
			f.RowAttrStore = &memAttrStore{store: make(map[uint64]map[string]interface{})}
			f.snapshotQueue = newSnapshotQueue(1, 1, nil)
			if err := f.Open(); err != nil {
				t.Fatal(err)
			}
			defer f.Clean(t)
			// rows 1..5 with 10, 9, 8, 7, 6 columns: two more than the cache holds
			for row := uint64(1); row <= 5; row++ {
				for col := uint64(0); col < 11-row; col++ {
					if _, err := f.setBit(row, col); err != nil {
						t.Fatal(err)
					}
				}
			}
			f.RecalculateCache() // threshold becomes the count of the first row ranked out
			// row 2 shrinks from 9 to 4 columns
			if how == "clearBit" {
				for col := uint64(0); col < 5; col++ {
					if _, err := f.clearBit(2, col); err != nil {
						t.Fatal(err)
					}
				}
			} else {
				if err := f.bulkImport([]uint64{2, 2, 2, 2, 2}, []uint64{0, 1, 2, 3, 4}, &ImportOptions{Clear: true}); err != nil {
					t.Fatal(err)
				}
			}
			want := f.row(2).Count()
			if want != 4 {
				t.Fatalf("storage count of row 2 = %d, want 4", want)
			}
			pairs, err := f.top(topOptions{RowIDs: []uint64{2}})
			if err != nil {
				t.Fatal(err)
			}
			if len(pairs) != 1 || pairs[0].ID != 2 || pairs[0].Count != want {
				t.Fatalf("TopN(ids=[2]) = %v, the row has %d columns", pairs, want)
			}
		})
	}
}
