package pilosa_test

import (
	"context"
	"fmt"
	"reflect"
	"testing"

	"github.com/pilosa/pilosa"
	"github.com/pilosa/pilosa/test"
)

func TestWitness_C14_ImportOverwrite(t *testing.T) {
	c := test.MustRunCluster(t, 1)
	defer c.Close()
	hldr := test.Holder{Holder: c[0].Server.Holder()}
	idx, err := hldr.CreateIndex("i", pilosa.IndexOptions{})
	if err != nil {
		t.Fatal(err)
	}
	if _, err := idx.CreateField("v", pilosa.OptFieldTypeInt(-1000, 1000)); err != nil {
		t.Fatal(err)
	}
	ctx := context.Background()
	vals := map[uint64]int64{}
	imp := func(cols []uint64, vs []int64) {
		// group by shard
		byShard := map[uint64][2][]int64{}
		for i, col := range cols {
			sh := col / pilosa.ShardWidth
			e := byShard[sh]
			e[0] = append(e[0], int64(col))
			e[1] = append(e[1], vs[i])
			byShard[sh] = e
			vals[col] = vs[i]
		}
		for sh, e := range byShard {
			cs := make([]uint64, len(e[0]))
			for i, c := range e[0] {
				cs[i] = uint64(c)
			}
			req := &pilosa.ImportValueRequest{Index: "i", Field: "v", Shard: sh, ColumnIDs: cs, Values: e[1]}
			if err := c[0].API.ImportValue(ctx, req); err != nil {
				t.Fatal(err)
			}
		}
	}
	check := func(stage string) {
		var sum, n int64
		for _, v := range vals {
			sum += v
			n++
		}
		res, err := c[0].API.Query(ctx, &pilosa.QueryRequest{Index: "i", Query: "Sum(field=v)"})
		if err != nil {
			t.Fatal(err)
		}
		if got := res.Results[0].(pilosa.ValCount); got.Val != sum || got.Count != n {
			t.Errorf("%s Sum: got %+v want %d/%d", stage, got, sum, n)
		}
		for _, p := range []int64{-8, -7, -3, -1, 0, 1, 2, 5, 6, 300} {
			for _, op := range []string{"<", ">", "==", "<=", ">="} {
				var exp []uint64
				for _, col := range []uint64{1, 2, 3, 4, pilosa.ShardWidth + 1, pilosa.ShardWidth + 2} {
					v, ok := vals[col]
					if !ok {
						continue
					}
					m := false
					switch op {
					case "<":
						m = v < p
					case ">":
						m = v > p
					case "==":
						m = v == p
					case "<=":
						m = v <= p
					case ">=":
						m = v >= p
					}
					if m {
						exp = append(exp, col)
					}
				}
				q := fmt.Sprintf("Row(v %s %d)", op, p)
				res, err := c[0].API.Query(ctx, &pilosa.QueryRequest{Index: "i", Query: q})
				if err != nil {
					t.Errorf("%s: %v", q, err)
					continue
				}
				got := res.Results[0].(*pilosa.Row).Columns()
				if len(got)+len(exp) > 0 && !reflect.DeepEqual(got, exp) {
					t.Errorf("%s %s: got %v want %v", stage, q, got, exp)
				}
			}
		}
	}
	imp([]uint64{1, 2, 3, pilosa.ShardWidth + 1}, []int64{-3, 5, -7, 6})
	check("first import")
	imp([]uint64{1, 3, 4, pilosa.ShardWidth + 2}, []int64{2, 0, -1, 300})
	check("overwrite")
	// single-value overwrite through PQL
	if _, err := c[0].API.Query(ctx, &pilosa.QueryRequest{Index: "i", Query: "Set(2, v=-5) Set(4, v=1)"}); err != nil {
		t.Fatal(err)
	}
	vals[2], vals[4] = -5, 1
	check("set overwrite")
	// duplicate column in one import: last wins
	imp([]uint64{1, 1}, []int64{-9, 7})
	vals[1] = 7
	check("duplicate in batch")
}
