package pilosa_test

import (
	"context"
	"testing"
	"time"

	"github.com/pilosa/pilosa"
	"github.com/pilosa/pilosa/test"
)

func TestWitness_C06_ImportRoaringTinyPayload(t *testing.T) {
	c := test.MustRunCluster(t, 1)
	defer c.Close()
	hldr := test.Holder{Holder: c[0].Server.Holder()}
	index := hldr.MustCreateIndexIfNotExists("i", pilosa.IndexOptions{})
	if _, err := index.CreateField("f", pilosa.OptFieldTypeDefault()); err != nil {
		t.Fatal(err)
	}
	for _, payload := range [][]byte{{0x3c}, {0x3c, 0x30, 0, 0, 0xff, 0xff, 0xff, 0xff}} {
		done := make(chan error, 1)
		go func() {
			done <- c[0].API.ImportRoaring(context.Background(), "i", "f", 0, false, &pilosa.ImportRoaringRequest{Views: map[string][]byte{"": payload}})
		}()
		select {
		case err := <-done:
			if err == nil {
				t.Errorf("malformed payload %v accepted", payload)
			}
		case <-time.After(5 * time.Second):
			t.Fatalf("import of %v never returned", payload)
		}
	}
}
