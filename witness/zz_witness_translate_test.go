package pilosa_test

import (
	"fmt"
	"io/ioutil"
	"math/rand"
	"os"
	"testing"

	"github.com/pilosa/pilosa"
)

// C24: key translation is a stable bijection across batches, restarts and namespaces.
func TestWitness_C24_TranslateModel(t *testing.T) {
	for seed := int64(1); seed <= 6; seed++ {
		t.Run(fmt.Sprint("seed", seed), func(t *testing.T) {
			rng := rand.New(rand.NewSource(seed))
			f, err := ioutil.TempFile("", "translate-")
			if err != nil {
				t.Fatal(err)
			}
			f.Close()
			defer os.Remove(f.Name())
			open := func() *pilosa.TranslateFile {
				s := pilosa.NewTranslateFile(pilosa.OptTranslateFileMapSize(2 << 20))
				s.Path = f.Name()
				if err := s.Open(); err != nil {
					t.Fatal(err)
				}
				return s
			}
			s := open()
			defer func() { s.Close() }()
			type ns struct{ index, field string }
			spaces := []ns{{"i", ""}, {"i", "f"}, {"i", "g"}, {"j", ""}, {"j", "f"}}
			fwd := map[ns]map[string]uint64{}
			rev := map[ns]map[uint64]string{}
			translate := func(n ns, keys []string) []uint64 {
				var ids []uint64
				var err error
				if n.field == "" {
					ids, err = s.TranslateColumnsToUint64(n.index, keys)
				} else {
					ids, err = s.TranslateRowsToUint64(n.index, n.field, keys)
				}
				if err != nil {
					t.Fatal(err)
				}
				return ids
			}
			back := func(n ns, id uint64) string {
				var k string
				var err error
				if n.field == "" {
					k, err = s.TranslateColumnToString(n.index, id)
				} else {
					k, err = s.TranslateRowToString(n.index, n.field, id)
				}
				if err != nil {
					t.Fatal(err)
				}
				return k
			}
			checkAll := func(stage string) {
				for n, m := range fwd {
					for k, id := range m {
						if got := translate(n, []string{k}); got[0] != id {
							t.Fatalf("%s: %v key %q was %d, now %d", stage, n, k, id, got[0])
						}
						if got := back(n, id); got != k {
							t.Fatalf("%s: %v id %d was %q, now %q", stage, n, id, k, got)
						}
					}
				}
			}
			for step := 0; step < 80; step++ {
				n := spaces[rng.Intn(len(spaces))]
				var keys []string
				for k := 0; k < 1+rng.Intn(5); k++ {
					keys = append(keys, fmt.Sprintf("k%d", rng.Intn(25)))
				}
				ids := translate(n, keys)
				if len(ids) != len(keys) {
					t.Fatalf("len mismatch")
				}
				if fwd[n] == nil {
					fwd[n], rev[n] = map[string]uint64{}, map[uint64]string{}
				}
				for i, k := range keys {
					if ids[i] == 0 {
						t.Fatalf("step %d: %v key %q got id 0", step, n, k)
					}
					if old, ok := fwd[n][k]; ok && old != ids[i] {
						t.Fatalf("step %d: %v key %q was %d, now %d", step, n, k, old, ids[i])
					}
					if oldK, ok := rev[n][ids[i]]; ok && oldK != k {
						t.Fatalf("step %d: %v id %d belongs to %q and to %q (batch %v -> %v)", step, n, ids[i], oldK, k, keys, ids)
					}
					fwd[n][k], rev[n][ids[i]] = ids[i], k
				}
				if step%20 == 19 {
					if err := s.Close(); err != nil {
						t.Fatal(err)
					}
					s = open()
					checkAll(fmt.Sprintf("step %d after reopen", step))
				}
			}
			checkAll("end")
		})
	}
}
