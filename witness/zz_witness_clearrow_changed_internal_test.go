package pilosa

import (
	"bytes"
	"context"
	"testing"

	"github.com/pilosa/pilosa/roaring"
)

// Witness for C07 (reported by a seeding agent): clearRow reports a change
// for a row that is already empty when an earlier roaring clear-import left
// an empty container behind.
func TestWitness_C07_ClearRowOnEmptiedRowReportsNoChange(t *testing.T) {
	f := mustOpenFragment("i", "f", viewStandard, 0, "")
	defer f.Clean(t)
	for _, col := range []uint64{1, 2} {
		if _, err := f.setBit(7, col); err != nil {
			t.Fatal(err)
		}
	}
	b := roaring.NewBitmap(7*ShardWidth+1, 7*ShardWidth+2)
	var buf bytes.Buffer
	if _, err := b.WriteTo(&buf); err != nil {
		t.Fatal(err)
	}
	if err := f.importRoaring(context.Background(), buf.Bytes(), true); err != nil {
		t.Fatal(err)
	}
	if n := f.row(7).Count(); n != 0 {
		t.Fatalf("row 7 has %d columns after the clear import", n)
	}
	changed, err := f.clearRow(7)
	if err != nil {
		t.Fatal(err)
	}
	if changed {
		t.Errorf("clearRow(7) reported a change on a row that holds no bit")
	}
	// and it still reports a change when there is something to clear
	if _, err := f.setBit(8, 3); err != nil {
		t.Fatal(err)
	}
	if changed, _ := f.clearRow(8); !changed {
		t.Errorf("clearRow(8) reported no change although the row held a bit")
	}
}
