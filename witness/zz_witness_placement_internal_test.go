package pilosa

import (
	"fmt"
	"math/rand"
	"testing"
)

// C20: ownership depends only on the set of node IDs and the replica count.
func TestWitness_C20_OwnershipIndependentOfJoinOrder(t *testing.T) {
	rng := rand.New(rand.NewSource(2))
	for trial := 0; trial < 200; trial++ {
		n := 1 + rng.Intn(7)
		replicaN := rng.Intn(5) // 0 is treated as 1
		var nodes []*Node
		for i := 0; i < n; i++ {
			uri, _ := NewURIFromAddress(fmt.Sprintf("host%d", i))
			nodes = append(nodes, &Node{ID: fmt.Sprintf("node%02d", rng.Intn(90)+i*100), URI: *uri})
		}
		mk := func(order []int) *cluster {
			c := newCluster()
			c.ReplicaN = replicaN
			for _, i := range order {
				c.addNodeBasicSorted(nodes[i])
			}
			return c
		}
		a := mk(rng.Perm(n))
		b := mk(rng.Perm(n))
		want := replicaN
		if want < 1 {
			want = 1
		}
		if want > n {
			want = n
		}
		for shard := uint64(0); shard < 40; shard++ {
			oa, ob := a.shardNodes("i", shard), b.shardNodes("i", shard)
			if len(oa) != want {
				t.Fatalf("n=%d replicas=%d shard %d: %d owners, want %d", n, replicaN, shard, len(oa), want)
			}
			seen := map[string]bool{}
			for k := range oa {
				if oa[k].ID != ob[k].ID {
					t.Fatalf("n=%d replicas=%d shard %d: owners differ by join order: %v vs %v", n, replicaN, shard, Nodes(oa).IDs(), Nodes(ob).IDs())
				}
				if seen[oa[k].ID] {
					t.Fatalf("shard %d: owner %s twice", shard, oa[k].ID)
				}
				seen[oa[k].ID] = true
			}
			for _, nd := range nodes {
				if a.ownsShard(nd.ID, "i", shard) != seen[nd.ID] {
					t.Fatalf("ownsShard(%s, %d) = %v, owners %v", nd.ID, shard, a.ownsShard(nd.ID, "i", shard), Nodes(oa).IDs())
				}
			}
		}
	}
}
