package pilosa

import (
	"bytes"
	"context"
	"fmt"
	"math/rand"
	"reflect"
	"sort"
	"testing"

	"github.com/pilosa/pilosa/roaring"
)

// Broad triage: a fragment driven by random operations through every write
// path agrees with a map model on rows, counts, TopN, block checksums and
// after reopening.
func TestWitness_FragmentModel(t *testing.T) {
	for _, kind := range []string{"set", "mutex"} {
		for seed := int64(1); seed <= 8; seed++ {
			t.Run(fmt.Sprintf("%s/seed%d", kind, seed), func(t *testing.T) {
				rng := rand.New(rand.NewSource(seed))
				var f *fragment
				if kind == "mutex" {
					f = mustOpenMutexFragment("i", "f", viewStandard, 0, CacheTypeRanked)
				} else {
					f = mustOpenFragment("i", "f", viewStandard, 0, CacheTypeRanked)
				}
				defer f.Clean(t)
				f.MaxOpN = 30 // force snapshots now and then
				model := map[uint64]map[uint64]bool{}
				set := func(r, c uint64) {
					if kind == "mutex" {
						for rr := range model {
							delete(model[rr], c)
						}
					}
					if model[r] == nil {
						model[r] = map[uint64]bool{}
					}
					model[r][c] = true
				}
				clear := func(r, c uint64) { delete(model[r], c) }
				cols := []uint64{0, 1, 2, 3, 100, 65535, 65536, 70000, ShardWidth - 1}
				rowsPool := []uint64{0, 1, 2, 5, 99, 100, 101, 250}
				check := func(stage string) {
					for _, r := range rowsPool {
						var want []uint64
						for c := range model[r] {
							want = append(want, c)
						}
						sort.Slice(want, func(i, j int) bool { return want[i] < want[j] })
						got := f.row(r).Columns()
						if len(got)+len(want) > 0 && !reflect.DeepEqual(got, want) {
							t.Fatalf("%s: row %d: got %v want %v", stage, r, got, want)
						}
					}
					if kind == "mutex" {
						seen := map[uint64]uint64{}
						for _, r := range rowsPool {
							for _, c := range f.row(r).Columns() {
								if pr, ok := seen[c]; ok {
									t.Fatalf("%s: column %d set in rows %d and %d", stage, c, pr, r)
								}
								seen[c] = r
							}
						}
					}
					// TopN with a fresh cache
					f.RecalculateCache()
					pairs, err := f.top(topOptions{N: 100})
					if err != nil {
						t.Fatal(err)
					}
					gotCounts := map[uint64]uint64{}
					for i, p := range pairs {
						gotCounts[p.ID] = p.Count
						if i > 0 && pairs[i-1].Count < p.Count {
							t.Fatalf("%s: TopN not sorted: %v", stage, pairs)
						}
					}
					for _, r := range rowsPool {
						if n := uint64(len(model[r])); n != gotCounts[r] {
							t.Fatalf("%s: TopN count of row %d = %d, want %d (pairs %v)", stage, r, gotCounts[r], n, pairs)
						}
					}
					// rows()
					var wantRows []uint64
					for _, r := range rowsPool {
						if len(model[r]) > 0 {
							wantRows = append(wantRows, r)
						}
					}
					if got := f.rows(0); len(got)+len(wantRows) > 0 && !reflect.DeepEqual(got, wantRows) {
						t.Fatalf("%s: rows() = %v, want %v", stage, got, wantRows)
					}
				}
				blocksOf := func() map[int][]byte {
					m := map[int][]byte{}
					for _, b := range f.Blocks() {
						m[b.ID] = b.Checksum
					}
					return m
				}
				snapshot := func() map[int]string {
					// canonical content per block from the model
					m := map[int]string{}
					for r, cs := range model {
						if len(cs) == 0 {
							continue
						}
						var l []uint64
						for c := range cs {
							l = append(l, c)
						}
						sort.Slice(l, func(i, j int) bool { return l[i] < l[j] })
						m[int(r/HashBlockSize)] += fmt.Sprintf("%d:%v;", r, l)
					}
					return m
				}
				canon := func(m map[int]string) map[int]string {
					out := map[int]string{}
					for k := range m {
						// order of rows inside a block must be canonical
						var rows []string
						for r := range model {
							if int(r/HashBlockSize) == k && len(model[r]) > 0 {
								var l []uint64
								for c := range model[r] {
									l = append(l, c)
								}
								sort.Slice(l, func(i, j int) bool { return l[i] < l[j] })
								rows = append(rows, fmt.Sprintf("%06d:%v", r, l))
							}
						}
						sort.Strings(rows)
						out[k] = fmt.Sprint(rows)
					}
					return out
				}
				prevBlocks, prevContent := blocksOf(), canon(snapshot())
				for step := 0; step < 150; step++ {
					r, c := rowsPool[rng.Intn(len(rowsPool))], cols[rng.Intn(len(cols))]
					var desc string
					switch op := rng.Intn(10); {
					case op < 3:
						desc = fmt.Sprintf("setBit(%d,%d)", r, c)
						if _, err := f.setBit(r, c); err != nil {
							t.Fatal(err)
						}
						set(r, c)
					case op < 5:
						desc = fmt.Sprintf("clearBit(%d,%d)", r, c)
						if _, err := f.clearBit(r, c); err != nil {
							t.Fatal(err)
						}
						clear(r, c)
					case op < 7:
						n := 1 + rng.Intn(5)
						var rs, cs []uint64
						for k := 0; k < n; k++ {
							rs = append(rs, rowsPool[rng.Intn(len(rowsPool))])
							cs = append(cs, cols[rng.Intn(len(cols))])
						}
						clr := kind == "set" && rng.Intn(3) == 0
						desc = fmt.Sprintf("bulkImport(%v,%v,clear=%v)", rs, cs, clr)
						rs2, cs2 := append([]uint64{}, rs...), append([]uint64{}, cs...)
						if err := f.bulkImport(rs2, cs2, &ImportOptions{Clear: clr}); err != nil {
							t.Fatal(err)
						}
						for k := range rs {
							if clr {
								clear(rs[k], cs[k])
							} else {
								set(rs[k], cs[k])
							}
						}
					case op < 8 && kind == "set":
						bm := roaring.NewBitmap()
						n := 1 + rng.Intn(4)
						var ps [][2]uint64
						for k := 0; k < n; k++ {
							rr, cc := rowsPool[rng.Intn(len(rowsPool))], cols[rng.Intn(len(cols))]
							bm.Add(rr*ShardWidth + cc)
							ps = append(ps, [2]uint64{rr, cc})
						}
						clr := rng.Intn(3) == 0
						desc = fmt.Sprintf("importRoaring(%v,clear=%v)", ps, clr)
						var buf bytes.Buffer
						if _, err := bm.WriteTo(&buf); err != nil {
							t.Fatal(err)
						}
						if err := f.importRoaring(context.Background(), buf.Bytes(), clr); err != nil {
							t.Fatal(err)
						}
						for _, pp := range ps {
							if clr {
								clear(pp[0], pp[1])
							} else {
								set(pp[0], pp[1])
							}
						}
					case op < 9 && kind == "set":
						desc = fmt.Sprintf("clearRow(%d)", r)
						if _, err := f.clearRow(r); err != nil {
							t.Fatal(err)
						}
						delete(model, r)
					case kind == "set":
						src := NewRow()
						var l []uint64
						for k := 0; k < rng.Intn(4); k++ {
							cc := cols[rng.Intn(len(cols))]
							src.SetBit(cc)
							l = append(l, cc)
						}
						desc = fmt.Sprintf("setRow(%d,%v)", r, l)
						if _, err := f.setRow(src, r); err != nil {
							t.Fatal(err)
						}
						model[r] = map[uint64]bool{}
						for _, cc := range l {
							model[r][cc] = true
						}
					default:
						continue
					}
					check(fmt.Sprintf("step %d after %s", step, desc))
					// checksums change exactly when block content changes
					nb, nc := blocksOf(), canon(snapshot())
					for id := range nc {
						if prevContent[id] != nc[id] && bytes.Equal(prevBlocks[id], nb[id]) && prevBlocks[id] != nil {
							t.Fatalf("step %d after %s: block %d content changed but checksum did not", step, desc, id)
						}
						if prevContent[id] == nc[id] && prevBlocks[id] != nil && !bytes.Equal(prevBlocks[id], nb[id]) {
							t.Fatalf("step %d after %s: block %d checksum changed but content did not", step, desc, id)
						}
					}
					for id := range nb {
						if _, ok := nc[id]; !ok {
							t.Fatalf("step %d after %s: block %d reported but model has no bits there", step, desc, id)
						}
					}
					prevBlocks, prevContent = nb, nc
					if step%40 == 39 {
						if err := f.Reopen(); err != nil {
							t.Fatal(err)
						}
						check(fmt.Sprintf("step %d after reopen", step))
					}
				}
			})
		}
	}
}
