package pilosa_test

import (
	"context"
	"errors"
	"testing"

	"github.com/pilosa/pilosa"
	"github.com/pilosa/pilosa/test"
)

type failingWriter struct{}

func (failingWriter) Write(p []byte) (int, error) { return 0, errors.New("disk full") }

func TestWitness_C30_ExportReportsFlushError(t *testing.T) {
	c := test.MustRunCluster(t, 1)
	defer c.Close()
	hldr := test.Holder{Holder: c[0].Server.Holder()}
	index := hldr.MustCreateIndexIfNotExists("i", pilosa.IndexOptions{})
	if _, err := index.CreateField("f", pilosa.OptFieldTypeDefault()); err != nil {
		t.Fatal(err)
	}
	if _, err := c[0].API.Query(context.Background(), &pilosa.QueryRequest{Index: "i", Query: `Set(3, f=10)`}); err != nil {
		t.Fatal(err)
	}
	if err := c[0].API.ExportCSV(context.Background(), "i", "f", 0, failingWriter{}); err == nil {
		t.Fatalf("ExportCSV reported success although nothing could be written")
	}
}
