package pilosa_test

import (
	"context"
	"fmt"
	"reflect"
	"sort"
	"testing"

	"github.com/pilosa/pilosa"
	"github.com/pilosa/pilosa/test"
)

// Witness for C14: int fields at tiny bit depths (0, 1, 2), every declared
// range shape (spanning zero, positive, negative), every operator and
// aggregate, with and without a filter, two shards; compared with a model.
func TestWitness_C14_SmallDepthModel(t *testing.T) {
	type cfg struct{ min, max int64 }
	cfgs := []cfg{{-10, 100}, {0, 100}, {5, 100}, {-100, -5}, {-3, 3}, {-1000, 1000}}
	for _, cf := range cfgs {
		base := int64(0)
		if cf.min > 0 {
			base = cf.min
		} else if cf.max < 0 {
			base = cf.max
		}
		// value sets relative to the base: depth 0, 1, 2
		valueSets := [][]int64{{0}, {0, 0}, {0, 1}, {0, -1}, {1}, {-1}, {0, 1, -1}, {2, -2, 0}, {3, 1}}
		for vi, rel := range valueSets {
			var vals []int64
			ok := true
			for _, r := range rel {
				v := base + r
				if v < cf.min || v > cf.max {
					ok = false
				}
				vals = append(vals, v)
			}
			if !ok {
				continue
			}
			t.Run(fmt.Sprintf("min%d_max%d_set%d", cf.min, cf.max, vi), func(t *testing.T) {
				c := test.MustRunCluster(t, 1)
				defer c.Close()
				ctx := context.Background()
				if _, err := c[0].API.CreateIndex(ctx, "i", pilosa.IndexOptions{}); err != nil {
					t.Fatal(err)
				}
				if _, err := c[0].API.CreateField(ctx, "v", "x"); err == nil {
					t.Fatal("expected error")
				}
				if _, err := c[0].API.CreateField(ctx, "i", "v", pilosa.OptFieldTypeInt(cf.min, cf.max)); err != nil {
					t.Fatal(err)
				}
				if _, err := c[0].API.CreateField(ctx, "i", "f", pilosa.OptFieldTypeSet(pilosa.CacheTypeRanked, 10)); err != nil {
					t.Fatal(err)
				}
				model := map[uint64]int64{}
				filter := map[uint64]bool{}
				cols := []uint64{1, 7, pilosa.ShardWidth + 3, pilosa.ShardWidth + 9, 2*pilosa.ShardWidth + 1}
				for k, v := range vals {
					col := cols[k%len(cols)]
					q := fmt.Sprintf("Set(%d, v=%d)", col, v)
					if _, err := c[0].API.Query(ctx, &pilosa.QueryRequest{Index: "i", Query: q}); err != nil {
						t.Fatalf("%s: %v", q, err)
					}
					model[col] = v
				}
				for k, col := range cols {
					if k%2 == 0 {
						filter[col] = true
						if _, err := c[0].API.Query(ctx, &pilosa.QueryRequest{Index: "i", Query: fmt.Sprintf("Set(%d, f=1)", col)}); err != nil {
							t.Fatal(err)
						}
					}
				}
				ask := func(q string) interface{} {
					resp, err := c[0].API.Query(ctx, &pilosa.QueryRequest{Index: "i", Query: q})
					if err != nil {
						t.Fatalf("%s: %v", q, err)
					}
					return resp.Results[0]
				}
				sel := func(pred func(int64) bool) []uint64 {
					out := []uint64{}
					for col, v := range model {
						if pred(v) {
							out = append(out, col)
						}
					}
					sort.Slice(out, func(i, j int) bool { return out[i] < out[j] })
					return out
				}
				var preds []int64
				for d := int64(-4); d <= 4; d++ {
					preds = append(preds, base+d)
				}
				preds = append(preds, cf.min, cf.max, cf.min-1, cf.max+1, 0)
				for _, pv := range preds {
					pv := pv
					for _, op := range []struct {
						s string
						f func(int64) bool
					}{
						{"<", func(v int64) bool { return v < pv }}, {"<=", func(v int64) bool { return v <= pv }},
						{">", func(v int64) bool { return v > pv }}, {">=", func(v int64) bool { return v >= pv }},
						{"==", func(v int64) bool { return v == pv }}, {"!=", func(v int64) bool { return v != pv }},
					} {
						q := fmt.Sprintf("Row(v %s %d)", op.s, pv)
						got := ask(q).(*pilosa.Row).Columns()
						if want := sel(op.f); !(len(got) == 0 && len(want) == 0) && !reflect.DeepEqual(got, want) {
							t.Errorf("%s: got %v, want %v (values %v)", q, got, want, model)
						}
					}
					for _, hi := range preds {
						hi := hi
						if hi < pv {
							continue
						}
						q := fmt.Sprintf("Row(%d <= v <= %d)", pv, hi)
						got := ask(q).(*pilosa.Row).Columns()
						if want := sel(func(v int64) bool { return pv <= v && v <= hi }); !(len(got) == 0 && len(want) == 0) && !reflect.DeepEqual(got, want) {
							t.Errorf("%s: got %v, want %v (values %v)", q, got, want, model)
						}
					}
				}
				// aggregates
				for _, withFilter := range []bool{false, true} {
					var sum, mn, mx int64
					var n, nmn, nmx uint64
					first := true
					for col, v := range model {
						if withFilter && !filter[col] {
							continue
						}
						sum += v
						n++
						if first || v < mn {
							mn, nmn = v, 0
						}
						if first || v > mx {
							mx, nmx = v, 0
						}
						if v == mn {
							nmn++
						}
						if v == mx {
							nmx++
						}
						first = false
					}
					arg := "field=v"
					if withFilter {
						arg = "Row(f=1), field=v"
					}
					if got := ask("Sum(" + arg + ")").(pilosa.ValCount); got.Val != sum || got.Count != int64(n) {
						t.Errorf("Sum(%s) = %+v, want {%d %d} (values %v)", arg, got, sum, n, model)
					}
					if n == 0 {
						mn, mx = 0, 0
					}
					if got := ask("Min(" + arg + ")").(pilosa.ValCount); got.Val != mn || got.Count != int64(nmn) {
						t.Errorf("Min(%s) = %+v, want {%d %d} (values %v)", arg, got, mn, nmn, model)
					}
					if got := ask("Max(" + arg + ")").(pilosa.ValCount); got.Val != mx || got.Count != int64(nmx) {
						t.Errorf("Max(%s) = %+v, want {%d %d} (values %v)", arg, got, mx, nmx, model)
					}
				}
			})
		}
	}
}
