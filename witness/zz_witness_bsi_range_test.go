package pilosa_test

import (
	"context"
	"reflect"
	"testing"

	"github.com/pilosa/pilosa"
	"github.com/pilosa/pilosa/test"
)

// C14: a range query with a predicate inside the field's declared bounds but
// outside what the current bit depth can represent.
func TestWitness_C14_RangeBelowBitDepth(t *testing.T) {
	c := test.MustRunCluster(t, 1)
	defer c.Close()
	hldr := test.Holder{Holder: c[0].Server.Holder()}
	idx, err := hldr.CreateIndex("i", pilosa.IndexOptions{})
	if err != nil {
		t.Fatal(err)
	}
	if _, err := idx.CreateField("v", pilosa.OptFieldTypeInt(-1000, 1000)); err != nil {
		t.Fatal(err)
	}
	if _, err := c[0].API.Query(context.Background(), &pilosa.QueryRequest{Index: "i", Query: `Set(1, v=-3) Set(2, v=5) Set(3, v=7) Set(4, v=-7)`}); err != nil {
		t.Fatal(err)
	}
	for _, tc := range []struct {
		q   string
		exp []uint64
	}{
		{`Row(v > -10)`, []uint64{1, 2, 3, 4}},
		{`Row(v >= -10)`, []uint64{1, 2, 3, 4}},
		{`Row(v > -7)`, []uint64{1, 2, 3}},
		{`Row(v >= -7)`, []uint64{1, 2, 3, 4}},
		{`Row(v > -8)`, []uint64{1, 2, 3, 4}},
		{`Row(v >= -8)`, []uint64{1, 2, 3, 4}},
		{`Row(v < 10)`, []uint64{1, 2, 3, 4}},
		{`Row(v <= 10)`, []uint64{1, 2, 3, 4}},
		{`Row(v < 7)`, []uint64{1, 2, 4}},
		{`Row(v <= 7)`, []uint64{1, 2, 3, 4}},
		{`Row(v < 8)`, []uint64{1, 2, 3, 4}},
		{`Row(v <= 8)`, []uint64{1, 2, 3, 4}},
		{`Row(v != 10)`, []uint64{1, 2, 3, 4}},
		{`Row(v == 10)`, []uint64{}},
		{`Row(-10 < v < 10)`, []uint64{1, 2, 3, 4}},
		{`Row(-7 < v < 7)`, []uint64{1, 2}},
		{`Row(-7 <= v <= 7)`, []uint64{1, 2, 3, 4}},
		{`Row(v > -3)`, []uint64{2, 3}},
		{`Row(v >= -3)`, []uint64{1, 2, 3}},
	} {
		res, err := c[0].API.Query(context.Background(), &pilosa.QueryRequest{Index: "i", Query: tc.q})
		if err != nil {
			t.Errorf("%s: %v", tc.q, err)
			continue
		}
		got := res.Results[0].(*pilosa.Row).Columns()
		if len(got) == 0 && len(tc.exp) == 0 {
			continue
		}
		if !reflect.DeepEqual(got, tc.exp) {
			t.Errorf("%s: got %v, want %v", tc.q, got, tc.exp)
		}
	}
}
