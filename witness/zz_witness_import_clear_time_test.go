package pilosa_test

import (
	"context"
	"testing"

	"github.com/pilosa/pilosa"
	"github.com/pilosa/pilosa/test"
)

// C28: clearing a bit through a bulk import (clear option) must give the same
// answers as clearing it through a Clear() query, including on time ranges;
// and importing a bit without a timestamp into a time field that has no
// standard view must write what Set() without a timestamp writes (nothing).
func TestWitness_C28_ImportClearMatchesClearQueryOnTimeField(t *testing.T) {
	c := test.MustRunCluster(t, 1)
	defer c.Close()
	ctx := context.Background()
	api := c[0].API
	if _, err := api.CreateIndex(ctx, "i", pilosa.IndexOptions{}); err != nil {
		t.Fatal(err)
	}
	for _, f := range []string{"q", "m"} {
		if _, err := api.CreateField(ctx, "i", f, pilosa.OptFieldTypeTime(pilosa.TimeQuantum("YMD"))); err != nil {
			t.Fatal(err)
		}
		if _, err := api.Query(ctx, &pilosa.QueryRequest{Index: "i", Query: "Set(3, " + f + "=1, 2018-05-12T00:00) Set(4, " + f + "=1, 2018-05-12T00:00)"}); err != nil {
			t.Fatal(err)
		}
	}
	// clear column 3 of row 1: by query on q, by import on m
	if _, err := api.Query(ctx, &pilosa.QueryRequest{Index: "i", Query: "Clear(3, q=1)"}); err != nil {
		t.Fatal(err)
	}
	if err := api.Import(ctx, &pilosa.ImportRequest{Index: "i", Field: "m", Shard: 0, RowIDs: []uint64{1}, ColumnIDs: []uint64{3}}, pilosa.OptImportOptionsClear(true)); err != nil {
		t.Fatal(err)
	}
	cols := func(q string) []uint64 {
		res, err := api.Query(ctx, &pilosa.QueryRequest{Index: "i", Query: q})
		if err != nil {
			t.Fatalf("%s: %v", q, err)
		}
		return res.Results[0].(*pilosa.Row).Columns()
	}
	for _, tmpl := range []string{"Row(%s=1)", "Range(%s=1, 2018-01-01T00:00, 2019-01-01T00:00)", "Range(%s=1, 2018-05-12T00:00, 2018-05-13T00:00)"} {
		a, b := cols(sprintf(tmpl, "q")), cols(sprintf(tmpl, "m"))
		if len(a) != len(b) {
			t.Errorf("%s: Clear() query leaves %v, import-clear leaves %v", tmpl, a, b)
		}
	}
}

func TestWitness_C28_ImportWithoutTimestampNoStandardView(t *testing.T) {
	c := test.MustRunCluster(t, 1)
	defer c.Close()
	ctx := context.Background()
	api := c[0].API
	if _, err := api.CreateIndex(ctx, "i", pilosa.IndexOptions{}); err != nil {
		t.Fatal(err)
	}
	for _, f := range []string{"q", "m"} {
		if _, err := api.CreateField(ctx, "i", f, pilosa.OptFieldTypeTime(pilosa.TimeQuantum("YMD"), true)); err != nil {
			t.Fatal(err)
		}
	}
	if _, err := api.Query(ctx, &pilosa.QueryRequest{Index: "i", Query: "Set(3, q=1)"}); err != nil {
		t.Fatal(err)
	}
	if err := api.Import(ctx, &pilosa.ImportRequest{Index: "i", Field: "m", Shard: 0, RowIDs: []uint64{1}, ColumnIDs: []uint64{3}}); err != nil {
		t.Fatal(err)
	}
	views := func(f string) int {
		vs, err := api.Views(ctx, "i", f)
		if err != nil {
			t.Fatal(err)
		}
		return len(vs)
	}
	a, b := views("q"), views("m")
	if a != b {
		t.Errorf("%d views after Set() without timestamp; %d after import without timestamp", a, b)
	}
}

func sprintf(f, a string) string {
	out := ""
	for i := 0; i < len(f); i++ {
		if f[i] == '%' && i+1 < len(f) && f[i+1] == 's' {
			out += a
			i++
		} else {
			out += string(f[i])
		}
	}
	return out
}
