package pilosa

import (
	"fmt"
	"testing"
	"time"
)

// Witness for C22 (reported by a seeding agent from reading the code):
// nodeJoin sends into the 10-slot queue of pending joins with cluster.mu
// held. While a resize job waits for its nodes, the resize loop receives
// nothing; the 12th pending join blocks in the send with the lock held, and
// every handler that needs the lock -- including the completion message that
// would let the running job finish -- waits forever.
func TestWitness_C22_JoinQueueFullBlocksUnderLock(t *testing.T) {
	tc := NewClusterCluster(0)
	if err := tc.addNode(); err != nil {
		t.Fatalf("adding node: %v", err)
	}
	coord := tc.Clusters[0]
	coord.broadcaster = &witnessFailingBroadcaster{} // accepts instructions, nobody answers
	if err := tc.Open(); err != nil {
		t.Fatal(err)
	}
	if err := tc.CreateField("i", "f", OptFieldTypeDefault()); err != nil {
		t.Fatal(err)
	}
	for s := uint64(0); s < 8; s++ {
		if err := tc.SetBit("i", "f", 1, s*ShardWidth+1, nil); err != nil {
			t.Fatal(err)
		}
	}
	done := make(chan int, 1)
	go func() {
		for k := 1; k <= 13; k++ {
			n := &Node{ID: fmt.Sprintf("node%02d", k), URI: NewTestURI("http", fmt.Sprintf("host%d", k), 0)}
			_ = coord.ReceiveEvent(&NodeEvent{Event: NodeJoin, Node: n})
			select {
			case done <- k:
			default:
				<-done
				done <- k
			}
		}
		close(done)
	}()
	time.Sleep(2 * time.Second)
	last := 0
	for {
		select {
		case k, ok := <-done:
			if !ok {
				return // all joins were accepted
			}
			last = k
			continue
		default:
		}
		break
	}
	// is the lock still obtainable?
	got := make(chan struct{})
	go func() { coord.mu.RLock(); coord.mu.RUnlock(); close(got) }()
	select {
	case <-got:
		t.Logf("joins delivered so far: %d; lock obtainable", last)
	case <-time.After(2 * time.Second):
		t.Errorf("after %d joins were delivered the next one blocks inside nodeJoin with cluster.mu held: no other handler can take the lock", last)
	}
}
