package pilosa

// test-only exports for the anti-entropy witness
func WitnessFragSet(h *Holder, index, field, view string, row, col uint64) error {
	f := h.Field(index, field)
	v, err := f.createViewIfNotExists(view)
	if err != nil {
		return err
	}
	frag, err := v.CreateFragmentIfNotExists(col / ShardWidth)
	if err != nil {
		return err
	}
	_, err = frag.setBit(row, col)
	return err
}

func WitnessFragHas(h *Holder, index, field, view string, row, col uint64) bool {
	frag := h.fragment(index, field, view, col/ShardWidth)
	if frag == nil {
		return false
	}
	for _, c := range frag.row(row).Columns() {
		if c == col {
			return true
		}
	}
	return false
}
