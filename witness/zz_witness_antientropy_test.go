package pilosa_test

import (
	"context"
	"fmt"
	"math/rand"
	"reflect"
	"testing"
	"time"

	"github.com/pilosa/pilosa"
	"github.com/pilosa/pilosa/test"
)

// C11 end to end: after anti-entropy every replica holds the per-bit majority.
func TestWitness_C11_AntiEntropyEndToEnd(t *testing.T) {
	for seed := int64(1); seed <= 3; seed++ {
		t.Run(fmt.Sprint("seed", seed), func(t *testing.T) {
			rng := rand.New(rand.NewSource(seed))
			cluster := test.MustNewCluster(t, 3)
			for _, c := range cluster {
				c.Config.Cluster.ReplicaN = 3
				c.Config.AntiEntropy.Interval = 0
			}
			if err := cluster.Start(); err != nil {
				t.Fatal(err)
			}
			defer cluster.Close()
			for wait := true; wait; {
				wait = false
				for _, n := range cluster {
					if n.API.State() != pilosa.ClusterStateNormal {
						wait = true
					}
				}
				time.Sleep(time.Millisecond)
			}
			ctx := context.Background()
			if _, err := cluster[0].API.CreateIndex(ctx, "i", pilosa.IndexOptions{}); err != nil {
				t.Fatal(err)
			}
			if _, err := cluster[0].API.CreateField(ctx, "i", "f", pilosa.OptFieldTypeSet(pilosa.CacheTypeRanked, 100)); err != nil {
				t.Fatal(err)
			}
			if _, err := cluster[0].API.CreateField(ctx, "i", "t", pilosa.OptFieldTypeTime(pilosa.TimeQuantum("YM"))); err != nil {
				t.Fatal(err)
			}
			// common base through the API (replicated)
			if _, err := cluster[0].API.Query(ctx, &pilosa.QueryRequest{Index: "i", Query: "Set(1, f=1) Set(2, f=1) Set(1, f=150) Set(1, t=1, 2018-03-01T00:00)"}); err != nil {
				t.Fatal(err)
			}
			// divergence written directly into each node's fragments
			type bit struct {
				field, view string
				row, col    uint64
			}
			var cands []bit
			for _, r := range []uint64{0, 1, 99, 100, 150} {
				for _, c := range []uint64{1, 2, 3, pilosa.ShardWidth + 1} {
					cands = append(cands, bit{"f", "standard", r, c})
				}
			}
			for _, v := range []string{"standard", "standard_2018", "standard_201803"} {
				cands = append(cands, bit{"t", v, 1, 1}, bit{"t", v, 1, 5}, bit{"t", v, 2, 5})
			}
			holders := make([]*pilosa.Holder, 3)
			for i := range cluster {
				holders[i] = cluster[i].Server.Holder()
			}
			has := func(i int, b bit) bool {
				f := holders[i].Field("i", b.field)
				if f == nil {
					return false
				}
				row, err := f.Row(b.row) // standard view only
				_ = row
				_ = err
				frag := fragOf(holders[i], "i", b.field, b.view, b.col/pilosa.ShardWidth)
				if frag == nil {
					return false
				}
				for _, c := range frag {
					_ = c
				}
				return fragHas(holders[i], "i", b.field, b.view, b.row, b.col)
			}
			content := make([]map[bit]bool, 3)
			for i := range content {
				content[i] = map[bit]bool{}
				for _, b := range cands {
					if rng.Intn(3) == 0 {
						if err := fragSet(holders[i], "i", b.field, b.view, b.row, b.col); err != nil {
							t.Fatal(err)
						}
					}
				}
			}
			for i := range content {
				for _, b := range cands {
					content[i][b] = has(i, b)
				}
			}
			want := map[bit]bool{}
			for _, b := range cands {
				n := 0
				for i := range content {
					if content[i][b] {
						n++
					}
				}
				want[b] = n >= 2
			}
			for round := 0; round < 2; round++ {
				for i := range cluster {
					if err := cluster[i].Server.SyncData(); err != nil {
						t.Fatalf("sync node %d: %v", i, err)
					}
				}
			}
			for i := range cluster {
				for _, b := range cands {
					if got := has(i, b); got != want[b] {
						t.Errorf("node %d %s/%s row %d col %d: has=%v, majority=%v (before: %v %v %v)", i, b.field, b.view, b.row, b.col, got, want[b], content[0][b], content[1][b], content[2][b])
					}
				}
			}
			_ = reflect.DeepEqual
		})
	}
}
