package proto_test

// Triage witnesses for C27/C06 defects in the wire codec. Copy into
// /repo/encoding/proto to run.

import (
	"reflect"
	"testing"

	"github.com/pilosa/pilosa"
	"github.com/pilosa/pilosa/encoding/proto"
)

func noPanic(t *testing.T, name string, f func()) {
	t.Helper()
	defer func() {
		if r := recover(); r != nil {
			t.Errorf("%s panicked: %v", name, r)
		}
	}()
	f()
}

func TestWitness_C27_DeleteAvailableShardMessageRegistered(t *testing.T) {
	noPanic(t, "MarshalInternalMessage(DeleteAvailableShardMessage)", func() {
		if _, err := pilosa.MarshalInternalMessage(&pilosa.DeleteAvailableShardMessage{Index: "i", Field: "f", ShardID: 3}, proto.Serializer{}); err != nil {
			t.Fatal(err)
		}
	})
}

func TestWitness_C27_NoStandardViewSurvives(t *testing.T) {
	s := proto.Serializer{}
	in := &pilosa.CreateFieldMessage{Index: "i", Field: "f", Meta: &pilosa.FieldOptions{Type: "time", TimeQuantum: "YMD", NoStandardView: true}}
	b, err := s.Marshal(in)
	if err != nil {
		t.Fatal(err)
	}
	out := &pilosa.CreateFieldMessage{}
	if err := s.Unmarshal(b, out); err != nil {
		t.Fatal(err)
	}
	if !out.Meta.NoStandardView {
		t.Errorf("NoStandardView lost on the wire: %+v", out.Meta)
	}
}

func TestWitness_C27_NodeStatusNodeSurvives(t *testing.T) {
	s := proto.Serializer{}
	in := &pilosa.NodeStatus{Node: &pilosa.Node{ID: "n1", State: "READY"}, Schema: &pilosa.Schema{}}
	b, err := s.Marshal(in)
	if err != nil {
		t.Fatal(err)
	}
	out := &pilosa.NodeStatus{}
	if err := s.Unmarshal(b, out); err != nil {
		t.Fatal(err)
	}
	if out.Node == nil || out.Node.ID != "n1" {
		t.Errorf("NodeStatus.Node lost on the wire: %+v", out.Node)
	}
}

func TestWitness_C27_RowIdentifiersKind(t *testing.T) {
	s := proto.Serializer{}
	in := &pilosa.QueryResponse{Results: []interface{}{pilosa.RowIdentifiers{Rows: []uint64{1, 2}}}}
	b, err := s.Marshal(in)
	if err != nil {
		t.Fatal(err)
	}
	out := &pilosa.QueryResponse{}
	if err := s.Unmarshal(b, out); err != nil {
		t.Fatal(err)
	}
	if !reflect.DeepEqual(in.Results, out.Results) {
		t.Errorf("RowIdentifiers result changed type/value: in %#v out %#v", in.Results[0], out.Results[0])
	}
}

func TestWitness_C27_ShortBytesDoNotPanic(t *testing.T) {
	s := proto.Serializer{}
	msgs := []pilosa.Message{
		&pilosa.CreateIndexMessage{}, &pilosa.CreateFieldMessage{}, &pilosa.ResizeInstruction{},
		&pilosa.ResizeInstructionComplete{}, &pilosa.SetCoordinatorMessage{}, &pilosa.UpdateCoordinatorMessage{},
		&pilosa.NodeEvent{}, &pilosa.NodeStatus{}, &pilosa.Node{}, &pilosa.ClusterStatus{},
	}
	for _, m := range msgs {
		m := m
		noPanic(t, reflect.TypeOf(m).String()+" from empty bytes", func() { _ = s.Unmarshal([]byte{}, m) })
	}
	// QueryResponse with one result of each kind and nothing else: [field 2 (Results), len 2, field 6 (Type) = k]
	for k := byte(1); k < 12; k++ {
		k := k
		noPanic(t, "QueryResponse with bare result kind", func() {
			err := s.Unmarshal([]byte{0x12, 0x02, 0x30, k}, &pilosa.QueryResponse{})
			if k >= 10 && err == nil {
				t.Errorf("unknown result kind %d accepted", k)
			}
		})
	}
}

func TestWitness_C27_IndexOptionsInSchema(t *testing.T) {
	s := proto.Serializer{}
	in := &pilosa.NodeStatus{Node: &pilosa.Node{ID: "n"}, Schema: &pilosa.Schema{Indexes: []*pilosa.IndexInfo{{Name: "i", Options: pilosa.IndexOptions{Keys: true, TrackExistence: true}}}}}
	b, err := s.Marshal(in)
	if err != nil {
		t.Fatal(err)
	}
	out := &pilosa.NodeStatus{}
	if err := s.Unmarshal(b, out); err != nil {
		t.Fatal(err)
	}
	if !out.Schema.Indexes[0].Options.Keys {
		t.Errorf("index options lost when a schema travels between nodes: %+v", out.Schema.Indexes[0].Options)
	}
}
