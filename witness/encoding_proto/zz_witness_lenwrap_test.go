package proto_test

import (
	"testing"

	"github.com/pilosa/pilosa"
	"github.com/pilosa/pilosa/encoding/proto"
)

// A length-delimited field whose length varint is close to MaxInt64 makes
// `postIndex := iNdEx + length` wrap negative in the generated decoders: the
// `postIndex > l` test passes and the slice expression panics. Unmarshal must
// return an error instead (gossip hands such bytes to API.ClusterMessage with
// no recover).
func TestWitness_LengthVarintWraps(t *testing.T) {
	huge := []byte{0x0a, 0xff, 0xff, 0xff, 0xff, 0xff, 0xff, 0xff, 0xff, 0x7f}
	for name, m := range map[string]pilosa.Message{
		"CreateShardMessage": &pilosa.CreateShardMessage{},
		"CreateIndexMessage": &pilosa.CreateIndexMessage{},
		"ClusterStatus":      &pilosa.ClusterStatus{},
		"ImportRequest":      &pilosa.ImportRequest{},
		"QueryRequest":       &pilosa.QueryRequest{},
	} {
		func() {
			defer func() {
				if r := recover(); r != nil {
					t.Errorf("%s: Unmarshal panicked: %v", name, r)
				}
			}()
			err := proto.Serializer{}.Unmarshal(huge, m)
			t.Logf("%s: %v", name, err)
		}()
	}
	// unknown field (number 15, wire type 2) with the same length: the skip path
	skip := []byte{0x7a, 0xff, 0xff, 0xff, 0xff, 0xff, 0xff, 0xff, 0xff, 0x7f}
	func() {
		defer func() {
			if r := recover(); r != nil {
				t.Errorf("skip path: Unmarshal panicked: %v", r)
			}
		}()
		err := proto.Serializer{}.Unmarshal(skip, &pilosa.CreateShardMessage{})
		t.Logf("skip: %v", err)
	}()
	// the same after 102 bytes of valid content, with a length that does not
	// wrap inside the skip helper but wraps when added to the outer index
	skip2 := append([]byte{0x0a, 100}, make([]byte, 100)...)
	skip2 = append(skip2, 0x7a, 0xcd, 0xff, 0xff, 0xff, 0xff, 0xff, 0xff, 0xff, 0x7f) // MaxInt64-50
	func() {
		defer func() {
			if r := recover(); r != nil {
				t.Errorf("skip path after content: Unmarshal panicked: %v", r)
			}
		}()
		err := proto.Serializer{}.Unmarshal(skip2, &pilosa.CreateShardMessage{})
		t.Logf("skip2: %v", err)
	}()
}
