package proto_test

import (
	"fmt"
	"math/rand"
	"reflect"
	"testing"
	"time"

	"github.com/pilosa/pilosa"
	"github.com/pilosa/pilosa/encoding/proto"
	"github.com/pilosa/pilosa/roaring"
)

var rngW = rand.New(rand.NewSource(11))

func fill(v reflect.Value, depth int) {
	switch v.Kind() {
	case reflect.Ptr:
		if depth > 30 {
			return
		}
		if v.Type() == reflect.TypeOf(&roaring.Bitmap{}) {
			b := roaring.NewBitmap()
			b.Add(uint64(1 + rngW.Intn(50)))
			b.Add(uint64(100 + rngW.Intn(50)))
			v.Set(reflect.ValueOf(b))
			return
		}
		if v.Type() == reflect.TypeOf(&time.Time{}) {
			t := time.Unix(int64(1500000000+rngW.Intn(1000000)), 0).UTC()
			v.Set(reflect.ValueOf(&t))
			return
		}
		n := reflect.New(v.Type().Elem())
		fill(n.Elem(), depth+1)
		v.Set(n)
	case reflect.Struct:
		if v.Type() == reflect.TypeOf(time.Time{}) {
			v.Set(reflect.ValueOf(time.Unix(int64(1500000000+rngW.Intn(1000000)), 0).UTC()))
			return
		}
		for i := 0; i < v.NumField(); i++ {
			if v.Type().Field(i).PkgPath != "" {
				continue
			}
			fill(v.Field(i), depth+1)
		}
	case reflect.Slice:
		if depth > 30 {
			return
		}
		n := 1 + rngW.Intn(2)
		s := reflect.MakeSlice(v.Type(), n, n)
		for i := 0; i < n; i++ {
			fill(s.Index(i), depth+1)
		}
		v.Set(s)
	case reflect.Map:
		if v.Type().Key().Kind() == reflect.String && v.Type().Elem().Kind() == reflect.Interface {
			m := reflect.MakeMap(v.Type())
			m.SetMapIndex(reflect.ValueOf("s"), reflect.ValueOf("x"))
			m.SetMapIndex(reflect.ValueOf("i"), reflect.ValueOf(int64(rngW.Intn(9)+1)))
			m.SetMapIndex(reflect.ValueOf("b"), reflect.ValueOf(true))
			m.SetMapIndex(reflect.ValueOf("f"), reflect.ValueOf(1.5))
			v.Set(m)
		}
	case reflect.String:
		v.SetString(fmt.Sprintf("s%d", rngW.Intn(1000)))
	case reflect.Bool:
		v.SetBool(true)
	case reflect.Int, reflect.Int64, reflect.Int32:
		v.SetInt(int64(1 + rngW.Intn(100)))
	case reflect.Uint, reflect.Uint64, reflect.Uint32, reflect.Uint8:
		v.SetUint(uint64(1 + rngW.Intn(100)))
	case reflect.Float64:
		v.SetFloat(2.5)
	}
}

func TestWitness_C27_MessageRoundTrip(t *testing.T) {
	msgs := []func() pilosa.Message{
		func() pilosa.Message { return &pilosa.CreateShardMessage{} },
		func() pilosa.Message { return &pilosa.CreateIndexMessage{} },
		func() pilosa.Message { return &pilosa.DeleteIndexMessage{} },
		func() pilosa.Message { return &pilosa.CreateFieldMessage{} },
		func() pilosa.Message { return &pilosa.DeleteFieldMessage{} },
		func() pilosa.Message { return &pilosa.CreateViewMessage{} },
		func() pilosa.Message { return &pilosa.DeleteViewMessage{} },
		func() pilosa.Message { return &pilosa.ClusterStatus{} },
		func() pilosa.Message { return &pilosa.ResizeInstruction{} },
		func() pilosa.Message { return &pilosa.ResizeInstructionComplete{} },
		func() pilosa.Message { return &pilosa.SetCoordinatorMessage{} },
		func() pilosa.Message { return &pilosa.UpdateCoordinatorMessage{} },
		func() pilosa.Message { return &pilosa.NodeStateMessage{} },
		func() pilosa.Message { return &pilosa.RecalculateCaches{} },
		func() pilosa.Message { return &pilosa.NodeEvent{} },
		func() pilosa.Message { return &pilosa.NodeStatus{} },
		func() pilosa.Message { return &pilosa.DeleteAvailableShardMessage{} },
		func() pilosa.Message { return &pilosa.ImportRequest{} },
		func() pilosa.Message { return &pilosa.ImportValueRequest{} },
		func() pilosa.Message { return &pilosa.ImportRoaringRequest{} },
		func() pilosa.Message { return &pilosa.QueryRequest{} },
		func() pilosa.Message { return &pilosa.BlockDataRequest{} },
		func() pilosa.Message { return &pilosa.BlockDataResponse{} },
		func() pilosa.Message { return &pilosa.TranslateKeysRequest{} },
		func() pilosa.Message { return &pilosa.TranslateKeysResponse{} },
	}
	var ser proto.Serializer
	for _, mk := range msgs {
		m := mk()
		name := reflect.TypeOf(m).Elem().Name()
		fill(reflect.ValueOf(m).Elem(), 0)
		// fields that are not meant to travel
		buf, err := ser.Marshal(m)
		if err != nil {
			t.Errorf("%s: marshal: %v", name, err)
			continue
		}
		out := mk()
		if err := ser.Unmarshal(buf, out); err != nil {
			t.Errorf("%s: unmarshal: %v", name, err)
			continue
		}
		compare(t, name, reflect.ValueOf(m).Elem(), reflect.ValueOf(out).Elem())
	}
}

func compare(t *testing.T, path string, a, b reflect.Value) {
	switch a.Kind() {
	case reflect.Ptr:
		if a.IsNil() || b.IsNil() {
			if a.IsNil() != b.IsNil() {
				t.Errorf("%s: nil-ness differs: sent %v got %v", path, a.IsNil(), b.IsNil())
			}
			return
		}
		if bm, ok := a.Interface().(*roaring.Bitmap); ok {
			if !reflect.DeepEqual(bm.Slice(), b.Interface().(*roaring.Bitmap).Slice()) {
				t.Errorf("%s: bitmap differs", path)
			}
			return
		}
		compare(t, path, a.Elem(), b.Elem())
	case reflect.Struct:
		if a.Type() == reflect.TypeOf(time.Time{}) {
			if !a.Interface().(time.Time).Equal(b.Interface().(time.Time)) {
				t.Errorf("%s: time differs: %v vs %v", path, a.Interface(), b.Interface())
			}
			return
		}
		for i := 0; i < a.NumField(); i++ {
			if a.Type().Field(i).PkgPath != "" {
				continue
			}
			compare(t, path+"."+a.Type().Field(i).Name, a.Field(i), b.Field(i))
		}
	case reflect.Slice:
		if a.Len() != b.Len() {
			t.Errorf("%s: length %d vs %d", path, a.Len(), b.Len())
			return
		}
		for i := 0; i < a.Len(); i++ {
			compare(t, fmt.Sprintf("%s[%d]", path, i), a.Index(i), b.Index(i))
		}
	default:
		if !reflect.DeepEqual(a.Interface(), b.Interface()) {
			t.Errorf("%s: sent %#v got %#v", path, a.Interface(), b.Interface())
		}
	}
}
