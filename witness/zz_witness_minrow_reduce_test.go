package pilosa_test

import (
	"context"
	"fmt"
	"testing"

	"github.com/pilosa/pilosa"
	"github.com/pilosa/pilosa/test"
)

// Witness for C17 (reported by a seeding agent as present on the tree): the
// reducers of MinRow/MaxRow keep the later arrival when two shards report the
// same row, so with a filter the count in the answer is the count of whichever
// shard happened to be reduced last.
func TestWitness_C17_MinMaxRowSharedAcrossShards(t *testing.T) {
	c := test.MustRunCluster(t, 1)
	defer c.Close()
	ctx := context.Background()
	if _, err := c[0].API.CreateIndex(ctx, "i", pilosa.IndexOptions{}); err != nil {
		t.Fatal(err)
	}
	for _, f := range []string{"f", "g"} {
		if _, err := c[0].API.CreateField(ctx, "i", f, pilosa.OptFieldTypeSet(pilosa.CacheTypeRanked, 100)); err != nil {
			t.Fatal(err)
		}
	}
	q := ""
	// row 5 of f is the only row; filter g=1 selects 1 column in shard 0, 2 in shard 1, 4 in shard 2
	counts := []int{1, 2, 4}
	for s, n := range counts {
		for k := 0; k < n; k++ {
			col := uint64(s)*pilosa.ShardWidth + uint64(k)
			q += fmt.Sprintf("Set(%d, f=5) Set(%d, g=1) ", col, col)
		}
		// a column of the row that the filter does not select
		q += fmt.Sprintf("Set(%d, f=5) ", uint64(s)*pilosa.ShardWidth+100)
	}
	if _, err := c[0].API.Query(ctx, &pilosa.QueryRequest{Index: "i", Query: q}); err != nil {
		t.Fatal(err)
	}
	for _, call := range []string{"MinRow", "MaxRow"} {
		seen := map[pilosa.Pair]int{}
		for i := 0; i < 300; i++ {
			resp, err := c[0].API.Query(ctx, &pilosa.QueryRequest{Index: "i", Query: call + "(Row(g=1), field=f)"})
			if err != nil {
				t.Fatal(err)
			}
			seen[resp.Results[0].(pilosa.Pair)]++
		}
		if len(seen) != 1 {
			t.Errorf("%s(Row(g=1), field=f) gave different answers over 300 runs of the same query: %v", call, seen)
		}
		for p := range seen {
			if p.ID != 5 || p.Count != 7 {
				t.Errorf("%s(Row(g=1), field=f) = %+v, the row has 7 columns in the filter", call, p)
			}
		}
	}
}
