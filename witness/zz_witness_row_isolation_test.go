package pilosa_test

import (
	"reflect"
	"testing"

	"github.com/pilosa/pilosa"
)

// C03: a derived row never changes when its sources are later mutated, and
// mutating it never changes its sources.
func TestWitness_C03_DerivedRowsAreIsolated(t *testing.T) {
	type derive struct {
		name string
		fn   func(src *pilosa.Row) *pilosa.Row
	}
	other := func() *pilosa.Row { return pilosa.NewRow(pilosa.ShardWidth + 5) } // different shard
	for _, d := range []derive{
		{"Merge", func(src *pilosa.Row) *pilosa.Row { r := pilosa.NewRow(); r.Merge(src); return r }},
		{"Union", func(src *pilosa.Row) *pilosa.Row { return src.Union(other()) }},
		{"UnionArg", func(src *pilosa.Row) *pilosa.Row { return other().Union(src) }},
		{"Xor", func(src *pilosa.Row) *pilosa.Row { return src.Xor(other()) }},
		{"XorArg", func(src *pilosa.Row) *pilosa.Row { return other().Xor(src) }},
		{"Difference", func(src *pilosa.Row) *pilosa.Row { return src.Difference(other()) }},
	} {
		t.Run(d.name+"/mutate-derived", func(t *testing.T) {
			src := pilosa.NewRow(1, 2)
			derived := d.fn(src)
			derived.SetBit(3)
			if got := src.Columns(); !reflect.DeepEqual(got, []uint64{1, 2}) {
				t.Errorf("source changed after mutating the derived row: %v", got)
			}
		})
		t.Run(d.name+"/mutate-source", func(t *testing.T) {
			src := pilosa.NewRow(1, 2)
			derived := d.fn(src)
			before := derived.Columns()
			src.SetBit(4)
			if got := derived.Columns(); !reflect.DeepEqual(got, before) {
				t.Errorf("derived row changed after mutating its source: %v -> %v", before, got)
			}
		})
	}
}
