package props

import (
	"go/ast"
	"go/token"
	"go/types"
	"strings"

	"verif/checker/core"
)

// c16RowExtentScans: rule R9. minRowID() and maxRowIDFromStorage() name rows
// that exist: a scan between them that looks for the first row meeting a
// filter must visit both ends. A loop bounded by one of them with a strict
// comparison, or left by `if i == bound { break }` before row i was looked
// at, skips a row that may be the only one intersecting the filter.
func c16RowExtentScans(p *core.Program, r *core.Report) {
	pk := p.Pkg("")
	if pk == nil {
		return
	}
	info := pk.TypesInfo
	n := 0
	for _, fd := range core.AllFuncDecls(pk) {
		if fd.Body == nil || strings.HasSuffix(p.Fset.Position(fd.Pos()).Filename, "_test.go") {
			continue
		}
		// variables holding a row extent
		extent := map[types.Object]string{}
		ast.Inspect(fd.Body, func(nd ast.Node) bool {
			as, ok := nd.(*ast.AssignStmt)
			if !ok || len(as.Rhs) != 1 || len(as.Lhs) == 0 {
				return true
			}
			c, ok := ast.Unparen(as.Rhs[0]).(*ast.CallExpr)
			if !ok {
				return true
			}
			g := core.CalleeOf(info, c)
			if g == nil || !recvNamed(g, "fragment") || (g.Name() != "minRowID" && g.Name() != "maxRowIDFromStorage") {
				return true
			}
			if id, ok := as.Lhs[0].(*ast.Ident); ok {
				if ob := info.ObjectOf(id); ob != nil {
					extent[ob] = g.Name()
				}
			}
			return true
		})
		if len(extent) == 0 {
			continue
		}
		isExtent := func(e ast.Expr) (string, bool) {
			id, ok := ast.Unparen(e).(*ast.Ident)
			if !ok {
				return "", false
			}
			s, ok := extent[info.ObjectOf(id)]
			return s, ok
		}
		ast.Inspect(fd.Body, func(nd ast.Node) bool {
			fs, ok := nd.(*ast.ForStmt)
			if !ok {
				return true
			}
			inc, ok := fs.Post.(*ast.IncDecStmt)
			if !ok {
				return true
			}
			cid, ok := ast.Unparen(inc.X).(*ast.Ident)
			if !ok {
				return true
			}
			ctr := info.ObjectOf(cid)
			isCtr := func(e ast.Expr) bool {
				id, ok := ast.Unparen(e).(*ast.Ident)
				return ok && info.ObjectOf(id) == ctr
			}
			// the loop starts at an extent
			init, ok := fs.Init.(*ast.AssignStmt)
			if !ok || len(init.Rhs) != 1 {
				return true
			}
			if _, ok := isExtent(init.Rhs[0]); !ok {
				return true
			}
			n++
			construct := core.FuncName(fd) + ": scan from " + types.ExprString(init.Rhs[0]) + " visits both ends"
			var bad []string
			if be, ok := fs.Cond.(*ast.BinaryExpr); ok {
				var other ast.Expr
				if isCtr(be.X) {
					other = be.Y
				} else if isCtr(be.Y) {
					other = be.X
				}
				if other != nil {
					if which, ok := isExtent(other); ok && (be.Op == token.LSS || be.Op == token.GTR || be.Op == token.NEQ) {
						bad = append(bad, "the loop condition "+types.ExprString(be)+" excludes the row "+which+"() names, which exists")
					}
				}
			}
			// `if i == extent { break }` before row i is looked at
			looked := false
			for _, st := range fs.Body.List {
				if ifs, ok := st.(*ast.IfStmt); ok && ifs.Init == nil {
					if be, ok := ifs.Cond.(*ast.BinaryExpr); ok && be.Op == token.EQL {
						_, e1 := isExtent(be.X)
						_, e2 := isExtent(be.Y)
						if (isCtr(be.X) && e2) || (isCtr(be.Y) && e1) {
							leaves := false
							for _, b := range ifs.Body.List {
								if br, ok := b.(*ast.BranchStmt); ok && br.Tok == token.BREAK {
									leaves = true
								}
							}
							if leaves && !looked {
								bad = append(bad, "the loop is left at "+p.Pos(ifs.Pos())+" when the counter reaches the extent, before that row was looked at")
							}
						}
					}
				}
				ast.Inspect(st, func(m ast.Node) bool {
					if c, ok := m.(*ast.CallExpr); ok {
						for _, a := range c.Args {
							if isCtr(a) {
								looked = true
							}
						}
					}
					return true
				})
			}
			if len(bad) > 0 {
				r.Violate("R9", construct, p.Pos(fs.Pos()), strings.Join(bad, "; ")+": when that row is the only one meeting the filter MinRow/MaxRow answers (0,0) for the shard")
			} else {
				r.HoldAt("R9", construct, p.Pos(fs.Pos()), "both extents are inside the scanned range")
			}
			return true
		})
	}
	if n < 2 {
		r.Undecide("R9", "row-extent scans", "", "fewer than the 2 confirmed scans (fragment.minRow, fragment.maxRow) were found")
	}
}
