package props

import (
	"fmt"
	"go/ast"
	"go/token"
	"go/types"
	"sort"
	"strings"

	"verif/checker/core"

	"golang.org/x/tools/go/packages"
)

func init() { register("C27", c27) }

const protoPath = core.ModPath + "/encoding/proto"
const internalPath = core.ModPath + "/internal"

// typeSwitchCases returns, for the first type switch in fd, the case types
// (as strings relative to package pilosa, e.g. "*CreateShardMessage") with
// their clause, plus whether a default exists.
func typeSwitchCases(info *types.Info, fd *ast.FuncDecl) (cases map[string]*ast.CaseClause, order []string, hasDefault bool) {
	cases = map[string]*ast.CaseClause{}
	var ts *ast.TypeSwitchStmt
	ast.Inspect(fd.Body, func(n ast.Node) bool {
		if ts != nil {
			return false
		}
		if x, ok := n.(*ast.TypeSwitchStmt); ok {
			ts = x
			return false
		}
		return true
	})
	if ts == nil {
		return
	}
	for _, c := range ts.Body.List {
		cc := c.(*ast.CaseClause)
		if cc.List == nil {
			hasDefault = true
			continue
		}
		for _, e := range cc.List {
			t := info.TypeOf(e)
			name := "nil"
			if t != nil {
				name = typeKey(t)
			}
			if name == "untyped nil" {
				name = "nil"
			}
			cases[name] = cc
			order = append(order, name)
		}
	}
	return
}

// typeKey renders a type with pilosa's package qualifier stripped.
func typeKey(t types.Type) string {
	return types.TypeString(t, func(p *types.Package) string {
		if p.Path() == core.ModPath {
			return ""
		}
		return p.Name()
	})
}

func c27(p *core.Program, r *core.Report) {
	r.Rule("R1", "broadcast message registry: messageType* constants, getMessage cases and getMessageType cases are mutually inverse bijections; Server.receiveMessage handles exactly the registered types; Serializer.Unmarshal and encodeToProto cover every registered type and agree with each other; the static type of every message passed to SendSync/SendAsync/SendTo/sendTo/unprotectedSendSync/MarshalInternalMessage is registered")
	r.Rule("R2", "query result kinds: queryResultType* constants, encodeQueryResponse's type switch and decodeQueryResult's switch are in bijection, and each kind decodes to the Go type it was encoded from")
	r.Rule("R3", "field coverage symmetry: for every pilosa struct with an encodeX/decodeX pair in encoding/proto, every exported field is read by the encoder and filled by the decoder from the wire message (frozen exceptions: one field + reason)")
	r.Rule("R4", "nil-safe decoding: a decode function that dereferences its wire-message parameter is never handed a singular nested message field (nil when absent from the bytes) unless the callee tests that parameter for nil before any other use of it, or the call is under a non-nil test; no direct dereference chain through such a field")
	r.Rule("R5", "decoders reject instead of panicking: no decode* function in encoding/proto calls panic, and none indexes a repeated wire field with a constant without first testing its length")
	r.Rule("R6", "codecs are projections: in encoding/proto a decoder fills field F of a pilosa struct only from the wire field of the same name (and an encoder fills wire field G only from the pilosa field of the same name), directly, through a conversion or through a nested decode/encode call; conditions guarding such an assignment may mention only that same field. Renames are a frozen table. A value computed from other fields, or two fields crossed, does not survive a round trip")
	r.Rule("R7", "decoders fill on every path: in each decode* function of encoding/proto that fills two or more fields of a pilosa struct, every path that returns without error (return nil, a tail call of another decoder, or falling off the end) has filled every field that some path fills; a test of wire field F alone counts as deciding F on both outcomes, a nil guard on the parameter exempts the path, loops are taken at least once")
	r.NotDecided = "value equality of round trips for all generated values (protobuf wire semantics, nil vs empty slices); that generated Unmarshal code rejects all malformed bytes"
	pk := p.Pkg("")
	pp := p.Pkg("encoding/proto")
	if pk == nil || pp == nil {
		r.Undecide("R1", "packages", "", "pilosa or encoding/proto not loaded")
		return
	}
	c27R1(p, r, pk, pp)
	c27R2(p, r, pp)
	c27R3(p, r, pk, pp)
	c27R4(p, r, pp)
	c27R5(p, r, pp)
	c27R6(p, r, pp)
	c27R7(p, r, pp)
}

func setDiff(a, b map[string]bool) []string {
	var out []string
	for k := range a {
		if !b[k] {
			out = append(out, k)
		}
	}
	sort.Strings(out)
	return out
}

func c27R1(p *core.Program, r *core.Report, pk, pp *packages.Package) {
	info := pk.TypesInfo
	// constants
	consts := map[string]bool{}
	for _, name := range pk.Types.Scope().Names() {
		if strings.HasPrefix(name, "messageType") {
			if _, ok := pk.Types.Scope().Lookup(name).(*types.Const); ok {
				consts[name] = true
			}
		}
	}
	r.Floor("C27/R1 messageType constants", len(consts), 16)
	// getMessage: const -> type
	c2t := map[string]string{}
	if fd := core.FuncDecl(pk, "", "getMessage"); fd != nil {
		ast.Inspect(fd.Body, func(n ast.Node) bool {
			cc, ok := n.(*ast.CaseClause)
			if !ok || cc.List == nil {
				return true
			}
			for _, e := range cc.List {
				id, ok := ast.Unparen(e).(*ast.Ident)
				if !ok {
					r.Violate("R1", "getMessage case", p.Pos(e.Pos()), "case label is not a messageType constant")
					continue
				}
				for _, st := range cc.Body {
					if ret, ok := st.(*ast.ReturnStmt); ok && len(ret.Results) >= 1 {
						if t := info.TypeOf(ret.Results[0]); t != nil {
							if prev, dup := c2t[id.Name]; dup && prev != typeKey(t) {
								r.Violate("R1", "getMessage "+id.Name, p.Pos(e.Pos()), "constant handled twice with different types")
							}
							c2t[id.Name] = typeKey(t)
						}
					}
				}
			}
			return true
		})
	} else {
		r.Undecide("R1", "getMessage", "", "function not found")
	}
	// getMessageType: type -> const
	t2c := map[string]string{}
	if fd := core.FuncDecl(pk, "", "getMessageType"); fd != nil {
		cases, _, _ := typeSwitchCases(info, fd)
		for tname, cc := range cases {
			for _, st := range cc.Body {
				if ret, ok := st.(*ast.ReturnStmt); ok && len(ret.Results) == 1 {
					if id, ok := ast.Unparen(ret.Results[0]).(*ast.Ident); ok {
						t2c[tname] = id.Name
					}
				}
			}
		}
	} else {
		r.Undecide("R1", "getMessageType", "", "function not found")
	}
	registered := map[string]bool{}
	for t := range t2c {
		registered[t] = true
	}
	for c := range consts {
		t, ok := c2t[c]
		switch {
		case !ok:
			r.Violate("R1", "constant "+c, "", "no getMessage case: a message of this type cannot be decoded on receipt")
		case t2c[t] != c:
			r.Violate("R1", "constant "+c, "", fmt.Sprintf("getMessage(%s) builds %s but getMessageType(%s) answers %q: sender and receiver disagree on the type byte", c, t, t, t2c[t]))
		default:
			r.Hold("R1", "constant "+c, "getMessage and getMessageType are inverse on "+t)
		}
	}
	for t, c := range t2c {
		if !consts[c] {
			r.Violate("R1", "getMessageType "+t, "", "returns "+c+", which is not a messageType constant")
		} else if c2t[c] != t {
			r.Violate("R1", "getMessageType "+t, "", fmt.Sprintf("type byte %s decodes to %s", c, c2t[c]))
		}
	}
	// receiveMessage
	handled := map[string]bool{}
	if fd := core.FuncDecl(pk, "Server", "receiveMessage"); fd != nil {
		_, order, _ := typeSwitchCases(info, fd)
		for _, t := range order {
			handled[t] = true
		}
		for _, t := range setDiff(handled, registered) {
			r.Violate("R1", "receiveMessage "+t, p.Pos(fd.Pos()), "handled on receipt but not in the broadcast registry (getMessageType panics when it is sent; getMessage cannot decode it)")
		}
		for _, t := range setDiff(registered, handled) {
			r.Violate("R1", "receiveMessage "+t, p.Pos(fd.Pos()), "registered message type has no receiveMessage case: it is silently dropped on receipt")
		}
		for t := range handled {
			if registered[t] {
				r.Hold("R1", "receiveMessage "+t, "registered and handled")
			}
		}
	} else {
		r.Undecide("R1", "(*Server).receiveMessage", "", "function not found")
	}
	r.Floor("C27/R1 receiveMessage cases", len(handled), 16)
	// serializer tables
	um, em := map[string]bool{}, map[string]bool{}
	if fd := core.FuncDecl(pp, "Serializer", "Unmarshal"); fd != nil {
		_, order, _ := typeSwitchCases(pp.TypesInfo, fd)
		for _, t := range order {
			um[strings.ReplaceAll(t, "pilosa.", "")] = true
		}
	}
	if fd := core.FuncDecl(pp, "", "encodeToProto"); fd != nil {
		_, order, _ := typeSwitchCases(pp.TypesInfo, fd)
		for _, t := range order {
			em[strings.ReplaceAll(t, "pilosa.", "")] = true
		}
	}
	r.Floor("C27/R1 Serializer.Unmarshal cases", len(um), 25)
	for _, t := range setDiff(um, em) {
		r.Violate("R1", "serializer "+t, "", "decodable but not encodable (no encodeToProto case)")
	}
	for _, t := range setDiff(em, um) {
		r.Violate("R1", "serializer "+t, "", "encodable but not decodable (no Serializer.Unmarshal case)")
	}
	for t := range registered {
		if um[t] && em[t] {
			r.Hold("R1", "serializer "+t, "registered type has both serializer cases")
		} else {
			r.Violate("R1", "serializer "+t, "", "registered broadcast type lacks a serializer case")
		}
	}
	// send sites
	nSend := 0
	sendNames := map[string]bool{"SendSync": true, "SendAsync": true, "SendTo": true, "sendTo": true, "unprotectedSendSync": true, "MarshalInternalMessage": true}
	for _, q := range p.All {
		for _, fd := range core.AllFuncDecls(q) {
			if fd.Body == nil {
				continue
			}
			ast.Inspect(fd.Body, func(n ast.Node) bool {
				c, ok := n.(*ast.CallExpr)
				if !ok {
					return true
				}
				fn := core.CalleeOf(q.TypesInfo, c)
				if fn == nil || !sendNames[fn.Name()] || fn.Pkg() == nil || fn.Pkg().Path() != core.ModPath {
					return true
				}
				sig := fn.Type().(*types.Signature)
				for i := 0; i < sig.Params().Len() && i < len(c.Args); i++ {
					pt := sig.Params().At(i).Type()
					if !core.IsNamed(pt, core.ModPath, "Message") {
						continue
					}
					at := q.TypesInfo.TypeOf(c.Args[i])
					if at == nil || types.IsInterface(at) {
						continue // forwarded value of interface type
					}
					nSend++
					tk := strings.ReplaceAll(typeKey(at), "pilosa.", "")
					construct := core.FuncName(fd) + " sends " + tk
					r.Check(registered[tk], "R1", construct, p.Pos(c.Pos()), "sent type is registered", "message of type "+tk+" is sent but is not in getMessageType: the send panics (\"don't have type for message\")")
				}
				return true
			})
		}
	}
	r.Floor("C27/R1 typed send sites", nSend, 12)
}

func c27R2(p *core.Program, r *core.Report, pp *packages.Package) {
	info := pp.TypesInfo
	consts := map[string]bool{}
	for _, name := range pp.Types.Scope().Names() {
		if strings.HasPrefix(name, "queryResultType") {
			consts[name] = true
		}
	}
	r.Floor("C27/R2 queryResultType constants", len(consts), 10)
	enc := map[string]string{} // const -> Go type
	if fd := core.FuncDecl(pp, "", "encodeQueryResponse"); fd != nil {
		cases, _, _ := typeSwitchCases(info, fd)
		for tname, cc := range cases {
			found := ""
			for _, st := range cc.Body {
				as, ok := st.(*ast.AssignStmt)
				if !ok || len(as.Lhs) != 1 || len(as.Rhs) != 1 {
					continue
				}
				if sel, ok := ast.Unparen(as.Lhs[0]).(*ast.SelectorExpr); ok && sel.Sel.Name == "Type" {
					if id, ok := ast.Unparen(as.Rhs[0]).(*ast.Ident); ok && consts[id.Name] {
						found = id.Name
					}
				}
			}
			if found == "" {
				r.Violate("R2", "encodeQueryResponse "+tname, p.Pos(cc.Pos()), "case does not set a queryResultType constant: the receiver cannot tell what was sent")
				continue
			}
			if prev, dup := enc[found]; dup {
				r.Violate("R2", "encodeQueryResponse "+found, p.Pos(cc.Pos()), "kind used for two Go types ("+prev+", "+tname+")")
			}
			enc[found] = tname
		}
	} else {
		r.Undecide("R2", "encodeQueryResponse", "", "not found")
	}
	dec := map[string]string{}
	if fd := core.FuncDecl(pp, "", "decodeQueryResult"); fd != nil {
		ast.Inspect(fd.Body, func(n ast.Node) bool {
			cc, ok := n.(*ast.CaseClause)
			if !ok || cc.List == nil {
				return true
			}
			for _, e := range cc.List {
				id, ok := ast.Unparen(e).(*ast.Ident)
				if !ok || !consts[id.Name] {
					continue
				}
				for _, st := range cc.Body {
					if ret, ok := st.(*ast.ReturnStmt); ok && len(ret.Results) >= 1 {
						if t := info.TypeOf(ret.Results[0]); t != nil {
							dec[id.Name] = typeKey(t)
						}
					}
				}
			}
			return true
		})
	} else {
		r.Undecide("R2", "decodeQueryResult", "", "not found")
	}
	for c := range consts {
		et, eok := enc[c]
		dt, dok := dec[c]
		switch {
		case !eok && !dok:
			r.Violate("R2", c, "", "kind has neither an encoder nor a decoder case")
		case !eok:
			r.Violate("R2", c, "", "kind is decoded but never encoded")
		case !dok:
			r.Violate("R2", c, "", "kind "+c+" ("+et+") is encoded but decodeQueryResult has no case: the peer panics/errs on it")
		case dt != et && !(et == "nil" && dt == "untyped nil"):
			r.Violate("R2", c, "", "encoded from "+et+" but decoded to "+dt)
		default:
			r.Hold("R2", c, "encoded from and decoded to "+et)
		}
	}
}

// frozen exceptions for R3: struct.field -> reason
var c27FieldExceptions = map[string]string{
	"QueryRequest.Index":          "travels in the request URL, not in the body",
	"QueryResponse.Err":           "encoded as its message string; error identity is not part of the value",
	"IndexInfo.ShardWidth":        "compile-time constant reported to HTTP clients in the JSON schema; not state that travels between nodes",
	"ImportRoaringRequest.Remote": "travels as the ?remote= URL parameter of the import-roaring endpoint",
}

func c27R3(p *core.Program, r *core.Report, pk, pp *packages.Package) {
	info := pp.TypesInfo
	type pair struct {
		enc, dec []*ast.FuncDecl
		st       *types.Struct
	}
	pairs := map[string]*pair{}
	structOf := func(t types.Type) (string, *types.Struct) {
		n := core.NamedOf(t)
		if n == nil || n.Obj().Pkg() == nil || n.Obj().Pkg().Path() != core.ModPath {
			return "", nil
		}
		st, ok := n.Underlying().(*types.Struct)
		if !ok {
			return "", nil
		}
		return n.Obj().Name(), st
	}
	for _, fd := range core.AllFuncDecls(pp) {
		if fd.Body == nil || fd.Recv != nil {
			continue
		}
		obj, _ := info.Defs[fd.Name].(*types.Func)
		if obj == nil {
			continue
		}
		sig := obj.Type().(*types.Signature)
		switch {
		case strings.HasPrefix(fd.Name.Name, "encode") && sig.Params().Len() >= 1:
			if name, st := structOf(sig.Params().At(0).Type()); st != nil {
				if pairs[name] == nil {
					pairs[name] = &pair{st: st}
				}
				pairs[name].enc = append(pairs[name].enc, fd)
			}
		case strings.HasPrefix(fd.Name.Name, "decode"):
			// decoders fill a *pilosa.T parameter, or return a pilosa.T / *pilosa.T
			done := false
			for i := 0; i < sig.Params().Len(); i++ {
				if _, isPtr := sig.Params().At(i).Type().(*types.Pointer); !isPtr {
					continue
				}
				if name, st := structOf(sig.Params().At(i).Type()); st != nil {
					if pairs[name] == nil {
						pairs[name] = &pair{st: st}
					}
					pairs[name].dec = append(pairs[name].dec, fd)
					done = true
				}
			}
			if !done && sig.Results().Len() == 1 {
				if name, st := structOf(sig.Results().At(0).Type()); st != nil {
					if pairs[name] == nil {
						pairs[name] = &pair{st: st}
					}
					pairs[name].dec = append(pairs[name].dec, fd)
				}
			}
		}
	}
	var names []string
	for n := range pairs {
		names = append(names, n)
	}
	sort.Strings(names)
	nPairs := 0
	for _, name := range names {
		pr := pairs[name]
		if len(pr.enc) == 0 || len(pr.dec) == 0 {
			continue
		}
		nPairs++
		read := map[string]bool{}
		for _, fd := range pr.enc {
			ast.Inspect(fd.Body, func(n ast.Node) bool {
				if sel, ok := n.(*ast.SelectorExpr); ok {
					if s, ok := info.Selections[sel]; ok && s.Kind() == types.FieldVal {
						if nm, _ := structOf(s.Recv()); nm == name {
							read[sel.Sel.Name] = true
						}
					}
				}
				return true
			})
		}
		written := map[string]bool{}
		for _, fd := range pr.dec {
			c27DecodedFields(info, fd, name, structOf, written)
		}
		for i := 0; i < pr.st.NumFields(); i++ {
			f := pr.st.Field(i)
			if !f.Exported() {
				continue
			}
			key := name + "." + f.Name()
			construct := "field " + key
			if why, ok := c27FieldExceptions[key]; ok && why != "" {
				r.Hold("R3", construct, "exception: "+why)
				continue
			}
			switch {
			case !read[f.Name()] && !written[f.Name()]:
				r.Violate("R3", construct, p.Pos(pr.enc[0].Pos()), "field is neither encoded nor decoded: it is lost on every hop between nodes")
			case !read[f.Name()]:
				r.Violate("R3", construct, p.Pos(pr.enc[0].Pos()), "field is decoded but "+pr.enc[0].Name.Name+" never reads it: the peer always sees the zero value")
			case !written[f.Name()]:
				r.Violate("R3", construct, p.Pos(pr.dec[0].Pos()), "field is encoded but "+pr.dec[0].Name.Name+" never fills it from the wire message: the value is dropped on receipt")
			default:
				r.Hold("R3", construct, "encoded and decoded")
			}
		}
	}
	r.Floor("C27/R3 encode/decode struct pairs", nPairs, 25)
}

// c27DecodedFields records which fields of struct `name` fd fills from its
// wire-message parameter(s).
func c27DecodedFields(info *types.Info, fd *ast.FuncDecl, name string, structOf func(types.Type) (string, *types.Struct), written map[string]bool) {
	// wire params: parameters whose type comes from package internal
	wire := map[types.Object]bool{}
	for _, fl := range fd.Type.Params.List {
		for _, nm := range fl.Names {
			o := info.ObjectOf(nm)
			if o == nil {
				continue
			}
			t := o.Type()
			if sl, ok := t.Underlying().(*types.Slice); ok {
				t = sl.Elem()
			}
			if n := core.NamedOf(t); n != nil && n.Obj().Pkg() != nil && n.Obj().Pkg().Path() == internalPath {
				wire[o] = true
			}
		}
	}
	// locals derived from wire params (one level: x := pb.F / range)
	mentionsWire := func(e ast.Node) bool {
		found := false
		ast.Inspect(e, func(n ast.Node) bool {
			if id, ok := n.(*ast.Ident); ok && wire[info.ObjectOf(id)] {
				found = true
			}
			return true
		})
		return found
	}
	for pass := 0; pass < 3; pass++ {
		ast.Inspect(fd.Body, func(n ast.Node) bool {
			switch x := n.(type) {
			case *ast.AssignStmt:
				if len(x.Lhs) == len(x.Rhs) {
					for i, l := range x.Lhs {
						le := ast.Unparen(l)
						if ix, ok := le.(*ast.IndexExpr); ok {
							le = ast.Unparen(ix.X) // local[k] = wire-derived
						}
						if id, ok := le.(*ast.Ident); ok && mentionsWire(x.Rhs[i]) {
							if o := info.ObjectOf(id); o != nil {
								wire[o] = true
							}
						}
					}
				}
			case *ast.RangeStmt:
				if mentionsWire(x.X) {
					for _, e := range []ast.Expr{x.Key, x.Value} {
						if id, ok := e.(*ast.Ident); ok {
							if o := info.ObjectOf(id); o != nil {
								wire[o] = true
							}
						}
					}
				}
			}
			return true
		})
	}
	fieldOf := func(e ast.Expr) string {
		sel, ok := ast.Unparen(e).(*ast.SelectorExpr)
		if !ok {
			return ""
		}
		if s, ok := info.Selections[sel]; ok && s.Kind() == types.FieldVal {
			if nm, _ := structOf(s.Recv()); nm == name {
				return sel.Sel.Name
			}
		}
		return ""
	}
	ast.Inspect(fd.Body, func(n ast.Node) bool {
		switch x := n.(type) {
		case *ast.AssignStmt:
			for i, l := range x.Lhs {
				le := ast.Unparen(l)
				if ix, ok := le.(*ast.IndexExpr); ok {
					le = ix.X
				}
				f := fieldOf(le)
				if f == "" {
					continue
				}
				var rhs ast.Expr
				if len(x.Rhs) == len(x.Lhs) {
					rhs = x.Rhs[i]
				} else if len(x.Rhs) == 1 {
					rhs = x.Rhs[0]
				}
				if rhs != nil && mentionsWire(rhs) {
					written[f] = true
				}
			}
		case *ast.CallExpr:
			// decodeY(pb.F, m.G) or decodeY(pb.F, &m.G)
			hasWire := false
			for _, a := range x.Args {
				if mentionsWire(a) {
					hasWire = true
				}
			}
			if !hasWire {
				return true
			}
			for _, a := range x.Args {
				e := ast.Unparen(a)
				if ue, ok := e.(*ast.UnaryExpr); ok && ue.Op == token.AND {
					e = ue.X
				}
				if f := fieldOf(e); f != "" {
					written[f] = true
				}
			}
		case *ast.CompositeLit:
			if nm, _ := structOf(info.TypeOf(x)); nm == name {
				for _, el := range x.Elts {
					if kv, ok := el.(*ast.KeyValueExpr); ok {
						if id, ok := kv.Key.(*ast.Ident); ok && mentionsWire(kv.Value) {
							written[id.Name] = true
						}
					}
				}
			}
		}
		return true
	})
}

func c27R4(p *core.Program, r *core.Report, pp *packages.Package) {
	info := pp.TypesInfo
	isWirePtr := func(t types.Type) bool {
		pt, ok := t.(*types.Pointer)
		if !ok {
			return false
		}
		n := core.NamedOf(pt.Elem())
		if n == nil || n.Obj().Pkg() == nil || n.Obj().Pkg().Path() != internalPath {
			return false
		}
		_, isStruct := n.Underlying().(*types.Struct)
		return isStruct
	}
	decls := map[*types.Func]*ast.FuncDecl{}
	for _, fd := range core.AllFuncDecls(pp) {
		if o, ok := info.Defs[fd.Name].(*types.Func); ok && fd.Body != nil {
			decls[o] = fd
		}
	}
	// guarded(D): the first statement that mentions wire param p is `if p == nil { return ... }`; derefs(D): D selects a field of p
	type dinfo struct {
		param   types.Object
		idx     int
		guarded bool
		derefs  bool
	}
	dinfos := map[*types.Func]*dinfo{}
	for fn, fd := range decls {
		sig := fn.Type().(*types.Signature)
		for i := 0; i < sig.Params().Len(); i++ {
			if !isWirePtr(sig.Params().At(i).Type()) {
				continue
			}
			di := &dinfo{param: sig.Params().At(i), idx: i}
			// the first statement that mentions the parameter at all
			var first ast.Stmt
			for _, st := range fd.Body.List {
				uses := false
				ast.Inspect(st, func(n ast.Node) bool {
					if id, ok := n.(*ast.Ident); ok && info.Uses[id] == di.param {
						uses = true
					}
					return true
				})
				if uses {
					first = st
					break
				}
			}
			if first != nil {
				if ifs, ok := first.(*ast.IfStmt); ok {
					if be, ok := ast.Unparen(ifs.Cond).(*ast.BinaryExpr); ok && be.Op == token.EQL {
						if id, ok := ast.Unparen(be.X).(*ast.Ident); ok && info.ObjectOf(id) == di.param {
							if nl, ok := ast.Unparen(be.Y).(*ast.Ident); ok && nl.Name == "nil" {
								if n := len(ifs.Body.List); n > 0 {
									if _, isRet := ifs.Body.List[n-1].(*ast.ReturnStmt); isRet {
										di.guarded = true
									}
								}
							}
						}
					}
				}
			}
			ast.Inspect(fd.Body, func(n ast.Node) bool {
				if sel, ok := n.(*ast.SelectorExpr); ok {
					if id, ok := ast.Unparen(sel.X).(*ast.Ident); ok && info.ObjectOf(id) == di.param {
						if s, ok := info.Selections[sel]; ok && s.Kind() == types.FieldVal {
							di.derefs = true
						}
					}
				}
				return true
			})
			dinfos[fn] = di
			break
		}
	}
	// singular nested field expression: selector X.F with F a pointer-to-wire-struct field
	isSingularNested := func(e ast.Expr) bool {
		sel, ok := ast.Unparen(e).(*ast.SelectorExpr)
		if !ok {
			return false
		}
		s, ok := info.Selections[sel]
		return ok && s.Kind() == types.FieldVal && isWirePtr(s.Type())
	}
	nSites := 0
	for _, fd := range core.AllFuncDecls(pp) {
		if fd.Body == nil {
			continue
		}
		parents := parentMap(fd.Body)
		nonNilGuarded := func(n ast.Node, e ast.Expr) bool {
			want := types.ExprString(ast.Unparen(e))
			var child ast.Node = n
			for q := parents[n]; q != nil; child, q = q, parents[q] {
				ifs, ok := q.(*ast.IfStmt)
				if !ok || child != ast.Node(ifs.Body) {
					continue
				}
				found := false
				ast.Inspect(ifs.Cond, func(m ast.Node) bool {
					if be, ok := m.(*ast.BinaryExpr); ok && be.Op == token.NEQ && types.ExprString(ast.Unparen(be.X)) == want {
						if id, ok := ast.Unparen(be.Y).(*ast.Ident); ok && id.Name == "nil" {
							found = true
						}
					}
					return true
				})
				if found {
					return true
				}
			}
			return false
		}
		ast.Inspect(fd.Body, func(n ast.Node) bool {
			switch x := n.(type) {
			case *ast.CallExpr:
				fn := core.CalleeOf(info, x)
				di := dinfos[fn]
				if di == nil || di.idx >= len(x.Args) {
					return true
				}
				arg := x.Args[di.idx]
				if !isSingularNested(arg) {
					return true
				}
				nSites++
				construct := core.FuncName(fd) + ": " + fn.Name() + "(" + types.ExprString(arg) + ")"
				switch {
				case di.guarded:
					r.HoldAt("R4", construct, p.Pos(x.Pos()), "callee tests the parameter for nil before any other use")
				case !di.derefs:
					r.HoldAt("R4", construct, p.Pos(x.Pos()), "callee does not dereference the message")
				case nonNilGuarded(x, arg):
					r.HoldAt("R4", construct, p.Pos(x.Pos()), "call is under a non-nil test of the field")
				default:
					r.Violate("R4", construct, p.Pos(x.Pos()), "a nested message field that is nil when absent from the bytes is passed to "+fn.Name()+", which dereferences it without a nil guard: decoding short or crafted bytes panics instead of returning an error")
				}
			case *ast.SelectorExpr:
				// X.F.G with X.F singular nested and G a field
				if s, ok := info.Selections[x]; ok && s.Kind() == types.FieldVal && isSingularNested(x.X) {
					nSites++
					construct := core.FuncName(fd) + ": " + types.ExprString(x)
					if nonNilGuarded(x, x.X) {
						r.HoldAt("R4", construct, p.Pos(x.Pos()), "under a non-nil test")
					} else {
						r.Violate("R4", construct, p.Pos(x.Pos()), "dereference through a nested message field that is nil when absent from the bytes")
					}
				}
			}
			return true
		})
	}
	r.Floor("C27/R4 nested-message hand-offs examined", nSites, 15)
}

func c27R5(p *core.Program, r *core.Report, pp *packages.Package) {
	info := pp.TypesInfo
	n := 0
	for _, fd := range core.AllFuncDecls(pp) {
		if fd.Body == nil || !strings.HasPrefix(fd.Name.Name, "decode") {
			continue
		}
		n++
		bad := ""
		pos := fd.Pos()
		var lenTested []string
		ast.Inspect(fd.Body, func(nd ast.Node) bool {
			switch x := nd.(type) {
			case *ast.CallExpr:
				if core.BuiltinName(info, x) == "panic" {
					bad, pos = "calls panic: bytes from the wire reach it (an unknown kind or malformed message crashes the receiver instead of being rejected)", x.Pos()
				}
				if core.BuiltinName(info, x) == "len" && len(x.Args) == 1 {
					lenTested = append(lenTested, types.ExprString(ast.Unparen(x.Args[0])))
				}
			case *ast.IndexExpr:
				tv, ok := info.Types[x.Index]
				if !ok || tv.Value == nil {
					return true
				}
				if _, isSlice := info.TypeOf(x.X).Underlying().(*types.Slice); !isSlice {
					return true
				}
				want := types.ExprString(ast.Unparen(x.X))
				tested := false
				for _, t := range lenTested {
					if t == want {
						tested = true
					}
				}
				if !tested {
					bad, pos = "indexes "+want+" with a constant without testing its length: an empty list from the wire panics", x.Pos()
				}
			}
			return true
		})
		if bad != "" {
			r.Violate("R5", fd.Name.Name, p.Pos(pos), bad)
		} else {
			r.HoldAt("R5", fd.Name.Name, p.Pos(fd.Pos()), "no panic, no unguarded constant index")
		}
	}
	r.Floor("C27/R5 decode functions", n, 50)
}

// frozen renames for R6: "<pilosa struct>.<field>" -> wire field name
var c27Renames = map[string]string{
	"FieldInfo.Options":   "Meta",
	"NodeEvent.Event":     "Event",
	"QueryResponse.Err":   "Err",
	"IndexOptions.Keys":   "Keys",
	"CreateIndexMessage.Meta": "Meta",
}

func c27R6(p *core.Program, r *core.Report, pp *packages.Package) {
	info := pp.TypesInfo
	isInternal := func(t types.Type) bool {
		if sl, ok := t.Underlying().(*types.Slice); ok {
			t = sl.Elem()
		}
		n := core.NamedOf(t)
		return n != nil && n.Obj().Pkg() != nil && n.Obj().Pkg().Path() == internalPath
	}
	isPilosa := func(t types.Type) (string, bool) {
		n := core.NamedOf(t)
		if n == nil || n.Obj().Pkg() == nil || n.Obj().Pkg().Path() != core.ModPath {
			return "", false
		}
		if _, ok := n.Underlying().(*types.Struct); !ok {
			return "", false
		}
		return n.Obj().Name(), true
	}
	nAssign := 0
	for _, fd := range core.AllFuncDecls(pp) {
		if fd.Body == nil || fd.Recv != nil {
			continue
		}
		dec := strings.HasPrefix(fd.Name.Name, "decode")
		enc := strings.HasPrefix(fd.Name.Name, "encode")
		if !dec && !enc {
			continue
		}
		// srcFields(e): names of fields selected on "source side" values inside e, through locals
		srcSide := func(t types.Type) bool {
			if dec {
				return isInternal(t)
			}
			_, ok := isPilosa(t)
			return ok
		}
		localSrc := map[types.Object]map[string]bool{}
		rangeLocal := map[types.Object]bool{}
		// parameters of the function
		params := map[types.Object]bool{}
		for _, fl := range fd.Type.Params.List {
			for _, nm := range fl.Names {
				params[info.ObjectOf(nm)] = true
			}
		}
		var srcFields func(e ast.Node) map[string]bool
		srcFields = func(e ast.Node) map[string]bool {
			out := map[string]bool{}
			ast.Inspect(e, func(n ast.Node) bool {
				switch x := n.(type) {
				case *ast.SelectorExpr:
					s, ok := info.Selections[x]
					if !ok || s.Kind() != types.FieldVal {
						return true
					}
					// walk to the base identifier, remembering the first field hop
					first := x.Sel.Name
					firstRecv := s.Recv()
					var cur ast.Expr = x.X
					for {
						switch y := ast.Unparen(cur).(type) {
						case *ast.SelectorExpr:
							if s2, ok := info.Selections[y]; ok && s2.Kind() == types.FieldVal {
								first, firstRecv = y.Sel.Name, s2.Recv()
							}
							cur = y.X
							continue
						case *ast.IndexExpr:
							cur = y.X
							continue
						case *ast.StarExpr:
							cur = y.X
							continue
						case *ast.Ident:
							o := info.ObjectOf(y)
							if params[o] {
								if srcSide(firstRecv) {
									out[first] = true
								}
							} else {
								for k := range localSrc[o] {
									out[k] = true
								}
							}
						}
						break
					}
					return false
				case *ast.Ident:
					for k := range localSrc[info.ObjectOf(x)] {
						out[k] = true
					}
				}
				return true
			})
			return out
		}
		for pass := 0; pass < 3; pass++ {
			ast.Inspect(fd.Body, func(n ast.Node) bool {
				switch x := n.(type) {
				case *ast.AssignStmt:
					if len(x.Lhs) == len(x.Rhs) {
						for i, l := range x.Lhs {
							le := ast.Unparen(l)
							if ix, ok := le.(*ast.IndexExpr); ok {
								le = ast.Unparen(ix.X)
							}
							if id, ok := le.(*ast.Ident); ok {
								if fs := srcFields(x.Rhs[i]); len(fs) > 0 {
									o := info.ObjectOf(id)
									if localSrc[o] == nil {
										localSrc[o] = map[string]bool{}
									}
									for k := range fs {
										localSrc[o][k] = true
									}
								}
							}
						}
					}
				case *ast.RangeStmt:
					if fs := srcFields(x.X); len(fs) > 0 {
						for _, e := range []ast.Expr{x.Key, x.Value} {
							if id, ok := e.(*ast.Ident); ok && id.Name != "_" {
								o := info.ObjectOf(id)
								rangeLocal[o] = true
								if localSrc[o] == nil {
									localSrc[o] = map[string]bool{}
								}
								for k := range fs {
									localSrc[o][k] = true
								}
							}
						}
					}
				}
				return true
			})
		}
		parents := parentMap(fd.Body)
		type asg struct {
			key string
			at  ast.Node
		}
		var asgs []asg
		check := func(owner, field string, rhs ast.Expr, at ast.Node) {
			fs := srcFields(rhs)
			if len(fs) == 0 {
				return
			}
			// element-level restructuring: the value is built only from the
			// loop variables of a range over a collection field
			onlyRange, anyIdent := true, false
			ast.Inspect(rhs, func(n ast.Node) bool {
				if id, ok := n.(*ast.Ident); ok {
					o := info.ObjectOf(id)
					if _, isVar := o.(*types.Var); isVar && (params[o] || len(localSrc[o]) > 0) {
						anyIdent = true
						if !rangeLocal[o] {
							onlyRange = false
						}
					}
				}
				return true
			})
			if anyIdent && onlyRange {
				return
			}
			nAssign++
			allowed := map[string]bool{field: true}
			if rn, ok := c27Renames[owner+"."+field]; ok {
				allowed[rn] = true
			}
			if dec {
				if rn, ok := c27Renames[owner+"."+field]; ok {
					allowed[rn] = true
				}
			} else {
				// encoder: wire field G filled from pilosa field F; renames are keyed by the pilosa side
				for k, v := range c27Renames {
					if v == field {
						allowed[k[strings.Index(k, ".")+1:]] = true
					}
				}
			}
			var extra []string
			for k := range fs {
				if !allowed[k] {
					extra = append(extra, k)
				}
			}
			sort.Strings(extra)
			construct := fd.Name.Name + ": " + owner + "." + field
			if len(extra) > 0 {
				r.Violate("R6", construct, p.Pos(at.Pos()), "field "+field+" is computed from "+strings.Join(extra, ", ")+" rather than projected from the field of the same name: the value changes in transit")
			} else {
				r.HoldAt("R6", construct, p.Pos(at.Pos()), "projection of the same-named field")
			}
		}
		ast.Inspect(fd.Body, func(n ast.Node) bool {
			switch x := n.(type) {
			case *ast.AssignStmt:
				if !dec || len(x.Lhs) != len(x.Rhs) {
					return true
				}
				for i, l := range x.Lhs {
					sel, ok := ast.Unparen(l).(*ast.SelectorExpr)
					if !ok {
						continue
					}
					s, ok := info.Selections[sel]
					if !ok || s.Kind() != types.FieldVal {
						continue
					}
					if owner, ok := isPilosa(s.Recv()); ok {
						check(owner, sel.Sel.Name, x.Rhs[i], x)
						asgs = append(asgs, asg{types.ExprString(sel), x})
					}
				}
			case *ast.CompositeLit:
				t := info.TypeOf(x)
				if t == nil {
					return true
				}
				owner, isP := isPilosa(t)
				if dec && isP {
					for _, el := range x.Elts {
						if kv, ok := el.(*ast.KeyValueExpr); ok {
							if id, ok := kv.Key.(*ast.Ident); ok {
								check(owner, id.Name, kv.Value, kv)
							}
						}
					}
				}
				if enc && isInternal(t) {
					n := core.NamedOf(t)
					for _, el := range x.Elts {
						if kv, ok := el.(*ast.KeyValueExpr); ok {
							if id, ok := kv.Key.(*ast.Ident); ok {
								check(n.Obj().Name(), id.Name, kv.Value, kv)
							}
						}
					}
				}
			}
			return true
		})
		// a decoded field must not be assigned again (overwritten) outside a
		// mutually exclusive branch
		branchOf := func(n ast.Node) map[*ast.IfStmt]int {
			out := map[*ast.IfStmt]int{}
			var child ast.Node = n
			for q := parents[n]; q != nil; child, q = q, parents[q] {
				if ifs, ok := q.(*ast.IfStmt); ok {
					if child == ast.Node(ifs.Body) {
						out[ifs] = 1
					} else if child == ifs.Else {
						out[ifs] = 2
					}
				}
			}
			return out
		}
		for i := 0; i < len(asgs); i++ {
			for j := i + 1; j < len(asgs); j++ {
				if asgs[i].key != asgs[j].key {
					continue
				}
				bi, bj := branchOf(asgs[i].at), branchOf(asgs[j].at)
				exclusive := false
				for ifs, side := range bi {
					if s2, ok := bj[ifs]; ok && s2 != side {
						exclusive = true
					}
				}
				// else-if chains: the second assignment sits in an if that is the Else of the first's if
				for ifs := range bj {
					for ifs1, side := range bi {
						if side == 1 && ifs1.Else == ast.Stmt(ifs) {
							exclusive = true
						}
					}
				}
				// a default and its override: one of the two assigns a constant or nil
				for _, a := range []asg{asgs[i], asgs[j]} {
					if as1, ok := a.at.(*ast.AssignStmt); ok && len(as1.Rhs) == len(as1.Lhs) {
						for k, l := range as1.Lhs {
							if types.ExprString(ast.Unparen(l)) != a.key {
								continue
							}
							if tv, ok := info.Types[as1.Rhs[k]]; ok && (tv.Value != nil || tv.IsNil()) {
								exclusive = true
							}
						}
					}
				}
				// the first assignment sits in a branch that ends in a return the second is not part of
				for ifs, side := range bi {
					if _, ok := bj[ifs]; ok {
						continue
					}
					var blk *ast.BlockStmt
					if side == 1 {
						blk = ifs.Body
					} else if b, ok := ifs.Else.(*ast.BlockStmt); ok {
						blk = b
					}
					if blk != nil && len(blk.List) > 0 {
						if _, ok := blk.List[len(blk.List)-1].(*ast.ReturnStmt); ok {
							exclusive = true
						}
					}
				}
				if as2, ok := asgs[j].at.(*ast.AssignStmt); ok && len(as2.Rhs) == 1 {
					if c, ok := ast.Unparen(as2.Rhs[0]).(*ast.CallExpr); ok && core.BuiltinName(info, c) == "append" && len(c.Args) > 0 && types.ExprString(ast.Unparen(c.Args[0])) == asgs[j].key {
						exclusive = true // accumulate idiom: x = append(x, ...)
					}
				}
				if !exclusive {
					r.Violate("R6", fd.Name.Name+": "+asgs[j].key+" reassigned", p.Pos(asgs[j].at.Pos()), "the decoded field "+asgs[j].key+" is assigned again after it was filled from the wire: the decoded value differs from what was encoded")
				}
			}
		}
	}
	r.Floor("C27/R6 field projections examined", nAssign, 120)
}
