package props

import (
	"fmt"
	"go/ast"
	"go/token"
	"go/types"
	"sort"
	"strings"

	"verif/checker/core"
	"verif/checker/ord"
)

func init() { register("C20", c20) }

// functions allowed to index or rebuild cluster.nodes positionally (frozen, one reason each)
var c20NodeIndexers = map[string]string{
	"(*cluster).partitionNodes":          "the one placement function: ring walk from the hashed index",
	"(*cluster).removeNodeBasicSorted":   "in-place removal keeps the order",
	"(*cluster).unprotectedPreviousNode": "ring predecessor of the local node, used for translation replication; not an ownership decision",
	"(*cluster).receiveNodeState":        "updates a member's state in place",
	"(*cluster).unprotectedSetNodeState": "updates a member's state in place",
	"(*cluster).setNodeState":            "updates a member's state in place",
	"(*cluster).setMyNodeState":          "updates the local member's state in place",
}

func c20(p *core.Program, r *core.Report) {
	r.Rule("R4", "ownership is a function of the membership: the placement functions of cluster (partition, partitionNodes, shardNodes, ShardNodes, ownsShard, containsShards) read no cluster field other than nodes, ReplicaN, partitionN, Hasher and the mutex, and write none")
	c20OwnershipIsAFunction(p, r)
	r.Rule("R1", "sorted membership: every function that appends to cluster.nodes sorts the list by node ID (sort.Sort(byID(c.nodes))) before any normal return, so the ring order depends only on the IDs, not on join order; setStatic (static host lists, excluded by the statement) is the single frozen exception")
	r.Rule("R2", "single source of ownership: the consistent hash (Hasher.Hash) is consulted only by partitionNodes and the partition hash (fnv) only by partition; every ownership predicate used by writes, anti-entropy and cleanup (shardNodes, ShardNodes, ownsShard, containsShards) reaches partitionNodes; no other function picks members of cluster.nodes by position")
	r.Rule("R3", "replica clamp: partitionNodes is abstractly executed for every ordering of {ReplicaN, len(nodes), 0, 1} with ReplicaN >= 0 and len(nodes) >= 1; the number of owners must be min(max(ReplicaN, 1), len(nodes)), and owners are taken at consecutive ring positions modulo len(nodes) (distinct because the count never exceeds len(nodes))")
	r.Rule("R5", "membership is order-independent: every bool-returning method of Nodes (Contains, ContainsID; ownsShard applies ContainsID to the ring-ordered owner list) is a linear scan of the whole receiver that answers `true` inside the scan and `false` only after it; no binary search or other order-presuming shortcut")
	c20MembershipScansTheList(p, r)
	r.NotDecided = "the jump-hash arithmetic and its balance, the distribution of the partition hash; negative replica counts (outside the statement's range 0..9)"
	pk := p.Pkg("")
	if pk == nil {
		r.Undecide("R1", "package pilosa", "", "not loaded")
		return
	}
	info := pk.TypesInfo
	isNodes := func(e ast.Expr) bool {
		_, ok := core.FieldSel(info, e, core.ModPath, "cluster", "nodes")
		return ok
	}
	// ---- R1
	nApp := 0
	for _, fd := range core.AllFuncDecls(pk) {
		if fd.Body == nil {
			continue
		}
		isAppend := func(n ast.Node) bool {
			as, ok := n.(*ast.AssignStmt)
			if !ok || len(as.Lhs) != 1 || len(as.Rhs) != 1 || !isNodes(as.Lhs[0]) {
				return false
			}
			c, ok := ast.Unparen(as.Rhs[0]).(*ast.CallExpr)
			return ok && core.BuiltinName(info, c) == "append"
		}
		has := false
		ast.Inspect(fd.Body, func(n ast.Node) bool {
			if isAppend(n) {
				has = true
			}
			return true
		})
		if !has {
			continue
		}
		nApp++
		name := core.FuncName(fd)
		if name == "(*cluster).setStatic" {
			r.HoldAt("R1", name, p.Pos(fd.Pos()), "exempt: static host lists carry no node IDs and are ordered by configuration by design (excluded by the statement)")
			continue
		}
		isSort := func(n ast.Node) bool {
			c, ok := n.(*ast.CallExpr)
			if !ok {
				return false
			}
			fn := core.CalleeOf(info, c)
			if fn == nil || fn.Pkg() == nil || fn.Pkg().Path() != "sort" || len(c.Args) != 1 {
				return false
			}
			// sort.Sort(byID(c.nodes))
			if conv, ok := ast.Unparen(c.Args[0]).(*ast.CallExpr); ok && len(conv.Args) == 1 && isNodes(conv.Args[0]) {
				if tv, ok := info.Types[conv.Fun]; ok && tv.IsType() && core.IsNamed(tv.Type, core.ModPath, "byID") {
					return true
				}
			}
			return false
		}
		res := runPathRule(pathRuleSpec{info: info, fd: fd, trigger: isAppend, required: []func(ast.Node) bool{isSort}})
		switch {
		case res.unsupported != "":
			r.Undecide("R1", name, p.Pos(fd.Pos()), res.unsupported)
		case len(res.missing) > 0:
			r.Violate("R1", name, p.Pos(res.witnessPos.Pos()), "a node is appended to cluster.nodes and the function returns without sorting the list by ID: ring positions then depend on join order and nodes disagree on shard owners")
		default:
			r.HoldAt("R1", name, p.Pos(fd.Pos()), "sorted by ID after every append")
		}
	}
	r.Floor("C20/R1 functions appending to cluster.nodes", nApp, 2)
	// byID.Less compares IDs
	if fd := core.FuncDecl(pk, "byID", "Less"); fd != nil {
		ok := false
		ast.Inspect(fd.Body, func(n ast.Node) bool {
			if be, isBin := n.(*ast.BinaryExpr); isBin && be.Op == token.LSS {
				if strings.HasSuffix(types.ExprString(be.X), ".ID") && strings.HasSuffix(types.ExprString(be.Y), ".ID") {
					ok = true
				}
			}
			return true
		})
		r.Check(ok, "R1", "(byID).Less", p.Pos(fd.Pos()), "orders by node ID", "byID no longer orders by node ID alone")
	} else {
		r.Undecide("R1", "(byID).Less", "", "not found")
	}

	// ---- R2
	hashCallers, fnvCallers := map[string]bool{}, map[string]bool{}
	indexers := map[string]ast.Node{}
	calls := map[string]map[string]bool{}
	for _, fd := range core.AllFuncDecls(pk) {
		if fd.Body == nil {
			continue
		}
		name := core.FuncName(fd)
		calls[name] = map[string]bool{}
		ast.Inspect(fd.Body, func(n ast.Node) bool {
			switch x := n.(type) {
			case *ast.CallExpr:
				if fn := core.CalleeOf(info, x); fn != nil {
					if fn.Name() == "Hash" {
						if sel, ok := ast.Unparen(x.Fun).(*ast.SelectorExpr); ok {
							if _, ok := core.FieldSel(info, sel.X, core.ModPath, "cluster", "Hasher"); ok {
								hashCallers[name] = true
							}
						}
					}
					if fn.Pkg() != nil && fn.Pkg().Path() == "hash/fnv" && core.RecvName(fd) == "cluster" {
						fnvCallers[name] = true
					}
					if fn.Pkg() != nil && fn.Pkg().Path() == core.ModPath {
						calls[name][fnName(fn)] = true
					}
				}
			case *ast.IndexExpr:
				if isNodes(x.X) {
					indexers[name] = x
				}
			}
			return true
		})
	}
	keys := func(m map[string]bool) []string {
		var o []string
		for k := range m {
			o = append(o, k)
		}
		sort.Strings(o)
		return o
	}
	r.Check(len(hashCallers) == 1 && hashCallers["(*cluster).partitionNodes"], "R2", "Hasher.Hash callers", "", "only partitionNodes consults the consistent hash", "the consistent hash is consulted by "+strings.Join(keys(hashCallers), ", ")+": two functions can disagree on a shard's primary owner")
	r.Check(len(fnvCallers) == 1 && fnvCallers["(*cluster).partition"], "R2", "partition hash callers", "", "only partition hashes (index, shard)", "cluster methods hashing with fnv: "+strings.Join(keys(fnvCallers), ", ")+" (expected only partition)")
	var idxNames []string
	for n := range indexers {
		idxNames = append(idxNames, n)
	}
	sort.Strings(idxNames)
	for _, n := range idxNames {
		if why, ok := c20NodeIndexers[n]; ok {
			r.HoldAt("R2", n+" indexes cluster.nodes", p.Pos(indexers[n].Pos()), "allowed: "+why)
		} else {
			r.Violate("R2", n+" indexes cluster.nodes", p.Pos(indexers[n].Pos()), "picks a member of cluster.nodes by position outside the placement function: an ownership decision that can disagree with partitionNodes")
		}
	}
	reaches := func(from, to string) bool {
		seen := map[string]bool{}
		var dfs func(s string) bool
		dfs = func(s string) bool {
			if s == to {
				return true
			}
			if seen[s] {
				return false
			}
			seen[s] = true
			for c := range calls[s] {
				if dfs(c) {
					return true
				}
			}
			return false
		}
		return dfs(from)
	}
	for _, pred := range []string{"(*cluster).shardNodes", "(*cluster).ShardNodes", "(*cluster).ownsShard", "(*cluster).containsShards"} {
		if _, ok := calls[pred]; !ok {
			r.Undecide("R2", pred, "", "ownership predicate not found")
			continue
		}
		r.Check(reaches(pred, "(*cluster).partitionNodes"), "R2", pred, "", "reaches partitionNodes", "this ownership predicate no longer goes through partitionNodes: writes, anti-entropy and cleanup can disagree on who owns a shard")
	}
	// users outside cluster.go go through the predicates
	for _, user := range []string{"(*executor).shardsByNode", "(*API).validateShardOwnership", "(*holderSyncer).SyncHolder", "(*holderCleaner).CleanHolder"} {
		if _, ok := calls[user]; !ok {
			r.Undecide("R2", user, "", "function not found")
			continue
		}
		r.Check(reaches(user, "(*cluster).partitionNodes"), "R2", user, "", "decides ownership through the cluster's placement function", "does not reach partitionNodes: it decides ownership some other way")
	}

	// ---- R3
	c20Clamp(p, r)
}

func fnName(fn *types.Func) string {
	sig := fn.Type().(*types.Signature)
	if sig.Recv() == nil {
		return fn.Name()
	}
	t := sig.Recv().Type()
	star := ""
	if pt, ok := t.(*types.Pointer); ok {
		t = pt.Elem()
		star = "*"
	}
	n := core.NamedOf(t)
	if n == nil {
		return fn.Name()
	}
	return "(" + star + n.Obj().Name() + ")." + fn.Name()
}

func c20Clamp(p *core.Program, r *core.Report) {
	pk := p.Pkg("")
	info := pk.TypesInfo
	fd := core.FuncDecl(pk, "cluster", "partitionNodes")
	if fd == nil {
		r.Undecide("R3", "(*cluster).partitionNodes", "", "not found")
		return
	}
	// locate: replicaN local, the make([]*Node, X) length, the loop bound and the index expression
	var makeLen ast.Expr
	var idxExpr *ast.IndexExpr
	var loop *ast.ForStmt
	ast.Inspect(fd.Body, func(n ast.Node) bool {
		switch x := n.(type) {
		case *ast.CallExpr:
			if core.BuiltinName(info, x) == "make" && len(x.Args) == 2 {
				makeLen = x.Args[1]
			}
		case *ast.ForStmt:
			loop = x
		case *ast.IndexExpr:
			if _, ok := core.FieldSel(info, x.X, core.ModPath, "cluster", "nodes"); ok {
				idxExpr = x
			}
		}
		return true
	})
	if makeLen == nil || loop == nil || idxExpr == nil {
		r.Undecide("R3", "(*cluster).partitionNodes", p.Pos(fd.Pos()), "expected make([]*Node, n), a counting loop and an index into cluster.nodes")
		return
	}
	term := func(e ast.Expr) string {
		switch x := ast.Unparen(e).(type) {
		case *ast.SelectorExpr:
			if _, ok := core.FieldSel(info, x, core.ModPath, "cluster", "ReplicaN"); ok {
				return "ReplicaN"
			}
		case *ast.CallExpr:
			if core.BuiltinName(info, x) == "len" && len(x.Args) == 1 {
				if _, ok := core.FieldSel(info, x.Args[0], core.ModPath, "cluster", "nodes"); ok {
					return "len"
				}
			}
		}
		return ""
	}
	// statements before the make
	var prefix []ast.Stmt
	for _, st := range fd.Body.List {
		if st.End() < makeLen.Pos() {
			prefix = append(prefix, st)
		}
	}
	nOrd := 0
	for _, o := range ord.Orderings([]string{"ReplicaN", "len", "0", "1"}) {
		if o["ReplicaN"] < o["0"] || o["len"] < o["1"] {
			continue
		}
		nOrd++
		// conditions that are not comparisons of the clamp's terms (a nil test, a debug flag)
		// do not decide the clamp: both outcomes are explored
		in := &ord.Interp{Info: info, O: o, Term: term, CondHook: func(ast.Expr) (ord.Tri, bool) { return ord.Unknown, true }}
		paths := in.Run(prefix, nil)
		if in.Unsupported != "" {
			r.Undecide("R3", "(*cluster).partitionNodes", p.Pos(fd.Pos()), in.Unsupported)
			return
		}
		// expected: min(max(ReplicaN,1), len)
		want := "ReplicaN"
		if o["ReplicaN"] < o["1"] {
			want = "1"
		}
		if o[want] > o["len"] {
			want = "len"
		}
		for _, pa := range paths {
			if pa.End != ord.EndFall {
				continue
			}
			got, ok := in.Lin(makeLen, pa.Env)
			if !ok {
				r.Undecide("R3", "(*cluster).partitionNodes", p.Pos(makeLen.Pos()), "owner count is not one of the clamp's terms")
				return
			}
			gr, has := o[got.Base]
			if got.Base == "" {
				gr, has = o[fmt.Sprint(got.Off)]
			}
			if !has || got.Off != 0 && got.Base != "" || gr != o[want] {
				r.Violate("R3", "(*cluster).partitionNodes", p.Pos(makeLen.Pos()), fmt.Sprintf("for the ordering %s the number of owners is %s but must be min(max(replicas,1), nodes) = %s", o, got, want))
				return
			}
		}
	}
	r.Count("clamp_orderings", nOrd)
	r.Floor("C20/R3 orderings of (ReplicaN, len(nodes), 0, 1)", nOrd, 6)
	// ring walk: index is (<start> + i) % len(c.nodes) with i the loop counter bounded by the owner count
	okIdx := false
	if be, ok := ast.Unparen(idxExpr.Index).(*ast.BinaryExpr); ok && be.Op == token.REM && term(be.Y) == "len" {
		if add, ok := ast.Unparen(be.X).(*ast.BinaryExpr); ok && add.Op == token.ADD {
			okIdx = true
		}
	}
	okBound := false
	if be, ok := ast.Unparen(loop.Cond).(*ast.BinaryExpr); ok && be.Op == token.LSS && types.ExprString(ast.Unparen(be.Y)) == types.ExprString(ast.Unparen(makeLen)) {
		okBound = true
	}
	r.Check(okIdx && okBound, "R3", "(*cluster).partitionNodes ring walk", p.Pos(idxExpr.Pos()), "owners are at (start+i) mod len(nodes) for i < count <= len(nodes): distinct", "owners are no longer taken at consecutive positions modulo len(nodes) for i below the clamped count: members can repeat or be out of range")
	r.HoldAt("R3", "(*cluster).partitionNodes", p.Pos(fd.Pos()), fmt.Sprintf("owner count equals min(max(replicas,1), nodes) for all %d orderings", nOrd))
}
