package props

import (
	"fmt"
	"go/ast"
	"go/types"
	"strings"

	"verif/checker/core"
)

// c06CountIsNotAnExtent: R13. A container's count (N()) may come straight
// from a decoded header, while its payload (bitmap words, runs) comes from the
// data: the two can disagree on a malformed input that the decoders accept.
// A slice whose length is N() must therefore not be filled by index from the
// payload; sizing the capacity by N() and appending is the accepted form.
func c06CountIsNotAnExtent(p *core.Program, r *core.Report) {
	rp := p.Pkg("roaring")
	if rp == nil {
		r.Undecide("R13", "package roaring", "", "not loaded")
		return
	}
	info := rp.TypesInfo
	mentionsN := func(e ast.Expr) bool {
		found := false
		ast.Inspect(e, func(m ast.Node) bool {
			if c, ok := m.(*ast.CallExpr); ok {
				if fn := core.CalleeOf(info, c); fn != nil && fn.Name() == "N" && recvNamed(fn, "Container") {
					found = true
				}
			}
			return true
		})
		return found
	}
	nSized := 0
	for _, fd := range core.AllFuncDecls(rp) {
		if fd.Body == nil || strings.HasSuffix(p.Fset.Position(fd.Pos()).Filename, "_test.go") {
			continue
		}
		// slices made with a length (2-arg make) or capacity (3-arg) taken from N()
		lenSized := map[types.Object]ast.Node{}
		ast.Inspect(fd.Body, func(m ast.Node) bool {
			as, ok := m.(*ast.AssignStmt)
			if !ok || len(as.Lhs) != 1 || len(as.Rhs) != 1 {
				return true
			}
			c, ok := ast.Unparen(as.Rhs[0]).(*ast.CallExpr)
			if !ok || core.BuiltinName(info, c) != "make" || len(c.Args) < 2 {
				return true
			}
			if _, isSlice := info.TypeOf(c.Args[0]).Underlying().(*types.Slice); !isSlice {
				return true
			}
			id, ok := as.Lhs[0].(*ast.Ident)
			if !ok {
				return true
			}
			if len(c.Args) == 3 && mentionsN(c.Args[2]) {
				nSized++
			}
			if mentionsN(c.Args[1]) {
				nSized++
				lenSized[info.ObjectOf(id)] = as
			}
			return true
		})
		if len(lenSized) == 0 {
			continue
		}
		var bad []string
		ast.Inspect(fd.Body, func(m ast.Node) bool {
			as, ok := m.(*ast.AssignStmt)
			if !ok {
				return true
			}
			for _, l := range as.Lhs {
				ix, ok := ast.Unparen(l).(*ast.IndexExpr)
				if !ok {
					continue
				}
				id, ok := ast.Unparen(ix.X).(*ast.Ident)
				if !ok {
					continue
				}
				if _, sized := lenSized[info.ObjectOf(id)]; sized {
					bad = append(bad, fmt.Sprintf("%s[%s] at %s", id.Name, types.ExprString(ix.Index), p.Pos(as.Pos())))
				}
			}
			return true
		})
		construct := core.FuncName(fd) + ": a slice of length N() is not filled by index"
		if len(bad) > 0 {
			r.Violate("R13", construct, p.Pos(fd.Pos()), "indexed store into a slice whose length is the container's stored count: "+strings.Join(dedupe(bad), ", ")+"; a decoded container whose header understates its cardinality makes the store run past the slice (Optimize and WriteTo run from the snapshot queue, with no recover)")
		} else {
			r.HoldAt("R13", construct, p.Pos(fd.Pos()), "length-N() slice is only read, copied into or appended to")
		}
	}
	r.Floor("C06/R13 slices sized by a container count in package roaring", nSized, 3)
}
