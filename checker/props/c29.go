package props

import (
	"go/ast"
	"go/types"

	"verif/checker/core"
)

func init() { register("C29", c29) }

func set(xs ...string) map[string]bool {
	m := map[string]bool{}
	for _, x := range xs {
		m[x] = true
	}
	return m
}

// Frozen guarded-by tables (confirmed by reading: these are the fields each
// mutex is taken for at the overwhelming majority of sites).
var c29Specs = []lockSpec{
	{pkgRel: "", typ: "fragment", mutex: "mu",
		guarded: set("storage", "rowCache", "checksums", "cache", "opN", "ops", "maxRowID", "snapshotting", "storageData", "file", "totalOpN", "totalOps", "snapshotsTaken", "snapshotsRequested"),
		setup: map[string]string{
			"newFragment":      "constructor: the object is not shared yet",
			"upgradeViewBSIv2": "runs from Field.Open on the views of a field that is not yet published in its index",
		},
		exemptAccess: map[string]string{
			"(*rowsVector).Get": "mutexVector.Get is called only from fragment methods that already hold f.mu (handleMutex, bulkImportMutex); callers are checked below",
			"(*boolVector).Get": "same as rowsVector.Get",
		}},
	{pkgRel: "", typ: "Field", mutex: "mu", guarded: set("viewMap"),
		setup: map[string]string{"newField": "constructor", "NewField": "constructor",
			"(*Field).Open":      "open-time initialisation: the parent publishes the field in its map only after Open returns (parent call sites are checked by the fresh-object rule)",
			"(*Field).openViews": "called from Open only"}},
	{pkgRel: "", typ: "view", mutex: "mu", guarded: set("fragments"),
		setup: map[string]string{"newView": "constructor"}},
	{pkgRel: "", typ: "Index", mutex: "mu", guarded: set("fields"),
		setup: map[string]string{"NewIndex": "constructor",
			"(*Index).Open":       "open-time initialisation: the holder publishes the index only after Open returns",
			"(*Index).openFields": "called from Open only"}},
	{pkgRel: "", typ: "Holder", mutex: "mu", guarded: set("indexes"),
		setup: map[string]string{"NewHolder": "constructor",
			"(*Holder).Close": "teardown: runs after the server stopped accepting requests; nothing else reaches the holder"}},
	{pkgRel: "", typ: "rankCache", mutex: "mu", guarded: set("entries", "rankings", "thresholdValue", "updateN", "updateTime"),
		setup: map[string]string{"NewRankCache": "constructor"}},
}

func c29(p *core.Program, r *core.Report) {
	r.Rule("R1", "lock discipline per guarded type (fragment, Field, view, Index, Holder, rankCache): every Lock/RLock is released on every exit; every access to a field the mutex guards happens with the mutex held, where a helper that accesses them unlocked (the unprotected* convention) must have the lock supplied by every caller up to the entry point; guarded fields are written only under the exclusive lock; a method that takes the lock is never called on the same object while it is held")
	r.Rule("R2", "handed-out slices are never modified in place: a guarded slice field that a method returns to its callers (who read it after the lock is released) is only ever replaced by a freshly allocated slice — no element store, no sort, no append or re-slice that reuses its backing array")
	r.Rule("R3", "reads that write: a roaring method that stores into its own receiver (computed over package roaring: direct stores through the receiver, or calls of such methods on receiver-rooted expressions, interface calls resolved to both container stores; (*bTreeContainers).Get with its lookaside is the anchor) counts as a write of the guarded field it is called on, so R1 demands the exclusive lock for it -- reported under R1 as a write under the read lock")
	r.NotDecided = "linearizability and data-race freedom in the happens-before sense for all schedules (dynamic/model-checking questions); fields outside the frozen guarded-by tables; lock-free structures"
	total := 0
	var rw *recvWriters
	if rp := p.Pkg("roaring"); rp != nil {
		rw = computeRecvWriters(p, rp)
		// the anchor of the rule: the b-tree lookaside
		n := 0
		for fn := range rw.why {
			if recvNamed(fn, "bTreeContainers") && fn.Name() == "Get" {
				n++
			}
		}
		r.Floor("C29/R3 (*bTreeContainers).Get recognised as storing into its receiver", n, 1)
		r.Floor("C29/R3 roaring methods that store into their receiver", len(rw.why), 20)
	} else {
		r.Undecide("R3", "package roaring", "", "not loaded")
	}
	for _, spec := range c29Specs {
		if rw != nil {
			spec.mutCallee = rw.writes
		}
		la := newLockAnalysis(p, spec)
		if la == nil {
			r.Undecide("R1", spec.typ, "", "package not loaded")
			continue
		}
		total += la.report(r, "R1")
	}
	r.Floor("C29/R1 functions touching a guarded type", total, 120)
	c29HandOut(p, r)
	r.Rule("R4", "create-if-absent is atomic: every insertion into a guarded registry map (Field.viewMap, Index.fields, Holder.indexes, view.fragments) outside setup functions follows, on every path, a lookup in that map made since the write lock was last taken in that function; a lock-required helper that inserts without looking must be called only where such a lookup was made")
	c29CreateIfAbsent(p, r)
	r.Rule("R5", "the bit depth only grows: in every Field method that assigns the bit depth outside setup, the assignment happens with Field.mu held and after a condition that mentions the current bit depth was evaluated under that hold")
	c29DepthOnlyGrows(p, r)
	// callers of the mutex vectors' Get must be fragment methods (which hold or require f.mu)
	pk := p.Pkg("")
	if pk != nil {
		n := 0
		for _, fd := range core.AllFuncDecls(pk) {
			if fd.Body == nil {
				continue
			}
			ast.Inspect(fd.Body, func(nd ast.Node) bool {
				c, ok := nd.(*ast.CallExpr)
				if !ok {
					return true
				}
				fn := core.CalleeOf(pk.TypesInfo, c)
				if fn == nil || fn.Name() != "Get" {
					return true
				}
				sig := fn.Type().(*types.Signature)
				if sig.Recv() == nil || !core.IsNamed(sig.Recv().Type(), core.ModPath, "vector") {
					return true
				}
				n++
				r.Check(core.RecvName(fd) == "fragment", "R1", "vector.Get caller "+core.FuncName(fd), p.Pos(c.Pos()), "called from a fragment method (lock held or required there)", "the mutex vector is read from outside the fragment's methods: nothing guarantees f.mu is held")
				return true
			})
		}
		r.Floor("C29/R1 vector.Get call sites", n, 2)
	}
}

// c29HandOut: rule R2.
func c29HandOut(p *core.Program, r *core.Report) {
	nFields := 0
	for _, spec := range c29Specs {
		pk := p.Pkg(spec.pkgRel)
		if pk == nil {
			continue
		}
		info := pk.TypesInfo
		isField := func(e ast.Expr, f string) bool {
			_, ok := core.FieldSel(info, e, core.ModPath, spec.typ, f)
			return ok
		}
		for f := range spec.guarded {
			// slice-typed and returned by some method?
			handedOut := false
			var where *ast.FuncDecl
			for _, fd := range core.AllFuncDecls(pk) {
				if fd.Body == nil || core.RecvName(fd) != spec.typ {
					continue
				}
				ast.Inspect(fd.Body, func(n ast.Node) bool {
					if ret, ok := n.(*ast.ReturnStmt); ok {
						for _, e := range ret.Results {
							if isField(e, f) {
								if _, isSlice := info.TypeOf(e).Underlying().(*types.Slice); isSlice {
									handedOut, where = true, fd
								}
							}
						}
					}
					return true
				})
			}
			if !handedOut {
				continue
			}
			nFields++
			construct := spec.typ + "." + f + " (handed out by " + core.FuncName(where) + ")"
			bad := ""
			var badPos ast.Node
			for _, fd := range core.AllFuncDecls(pk) {
				if fd.Body == nil {
					continue
				}
				// locals derived from the field's backing array
				derived := map[types.Object]bool{}
				mentionsField := func(e ast.Expr) bool {
					found := false
					ast.Inspect(e, func(n ast.Node) bool {
						if ex, ok := n.(ast.Expr); ok && isField(ex, f) {
							found = true
						}
						if id, ok := n.(*ast.Ident); ok && derived[info.ObjectOf(id)] {
							found = true
						}
						return true
					})
					return found
				}
				for pass := 0; pass < 2; pass++ {
					ast.Inspect(fd.Body, func(n ast.Node) bool {
						as, ok := n.(*ast.AssignStmt)
						if !ok || len(as.Lhs) != len(as.Rhs) {
							return true
						}
						for i, l := range as.Lhs {
							id, ok := l.(*ast.Ident)
							if !ok {
								continue
							}
							rhs := ast.Unparen(as.Rhs[i])
							// x := f[:0] / x := f / x = append(x-derived, ...)
							switch y := rhs.(type) {
							case *ast.SliceExpr:
								if mentionsField(y.X) {
									derived[info.ObjectOf(id)] = true
								}
							case *ast.CallExpr:
								if core.BuiltinName(info, y) == "append" && len(y.Args) > 0 && mentionsField(y.Args[0]) {
									derived[info.ObjectOf(id)] = true
								}
							default:
								if isField(rhs, f) {
									derived[info.ObjectOf(id)] = true
								}
							}
						}
						return true
					})
				}
				ast.Inspect(fd.Body, func(n ast.Node) bool {
					switch x := n.(type) {
					case *ast.AssignStmt:
						for i, l := range x.Lhs {
							// element store f[i] = v
							if ix, ok := ast.Unparen(l).(*ast.IndexExpr); ok && mentionsField(ix.X) {
								bad, badPos = "stores into an element of the handed-out slice", x
							}
							_ = i
						}
					case *ast.CallExpr:
						if core.BuiltinName(info, x) == "append" && len(x.Args) > 0 && mentionsField(x.Args[0]) {
							bad, badPos = "appends into the handed-out slice's backing array (`"+types.ExprString(x)+"`)", x
						}
						if fn := core.CalleeOf(info, x); fn != nil && fn.Pkg() != nil && fn.Pkg().Path() == "sort" {
							for _, a := range x.Args {
								if mentionsField(a) {
									bad, badPos = "sorts the handed-out slice in place", x
								}
							}
						}
					}
					return true
				})
			}
			if bad != "" {
				r.Violate("R2", construct, p.Pos(badPos.Pos()), bad+": a reader that obtained the slice before the lock was released sees it change underneath it (torn or duplicated entries, a data race)")
			} else {
				r.HoldAt("R2", construct, p.Pos(where.Pos()), "only ever replaced by a freshly built slice")
			}
		}
	}
	r.Floor("C29/R2 guarded slices handed out to callers", nFields, 1)
}
