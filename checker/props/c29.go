package props

import (
	"go/ast"
	"go/types"

	"verif/checker/core"
)

func init() { register("C29", c29) }

func set(xs ...string) map[string]bool {
	m := map[string]bool{}
	for _, x := range xs {
		m[x] = true
	}
	return m
}

// Frozen guarded-by tables (confirmed by reading: these are the fields each
// mutex is taken for at the overwhelming majority of sites).
var c29Specs = []lockSpec{
	{pkgRel: "", typ: "fragment", mutex: "mu",
		guarded: set("storage", "rowCache", "checksums", "cache", "opN", "ops", "maxRowID", "snapshotting", "storageData", "file", "totalOpN", "totalOps", "snapshotsTaken", "snapshotsRequested"),
		setup: map[string]string{
			"newFragment":      "constructor: the object is not shared yet",
			"upgradeViewBSIv2": "runs from Field.Open on the views of a field that is not yet published in its index",
		},
		exemptAccess: map[string]string{
			"(*rowsVector).Get": "mutexVector.Get is called only from fragment methods that already hold f.mu (handleMutex, bulkImportMutex); callers are checked below",
			"(*boolVector).Get": "same as rowsVector.Get",
		}},
	{pkgRel: "", typ: "Field", mutex: "mu", guarded: set("viewMap"),
		setup: map[string]string{"newField": "constructor", "NewField": "constructor",
			"(*Field).Open":      "open-time initialisation: the parent publishes the field in its map only after Open returns (parent call sites are checked by the fresh-object rule)",
			"(*Field).openViews": "called from Open only"}},
	{pkgRel: "", typ: "view", mutex: "mu", guarded: set("fragments"),
		setup: map[string]string{"newView": "constructor"}},
	{pkgRel: "", typ: "Index", mutex: "mu", guarded: set("fields"),
		setup: map[string]string{"NewIndex": "constructor",
			"(*Index).Open":       "open-time initialisation: the holder publishes the index only after Open returns",
			"(*Index).openFields": "called from Open only"}},
	{pkgRel: "", typ: "Holder", mutex: "mu", guarded: set("indexes"),
		setup: map[string]string{"NewHolder": "constructor"}},
	{pkgRel: "", typ: "rankCache", mutex: "mu", guarded: set("entries", "rankings", "thresholdValue", "updateN", "updateTime"),
		setup: map[string]string{"NewRankCache": "constructor"}},
}

func c29(p *core.Program, r *core.Report) {
	r.Rule("R1", "lock discipline per guarded type (fragment, Field, view, Index, Holder, rankCache): every Lock/RLock is released on every exit; every access to a field the mutex guards happens with the mutex held, where a helper that accesses them unlocked (the unprotected* convention) must have the lock supplied by every caller up to the entry point; guarded fields are written only under the exclusive lock; a method that takes the lock is never called on the same object while it is held")
	r.NotDecided = "linearizability and data-race freedom in the happens-before sense for all schedules (dynamic/model-checking questions); fields outside the frozen guarded-by tables; lock-free structures"
	total := 0
	for _, spec := range c29Specs {
		la := newLockAnalysis(p, spec)
		if la == nil {
			r.Undecide("R1", spec.typ, "", "package not loaded")
			continue
		}
		total += la.report(r, "R1")
	}
	r.Floor("C29/R1 functions touching a guarded type", total, 120)
	// callers of the mutex vectors' Get must be fragment methods (which hold or require f.mu)
	pk := p.Pkg("")
	if pk != nil {
		n := 0
		for _, fd := range core.AllFuncDecls(pk) {
			if fd.Body == nil {
				continue
			}
			ast.Inspect(fd.Body, func(nd ast.Node) bool {
				c, ok := nd.(*ast.CallExpr)
				if !ok {
					return true
				}
				fn := core.CalleeOf(pk.TypesInfo, c)
				if fn == nil || fn.Name() != "Get" {
					return true
				}
				sig := fn.Type().(*types.Signature)
				if sig.Recv() == nil || !core.IsNamed(sig.Recv().Type(), core.ModPath, "vector") {
					return true
				}
				n++
				r.Check(core.RecvName(fd) == "fragment", "R1", "vector.Get caller "+core.FuncName(fd), p.Pos(c.Pos()), "called from a fragment method (lock held or required there)", "the mutex vector is read from outside the fragment's methods: nothing guarantees f.mu is held")
				return true
			})
		}
		r.Floor("C29/R1 vector.Get call sites", n, 2)
	}
}
