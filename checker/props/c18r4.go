package props

import (
	"go/ast"
	"go/token"
	"strings"

	"verif/checker/core"
	"verif/checker/flow"
)

// c18EveryViewWritten: rule R4. A bit set with a timestamp belongs in every
// view viewsByTime names for it; a range query reads whichever of them tiles
// the range. The loop that writes them must not stop early.
func c18EveryViewWritten(p *core.Program, r *core.Report) {
	pk := p.Pkg("")
	if pk == nil {
		return
	}
	info := pk.TypesInfo
	n := 0
	for _, fd := range core.AllFuncDecls(pk) {
		if fd.Body == nil || core.RecvName(fd) != "Field" || strings.HasSuffix(p.Fset.Position(fd.Pos()).Filename, "_test.go") {
			continue
		}
		ast.Inspect(fd.Body, func(nd ast.Node) bool {
			rs, ok := nd.(*ast.RangeStmt)
			if !ok {
				return true
			}
			c, ok := ast.Unparen(rs.X).(*ast.CallExpr)
			if !ok {
				return true
			}
			if fn := core.CalleeOf(info, c); fn == nil || fn.Name() != "viewsByTime" {
				return true
			}
			// a loop that writes bits (calls <view>.setBit)
			isWrite := func(m ast.Node) bool {
				cc, ok := m.(*ast.CallExpr)
				if !ok {
					return false
				}
				g := core.CalleeOf(info, cc)
				return g != nil && g.Name() == "setBit" && recvNamed(g, "view")
			}
			writes := false
			ast.Inspect(rs.Body, func(m ast.Node) bool {
				if isWrite(m) {
					writes = true
				}
				return true
			})
			if !writes {
				return true
			}
			n++
			construct := core.FuncName(fd) + ": every view of the timestamp is written"
			// break statements that leave this loop
			var brk token.Pos
			var walk func(st ast.Node, inner bool)
			walk = func(st ast.Node, inner bool) {
				ast.Inspect(st, func(m ast.Node) bool {
					switch x := m.(type) {
					case *ast.FuncLit:
						return false
					case *ast.ForStmt:
						if m != st {
							walk(x.Body, true)
							return false
						}
					case *ast.RangeStmt:
						if m != st {
							walk(x.Body, true)
							return false
						}
					case *ast.SwitchStmt:
						walk(x.Body, true)
						return false
					case *ast.TypeSwitchStmt:
						walk(x.Body, true)
						return false
					case *ast.SelectStmt:
						walk(x.Body, true)
						return false
					case *ast.BranchStmt:
						if x.Tok == token.BREAK && (x.Label != nil || !inner) && !brk.IsValid() {
							brk = x.Pos()
						}
					}
					return true
				})
			}
			walk(rs.Body, false)
			const bWrote flow.State = 1
			var bad []string
			h := flow.Hooks{Info: info}
			h.Atom = func(m ast.Node, s flow.State) []flow.State {
				if isWrite(m) {
					s |= bWrote
				}
				return []flow.State{s}
			}
			h.Return = func(ret *ast.ReturnStmt, s flow.State) {
				if s&bWrote != 0 {
					return
				}
				if ret != nil && len(ret.Results) > 0 {
					// leaving the function: only with an error
					last := ast.Unparen(ret.Results[len(ret.Results)-1])
					if id, ok := last.(*ast.Ident); !ok || id.Name != "nil" {
						return
					}
					bad = append(bad, p.Pos(ret.Pos())+" (returns without error)")
					return
				}
				pos := p.Pos(rs.Body.End())
				if ret != nil {
					pos = p.Pos(ret.Pos())
				}
				bad = append(bad, pos+" (iteration ends)")
			}
			it := flow.Run(h, c13IterationBody(rs.Body), 0)
			switch {
			case brk.IsValid():
				r.Violate("R4", construct, p.Pos(rs.Pos()), "the loop over viewsByTime is left by a break at "+p.Pos(brk)+": the remaining (finer) views of the timestamp are not written, and a range query that is answered from them misses the bit")
			case it.Unsupported != "":
				r.Undecide("R4", construct, p.Pos(rs.Pos()), it.Unsupported)
			case len(bad) > 0:
				r.Violate("R4", construct, p.Pos(rs.Pos()), "an iteration over the views of the timestamp can end without writing the bit into that view: "+strings.Join(dedupe(bad), ", "))
			default:
				r.HoldAt("R4", construct, p.Pos(rs.Pos()), "every iteration writes the bit into its view or returns an error; the loop is never left early")
			}
			return true
		})
	}
	r.Floor("C18/R4 loops writing a bit into the views of a timestamp", n, 1)
}
