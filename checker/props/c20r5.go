package props

import (
	"go/ast"
	"go/token"
	"go/types"
	"strings"

	"verif/checker/core"
)

// c20MembershipScansTheList: R5. Owner lists (partitionNodes, shardNodes) are
// in ring order starting at the primary, not in ID order, so a membership
// predicate over a node list may conclude "absent" only after it has looked at
// every element.
func c20MembershipScansTheList(p *core.Program, r *core.Report) {
	pk := p.Pkg("")
	if pk == nil {
		r.Undecide("R5", "package pilosa", "", "not loaded")
		return
	}
	info := pk.TypesInfo
	n := 0
	for _, fd := range core.AllFuncDecls(pk) {
		if fd.Body == nil || fd.Recv == nil || strings.HasSuffix(p.Fset.Position(fd.Pos()).Filename, "_test.go") {
			continue
		}
		obj, _ := info.Defs[fd.Name].(*types.Func)
		if obj == nil || !recvNamed(obj, "Nodes") {
			continue
		}
		sig := obj.Type().(*types.Signature)
		if sig.Results().Len() != 1 || !types.Identical(sig.Results().At(0).Type(), types.Typ[types.Bool]) {
			continue
		}
		if len(fd.Recv.List) != 1 || len(fd.Recv.List[0].Names) != 1 {
			continue
		}
		recv := info.Defs[fd.Recv.List[0].Names[0]]
		n++
		construct := "Nodes." + fd.Name.Name
		isRecv := func(e ast.Expr) bool {
			id, ok := ast.Unparen(e).(*ast.Ident)
			return ok && info.Uses[id] == recv
		}
		isConst := func(e ast.Expr, want bool) bool {
			tv, ok := info.Types[e]
			return ok && tv.Value != nil && tv.Value.String() == map[bool]string{true: "true", false: "false"}[want]
		}
		// `len(recv) == 0`
		emptyTest := func(e ast.Expr) bool {
			be, ok := ast.Unparen(e).(*ast.BinaryExpr)
			if !ok || be.Op != token.EQL {
				return false
			}
			c, ok := ast.Unparen(be.X).(*ast.CallExpr)
			if !ok || core.BuiltinName(info, c) != "len" || len(c.Args) != 1 || !isRecv(c.Args[0]) {
				return false
			}
			v, ok := c04ConstInt(info, be.Y)
			return ok && v == 0
		}
		bad := ""
		var badPos token.Pos
		fail := func(pos token.Pos, why string) {
			if bad == "" {
				bad, badPos = why, pos
			}
		}
		scanned := false
		for _, st := range fd.Body.List {
			switch x := st.(type) {
			case *ast.RangeStmt:
				if !isRecv(x.X) {
					fail(x.Pos(), "a loop over something other than the whole receiver")
					continue
				}
				ast.Inspect(x.Body, func(m ast.Node) bool {
					switch y := m.(type) {
					case *ast.FuncLit:
						return false
					case *ast.BranchStmt:
						if y.Tok == token.BREAK || y.Tok == token.GOTO {
							fail(y.Pos(), "the scan of the list is cut short")
						}
					case *ast.ReturnStmt:
						if len(y.Results) != 1 || !isConst(y.Results[0], true) {
							fail(y.Pos(), "the scan of the list ends with an answer other than `true` before every element was seen")
						}
					}
					return true
				})
				scanned = true
			case *ast.IfStmt:
				// only `if len(a) == 0 { return false }` may precede the scan
				ok := x.Init == nil && x.Else == nil && emptyTest(x.Cond) && len(x.Body.List) == 1
				if ok {
					rs, isRet := x.Body.List[0].(*ast.ReturnStmt)
					ok = isRet && len(rs.Results) == 1 && isConst(rs.Results[0], false)
				}
				if !ok && !scanned {
					fail(x.Pos(), "answers from a condition on the list (its length or an element picked by position) before scanning it: owner lists are in ring order, not ID order")
				} else if !ok {
					fail(x.Pos(), "a condition after the scan decides the answer")
				}
			case *ast.ReturnStmt:
				if len(x.Results) != 1 {
					fail(x.Pos(), "unrecognised return")
				} else if isConst(x.Results[0], true) {
					// fine anywhere? no: `true` without a match is wrong too
					fail(x.Pos(), "answers `true` without a matching element")
				} else if !scanned || !isConst(x.Results[0], false) {
					fail(x.Pos(), "the final answer is not `false` after a complete scan")
				}
			default:
				fail(st.Pos(), "statement other than the scan and its final answer")
			}
		}
		if !scanned {
			fail(fd.Pos(), "no scan over the receiver")
		}
		// no search helper that presumes an order
		ast.Inspect(fd.Body, func(m ast.Node) bool {
			if c, ok := m.(*ast.CallExpr); ok {
				if fn := core.CalleeOf(info, c); fn != nil && fn.Pkg() != nil && (fn.Pkg().Path() == "sort" || fn.Pkg().Path() == "slices") {
					fail(c.Pos(), "uses "+fn.Pkg().Path()+"."+fn.Name()+", which presumes the list is in ID order")
				}
			}
			return true
		})
		r.Check(bad == "", "R5", construct, p.Pos(fd.Pos()),
			"linear scan of the whole receiver; `false` only after every element was compared",
			"membership predicate "+construct+": "+bad+" (at "+p.Pos(badPos)+"); ownsShard applies it to shardNodes' result, which starts at the primary and wraps around the ring, so a real owner can be reported absent while containsShards and the write paths still count it")
	}
	r.Floor("C20/R5 membership predicates on Nodes", n, 2)
}
