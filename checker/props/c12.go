package props

import (
	"go/ast"
	"go/token"
	"go/types"

	"verif/checker/core"
)

func init() { register("C12", c12) }

func c12(p *core.Program, r *core.Report) {
	r.Rule("R1", "cached counts come from storage: every count passed to <fragment>.cache.Add/BulkAdd is <fragment>.storage.CountRange(..) (directly or through a local assigned only from it) or the constant 0; a count derived from the cache's own content (cache.Get + delta) is wrong whenever the row was evicted or never admitted")
	r.Rule("R2", "count-cache update after storage mutation: every path from a storage mutation to a normal return of a fragment entry point passes <fragment>.cache.Add/BulkAdd (or replaces <fragment>.cache), unless the fragment has no count cache (CacheType == CacheTypeNone branch)")
	r.Rule("R3", "zero is recorded: in every implementation of the cache interface, an early return of Add/BulkAdd that depends on the count n is conjoined with n > 0 (a zero count clears the entry); sibling methods must agree")
	r.Rule("R6", "no stale entry: in every cache implementation that keeps per-row state (a map field), every path of Add/BulkAdd stores the new count under the row id, deletes the row's entry, or delegates to a sibling Add/BulkAdd; an update the cache chooses not to admit must still drop the count recorded before")
	r.Rule("R7", "the rank cache's admission threshold is recomputed by every recalculation: rankCache.recalculate assigns thresholdValue on every path")
	r.Rule("R5", "BSI views carry no count cache: view.open forces CacheTypeNone for views named with the bsig_ prefix (this is what exempts the BSI value writers from R2)")
	r.NotDecided = "ranking, trimming and threshold arithmetic of the caches, Tanimoto, heap selection in fragment.top; counts restricted to a filter row"
	pk := p.Pkg("")
	if pk == nil {
		r.Undecide("R1", "package pilosa", "", "not loaded")
		return
	}
	info := pk.TypesInfo

	// R5 first (it justifies an R2 exemption)
	bsiNoCache := false
	if fd := core.FuncDecl(pk, "view", "open"); fd != nil {
		ast.Inspect(fd.Body, func(n ast.Node) bool {
			ifs, ok := n.(*ast.IfStmt)
			if !ok {
				return true
			}
			call, ok := ast.Unparen(ifs.Cond).(*ast.CallExpr)
			if !ok {
				return true
			}
			fn := core.CalleeOf(info, call)
			if fn == nil || fn.Pkg() == nil || fn.Pkg().Path() != "strings" || fn.Name() != "HasPrefix" || len(call.Args) != 2 {
				return true
			}
			if id, ok := ast.Unparen(call.Args[1]).(*ast.Ident); !ok || id.Name != "viewBSIGroupPrefix" {
				return true
			}
			for _, st := range ifs.Body.List {
				if as, ok := st.(*ast.AssignStmt); ok && len(as.Lhs) == 1 && len(as.Rhs) == 1 {
					if _, ok := core.FieldSel(info, as.Lhs[0], core.ModPath, "view", "cacheType"); ok {
						if id, ok := ast.Unparen(as.Rhs[0]).(*ast.Ident); ok && id.Name == "CacheTypeNone" {
							bsiNoCache = true
						}
					}
				}
			}
			return true
		})
		r.Check(bsiNoCache, "R5", "(*view).open", p.Pos(fd.Pos()), "bsig_ views get cacheType = CacheTypeNone before fragments are opened", "view.open no longer forces CacheTypeNone for bsig_ views: BSI fragments may now carry a count cache that the value writers do not maintain")
	} else {
		r.Undecide("R5", "(*view).open", "", "function not found")
	}

	// R2
	b, err := newFxBase(p)
	if err != nil {
		r.Undecide("R2", "fragment effects", "", err.Error())
	} else {
		exempt := map[string]string{}
		if bsiNoCache {
			exempt["(*fragment).importSetValue"] = "writes BSI value rows only; BSI (bsig_) views force CacheTypeNone (R5), so there is no count cache to maintain"
			exempt["(*fragment).openStorage via (*fragment).openStorage"] = "the only non-fragment caller of openStorage is upgradeViewBSIv2, which runs on bsig_ views (CacheTypeNone, R5); checked below"
			// who calls openStorage from outside fragment code?
			for fn := range b.decls {
				if b.fname(fn) != "(*fragment).openStorage" {
					continue
				}
				for _, c := range b.callers[fn] {
					if !b.internal[c] && b.fname(c) != "upgradeViewBSIv2" {
						delete(exempt, "(*fragment).openStorage via (*fragment).openStorage")
						r.Violate("R2", "external caller of openStorage: "+b.fname(c), p.Pos(b.decls[c].Pos()), "openStorage is called from non-fragment code other than upgradeViewBSIv2; the count-cache exemption no longer applies")
					}
				}
			}
		}
		n := b.report(r, "R2", fxCountCache, exempt)
		r.Floor("C12/R2 storage-mutating functions (origins)", n, 8)
	}

	// R1
	nSites := 0
	for _, fd := range core.AllFuncDecls(pk) {
		if fd.Body == nil {
			continue
		}
		// locals assigned from CountRange on fragment storage
		assigns := map[types.Object][]ast.Expr{}
		ast.Inspect(fd.Body, func(n ast.Node) bool {
			if as, ok := n.(*ast.AssignStmt); ok && len(as.Lhs) == len(as.Rhs) {
				for i, l := range as.Lhs {
					if id, ok := l.(*ast.Ident); ok {
						if o := info.ObjectOf(id); o != nil {
							assigns[o] = append(assigns[o], as.Rhs[i])
						}
					}
				}
			}
			return true
		})
		isCountRange := func(e ast.Expr) bool {
			c, ok := ast.Unparen(e).(*ast.CallExpr)
			if !ok {
				return false
			}
			sel, ok := ast.Unparen(c.Fun).(*ast.SelectorExpr)
			if !ok || sel.Sel.Name != "CountRange" {
				return false
			}
			_, ok = core.FieldSel(info, sel.X, core.ModPath, "fragment", "storage")
			return ok
		}
		ast.Inspect(fd.Body, func(n ast.Node) bool {
			c, ok := n.(*ast.CallExpr)
			if !ok || len(c.Args) != 2 {
				return true
			}
			sel, ok := ast.Unparen(c.Fun).(*ast.SelectorExpr)
			if !ok || (sel.Sel.Name != "Add" && sel.Sel.Name != "BulkAdd") {
				return true
			}
			if _, ok := core.FieldSel(info, sel.X, core.ModPath, "fragment", "cache"); !ok {
				return true
			}
			nSites++
			arg := ast.Unparen(c.Args[1])
			construct := core.FuncName(fd) + " cache." + sel.Sel.Name
			okArg := false
			if tv, has := info.Types[arg]; has && tv.Value != nil && tv.Value.String() == "0" {
				okArg = true
			} else if isCountRange(arg) {
				okArg = true
			} else if id, isId := arg.(*ast.Ident); isId {
				defs := assigns[info.ObjectOf(id)]
				okArg = len(defs) > 0
				for _, d := range defs {
					if !isCountRange(d) {
						okArg = false
					}
				}
			}
			r.Check(okArg, "R1", construct, p.Pos(c.Pos()), "count is CountRange of the row (or 0)", "count `"+types.ExprString(arg)+"` is not taken from <fragment>.storage.CountRange: a count computed from cached state is wrong for rows the cache does not hold")
			return true
		})
	}
	r.Floor("C12/R1 cache.Add/BulkAdd sites on a fragment", nSites, 6)

	// R3
	iface := pk.Types.Scope().Lookup("cache")
	nImpl := 0
	if iface == nil {
		r.Undecide("R3", "interface cache", "", "not found")
	} else {
		it, _ := iface.Type().Underlying().(*types.Interface)
		for _, name := range pk.Types.Scope().Names() {
			tn, ok := pk.Types.Scope().Lookup(name).(*types.TypeName)
			if !ok || it == nil {
				continue
			}
			if _, isIface := tn.Type().Underlying().(*types.Interface); isIface {
				continue
			}
			if !types.Implements(types.NewPointer(tn.Type()), it) && !types.Implements(tn.Type(), it) {
				continue
			}
			nImpl++
			for _, m := range []string{"Add", "BulkAdd"} {
				fd := core.FuncDecl(pk, tn.Name(), m)
				if fd == nil {
					r.Undecide("R3", tn.Name()+"."+m, "", "method declaration not found")
					continue
				}
				c12zero(p, r, info, fd)
				c12NoStaleEntry(p, r, pk, tn, fd)
			}
		}
	}
	r.Floor("C12/R3 cache implementations", nImpl, 3)
	c12ThresholdRecomputed(p, r, pk)
}

// c12zero: every `if cond { return }` in fd whose cond mentions the count
// parameter must contain the conjunct n > 0 / n != 0.
func c12zero(p *core.Program, r *core.Report, info *types.Info, fd *ast.FuncDecl) {
	params := fd.Type.Params.List
	var nObj types.Object
	k := 0
	for _, f := range params {
		for _, nm := range f.Names {
			if k == 1 {
				nObj = info.ObjectOf(nm)
			}
			k++
		}
	}
	construct := core.FuncName(fd)
	if nObj == nil {
		r.HoldAt("R3", construct, p.Pos(fd.Pos()), "count parameter unnamed: cannot be tested, so zero is not filtered")
		return
	}
	bad := token.NoPos
	ast.Inspect(fd.Body, func(n ast.Node) bool {
		ifs, ok := n.(*ast.IfStmt)
		if !ok {
			return true
		}
		mentions := false
		ast.Inspect(ifs.Cond, func(m ast.Node) bool {
			if id, ok := m.(*ast.Ident); ok && info.ObjectOf(id) == nObj {
				mentions = true
			}
			return true
		})
		if !mentions {
			return true
		}
		returns := false
		for _, st := range ifs.Body.List {
			if _, ok := st.(*ast.ReturnStmt); ok {
				returns = true
			}
		}
		if !returns {
			return true
		}
		if !hasPositiveConjunct(info, ifs.Cond, nObj) {
			bad = ifs.Pos()
		}
		return true
	})
	if bad.IsValid() {
		r.Violate("R3", construct, p.Pos(bad), "an early return depends on the count but is not restricted to n > 0: a zero count (row emptied) is dropped and the stale count stays in the cache")
	} else {
		r.HoldAt("R3", construct, p.Pos(fd.Pos()), "no count-dependent early return drops n == 0")
	}
}

func hasPositiveConjunct(info *types.Info, e ast.Expr, nObj types.Object) bool {
	be, ok := ast.Unparen(e).(*ast.BinaryExpr)
	if !ok {
		return false
	}
	if be.Op == token.LAND {
		return hasPositiveConjunct(info, be.X, nObj) || hasPositiveConjunct(info, be.Y, nObj)
	}
	isN := func(x ast.Expr) bool {
		id, ok := ast.Unparen(x).(*ast.Ident)
		return ok && info.ObjectOf(id) == nObj
	}
	if isN(be.X) && isZeroLit(be.Y) && (be.Op == token.GTR || be.Op == token.NEQ) {
		return true
	}
	if isN(be.Y) && isZeroLit(be.X) && (be.Op == token.LSS || be.Op == token.NEQ) {
		return true
	}
	return false
}
