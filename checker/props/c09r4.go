package props

import (
	"go/ast"
	"go/types"
	"strings"

	"verif/checker/core"
	"verif/checker/flow"
)

// c09DepthBeforeBits: rule R4. A value that needs more bit planes than the
// field's persisted bit depth is only readable with the larger depth. The
// depth lives in the field's .meta, the planes in the fragments: if the
// process dies between the two writes, the order decides whether the data
// on disk is readable (meta first: a larger depth over empty planes is
// harmless) or silently truncated (planes first).
func c09DepthBeforeBits(p *core.Program, r *core.Report, b *fxBase) {
	pk := p.Pkg("")
	info := pk.TypesInfo
	// functions of package pilosa that may write fragment storage
	writes := map[*types.Func]bool{}
	for o := range b.origins() {
		for f := range b.reaches(o) {
			writes[f] = true
		}
	}
	isDepth := func(e ast.Expr) bool {
		sel, ok := ast.Unparen(e).(*ast.SelectorExpr)
		if !ok || sel.Sel.Name != "BitDepth" {
			return false
		}
		s, ok := info.Selections[sel]
		if !ok || s.Kind() != types.FieldVal {
			return false
		}
		return core.IsNamed(s.Recv(), core.ModPath, "FieldOptions") || core.IsNamed(s.Recv(), core.ModPath, "bsiGroup")
	}
	n := 0
	for _, fd := range core.AllFuncDecls(pk) {
		if fd.Body == nil || core.RecvName(fd) != "Field" || strings.HasSuffix(p.Fset.Position(fd.Pos()).Filename, "_test.go") {
			continue
		}
		raises := false
		ast.Inspect(fd.Body, func(nd ast.Node) bool {
			if as, ok := nd.(*ast.AssignStmt); ok {
				for _, l := range as.Lhs {
					if isDepth(l) {
						raises = true
					}
				}
			}
			return true
		})
		if !raises || fd.Name.Name == "loadMeta" || fd.Name.Name == "applyOptions" {
			continue
		}
		n++
		const bRaised flow.State = 1
		var bad []string
		h := flow.Hooks{Info: info}
		h.Atom = func(nd ast.Node, s flow.State) []flow.State {
			switch x := nd.(type) {
			case *ast.AssignStmt:
				for _, l := range x.Lhs {
					if isDepth(l) {
						s |= bRaised
					}
				}
			case *ast.CallExpr:
				g := core.CalleeOf(info, x)
				if g == nil {
					break
				}
				if g.Name() == "saveMeta" && recvNamed(g, "Field") {
					s &^= bRaised
					break
				}
				if s&bRaised != 0 && writes[g] && (recvNamed(g, "fragment") || recvNamed(g, "view")) {
					bad = append(bad, core.FuncKey(g)+" at "+p.Pos(x.Pos()))
				}
			}
			return []flow.State{s}
		}
		it := flow.Run(h, fd.Body, 0)
		construct := core.FuncName(fd) + ": raised bit depth saved before the bits"
		switch {
		case it.Unsupported != "":
			r.Undecide("R4", construct, p.Pos(fd.Pos()), it.Unsupported)
		case len(bad) > 0:
			r.Violate("R4", construct, p.Pos(fd.Pos()), "fragment storage is written ("+strings.Join(dedupe(bad), "; ")+") after the field's bit depth was raised in memory and before saveMeta put it on disk: a kill in between leaves value planes the persisted depth does not cover, and after the restart those columns read truncated values nobody wrote")
		default:
			r.HoldAt("R4", construct, p.Pos(fd.Pos()), "saveMeta follows the assignment before any fragment write")
		}
	}
	r.Floor("C09/R4 Field functions that raise the bit depth", n, 2)
}
