package props

import (
	"go/ast"
	"go/types"
	"strings"

	"verif/checker/core"
)

// c08LoadedAsSaved: rule R4. What loadMeta hands to the rest of the program
// must be what saveMeta wrote: the decoded message is not edited before it is
// copied into the options, and each option is a projection of the wire field
// of the same name. An option recomputed on load from other options cannot
// tell "never written" from a legitimately stored zero.
func c08LoadedAsSaved(p *core.Program, r *core.Report) {
	pk := p.Pkg("")
	if pk == nil {
		return
	}
	info := pk.TypesInfo
	n := 0
	for _, fd := range core.AllFuncDecls(pk) {
		if fd.Body == nil || fd.Name.Name != "loadMeta" || strings.HasSuffix(p.Fset.Position(fd.Pos()).Filename, "_test.go") {
			continue
		}
		// the decoded message: a local of a struct type from package internal
		isWire := func(t types.Type) bool {
			nmd := core.NamedOf(t)
			return nmd != nil && nmd.Obj().Pkg() != nil && strings.HasSuffix(nmd.Obj().Pkg().Path(), "/internal")
		}
		wireLocal := func(e ast.Expr) (types.Object, bool) {
			id, ok := ast.Unparen(e).(*ast.Ident)
			if !ok {
				return nil, false
			}
			o := info.ObjectOf(id)
			if o == nil || !isWire(o.Type()) {
				return nil, false
			}
			return o, true
		}
		n++
		var edits []string
		ast.Inspect(fd.Body, func(nd ast.Node) bool {
			var lhs []ast.Expr
			switch x := nd.(type) {
			case *ast.AssignStmt:
				lhs = x.Lhs
			case *ast.IncDecStmt:
				lhs = []ast.Expr{x.X}
			}
			for _, l := range lhs {
				if sel, ok := ast.Unparen(l).(*ast.SelectorExpr); ok {
					if _, ok := wireLocal(sel.X); ok {
						edits = append(edits, types.ExprString(sel)+" at "+p.Pos(l.Pos()))
					}
				}
			}
			return true
		})
		construct := core.FuncName(fd) + ": options loaded as saved"
		if len(edits) > 0 {
			r.Violate("R4", construct, p.Pos(fd.Pos()), "the decoded meta message is rewritten before it is copied into the options ("+strings.Join(dedupe(edits), "; ")+"): the value loaded differs from the value saved whenever the rewrite's trigger is also a legitimately stored state")
		} else {
			r.HoldAt("R4", construct, p.Pos(fd.Pos()), "the decoded message is copied unchanged")
		}
		// projections: X.<F> = pb.<G> must have F == G (modulo conversion)
		ast.Inspect(fd.Body, func(nd ast.Node) bool {
			as, ok := nd.(*ast.AssignStmt)
			if !ok || len(as.Lhs) != len(as.Rhs) {
				return true
			}
			for i, l := range as.Lhs {
				lsel, ok := ast.Unparen(l).(*ast.SelectorExpr)
				if !ok {
					continue
				}
				if _, isW := wireLocal(lsel.X); isW {
					continue
				}
				var from []string
				ast.Inspect(as.Rhs[i], func(m ast.Node) bool {
					if rs, ok := m.(*ast.SelectorExpr); ok {
						if _, isW := wireLocal(rs.X); isW {
							from = append(from, rs.Sel.Name)
						}
					}
					return true
				})
				if len(from) == 0 {
					continue
				}
				c2 := core.FuncName(fd) + ": option " + lsel.Sel.Name
				same := len(from) == 1 && strings.EqualFold(from[0], lsel.Sel.Name)
				r.Check(same, "R4", c2, p.Pos(as.Pos()), "projection of the wire field of the same name", "loaded from "+strings.Join(from, ", ")+" rather than from the wire field of the same name")
			}
			return true
		})
	}
	r.Floor("C08/R4 loadMeta functions", n, 2)
}
