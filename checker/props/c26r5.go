package props

import (
	"go/ast"
	"go/types"
	"strings"

	"verif/checker/core"
)

// c26ListElements: rule R5. A forwarded list is re-read element by element
// with the same grammar as a scalar, so its elements must be printed by the
// scalar printer (formatValue) and not by a fmt verb of their own.
func c26ListElements(p *core.Program, r *core.Report) {
	qp := p.Pkg("pql")
	if qp == nil {
		return
	}
	info := qp.TypesInfo
	isIfaceSlice := func(t types.Type) bool {
		if t == nil {
			return false
		}
		sl, ok := t.Underlying().(*types.Slice)
		if !ok {
			return false
		}
		it, ok := sl.Elem().Underlying().(*types.Interface)
		return ok && it.NumMethods() == 0
	}
	n := 0
	for _, fd := range core.AllFuncDecls(qp) {
		fn := p.Fset.Position(fd.Pos()).Filename
		if fd.Body == nil || strings.HasSuffix(fn, "_test.go") || strings.HasSuffix(fn, ".peg.go") {
			continue
		}
		// functions that print: return a string and take a []interface{}
		if fd.Type.Results == nil || fd.Type.Results.NumFields() != 1 {
			continue
		}
		if t := info.TypeOf(fd.Type.Results.List[0].Type); t == nil || t.String() != "string" {
			continue
		}
		var listObj types.Object
		for _, fl := range fd.Type.Params.List {
			for _, nm := range fl.Names {
				if isIfaceSlice(info.TypeOf(fl.Type)) {
					listObj = info.Defs[nm]
				}
			}
		}
		if listObj == nil {
			continue
		}
		n++
		construct := core.FuncName(fd) + ": list elements printed by formatValue"
		isElem := func(e ast.Expr) bool {
			switch x := ast.Unparen(e).(type) {
			case *ast.IndexExpr:
				id, ok := ast.Unparen(x.X).(*ast.Ident)
				return ok && info.ObjectOf(id) == listObj
			case *ast.Ident:
				// a range value over the list, or a type-switch binding of an element
				o := info.ObjectOf(x)
				found := false
				ast.Inspect(fd.Body, func(m ast.Node) bool {
					switch y := m.(type) {
					case *ast.RangeStmt:
						if id, ok := ast.Unparen(y.X).(*ast.Ident); ok && info.ObjectOf(id) == listObj {
							if v, ok := y.Value.(*ast.Ident); ok && info.ObjectOf(v) == o {
								found = true
							}
						}
					case *ast.TypeSwitchStmt:
						if as, ok := y.Assign.(*ast.AssignStmt); ok && len(as.Lhs) == 1 {
							if v, ok := as.Lhs[0].(*ast.Ident); ok && v.Name == x.Name {
								found = true // the implicit per-clause objects share the name
							}
						}
					}
					return true
				})
				return found
			}
			return false
		}
		viaFormat, viaFmt := false, ""
		ast.Inspect(fd.Body, func(m ast.Node) bool {
			c, ok := m.(*ast.CallExpr)
			if !ok {
				return true
			}
			g := core.CalleeOf(info, c)
			if g == nil {
				return true
			}
			for _, a := range c.Args {
				if !isElem(a) {
					continue
				}
				switch {
				case g.Name() == "formatValue":
					viaFormat = true
				case g.Pkg() != nil && g.Pkg().Path() == "fmt":
					viaFmt = p.Pos(c.Pos())
				}
			}
			return true
		})
		switch {
		case viaFmt != "":
			r.Violate("R5", construct, viaFmt, "an element of the list is printed with a fmt verb of its own instead of formatValue: nil prints as <nil>, large floats in exponent form, integral floats without a point -- forms the grammar does not read back as the same value")
		case !viaFormat:
			r.Undecide("R5", construct, p.Pos(fd.Pos()), "the elements are not handed to formatValue, and no fmt call prints them either")
		default:
			r.HoldAt("R5", construct, p.Pos(fd.Pos()), "each element goes through formatValue")
		}
	}
	r.Floor("C26/R5 printers of interface lists", n, 1)
}

// c26ConversionErrors: rule R6. Text the grammar accepted is turned into a
// value by strconv; a conversion whose error is thrown away yields the zero
// value for text the conversion cannot handle (the grammar is wider than
// strconv in places), and the call then carries a value nobody wrote.
func c26ConversionErrors(p *core.Program, r *core.Report) {
	qp := p.Pkg("pql")
	if qp == nil {
		return
	}
	info := qp.TypesInfo
	n := 0
	for _, fd := range core.AllFuncDecls(qp) {
		if fd.Body == nil || strings.HasSuffix(p.Fset.Position(fd.Pos()).Filename, "_test.go") {
			continue
		}
		ast.Inspect(fd.Body, func(m ast.Node) bool {
			as, ok := m.(*ast.AssignStmt)
			if !ok || len(as.Rhs) != 1 || len(as.Lhs) != 2 {
				return true
			}
			c, ok := ast.Unparen(as.Rhs[0]).(*ast.CallExpr)
			if !ok {
				return true
			}
			g := core.CalleeOf(info, c)
			if g == nil || g.Pkg() == nil || g.Pkg().Path() != "strconv" {
				return true
			}
			switch g.Name() {
			case "Unquote", "ParseInt", "ParseUint", "ParseFloat", "ParseBool", "Atoi":
			default:
				return true
			}
			n++
			construct := core.FuncName(fd) + ": strconv." + g.Name() + "(" + types.ExprString(c.Args[0]) + ")"
			id, ok := as.Lhs[1].(*ast.Ident)
			if ok && id.Name == "_" {
				r.Violate("R6", construct, p.Pos(as.Pos()), "the conversion's error is discarded: for text the grammar accepts but strconv rejects (a raw line break inside a double-quoted literal, a number beyond 64 bits) the argument silently becomes the zero value instead of the written one")
			} else {
				r.HoldAt("R6", construct, p.Pos(as.Pos()), "the error is kept")
			}
			return true
		})
	}
	r.Floor("C26/R6 strconv conversions of query text", n, 4)
}
