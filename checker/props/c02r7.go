package props

import (
	"go/ast"
	"go/token"
	"go/types"
	"strings"

	"golang.org/x/tools/go/packages"

	"verif/checker/core"
)

// sharedSingletons: the package-level *Container variables of package
// roaring, each with the reason it is not frozen for the whole run ("" when it
// is: its initialiser, and every later assignment, is the result of
// (*Container).Freeze).
func sharedSingletons(p *core.Program, rp *packages.Package) map[*types.Var]string {
	out := map[*types.Var]string{}
	pos := map[*types.Var]token.Pos{}
	cont := rp.Types.Scope().Lookup("Container")
	if cont == nil {
		return out
	}
	contPtr := types.NewPointer(cont.Type())
	info := rp.TypesInfo
	directFreeze := func(e ast.Expr) bool {
		c, ok := ast.Unparen(e).(*ast.CallExpr)
		if !ok {
			return false
		}
		fn := core.CalleeOf(info, c)
		return fn != nil && recvNamed(fn, "Container") && fn.Name() == "Freeze"
	}
	// a Freeze() call, or a call of a package function all of whose returns are Freeze() calls
	isFreeze := func(e ast.Expr) bool {
		if directFreeze(e) {
			return true
		}
		c, ok := ast.Unparen(e).(*ast.CallExpr)
		if !ok {
			return false
		}
		fn := core.CalleeOf(info, c)
		if fn == nil || fn.Pkg() != rp.Types {
			return false
		}
		for _, fd := range core.AllFuncDecls(rp) {
			if info.Defs[fd.Name] != types.Object(fn) || fd.Body == nil {
				continue
			}
			n, all := 0, true
			ast.Inspect(fd.Body, func(m ast.Node) bool {
				switch x := m.(type) {
				case *ast.FuncLit:
					return false
				case *ast.ReturnStmt:
					n++
					if len(x.Results) != 1 || !directFreeze(x.Results[0]) {
						all = false
					}
				}
				return true
			})
			return n > 0 && all
		}
		return false
	}
	for _, f := range rp.Syntax {
		if strings.HasSuffix(p.Fset.Position(f.Pos()).Filename, "_test.go") {
			continue
		}
		for _, d := range f.Decls {
			gd, ok := d.(*ast.GenDecl)
			if !ok || gd.Tok != token.VAR {
				continue
			}
			for _, sp := range gd.Specs {
				vs := sp.(*ast.ValueSpec)
				for i, id := range vs.Names {
					v, _ := info.Defs[id].(*types.Var)
					if v == nil || !types.Identical(v.Type(), contPtr) {
						continue
					}
					pos[v] = id.Pos()
					switch {
					case i >= len(vs.Values):
						out[v] = "declared without a frozen initialiser"
					case !isFreeze(vs.Values[i]):
						out[v] = "its initialiser is not the result of Freeze()"
					default:
						out[v] = ""
					}
				}
			}
		}
	}
	// later assignments
	for _, f := range rp.Syntax {
		if strings.HasSuffix(p.Fset.Position(f.Pos()).Filename, "_test.go") {
			continue
		}
		ast.Inspect(f, func(n ast.Node) bool {
			as, ok := n.(*ast.AssignStmt)
			if !ok {
				return true
			}
			for i, l := range as.Lhs {
				id, ok := ast.Unparen(l).(*ast.Ident)
				if !ok {
					continue
				}
				v, _ := info.Uses[id].(*types.Var)
				if _, tracked := out[v]; !tracked || v == nil {
					continue
				}
				if len(as.Lhs) != len(as.Rhs) || !isFreeze(as.Rhs[i]) {
					out[v] = "it is reassigned a container that is not the result of Freeze()"
				}
			}
			return true
		})
	}
	_ = pos
	return out
}

// sharedSingletonsFrozen (C02-R7, C03-R7): a container that package roaring
// hands out from a package-level variable is shared by every bitmap that ever
// received it, so it must be frozen for Thaw to copy it before a write.
func sharedSingletonsFrozen(p *core.Program, r *core.Report, rule string) {
	rp := p.Pkg("roaring")
	if rp == nil {
		r.Undecide(rule, "package roaring", "", "not loaded")
		return
	}
	n := 0
	for v, why := range sharedSingletons(p, rp) {
		n++
		r.Check(why == "", rule, "var "+v.Name(), p.Pos(v.Pos()),
			"package-level container initialised (and only ever assigned) from Freeze(): every holder thaws a copy before writing",
			"package-level container "+v.Name()+" is handed out to bitmaps but "+why+": Thaw returns it as is, so a write through one holder changes every bitmap (and every later union result) that shares it")
	}
	r.Floor(rule+" shared containers", n, 1)
}
