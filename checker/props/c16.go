package props

import (
	"go/ast"
	"go/token"
	"go/types"

	"verif/checker/core"
)

func init() { register("C16", c16) }

// C16 — one clause: the bounds MinRow/MaxRow scan between.
func c16(p *core.Program, r *core.Report) {
	r.Rule("R1", "high-water mark discipline: <fragment>.maxRowID is a derived value; if any function reads it for anything but its own raise-only update or a stats gauge, then every storage mutation that can create bits must be followed by an assignment to it on every normal path (same flow analysis as C10); with no such reader the bound is taken from storage and cannot go stale")
	r.Rule("R2", "descending scans terminate: in package pilosa no `for` loop counts an unsigned variable down (`i--`) under a `i >= e` condition unless e is a constant >= 1 (for e == 0 the condition never fails and the counter wraps)")
	r.NotDecided = "Rows paging, GroupBy iterator wrap-around and merge limits, time-range handling: value/iteration logic"
	pk := p.Pkg("")
	if pk == nil {
		r.Undecide("R1", "package pilosa", "", "not loaded")
		return
	}
	info := pk.TypesInfo
	// R1: readers of maxRowID
	type reader struct {
		fn  string
		pos token.Pos
	}
	var readers []reader
	nRefs := 0
	for _, fd := range core.AllFuncDecls(pk) {
		if fd.Body == nil {
			continue
		}
		parents := parentMap(fd.Body)
		ast.Inspect(fd.Body, func(n ast.Node) bool {
			sel, ok := n.(*ast.SelectorExpr)
			if !ok {
				return true
			}
			if _, ok := core.FieldSel(info, sel, core.ModPath, "fragment", "maxRowID"); !ok {
				return true
			}
			nRefs++
			// write?
			if as, ok := parents[sel].(*ast.AssignStmt); ok {
				for _, l := range as.Lhs {
					if l == ast.Expr(sel) {
						return true
					}
				}
			}
			// raise-only update: condition of an if whose body assigns maxRowID
			for q := parents[sel]; q != nil; q = parents[q] {
				if ifs, ok := q.(*ast.IfStmt); ok && within(ifs.Cond, sel) && assignsField(info, ifs.Body, "maxRowID") {
					return true
				}
				if call, ok := q.(*ast.CallExpr); ok {
					if fn := core.CalleeOf(info, call); fn != nil && fn.Name() == "Gauge" {
						return true // stats only
					}
				}
			}
			readers = append(readers, reader{core.FuncName(fd), sel.Pos()})
			return true
		})
	}
	r.Floor("C16/R1 references to fragment.maxRowID", nRefs, 1)
	if len(readers) == 0 {
		r.Hold("R1", "fragment.maxRowID readers", "no function reads maxRowID except its raise-only update and the stats gauge; MinRow/MaxRow take their bounds from storage")
	} else {
		for _, rd := range readers {
			r.HoldAt("R1", "reader "+rd.fn, p.Pos(rd.pos), "reads maxRowID: every bit-creating write path must maintain it (obligations below)")
		}
		b, err := newFxBase(p)
		if err != nil {
			r.Undecide("R1", "fragment effects", "", err.Error())
		} else {
			n := b.report(r, "R1", fxMaxRow, nil)
			r.Floor("C16/R1 storage-mutating functions (origins)", n, 6)
		}
	}
	// R2
	nLoops := 0
	for _, pkx := range p.All {
		for _, fd := range core.AllFuncDecls(pkx) {
			if fd.Body == nil {
				continue
			}
			inf := pkx.TypesInfo
			ast.Inspect(fd.Body, func(n ast.Node) bool {
				fs, ok := n.(*ast.ForStmt)
				if !ok || fs.Cond == nil || fs.Post == nil {
					return true
				}
				nLoops++
				inc, ok := fs.Post.(*ast.IncDecStmt)
				if !ok || inc.Tok != token.DEC {
					return true
				}
				id, ok := ast.Unparen(inc.X).(*ast.Ident)
				if !ok {
					return true
				}
				bt, ok := inf.TypeOf(id).Underlying().(*types.Basic)
				if !ok || bt.Info()&types.IsUnsigned == 0 {
					return true
				}
				be, ok := ast.Unparen(fs.Cond).(*ast.BinaryExpr)
				if !ok {
					return true
				}
				var bound ast.Expr
				if x, ok := ast.Unparen(be.X).(*ast.Ident); ok && inf.ObjectOf(x) == inf.ObjectOf(id) && be.Op == token.GEQ {
					bound = be.Y
				} else if y, ok := ast.Unparen(be.Y).(*ast.Ident); ok && inf.ObjectOf(y) == inf.ObjectOf(id) && be.Op == token.LEQ {
					bound = be.X
				}
				if bound == nil {
					return true
				}
				construct := core.FuncName(fd) + " loop over " + id.Name
				if tv, ok := inf.Types[bound]; ok && tv.Value != nil && tv.Value.String() != "0" {
					r.HoldAt("R2", construct, p.Pos(fs.Pos()), "lower bound is a non-zero constant")
					return true
				}
				r.Violate("R2", construct, p.Pos(fs.Pos()), "unsigned counter "+id.Name+" is decremented under `"+types.ExprString(fs.Cond)+"`: when the bound is 0 the condition never fails and the counter wraps to 2^64-1 (the scan does not terminate)")
				return true
			})
		}
	}
	r.Count("for_loops_examined", nLoops)
	r.Floor("C16/R2 for-loops examined in the module", nLoops, 60)
	if countRule(r, "R2") == 0 {
		r.Hold("R2", "module-wide", "no unsigned descending loop with a >= bound")
	}
}

func countRule(r *core.Report, rule string) int {
	n := 0
	for _, o := range r.Obls {
		if o.Rule == rule {
			n++
		}
	}
	return n
}

func within(root ast.Node, target ast.Node) bool {
	found := false
	ast.Inspect(root, func(n ast.Node) bool {
		if n == target {
			found = true
		}
		return !found
	})
	return found
}

func assignsField(info *types.Info, body ast.Node, field string) bool {
	found := false
	ast.Inspect(body, func(n ast.Node) bool {
		if as, ok := n.(*ast.AssignStmt); ok {
			for _, l := range as.Lhs {
				if sel, ok := ast.Unparen(l).(*ast.SelectorExpr); ok && sel.Sel.Name == field {
					found = true
				}
			}
		}
		return true
	})
	return found
}
