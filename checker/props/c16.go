package props

import (
	"fmt"
	"go/ast"
	"go/token"
	"go/types"
	"strings"

	"verif/checker/core"
	"verif/checker/flow"
	"verif/checker/ord"
)

func init() { register("C16", c16) }

// C16 — one clause: the bounds MinRow/MaxRow scan between.
func c16(p *core.Program, r *core.Report) {
	r.Rule("R1", "high-water mark discipline: <fragment>.maxRowID is a derived value; if any function reads it for anything but its own raise-only update or a stats gauge, then every storage mutation that can create bits must be followed by an assignment to it on every normal path (same flow analysis as C10); with no such reader the bound is taken from storage and cannot go stale")
	r.Rule("R2", "descending scans terminate: in package pilosa no `for` loop counts an unsigned variable down (`i--`) under a `i >= e` condition unless e is a constant >= 1 (for e == 0 the condition never fails and the counter wraps)")
	r.Rule("R3", "an exhausted GroupBy iterator stops: in every method of groupByIterator, after a call that can set gbi.done (a method that assigns done, directly or through such a call) the done flag is tested before any rowIterator is advanced again -- otherwise a level whose rows intersect nothing wraps forever once the levels above are exhausted")
	r.Rule("R4", "previous-row landing test: in newGroupByIterator the condition that switches the deeper fields to 'ignore previous' is evaluated for every ordering of (row the iterator landed on, previous): it must hold exactly when the two differ (the iterator wraps, so it can land below as well as above the previous row)")
	c16GroupBy(p, r)
	r.Rule("R5", "a row exists only if a container of it holds a bit: every function of package pilosa that turns container keys of fragment storage into row ids (key >> shardVsContainerExponent over a Containers iterator) tests the container's cardinality before it reports the row (clears leave empty containers behind)")
	c16RowsFromKeys(p, r)
	r.Rule("R6", "the filter flows down the levels: in newGroupByIterator every assignment that narrows rows[i].row by rows[i-1].row lies on a path where the filter was already intersected into rows[0].row, or was tested to be nil")
	c16FilterFlowsDown(p, r)
	r.Rule("R7", "GroupBy paging: every cut of the result that depends on the limit argument and happens before the offset is applied (the limit handed to mergeGroupCounts, the bound of the per-shard collecting loop) also depends on the offset argument; the final slicing by offset and limit happens only on paths where opt.Remote was tested false")
	c16GroupByPaging(p, r)
	r.Rule("R8", "a counting filter serves one scan: a rowFilter made by a constructor whose closure updates a captured variable (filterWithLimit) and handed to fragment.rows inside a loop is made inside that same loop (possibly through slices it was appended to)")
	c16StatefulFilterPerScan(p, r)
	r.Rule("R9", "MinRow/MaxRow scans visit both ends: a counting loop that starts at a row extent (fragment.minRowID(), fragment.maxRowIDFromStorage() -- rows that exist) is not bounded by the other extent with a strict comparison, and is not left by `if i == extent { break }` before row i was looked at")
	c16RowExtentScans(p, r)
	r.NotDecided = "Rows paging and merge limits, the intersections computed by the GroupBy iterator, time-range handling: value/iteration logic"
	pk := p.Pkg("")
	if pk == nil {
		r.Undecide("R1", "package pilosa", "", "not loaded")
		return
	}
	info := pk.TypesInfo
	// R1: readers of maxRowID
	type reader struct {
		fn  string
		pos token.Pos
	}
	var readers []reader
	nRefs := 0
	for _, fd := range core.AllFuncDecls(pk) {
		if fd.Body == nil {
			continue
		}
		parents := parentMap(fd.Body)
		ast.Inspect(fd.Body, func(n ast.Node) bool {
			sel, ok := n.(*ast.SelectorExpr)
			if !ok {
				return true
			}
			if _, ok := core.FieldSel(info, sel, core.ModPath, "fragment", "maxRowID"); !ok {
				return true
			}
			nRefs++
			// write?
			if as, ok := parents[sel].(*ast.AssignStmt); ok {
				for _, l := range as.Lhs {
					if l == ast.Expr(sel) {
						return true
					}
				}
			}
			// raise-only update: condition of an if whose body assigns maxRowID
			for q := parents[sel]; q != nil; q = parents[q] {
				if ifs, ok := q.(*ast.IfStmt); ok && within(ifs.Cond, sel) && assignsField(info, ifs.Body, "maxRowID") {
					return true
				}
				if call, ok := q.(*ast.CallExpr); ok {
					if fn := core.CalleeOf(info, call); fn != nil && fn.Name() == "Gauge" {
						return true // stats only
					}
				}
			}
			readers = append(readers, reader{core.FuncName(fd), sel.Pos()})
			return true
		})
	}
	r.Floor("C16/R1 references to fragment.maxRowID", nRefs, 1)
	if len(readers) == 0 {
		r.Hold("R1", "fragment.maxRowID readers", "no function reads maxRowID except its raise-only update and the stats gauge; MinRow/MaxRow take their bounds from storage")
	} else {
		for _, rd := range readers {
			r.HoldAt("R1", "reader "+rd.fn, p.Pos(rd.pos), "reads maxRowID: every bit-creating write path must maintain it (obligations below)")
		}
		b, err := newFxBase(p)
		if err != nil {
			r.Undecide("R1", "fragment effects", "", err.Error())
		} else {
			n := b.report(r, "R1", fxMaxRow, nil)
			r.Floor("C16/R1 storage-mutating functions (origins)", n, 6)
		}
	}
	// R2
	nLoops := 0
	for _, pkx := range p.All {
		for _, fd := range core.AllFuncDecls(pkx) {
			if fd.Body == nil {
				continue
			}
			inf := pkx.TypesInfo
			ast.Inspect(fd.Body, func(n ast.Node) bool {
				fs, ok := n.(*ast.ForStmt)
				if !ok || fs.Cond == nil || fs.Post == nil {
					return true
				}
				nLoops++
				inc, ok := fs.Post.(*ast.IncDecStmt)
				if !ok || inc.Tok != token.DEC {
					return true
				}
				id, ok := ast.Unparen(inc.X).(*ast.Ident)
				if !ok {
					return true
				}
				bt, ok := inf.TypeOf(id).Underlying().(*types.Basic)
				if !ok || bt.Info()&types.IsUnsigned == 0 {
					return true
				}
				be, ok := ast.Unparen(fs.Cond).(*ast.BinaryExpr)
				if !ok {
					return true
				}
				var bound ast.Expr
				if x, ok := ast.Unparen(be.X).(*ast.Ident); ok && inf.ObjectOf(x) == inf.ObjectOf(id) && be.Op == token.GEQ {
					bound = be.Y
				} else if y, ok := ast.Unparen(be.Y).(*ast.Ident); ok && inf.ObjectOf(y) == inf.ObjectOf(id) && be.Op == token.LEQ {
					bound = be.X
				}
				if bound == nil {
					return true
				}
				construct := core.FuncName(fd) + " loop over " + id.Name
				if tv, ok := inf.Types[bound]; ok && tv.Value != nil && tv.Value.String() != "0" {
					r.HoldAt("R2", construct, p.Pos(fs.Pos()), "lower bound is a non-zero constant")
					return true
				}
				r.Violate("R2", construct, p.Pos(fs.Pos()), "unsigned counter "+id.Name+" is decremented under `"+types.ExprString(fs.Cond)+"`: when the bound is 0 the condition never fails and the counter wraps to 2^64-1 (the scan does not terminate)")
				return true
			})
		}
	}
	r.Count("for_loops_examined", nLoops)
	r.Floor("C16/R2 for-loops examined in the module", nLoops, 60)
	if countRule(r, "R2") == 0 {
		r.Hold("R2", "module-wide", "no unsigned descending loop with a >= bound")
	}
}

func countRule(r *core.Report, rule string) int {
	n := 0
	for _, o := range r.Obls {
		if o.Rule == rule {
			n++
		}
	}
	return n
}

func within(root ast.Node, target ast.Node) bool {
	found := false
	ast.Inspect(root, func(n ast.Node) bool {
		if n == target {
			found = true
		}
		return !found
	})
	return found
}

func assignsField(info *types.Info, body ast.Node, field string) bool {
	found := false
	ast.Inspect(body, func(n ast.Node) bool {
		if as, ok := n.(*ast.AssignStmt); ok {
			for _, l := range as.Lhs {
				if sel, ok := ast.Unparen(l).(*ast.SelectorExpr); ok && sel.Sel.Name == field {
					found = true
				}
			}
		}
		return true
	})
	return found
}

// c16GroupBy: R3 and R4.
func c16GroupBy(p *core.Program, r *core.Report) {
	pk := p.Pkg("")
	info := pk.TypesInfo
	// methods of groupByIterator (and its constructor) that can set done
	var methods []*ast.FuncDecl
	for _, fd := range core.AllFuncDecls(pk) {
		if fd.Body == nil {
			continue
		}
		if core.RecvName(fd) == "groupByIterator" || fd.Name.Name == "newGroupByIterator" {
			methods = append(methods, fd)
		}
	}
	if len(methods) < 3 {
		r.Undecide("R3", "groupByIterator", "", "methods not found")
		return
	}
	isDoneSel := func(e ast.Expr) bool {
		sel, ok := ast.Unparen(e).(*ast.SelectorExpr)
		if !ok || sel.Sel.Name != "done" {
			return false
		}
		return core.IsNamed(info.TypeOf(sel.X), core.ModPath, "groupByIterator")
	}
	setters := map[types.Object]bool{}
	for changed := true; changed; {
		changed = false
		for _, fd := range methods {
			o := info.Defs[fd.Name]
			if setters[o] {
				continue
			}
			sets := false
			ast.Inspect(fd.Body, func(n ast.Node) bool {
				switch x := n.(type) {
				case *ast.AssignStmt:
					for _, l := range x.Lhs {
						if isDoneSel(l) {
							sets = true
						}
					}
				case *ast.CallExpr:
					if fn := core.CalleeOf(info, x); fn != nil && setters[fn] {
						sets = true
					}
				}
				return true
			})
			if sets {
				setters[o] = true
				changed = true
			}
		}
	}
	for _, fd := range methods {
		construct := core.FuncName(fd) + " done discipline"
		const bD flow.State = 1
		var bad []string
		nAdv := 0
		h := flow.Hooks{Info: info}
		h.Atom = func(n ast.Node, s flow.State) []flow.State {
			switch x := n.(type) {
			case *ast.AssignStmt:
				// assigning done directly is followed by a return in this code; treat as set
				for _, l := range x.Lhs {
					if isDoneSel(l) {
						return []flow.State{s | bD}
					}
				}
			case *ast.CallExpr:
				fn := core.CalleeOf(info, x)
				if fn == nil {
					return []flow.State{s}
				}
				if fn.Name() == "Next" && recvNamed(fn, "rowIterator") {
					nAdv++
					if s&bD != 0 {
						bad = append(bad, p.Pos(x.Pos()))
					}
				}
				if setters[fn] {
					return []flow.State{s | bD}
				}
			}
			return []flow.State{s}
		}
		h.Refine = func(cond ast.Expr, taken bool, s flow.State) (flow.State, bool) {
			c := ast.Unparen(cond)
			if isDoneSel(c) {
				if taken {
					return s | bD, true
				}
				return s &^ bD, true
			}
			return s, true
		}
		it := flow.Run(h, fd.Body, 0)
		switch {
		case it.Unsupported != "":
			r.Undecide("R3", construct, p.Pos(fd.Pos()), it.Unsupported)
		case len(bad) > 0:
			r.Violate("R3", construct, p.Pos(fd.Pos()), "a rowIterator is advanced at "+strings.Join(dedupe(bad), ", ")+" on a path where gbi.done may have been set by an earlier call and was not tested since: once the upper levels are exhausted this loop has no exit and the query never returns")
		default:
			r.HoldAt("R3", construct, p.Pos(fd.Pos()), fmt.Sprintf("%d iterator advances, none after an untested possible exhaustion", nAdv))
		}
	}
	// ---- R4
	ctor := core.FuncDecl(pk, "", "newGroupByIterator")
	if ctor == nil {
		r.Undecide("R4", "newGroupByIterator landing test", "", "not found")
		return
	}
	var cond ast.Expr
	ast.Inspect(ctor.Body, func(n ast.Node) bool {
		is, ok := n.(*ast.IfStmt)
		if !ok || cond != nil {
			return true
		}
		for _, st := range is.Body.List {
			if as, ok := st.(*ast.AssignStmt); ok && len(as.Lhs) == 1 && len(as.Rhs) == 1 {
				if id, ok := as.Lhs[0].(*ast.Ident); ok && id.Name == "ignorePrev" {
					if v, ok := as.Rhs[0].(*ast.Ident); ok && v.Name == "true" {
						cond = is.Cond
					}
				}
			}
		}
		return true
	})
	if cond == nil {
		r.Violate("R4", "newGroupByIterator landing test", p.Pos(ctor.Pos()), "no condition sets ignorePrev: deeper fields always seek to their previous row, even under a different prefix")
		return
	}
	// integer identifiers of the condition become terms; boolean ones are taken true
	var terms []string
	seen := map[string]bool{}
	ast.Inspect(cond, func(n ast.Node) bool {
		if id, ok := n.(*ast.Ident); ok {
			if b, ok := info.TypeOf(id).Underlying().(*types.Basic); ok && b.Info()&types.IsInteger != 0 && !seen[id.Name] {
				seen[id.Name] = true
				terms = append(terms, id.Name)
			}
		}
		return true
	})
	if len(terms) != 2 {
		r.Undecide("R4", "newGroupByIterator landing test", p.Pos(cond.Pos()), fmt.Sprintf("expected a comparison of two values, found terms %v", terms))
		return
	}
	bad := ""
	n := 0
	for _, o := range ord.Orderings(terms) {
		in := &ord.Interp{Info: info, O: o,
			Term: func(e ast.Expr) string {
				if id, ok := ast.Unparen(e).(*ast.Ident); ok && seen[id.Name] {
					return id.Name
				}
				return ""
			},
			CondHook: func(e ast.Expr) (ord.Tri, bool) {
				if id, ok := ast.Unparen(e).(*ast.Ident); ok {
					if b, ok := info.TypeOf(id).Underlying().(*types.Basic); ok && b.Kind() == types.Bool {
						return ord.True, true
					}
				}
				return ord.Unknown, false
			}}
		got := in.Cond(cond, nil)
		if in.Unsupported != "" {
			r.Undecide("R4", "newGroupByIterator landing test", p.Pos(cond.Pos()), in.Unsupported)
			return
		}
		want := o.Cmp(ord.Lin{Base: terms[0]}, token.NEQ, ord.Lin{Base: terms[1]})
		n++
		if got != want && bad == "" {
			bad = fmt.Sprintf("for the ordering %s the condition `%s` is %v, but the iterator did%s land on the previous row", o, types.ExprString(cond), got == ord.True, map[bool]string{true: " not", false: ""}[want == ord.True])
		}
	}
	if bad != "" {
		r.Violate("R4", "newGroupByIterator landing test", p.Pos(cond.Pos()), bad+": deeper fields then seek to their own previous row under a different prefix and groups are skipped (or repeated)")
	} else {
		r.HoldAt("R4", "newGroupByIterator landing test", p.Pos(cond.Pos()), fmt.Sprintf("%d orderings: ignorePrev is set exactly when the landed row differs from previous", n))
	}
}

// c16RowsFromKeys: R5.
func c16RowsFromKeys(p *core.Program, r *core.Report) {
	pk := p.Pkg("")
	info := pk.TypesInfo
	n := 0
	for _, fd := range core.AllFuncDecls(pk) {
		if fd.Body == nil || strings.HasSuffix(p.Fset.Position(fd.Pos()).Filename, "_test.go") {
			continue
		}
		// key >> shardVsContainerExponent
		derives := false
		ast.Inspect(fd.Body, func(nd ast.Node) bool {
			if be, ok := nd.(*ast.BinaryExpr); ok && be.Op == token.SHR {
				if id, ok := ast.Unparen(be.Y).(*ast.Ident); ok {
					if c, ok := info.ObjectOf(id).(*types.Const); ok && c.Name() == "shardVsContainerExponent" {
						derives = true
					}
				}
			}
			return true
		})
		if !derives {
			continue
		}
		// container variables: second result of an iterator's Value()
		conts := map[types.Object]bool{}
		ast.Inspect(fd.Body, func(nd ast.Node) bool {
			if as, ok := nd.(*ast.AssignStmt); ok && len(as.Lhs) == 2 && len(as.Rhs) == 1 {
				if c, ok := ast.Unparen(as.Rhs[0]).(*ast.CallExpr); ok {
					if fn := core.CalleeOf(info, c); fn != nil && fn.Name() == "Value" {
						if id, ok := as.Lhs[1].(*ast.Ident); ok && id.Name != "_" {
							conts[info.ObjectOf(id)] = true
						}
					}
				}
			}
			return true
		})
		n++
		construct := core.FuncName(fd) + " rows from container keys"
		tests := false
		ast.Inspect(fd.Body, func(nd ast.Node) bool {
			is, ok := nd.(*ast.IfStmt)
			if !ok {
				return true
			}
			ast.Inspect(is.Cond, func(m ast.Node) bool {
				if c, ok := m.(*ast.CallExpr); ok {
					if fn := core.CalleeOf(info, c); fn != nil && fn.Name() == "N" && recvNamed(fn, "Container") {
						if sel, ok := ast.Unparen(c.Fun).(*ast.SelectorExpr); ok {
							if id, ok := ast.Unparen(sel.X).(*ast.Ident); ok && conts[info.ObjectOf(id)] {
								tests = true
							}
						}
					}
				}
				return true
			})
			return true
		})
		r.Check(tests, "R5", construct, p.Pos(fd.Pos()), "the container's cardinality is tested before its row is reported", "row ids are taken from container keys without looking at the container's cardinality: a row whose bits were all cleared (or that only ever received a clear through the import path) is reported as existing")
	}
	r.Floor("C16/R5 functions deriving rows from container keys", n, 1)
}
