package props

import (
	"go/ast"
	"go/token"
	"go/types"
	"strings"

	"verif/checker/core"
)

// c18OwnTimestampViews: rule R5. Inside a loop over records the views of a
// record are the views of that record's own timestamp. A viewsByTime call in
// such a loop may be skipped (its result carried over from an earlier record)
// only under a guard that compares whole instants (Equal / Unix / UnixNano):
// a guard on calendar parts (Date, Year, Month, Day, Hour, ...) files the bit
// under the earlier record's finer views.
func c18OwnTimestampViews(p *core.Program, r *core.Report) {
	pk := p.Pkg("")
	if pk == nil {
		return
	}
	info := pk.TypesInfo
	n := 0
	for _, fd := range core.AllFuncDecls(pk) {
		if fd.Body == nil || strings.HasSuffix(p.Fset.Position(fd.Pos()).Filename, "_test.go") {
			continue
		}
		var stack []ast.Node
		ast.Inspect(fd.Body, func(nd ast.Node) bool {
			if nd == nil {
				stack = stack[:len(stack)-1]
				return true
			}
			stack = append(stack, nd)
			c, ok := nd.(*ast.CallExpr)
			if !ok {
				return true
			}
			if fn := core.CalleeOf(info, c); fn == nil || fn.Name() != "viewsByTime" {
				return true
			}
			// innermost enclosing loop
			li := -1
			for i := len(stack) - 2; i >= 0; i-- {
				switch l := stack[i].(type) {
				case *ast.ForStmt:
					li = i
				case *ast.RangeStmt:
					if l.X != nd { // the call is not the range operand itself
						li = i
					}
				case *ast.FuncLit:
					i = -1
				}
				if li >= 0 {
					break
				}
			}
			if li < 0 {
				return true
			}
			n++
			loop := stack[li]
			var body *ast.BlockStmt
			switch l := loop.(type) {
			case *ast.ForStmt:
				body = l.Body
			case *ast.RangeStmt:
				body = l.Body
			}
			construct := core.FuncName(fd) + ": views of a record come from its own timestamp"
			// variables declared outside the loop and assigned inside it
			carried := map[types.Object]bool{}
			ast.Inspect(body, func(m ast.Node) bool {
				as, ok := m.(*ast.AssignStmt)
				if !ok {
					return true
				}
				for _, lh := range as.Lhs {
					id, ok := ast.Unparen(lh).(*ast.Ident)
					if !ok {
						continue
					}
					ob := info.ObjectOf(id)
					if ob == nil || ob.Pos() == token.NoPos {
						continue
					}
					if ob.Pos() < body.Pos() || ob.Pos() > body.End() {
						carried[ob] = true
					}
				}
				return true
			})
			var bad []string
			for i := li + 1; i < len(stack)-1; i++ {
				ifs, ok := stack[i].(*ast.IfStmt)
				if !ok || ifs.Cond == nil {
					continue
				}
				usesCarried, whole, parts := false, false, ""
				ast.Inspect(ifs.Cond, func(m ast.Node) bool {
					switch x := m.(type) {
					case *ast.Ident:
						if carried[info.ObjectOf(x)] {
							usesCarried = true
						}
					case *ast.CallExpr:
						if g := core.CalleeOf(info, x); g != nil && recvNamed(g, "Time") {
							switch g.Name() {
							case "Equal", "Unix", "UnixNano", "UnixMilli", "UnixMicro":
								whole = true
							case "Date", "Year", "Month", "Day", "Hour", "YearDay", "Weekday", "ISOWeek", "Truncate", "Round", "Format":
								parts = g.Name()
							}
						}
					}
					return true
				})
				// calendar parts taken before the if (y, m, d := t.Date()) count as well
				if usesCarried && !whole {
					bad = append(bad, "guard at "+p.Pos(ifs.Pos())+" depends on state carried over from an earlier record and does not compare whole instants")
				} else if usesCarried && parts != "" {
					bad = append(bad, "guard at "+p.Pos(ifs.Pos())+" compares the calendar part "+parts+" of the timestamps")
				}
			}
			if len(bad) > 0 {
				r.Violate("R5", construct, p.Pos(c.Pos()), strings.Join(dedupe(bad), "; ")+": a record whose timestamp differs from the earlier one in a finer unit is filed under the earlier record's views, and a range query over that unit returns the wrong columns")
			} else {
				r.HoldAt("R5", construct, p.Pos(c.Pos()), "the call is made for every record that has a timestamp (no guard on loop-carried state)")
			}
			return true
		})
	}
	if n == 0 {
		r.Undecide("R5", "record loops calling viewsByTime", "", "no viewsByTime call inside a loop found (Field.Import is expected)")
	}
}
