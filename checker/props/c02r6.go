package props

import (
	"go/ast"
	"go/types"
	"strings"

	"verif/checker/core"
	"verif/checker/flow"
)

// c02LastMayBeEmpty: rule R6. Removing values leaves empty (or nil)
// containers behind in a collection; the iterators skip them, but
// Containers.Last returns whatever sits under the highest key. A caller that
// reads a value out of that container must first establish that it holds one.
func c02LastMayBeEmpty(p *core.Program, r *core.Report) {
	rp := p.Pkg("roaring")
	if rp == nil {
		return
	}
	info := rp.TypesInfo
	n := 0
	for _, fd := range core.AllFuncDecls(rp) {
		if fd.Body == nil || strings.HasSuffix(p.Fset.Position(fd.Pos()).Filename, "_test.go") {
			continue
		}
		// c assigned from <Containers>.Last()
		var cObj types.Object
		ast.Inspect(fd.Body, func(m ast.Node) bool {
			as, ok := m.(*ast.AssignStmt)
			if !ok || len(as.Rhs) != 1 || len(as.Lhs) != 2 {
				return true
			}
			c, ok := ast.Unparen(as.Rhs[0]).(*ast.CallExpr)
			if !ok {
				return true
			}
			g := core.CalleeOf(info, c)
			if g == nil || g.Name() != "Last" {
				return true
			}
			sig := g.Type().(*types.Signature)
			if sig.Recv() == nil || core.NamedOf(sig.Recv().Type()) == nil || core.NamedOf(sig.Recv().Type()).Obj().Name() != "Containers" {
				return true
			}
			if id, ok := as.Lhs[1].(*ast.Ident); ok && id.Name != "_" {
				cObj = info.ObjectOf(id)
			}
			return true
		})
		if cObj == nil {
			continue
		}
		n++
		isC := func(e ast.Expr) bool {
			id, ok := ast.Unparen(e).(*ast.Ident)
			return ok && info.ObjectOf(id) == cObj
		}
		const bTested flow.State = 1
		var bad []string
		h := flow.Hooks{Info: info}
		h.Refine = func(c ast.Expr, taken bool, s flow.State) (flow.State, bool) {
			tested := false
			ast.Inspect(c, func(m ast.Node) bool {
				switch x := m.(type) {
				case *ast.CallExpr:
					if sel, ok := ast.Unparen(x.Fun).(*ast.SelectorExpr); ok && sel.Sel.Name == "N" && isC(sel.X) {
						tested = true
					}
				case *ast.BinaryExpr:
					if isC(x.X) || isC(x.Y) {
						tested = true
					}
				}
				return true
			})
			if tested {
				return s | bTested, true
			}
			return s, true
		}
		h.Atom = func(m ast.Node, s flow.State) []flow.State {
			switch x := m.(type) {
			case *ast.AssignStmt:
				// rebinding the variable to a container chosen some other way: its own test applies
				for _, l := range x.Lhs {
					if isC(l) && len(x.Rhs) > 0 {
						if call, ok := ast.Unparen(x.Rhs[0]).(*ast.CallExpr); ok {
							if g := core.CalleeOf(info, call); g != nil && g.Name() == "Last" {
								return []flow.State{s &^ bTested}
							}
						}
					}
				}
			case *ast.CallExpr:
				if sel, ok := ast.Unparen(x.Fun).(*ast.SelectorExpr); ok && isC(sel.X) && sel.Sel.Name != "N" && s&bTested == 0 {
					bad = append(bad, types.ExprString(x.Fun)+" at "+p.Pos(x.Pos()))
				}
			}
			return []flow.State{s}
		}
		it := flow.Run(h, fd.Body, 0)
		construct := core.FuncName(fd) + ": the container from Containers.Last is tested before it is read"
		switch {
		case it.Unsupported != "":
			r.Undecide("R6", construct, p.Pos(fd.Pos()), it.Unsupported)
		case len(bad) > 0:
			r.Violate("R6", construct, p.Pos(fd.Pos()), "reads "+strings.Join(dedupe(bad), ", ")+" without having tested that the container holds a value: after the values under the highest key were removed the container is empty (or nil) and the answer is a value that is not in the set")
		default:
			r.HoldAt("R6", construct, p.Pos(fd.Pos()), "tested (N() or nil) before use")
		}
	}
	r.Floor("C02/R6 callers of Containers.Last", n, 1)
}
