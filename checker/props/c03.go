package props

import (
	"fmt"
	"go/ast"
	"go/token"
	"go/types"
	"sort"
	"strings"

	"verif/checker/core"
)

func init() { register("C03", c03) }

func c03(p *core.Program, r *core.Report) {
	r.Rule("R1", "thaw-before-write (package roaring): a container's payload is stored to (element store, copy/append destination) only through a value that is private on every path -- freshly built, cloned, or returned by Thaw/unmapOrClone -- and its header (setN/setTyp/setArray/..., direct field stores) only while it is unfrozen (private, or on the false branch of frozen()); a slice adopted as a container's payload is private; functions that write through a parameter without establishing this pass the obligation to every caller")
	r.Rule("R2", "freeze-before-share (package roaring): a container placed into a bitmap (Containers.Put, or returned by an updater literal) is private, frozen by Freeze(), or was loaded from that same bitmap, on every path")
	r.Rule("R4", "row segments (package pilosa): a rowSegment is never copied by value out of another row's segments (the copy would carry writable=true and the same *roaring.Bitmap); derived rows take rowSegment.shared() or the fresh result of a segment operation; a rowSegment literal marked writable holds a bitmap produced by a roaring operation in that function, not another segment's bitmap")
	r.Rule("R5", "fragment hand-out (package pilosa): containers put into fragment storage from another bitmap are frozen or cloned; rows built from storage go through OffsetRange (which freezes)")
	r.Rule("R6", "a derived collection owns its bookkeeping: in Clone and Freeze of every Containers implementation no slice, map or pointer field of the result object is assigned an expression rooted at the receiver (its field, re-sliced or not)")
	c03DerivedOwnsItsIndex(p, r)
	r.Rule("R7", "shared containers are frozen (the assumption R1/R2 make about package-level containers): a package-level *Container of package roaring is initialised, and only ever assigned, from (*Container).Freeze")
	sharedSingletonsFrozen(p, r, "R7")
	r.NotDecided = "that Clone/unmapOrClone copy every byte (arithmetic); mmap lifetime across snapshot and close; equality of values after arbitrary histories"
	rp := p.Pkg("roaring")
	pk := p.Pkg("")
	if rp == nil || pk == nil {
		r.Undecide("R1", "packages roaring/pilosa", "", "not loaded")
		return
	}
	// ---------------- R1 / R2
	a := newCowAnalysis(rp)
	type key struct{ unit, rule string }
	byUnit := map[key][]cowViolation{}
	for _, v := range a.viol {
		k := key{v.unit.name, v.rule}
		byUnit[k] = append(byUnit[k], v)
	}
	nUnitsW, nUnitsS := 0, 0
	for _, u := range a.units {
		if u.exempt {
			continue
		}
		if u.unsup != "" {
			r.Undecide("R1", u.name, p.Pos(u.body.Pos()), u.unsup)
			continue
		}
		for _, rule := range []string{"write", "share"} {
			id := map[string]string{"write": "R1", "share": "R2"}[rule]
			vs := byUnit[key{u.name, rule}]
			n := u.nWrite + u.nHeader
			if rule == "share" {
				n = u.nShare
			}
			if len(vs) == 0 {
				if n > 0 {
					if rule == "write" {
						nUnitsW++
						r.HoldAt(id, u.name, p.Pos(u.body.Pos()), fmt.Sprintf("%d payload and %d header write sites, each through a private/unfrozen value or an untouched parameter (obligation on callers)", u.nWrite, u.nHeader))
					} else {
						nUnitsS++
						r.HoldAt(id, u.name, p.Pos(u.body.Pos()), fmt.Sprintf("%d containers placed into a bitmap, each private, frozen or the bitmap's own", u.nShare))
					}
				}
				continue
			}
			sort.Slice(vs, func(i, j int) bool { return vs[i].pos < vs[j].pos })
			// one obligation per function; the detail lists every site
			var parts []string
			for _, v := range vs {
				parts = append(parts, p.Pos(v.pos)+": "+v.what)
			}
			r.Violate(id, u.name, p.Pos(vs[0].pos), strings.Join(parts, " | "))
		}
	}
	r.Floor("C03/R1 functions with checked write sites", nUnitsW, 40)
	r.Floor("C03/R2 functions placing containers into bitmaps", nUnitsS, 12)
	r.Count("payload write sites checked", a.nWrites)
	r.Count("header write sites checked", a.nHeader)
	r.Count("share sites checked", a.nShares)
	r.Count("calls checked", a.nCalls)
	for _, u := range a.units {
		if (len(u.req) > 0 || len(u.reqU) > 0) && !u.exempt {
			var ps, hs []int
			for pi := range u.req {
				ps = append(ps, pi)
			}
			for pi := range u.reqU {
				hs = append(hs, pi)
			}
			sort.Ints(ps)
			sort.Ints(hs)
			r.Notes = append(r.Notes, fmt.Sprintf("obligation on callers: %s private params %v unfrozen params %v", u.name, ps, hs))
		}
	}
	var tnames []string
	for n, why := range cowReturnsPrivate {
		tnames = append(tnames, "trusted primitive "+n+": "+why)
	}
	for n, why := range cowUnderConstruction {
		tnames = append(tnames, "under-construction exemption "+n+": "+why)
	}
	sort.Strings(tnames)
	r.Notes = append(r.Notes, tnames...)
	// the under-construction exemption is only sound if the helpers are called
	// on a bitmap whose containers were just installed
	for _, name := range []string{"readOffsets", "readWithRuns"} {
		fd := core.FuncDecl(rp, "", name)
		if fd == nil {
			r.Undecide("R1", "under construction: "+name, "", "not found")
			continue
		}
		obj := rp.TypesInfo.Defs[fd.Name]
		ok, n := true, 0
		where := ""
		for _, cfd := range core.AllFuncDecls(rp) {
			if cfd.Body == nil || strings.HasSuffix(p.Fset.Position(cfd.Pos()).Filename, "_test.go") {
				continue
			}
			var callPos token.Pos
			hasReset, hasPut := token.NoPos, token.NoPos
			ast.Inspect(cfd.Body, func(nd ast.Node) bool {
				c, isCall := nd.(*ast.CallExpr)
				if !isCall {
					return true
				}
				fn := core.CalleeOf(rp.TypesInfo, c)
				if fn == nil {
					return true
				}
				if fn == obj {
					callPos = c.Pos()
				}
				if fn.Name() == "ResetN" && !hasReset.IsValid() {
					hasReset = c.Pos()
				}
				if fn.Name() == "PutContainerValues" && !hasPut.IsValid() {
					hasPut = c.Pos()
				}
				return true
			})
			if callPos.IsValid() {
				n++
				if !(hasReset.IsValid() && hasPut.IsValid() && hasReset < callPos && hasPut < callPos) {
					ok = false
					where = p.Pos(callPos)
				}
			}
		}
		r.Check(ok && n > 0, "R1", "under construction: "+name, p.Pos(fd.Pos()), fmt.Sprintf("%d call site(s), each after ResetN and PutContainerValues on the bitmap being decoded", n), "called at "+where+" without ResetN and PutContainerValues before it: the containers it attaches payloads to may be frozen containers shared with another bitmap")
	}

	// ---------------- R4
	c03Rows(p, r)

	// ---------------- R5
	info := pk.TypesInfo
	nPut := 0
	for _, fd := range core.AllFuncDecls(pk) {
		if fd.Body == nil || strings.HasSuffix(p.Fset.Position(fd.Pos()).Filename, "_test.go") {
			continue
		}
		ast.Inspect(fd.Body, func(n ast.Node) bool {
			c, ok := n.(*ast.CallExpr)
			if !ok || len(c.Args) != 2 {
				return true
			}
			fn := core.CalleeOf(info, c)
			if fn == nil || fn.Name() != "Put" || fn.Pkg() == nil || fn.Pkg().Path() != core.ModPath+"/roaring" {
				return true
			}
			nPut++
			construct := core.FuncName(fd) + " Containers.Put"
			good := false
			if ac, ok := ast.Unparen(c.Args[1]).(*ast.CallExpr); ok {
				if g := core.CalleeOf(info, ac); g != nil && g.Pkg() != nil && g.Pkg().Path() == core.ModPath+"/roaring" {
					switch {
					case g.Name() == "Freeze", g.Name() == "Clone", strings.HasPrefix(g.Name(), "NewContainer"):
						good = true
					}
				}
			}
			r.Check(good, "R5", construct, p.Pos(c.Pos()), "the container is frozen, cloned or freshly built at the call", "a container is put into a bitmap as it is ("+types.ExprString(c.Args[1])+"): if it is not frozen, the bitmap it came from and this one share it writable, and a write to either changes both")
			return true
		})
	}
	r.Floor("C03/R5 Containers.Put sites in package pilosa", nPut, 1)
	if fd := core.FuncDecl(pk, "fragment", "rowFromStorage"); fd != nil {
		ok := false
		ast.Inspect(fd.Body, func(n ast.Node) bool {
			if c, isCall := n.(*ast.CallExpr); isCall {
				if fn := core.CalleeOf(info, c); fn != nil && fn.Name() == "OffsetRange" && recvNamed(fn, "Bitmap") {
					ok = true
				}
			}
			return true
		})
		r.Check(ok, "R5", "(*fragment).rowFromStorage", p.Pos(fd.Pos()), "rows are cut out of storage with OffsetRange (frozen containers, checked by R2)", "rowFromStorage no longer builds the row with OffsetRange: the row handed out (and cached) may share writable containers with storage")
	} else {
		r.Undecide("R5", "(*fragment).rowFromStorage", "", "not found")
	}
}

// c03Rows: R4.
func c03Rows(p *core.Program, r *core.Report) {
	pk := p.Pkg("")
	info := pk.TypesInfo
	isSeg := func(t types.Type) bool {
		if t == nil {
			return false
		}
		if _, isPtr := t.Underlying().(*types.Pointer); isPtr {
			return false
		}
		return core.IsNamed(t, core.ModPath, "rowSegment")
	}
	nCopies, nLits := 0, 0
	for _, fd := range core.AllFuncDecls(pk) {
		if fd.Body == nil || strings.HasSuffix(p.Fset.Position(fd.Pos()).Filename, "_test.go") {
			continue
		}
		fname := core.FuncName(fd)
		// local definitions (single assignment) for resolving identifiers
		defs := map[types.Object][]ast.Expr{}
		ast.Inspect(fd.Body, func(n ast.Node) bool {
			if as, ok := n.(*ast.AssignStmt); ok {
				if len(as.Lhs) == len(as.Rhs) {
					for i, l := range as.Lhs {
						if id, ok := ast.Unparen(l).(*ast.Ident); ok {
							defs[info.ObjectOf(id)] = append(defs[info.ObjectOf(id)], as.Rhs[i])
						}
					}
				} else if len(as.Rhs) == 1 {
					for _, l := range as.Lhs {
						if id, ok := ast.Unparen(l).(*ast.Ident); ok {
							defs[info.ObjectOf(id)] = append(defs[info.ObjectOf(id)], as.Rhs[0])
						}
					}
				}
			}
			return true
		})
		// Merge's own-segment idiom
		ownFirst := map[types.Object]bool{}
		if fname == "(*Row).Merge" && fd.Recv != nil && len(fd.Recv.List[0].Names) > 0 {
			recv := info.Defs[fd.Recv.List[0].Names[0]]
			var itrObj types.Object
			assignsBack := false
			ast.Inspect(fd.Body, func(n ast.Node) bool {
				as, ok := n.(*ast.AssignStmt)
				if !ok {
					return true
				}
				if len(as.Lhs) == 1 && len(as.Rhs) == 1 {
					if c, ok := ast.Unparen(as.Rhs[0]).(*ast.CallExpr); ok {
						if fn := core.CalleeOf(info, c); fn != nil && fn.Name() == "newMergeSegmentIterator" && len(c.Args) == 2 {
							if sel, ok := ast.Unparen(c.Args[0]).(*ast.SelectorExpr); ok && sel.Sel.Name == "segments" {
								if id, ok := ast.Unparen(sel.X).(*ast.Ident); ok && info.ObjectOf(id) == recv {
									if lid, ok := ast.Unparen(as.Lhs[0]).(*ast.Ident); ok {
										itrObj = info.ObjectOf(lid)
									}
								}
							}
						}
					}
					if sel, ok := ast.Unparen(as.Lhs[0]).(*ast.SelectorExpr); ok && sel.Sel.Name == "segments" {
						if id, ok := ast.Unparen(sel.X).(*ast.Ident); ok && info.ObjectOf(id) == recv {
							assignsBack = true
						}
					}
				}
				return true
			})
			if itrObj != nil && assignsBack {
				ast.Inspect(fd.Body, func(n ast.Node) bool {
					as, ok := n.(*ast.AssignStmt)
					if !ok || len(as.Lhs) != 2 || len(as.Rhs) != 1 {
						return true
					}
					if c, ok := ast.Unparen(as.Rhs[0]).(*ast.CallExpr); ok {
						if sel, ok := ast.Unparen(c.Fun).(*ast.SelectorExpr); ok && sel.Sel.Name == "next" {
							if id, ok := ast.Unparen(sel.X).(*ast.Ident); ok && info.ObjectOf(id) == itrObj {
								if l0, ok := ast.Unparen(as.Lhs[0]).(*ast.Ident); ok {
									ownFirst[info.ObjectOf(l0)] = true
								}
							}
						}
					}
					return true
				})
			}
		}
		var stack []ast.Node
		ast.Inspect(fd.Body, func(n ast.Node) bool {
			if n == nil {
				stack = stack[:len(stack)-1]
				return true
			}
			stack = append(stack, n)
			var parent ast.Node
			if len(stack) >= 2 {
				parent = stack[len(stack)-2]
			}
			switch x := n.(type) {
			case *ast.StarExpr:
				if !isSeg(info.TypeOf(x)) {
					return true
				}
				// a store through the pointer is not a copy out
				if as, ok := parent.(*ast.AssignStmt); ok {
					for _, l := range as.Lhs {
						if l == ast.Expr(x) {
							return true
						}
					}
				}
				nCopies++
				construct := fmt.Sprintf("%s copy %s", fname, types.ExprString(x))
				switch y := ast.Unparen(x.X).(type) {
				case *ast.CallExpr:
					if fn := core.CalleeOf(info, y); fn != nil && recvNamed(fn, "rowSegment") {
						r.HoldAt("R4", construct, p.Pos(x.Pos()), "dereferences the fresh result of a segment operation")
						return true
					}
				case *ast.Ident:
					if ds := defs[info.ObjectOf(y)]; len(ds) > 0 && !ownFirst[info.ObjectOf(y)] {
						all := true
						for _, d := range ds {
							c, ok := ast.Unparen(d).(*ast.CallExpr)
							if !ok {
								all = false
								break
							}
							fn := core.CalleeOf(info, c)
							sig, _ := info.TypeOf(c.Fun).(*types.Signature)
							// the fresh-returning segment operations, not the merge iterator
							if fn == nil || !recvNamed(fn, "rowSegment") || sig == nil || sig.Results().Len() == 0 {
								all = false
							}
						}
						if all {
							r.HoldAt("R4", construct, p.Pos(x.Pos()), "dereferences the fresh result of a segment operation")
							return true
						}
					}
					if ownFirst[info.ObjectOf(y)] {
						r.HoldAt("R4", construct, p.Pos(x.Pos()), "the receiver's own segment, collected into the slice assigned back to the receiver")
						return true
					}
				}
				r.Violate("R4", construct, p.Pos(x.Pos()), "a segment of another row is copied by value: the copy is writable and holds the same *roaring.Bitmap, so SetBit on either row changes the other")
			case *ast.CompositeLit:
				if !isSeg(info.TypeOf(x)) {
					return true
				}
				var dataE ast.Expr
				writable := false
				for _, el := range x.Elts {
					if kv, ok := el.(*ast.KeyValueExpr); ok {
						if id, ok := kv.Key.(*ast.Ident); ok {
							switch id.Name {
							case "data":
								dataE = kv.Value
							case "writable":
								if v, ok := ast.Unparen(kv.Value).(*ast.Ident); ok && v.Name == "true" {
									writable = true
								}
							}
						}
					}
				}
				if !writable || dataE == nil {
					return true
				}
				nLits++
				construct := fmt.Sprintf("%s rowSegment literal", fname)
				fresh := func(e ast.Expr) bool {
					c, ok := ast.Unparen(e).(*ast.CallExpr)
					if !ok {
						return false
					}
					fn := core.CalleeOf(info, c)
					return fn != nil && fn.Pkg() != nil && fn.Pkg().Path() == core.ModPath+"/roaring"
				}
				ok := fresh(dataE)
				if id, isId := ast.Unparen(dataE).(*ast.Ident); isId && !ok {
					ds := defs[info.ObjectOf(id)]
					ok = len(ds) > 0
					for _, d := range ds {
						if !fresh(d) {
							ok = false
						}
					}
				}
				r.Check(ok, "R4", construct, p.Pos(x.Pos()), "the writable segment's bitmap is the result of a roaring operation in this function", "a segment literal marked writable takes its bitmap from "+types.ExprString(dataE)+", which is not the result of a roaring operation here: two segments then write to one bitmap")
			}
			return true
		})
	}
	r.Floor("C03/R4 segment value copies", nCopies, 5)
	r.Floor("C03/R4 writable segment literals", nLits, 7)
}
