package props

import (
	"go/ast"
	"go/types"
	"strings"

	"verif/checker/core"
)

// c25CallerMapNotRetained: rule R7 (the converse of R1). What the store
// caches and returns for an id must be a map of its own: a function of the
// attribute store that takes an attribute map from its caller and returns
// one never returns (an alias of) the map it was given. Otherwise the cache
// entry is the caller's map, and a later change by the caller shows through
// Attrs() while the disk keeps the old values.
func c25CallerMapNotRetained(p *core.Program, r *core.Report) {
	bp := p.Pkg("boltdb")
	if bp == nil {
		return
	}
	info := bp.TypesInfo
	isAttrMap := func(t types.Type) bool {
		m, ok := t.Underlying().(*types.Map)
		if !ok {
			return false
		}
		k, ok := m.Key().Underlying().(*types.Basic)
		if !ok || k.Kind() != types.String {
			return false
		}
		it, ok := m.Elem().Underlying().(*types.Interface)
		return ok && it.NumMethods() == 0
	}
	n := 0
	for _, fd := range core.AllFuncDecls(bp) {
		if fd.Body == nil || fd.Type.Results == nil || strings.HasSuffix(p.Fset.Position(fd.Pos()).Filename, "_test.go") {
			continue
		}
		params := map[types.Object]bool{}
		for _, fl := range fd.Type.Params.List {
			for _, nm := range fl.Names {
				if t := info.TypeOf(fl.Type); t != nil && isAttrMap(t) {
					params[info.Defs[nm]] = true
				}
			}
		}
		returnsMap := false
		for _, fl := range fd.Type.Results.List {
			if t := info.TypeOf(fl.Type); t != nil && isAttrMap(t) {
				returnsMap = true
			}
		}
		if len(params) == 0 || !returnsMap {
			continue
		}
		n++
		// locals that may alias a parameter map
		alias := map[types.Object]bool{}
		for o := range params {
			alias[o] = true
		}
		var where string
		for pass := 0; pass < 3; pass++ {
			ast.Inspect(fd.Body, func(m ast.Node) bool {
				as, ok := m.(*ast.AssignStmt)
				if !ok || len(as.Lhs) != len(as.Rhs) {
					return true
				}
				for i, l := range as.Lhs {
					lid, ok := ast.Unparen(l).(*ast.Ident)
					if !ok {
						continue
					}
					if rid, ok := ast.Unparen(as.Rhs[i]).(*ast.Ident); ok && alias[info.ObjectOf(rid)] {
						if o := info.ObjectOf(lid); o != nil && !alias[o] {
							alias[o] = true
							where = p.Pos(as.Pos())
						}
					}
				}
				return true
			})
		}
		var bad []string
		ast.Inspect(fd.Body, func(m ast.Node) bool {
			ret, ok := m.(*ast.ReturnStmt)
			if !ok {
				return true
			}
			for _, e := range ret.Results {
				if id, ok := ast.Unparen(e).(*ast.Ident); ok && alias[info.ObjectOf(id)] && isAttrMap(info.TypeOf(e)) {
					bad = append(bad, p.Pos(ret.Pos())+" returns "+id.Name)
				}
			}
			return true
		})
		construct := core.FuncName(fd) + ": the returned map is not the caller's"
		if len(bad) > 0 {
			r.Violate("R7", construct, p.Pos(fd.Pos()), strings.Join(dedupe(bad), "; ")+", which may be the map the caller passed in (aliased at "+where+"): the store caches it, so a later change of that map by the caller changes what Attrs() answers, and the already-present shortcut compares new writes with the polluted entry and skips them")
		} else {
			r.HoldAt("R7", construct, p.Pos(fd.Pos()), "the result is never an alias of a parameter map")
		}
	}
	r.Floor("C25/R7 store functions taking and returning an attribute map", n, 1)
}
