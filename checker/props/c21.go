package props

import (
	"go/ast"
	"go/token"
	"go/types"
	"strings"

	"verif/checker/core"
	"verif/checker/flow"
)

func init() { register("C21", c21) }

// c21 decides the structural clauses of the resize plan: where sources come
// from, that the removed node is never one, that every fragment of a node's
// diff gets a source or the plan is refused, and that cleanup deletes only
// what the ownership function says is not owned. The combinatorial claim
// (every configuration up to 6 nodes gets a complete plan) is a function of
// the hash ring and is not decided.
func c21(p *core.Program, r *core.Report) {
	r.Rule("R1", "sources come from the old cluster: in fragSources the node of every ResizeSource is looked up in a map that is filled only from fragsByHost of the receiver (the cluster before the change) or of a cluster whose node list is assigned only from a clone of the receiver's, never from the target cluster")
	r.Rule("R2", "the removed node is never a source: every store into that map happens on a path where the node was tested not to be the differing node of a removal (action == remove && node == differing node leaves the iteration)")
	r.Rule("R3", "every newly owned fragment is planned: each target node's diff is fragsDiff(target fragments, old fragments) in that argument order (all target fragments for a node the old cluster lacks), the diff loop ranges over the target's fragsByHost, and every iteration over a node's diff appends a ResizeSource to that node's list or returns an error")
	r.Rule("R4", "refused only without a source: the only error return inside the diff loop is under the failed lookup of the fragment in the source map")
	r.Rule("R5", "cleanup deletes only what is not owned: in holderCleaner.CleanHolder view.deleteFragment is reached only after uint64InSlice(<that fragment's shard>, <cluster.containsShards(index, available shards, this node)>) was tested false")
	r.Rule("R6", "diff names a member of the right cluster: in cluster.diff the branch that answers remove assigns the node id only from elements of the receiver's node list, the branch that answers add only from the other cluster's")
	c21DiffNamesTheRightNode(p, r)
	r.NotDecided = "that the plan is complete and refused only when necessary for every cluster, replica count and shard set (a function of the hash ring: model-checking question); that the source still holds the data at transfer time"
	pk := p.Pkg("")
	if pk == nil {
		r.Undecide("R1", "package pilosa", "", "not loaded")
		return
	}
	info := pk.TypesInfo
	fd := core.FuncDecl(pk, "cluster", "fragSources")
	if fd == nil {
		r.Undecide("R1", "(*cluster).fragSources", "", "not found")
		return
	}
	recv := info.Defs[fd.Recv.List[0].Names[0]]
	var toObj types.Object
	for _, fl := range fd.Type.Params.List {
		for _, nm := range fl.Names {
			if core.IsNamed(info.TypeOf(fl.Type), core.ModPath, "cluster") && toObj == nil {
				toObj = info.Defs[nm]
			}
		}
	}
	if recv == nil || toObj == nil {
		r.Undecide("R1", "(*cluster).fragSources", p.Pos(fd.Pos()), "receiver or target-cluster parameter not found")
		return
	}
	objOf := func(e ast.Expr) types.Object {
		if id, ok := ast.Unparen(e).(*ast.Ident); ok {
			return info.ObjectOf(id)
		}
		return nil
	}
	mentions := func(e ast.Node, o types.Object) bool {
		found := false
		ast.Inspect(e, func(n ast.Node) bool {
			if id, ok := n.(*ast.Ident); ok && info.ObjectOf(id) == o {
				found = true
			}
			return true
		})
		return found
	}
	// single-assignment facts
	assigns := map[types.Object][]ast.Expr{} // local -> right-hand sides (whole call for tuple assignments)
	ast.Inspect(fd.Body, func(n ast.Node) bool {
		switch x := n.(type) {
		case *ast.AssignStmt:
			for i, l := range x.Lhs {
				if o := objOf(l); o != nil {
					if len(x.Rhs) == len(x.Lhs) {
						assigns[o] = append(assigns[o], x.Rhs[i])
					} else if len(x.Rhs) == 1 {
						assigns[o] = append(assigns[o], x.Rhs[0])
					}
				}
			}
		case *ast.ValueSpec:
			for i, nm := range x.Names {
				if i < len(x.Values) {
					assigns[info.Defs[nm]] = append(assigns[info.Defs[nm]], x.Values[i])
				}
			}
		}
		return true
	})
	// cluster-valued locals that stand for the old cluster
	oldCluster := func(o types.Object) (bool, string) {
		if o == recv {
			return true, ""
		}
		if o == toObj || o == nil {
			return false, "it is the target cluster"
		}
		for _, rhs := range assigns[o] {
			if ro := objOf(rhs); ro != nil {
				if ro != recv {
					return false, "assigned from " + ro.Name()
				}
				continue
			}
			if c, ok := ast.Unparen(rhs).(*ast.CallExpr); ok {
				if fn := core.CalleeOf(info, c); fn != nil && fn.Name() == "newCluster" {
					continue
				}
			}
			return false, "assigned from " + types.ExprString(rhs)
		}
		// its node list
		okNodes := false
		bad := ""
		ast.Inspect(fd.Body, func(n ast.Node) bool {
			as, ok := n.(*ast.AssignStmt)
			if !ok {
				return true
			}
			for i, l := range as.Lhs {
				sel, ok := ast.Unparen(l).(*ast.SelectorExpr)
				if !ok || sel.Sel.Name != "nodes" || objOf(sel.X) != o || i >= len(as.Rhs) {
					continue
				}
				if mentions(as.Rhs[i], recv) && !mentions(as.Rhs[i], toObj) {
					okNodes = true
				} else {
					bad = "its node list is assigned " + types.ExprString(as.Rhs[i])
				}
			}
			return true
		})
		if bad != "" {
			return false, bad
		}
		if !okNodes {
			return false, "its node list is never assigned from the receiver's"
		}
		return true, ""
	}
	// fragsByHost(X) results
	fragsOf := func(o types.Object) types.Object { // the cluster whose fragsByHost produced local o
		if len(assigns[o]) != 1 {
			return nil
		}
		c, ok := ast.Unparen(assigns[o][0]).(*ast.CallExpr)
		if !ok {
			return nil
		}
		fn := core.CalleeOf(info, c)
		if fn == nil || fn.Name() != "fragsByHost" {
			return nil
		}
		sel, ok := ast.Unparen(c.Fun).(*ast.SelectorExpr)
		if !ok {
			return nil
		}
		return objOf(sel.X)
	}
	// ---- the source map: ResizeSource{Node: f(v)} with v, ok := M[frag]
	var lit *ast.CompositeLit
	ast.Inspect(fd.Body, func(n ast.Node) bool {
		if cl, ok := n.(*ast.CompositeLit); ok && lit == nil {
			if t := info.TypeOf(cl); t != nil && core.IsNamed(t, core.ModPath, "ResizeSource") {
				lit = cl
			}
		}
		return true
	})
	if lit == nil {
		r.Undecide("R1", "(*cluster).fragSources", p.Pos(fd.Pos()), "no ResizeSource literal")
		return
	}
	var nodeExpr ast.Expr
	for _, el := range lit.Elts {
		if kv, ok := el.(*ast.KeyValueExpr); ok {
			if id, ok := kv.Key.(*ast.Ident); ok && id.Name == "Node" {
				nodeExpr = kv.Value
			}
		}
	}
	var srcMap, srcOK types.Object // the map and the "found" flag of the lookup
	var lookup *ast.AssignStmt
	if nodeExpr != nil {
		ast.Inspect(nodeExpr, func(n ast.Node) bool {
			id, ok := n.(*ast.Ident)
			if !ok || srcMap != nil {
				return true
			}
			o := info.ObjectOf(id)
			for _, rhs := range assigns[o] {
				if ix, ok := ast.Unparen(rhs).(*ast.IndexExpr); ok {
					if _, isMap := info.TypeOf(ix.X).Underlying().(*types.Map); isMap {
						srcMap = objOf(ix.X)
					}
				}
			}
			return true
		})
	}
	if srcMap == nil {
		r.Violate("R1", "(*cluster).fragSources: source of a ResizeSource", p.Pos(lit.Pos()), "the node of a ResizeSource is not looked up in a per-fragment map of old owners")
		return
	}
	ast.Inspect(fd.Body, func(n ast.Node) bool {
		if as, ok := n.(*ast.AssignStmt); ok && len(as.Lhs) == 2 && len(as.Rhs) == 1 {
			if ix, ok := ast.Unparen(as.Rhs[0]).(*ast.IndexExpr); ok && objOf(ix.X) == srcMap {
				lookup, srcOK = as, objOf(as.Lhs[1])
			}
		}
		return true
	})
	// stores into the source map
	nStores := 0
	parents := parentMap(fd.Body)
	var diffNode, actionObj types.Object
	ast.Inspect(fd.Body, func(n ast.Node) bool {
		if as, ok := n.(*ast.AssignStmt); ok && len(as.Rhs) == 1 && len(as.Lhs) == 3 {
			if c, ok := ast.Unparen(as.Rhs[0]).(*ast.CallExpr); ok {
				if fn := core.CalleeOf(info, c); fn != nil && fn.Name() == "diff" && recvNamed(fn, "cluster") {
					actionObj, diffNode = objOf(as.Lhs[0]), objOf(as.Lhs[1])
				}
			}
		}
		return true
	})
	ast.Inspect(fd.Body, func(n ast.Node) bool {
		as, ok := n.(*ast.AssignStmt)
		if !ok || len(as.Lhs) != 1 || len(as.Rhs) != 1 {
			return true
		}
		ix, ok := ast.Unparen(as.Lhs[0]).(*ast.IndexExpr)
		if !ok || objOf(ix.X) != srcMap {
			return true
		}
		nStores++
		construct := "(*cluster).fragSources: store into " + srcMap.Name()
		// the value stored is the key of a range over fragsByHost of an old cluster
		var outer *ast.RangeStmt
		val := objOf(as.Rhs[0])
		for q := parents[ast.Node(as)]; q != nil; q = parents[q] {
			if rs, ok := q.(*ast.RangeStmt); ok && val != nil && objOf(rs.Key) == val {
				outer = rs
				break
			}
		}
		if outer == nil {
			r.Violate("R1", construct, p.Pos(as.Pos()), "the stored node is not the key of a loop over a cluster's fragments by host")
			return true
		}
		cl := fragsOf(objOf(outer.X))
		if cl == nil {
			r.Violate("R1", construct, p.Pos(as.Pos()), "the loop does not range over the result of <cluster>.fragsByHost")
			return true
		}
		if ok, why := oldCluster(cl); !ok {
			r.Violate("R1", construct, p.Pos(as.Pos()), "the source owners are computed on "+cl.Name()+", which is not the cluster before the change ("+why+"): a node that never held the fragment is named as its source")
		} else {
			r.HoldAt("R1", construct, p.Pos(as.Pos()), "owners computed on "+cl.Name()+", which stands for the cluster before the change")
		}
		// R2: path-sensitive exclusion of the removed node inside the outer loop body
		const bOK flow.State = 1
		violated := false
		h := flow.Hooks{Info: info}
		h.Refine = func(c ast.Expr, taken bool, s flow.State) (flow.State, bool) {
			be, ok := ast.Unparen(c).(*ast.BinaryExpr)
			if !ok || (be.Op != token.EQL && be.Op != token.NEQ) {
				return s, true
			}
			x, y := objOf(be.X), objOf(be.Y)
			isNodeTest := (x == val && y == diffNode) || (y == val && x == diffNode)
			isActionTest := false
			if (x == actionObj && y != nil && y.Name() == "resizeJobActionRemove") || (y == actionObj && x != nil && x.Name() == "resizeJobActionRemove") {
				isActionTest = true
			}
			if !isNodeTest && !isActionTest {
				return s, true
			}
			equal := (be.Op == token.EQL) == taken
			if !equal {
				return s | bOK, true // not the removed node, or not a removal
			}
			return s, true
		}
		h.Atom = func(n ast.Node, s flow.State) []flow.State {
			if n == ast.Node(as) && s&bOK == 0 {
				violated = true
			}
			return []flow.State{s}
		}
		it := flow.Run(h, c13IterationBody(outer.Body), 0)
		c2 := "(*cluster).fragSources: removed node excluded from " + srcMap.Name()
		switch {
		case diffNode == nil || actionObj == nil:
			r.Undecide("R2", c2, p.Pos(as.Pos()), "the results of cluster.diff are not kept")
		case it.Unsupported != "":
			r.Undecide("R2", c2, p.Pos(as.Pos()), it.Unsupported)
		case violated:
			r.Violate("R2", c2, p.Pos(as.Pos()), "a node is recorded as a source on a path that did not establish that it is not the node being removed: the plan tells a node to fetch from the node that is leaving")
		default:
			r.HoldAt("R2", c2, p.Pos(as.Pos()), "every path to the store tested action != remove or node != removed node")
		}
		return true
	})
	r.Floor("C21/R1 stores into the source map", nStores, 1)

	// ---- R3/R4: the diff
	var tFrags, fFrags types.Object
	for o := range assigns {
		switch fragsOf(o) {
		case toObj:
			tFrags = o
		case recv:
			if fFrags == nil || o.Pos() < fFrags.Pos() {
				fFrags = o
			}
		}
	}
	nDiff := 0
	var diffsMap types.Object
	ast.Inspect(fd.Body, func(n ast.Node) bool {
		c, ok := n.(*ast.CallExpr)
		if !ok {
			return true
		}
		fn := core.CalleeOf(info, c)
		if fn == nil || fn.Name() != "fragsDiff" || len(c.Args) != 2 {
			return true
		}
		nDiff++
		construct := "(*cluster).fragSources: fragsDiff operands"
		root := func(e ast.Expr) types.Object {
			for {
				switch x := ast.Unparen(e).(type) {
				case *ast.IndexExpr:
					e = x.X
				case *ast.Ident:
					o := info.ObjectOf(x)
					// a range value of a loop over a fragsByHost map
					for q := parents[ast.Node(c)]; q != nil; q = parents[q] {
						if rs, ok := q.(*ast.RangeStmt); ok && objOf(rs.Value) == o {
							return objOf(rs.X)
						}
					}
					return o
				default:
					return nil
				}
			}
		}
		a, b := root(c.Args[0]), root(c.Args[1])
		ok2 := tFrags != nil && fFrags != nil && a == tFrags && fragsOf(b) == recv
		r.Check(ok2, "R3", construct, p.Pos(c.Pos()), "target fragments minus old fragments", "the diff is not (target cluster's fragments) minus (old cluster's fragments): a node's newly owned fragments are computed from the wrong sets")
		// the enclosing loop ranges over the target's fragments, and the fallback takes all of them
		for q := parents[ast.Node(c)]; q != nil; q = parents[q] {
			if rs, ok := q.(*ast.RangeStmt); ok {
				r.Check(objOf(rs.X) == tFrags, "R3", "(*cluster).fragSources: diff loop", p.Pos(rs.Pos()), "ranges over the target cluster's fragments by host", "the diff loop does not range over the target cluster's nodes: a node of the new cluster gets no diff")
				break
			}
		}
		if as, ok := parents[ast.Node(c)].(*ast.AssignStmt); ok && len(as.Lhs) == 1 {
			if ix, ok := ast.Unparen(as.Lhs[0]).(*ast.IndexExpr); ok {
				diffsMap = objOf(ix.X)
			}
		}
		return true
	})
	r.Floor("C21/R3 fragsDiff calls in fragSources", nDiff, 1)
	// every node of the target cluster gets its diff: each iteration of the loop over the target's
	// fragments stores, under the loop's key, fragsDiff(..) or all of the node's target fragments
	ast.Inspect(fd.Body, func(n ast.Node) bool {
		rs, ok := n.(*ast.RangeStmt)
		if !ok || tFrags == nil || objOf(rs.X) != tFrags || diffsMap == nil {
			return true
		}
		key, val := objOf(rs.Key), objOf(rs.Value)
		const bStored flow.State = 1
		var missing []string
		var wrong []string
		h := flow.Hooks{Info: info}
		h.Atom = func(nd ast.Node, s flow.State) []flow.State {
			as, ok := nd.(*ast.AssignStmt)
			if !ok || len(as.Lhs) != 1 || len(as.Rhs) != 1 {
				return []flow.State{s}
			}
			ix, ok := ast.Unparen(as.Lhs[0]).(*ast.IndexExpr)
			if !ok || objOf(ix.X) != diffsMap {
				return []flow.State{s}
			}
			good := false
			if objOf(ix.Index) == key {
				if c, ok := ast.Unparen(as.Rhs[0]).(*ast.CallExpr); ok {
					if g := core.CalleeOf(info, c); g != nil && g.Name() == "fragsDiff" {
						good = true
					}
				}
				if objOf(as.Rhs[0]) == val && val != nil {
					good = true
				}
			}
			if good {
				return []flow.State{s | bStored}
			}
			wrong = append(wrong, p.Pos(as.Pos()))
			return []flow.State{s}
		}
		h.Return = func(ret *ast.ReturnStmt, s flow.State) {
			if ret != nil && len(ret.Results) > 0 {
				return // leaves fragSources
			}
			if s&bStored == 0 {
				pos := p.Pos(rs.Body.End())
				if ret != nil {
					pos = p.Pos(ret.Pos())
				}
				missing = append(missing, pos)
			}
		}
		it := flow.Run(h, c13IterationBody(rs.Body), 0)
		c3 := "(*cluster).fragSources: every target node gets its diff"
		switch {
		case it.Unsupported != "":
			r.Undecide("R3", c3, p.Pos(rs.Pos()), it.Unsupported)
		case len(wrong) > 0 || len(missing) > 0:
			r.Violate("R3", c3, p.Pos(rs.Pos()), "an iteration over the target cluster's nodes stores something other than fragsDiff(target, old) or the node's target fragments as its diff ("+strings.Join(dedupe(append(wrong, missing...)), ", ")+"): fragments that node newly owns get no source, and the resize still reports success")
		default:
			r.HoldAt("R3", c3, p.Pos(rs.Pos()), "every iteration stores fragsDiff(..) or all target fragments under the node's id")
		}
		return true
	})
	// the loop over diffs: every iteration of the inner loop appends or errors
	nPlan := 0
	ast.Inspect(fd.Body, func(n ast.Node) bool {
		rs, ok := n.(*ast.RangeStmt)
		if !ok || diffsMap == nil || objOf(rs.X) != diffsMap {
			return true
		}
		key, val := objOf(rs.Key), objOf(rs.Value)
		var inner *ast.RangeStmt
		ast.Inspect(rs.Body, func(m ast.Node) bool {
			if r2, ok := m.(*ast.RangeStmt); ok && inner == nil && objOf(r2.X) == val {
				inner = r2
			}
			return true
		})
		if inner == nil {
			r.Violate("R3", "(*cluster).fragSources: plan loop", p.Pos(rs.Pos()), "no loop over the fragments of a node's diff")
			return true
		}
		nPlan++
		const bDone flow.State = 1
		const bLookFail flow.State = 2
		var missing, badErr []string
		h := flow.Hooks{Info: info}
		h.Atom = func(n ast.Node, s flow.State) []flow.State {
			as, ok := n.(*ast.AssignStmt)
			if !ok || len(as.Lhs) != 1 || len(as.Rhs) != 1 {
				return []flow.State{s}
			}
			ix, ok := ast.Unparen(as.Lhs[0]).(*ast.IndexExpr)
			if !ok || objOf(ix.Index) != key {
				return []flow.State{s}
			}
			if c, ok := ast.Unparen(as.Rhs[0]).(*ast.CallExpr); ok && core.BuiltinName(info, c) == "append" && len(c.Args) >= 2 {
				if t := info.TypeOf(c.Args[1]); t != nil {
					if pt, ok := t.(*types.Pointer); ok && core.IsNamed(pt.Elem(), core.ModPath, "ResizeSource") {
						return []flow.State{s | bDone}
					}
				}
			}
			return []flow.State{s}
		}
		h.Refine = func(c ast.Expr, taken bool, s flow.State) (flow.State, bool) {
			e := ast.Unparen(c)
			neg := false
			if u, ok := e.(*ast.UnaryExpr); ok && u.Op == token.NOT {
				e, neg = ast.Unparen(u.X), true
			}
			if srcOK != nil && objOf(e) == srcOK {
				if taken == neg { // ok is false
					return s | bLookFail, true
				}
			}
			return s, true
		}
		h.Return = func(ret *ast.ReturnStmt, s flow.State) {
			if ret == nil || len(ret.Results) == 0 { // end of the iteration (fell off the end, or `continue`)
				if s&bDone == 0 {
					missing = append(missing, p.Pos(inner.Body.End()))
				}
				return
			}
			// a return inside the loop body: must be an error under the failed lookup
			if s&bLookFail == 0 {
				badErr = append(badErr, p.Pos(ret.Pos()))
			}
		}
		// `continue` ends an iteration like falling off the end
		body := c13IterationBody(inner.Body)
		it := flow.Run(h, body, 0)
		switch {
		case it.Unsupported != "":
			r.Undecide("R3", "(*cluster).fragSources: plan loop", p.Pos(inner.Pos()), it.Unsupported)
		case len(missing) > 0:
			r.Violate("R3", "(*cluster).fragSources: plan loop", p.Pos(inner.Pos()), "an iteration over a node's newly owned fragments can end without appending a ResizeSource for the fragment and without refusing the plan: the node never fetches that fragment, and the old owner drops it after the resize")
		default:
			r.HoldAt("R3", "(*cluster).fragSources: plan loop", p.Pos(inner.Pos()), "every iteration appends a ResizeSource for the node or returns an error")
		}
		if it.Unsupported == "" {
			r.Check(len(badErr) == 0, "R4", "(*cluster).fragSources: refusal", p.Pos(inner.Pos()), "the plan is refused only where the fragment has no old owner left", "the plan is refused at "+strings.Join(dedupe(badErr), ", ")+" on a path where the lookup of an old owner did not fail: a resize that has a source for everything is rejected")
		}
		_ = lookup
		return true
	})
	r.Floor("C21/R3 plan loops", nPlan, 1)

	// ---- R5 cleanup
	c21Cleanup(p, r)
}

func c21Cleanup(p *core.Program, r *core.Report) {
	pk := p.Pkg("")
	info := pk.TypesInfo
	fd := core.FuncDecl(pk, "holderCleaner", "CleanHolder")
	construct := "(*holderCleaner).CleanHolder: deleteFragment"
	if fd == nil {
		r.Undecide("R5", construct, "", "not found")
		return
	}
	objOf := func(e ast.Expr) types.Object {
		if id, ok := ast.Unparen(e).(*ast.Ident); ok {
			return info.ObjectOf(id)
		}
		return nil
	}
	// owned := <cluster>.containsShards(index.Name(), index.AvailableShards(), c.Node)
	var owned types.Object
	ownedOK := false
	ast.Inspect(fd.Body, func(n ast.Node) bool {
		as, ok := n.(*ast.AssignStmt)
		if !ok || len(as.Lhs) != 1 || len(as.Rhs) != 1 {
			return true
		}
		c, ok := ast.Unparen(as.Rhs[0]).(*ast.CallExpr)
		if !ok {
			return true
		}
		fn := core.CalleeOf(info, c)
		if fn == nil || fn.Name() != "containsShards" || !recvNamed(fn, "cluster") || len(c.Args) != 3 {
			return true
		}
		owned = objOf(as.Lhs[0])
		// third argument: this node
		if sel, ok := ast.Unparen(c.Args[2]).(*ast.SelectorExpr); ok && sel.Sel.Name == "Node" {
			if _, ok := core.FieldSel(info, sel, core.ModPath, "holderCleaner", "Node"); ok {
				ownedOK = true
			}
		}
		return true
	})
	if owned == nil {
		r.Violate("R5", construct, p.Pos(fd.Pos()), "the shards this node owns are not computed with cluster.containsShards")
		return
	}
	r.Check(ownedOK, "R5", "(*holderCleaner).CleanHolder: ownership of this node", p.Pos(fd.Pos()), "containsShards is asked about the cleaner's own node", "containsShards is not asked about the cleaner's own node: the fragments of another node's shards are kept and this node's are deleted")
	const bNotOwned flow.State = 1
	var subject types.Object // the shard variable tested
	nDel, bad := 0, 0
	h := flow.Hooks{Info: info}
	h.Refine = func(c ast.Expr, taken bool, s flow.State) (flow.State, bool) {
		e := ast.Unparen(c)
		neg := false
		if u, ok := e.(*ast.UnaryExpr); ok && u.Op == token.NOT {
			e, neg = ast.Unparen(u.X), true
		}
		call, ok := e.(*ast.CallExpr)
		if !ok || len(call.Args) != 2 {
			return s, true
		}
		fn := core.CalleeOf(info, call)
		if fn == nil || fn.Name() != "uint64InSlice" || objOf(call.Args[1]) != owned {
			return s, true
		}
		inSlice := taken != neg
		if !inSlice {
			subject = objOf(call.Args[0])
			return s | bNotOwned, true
		}
		return s &^ bNotOwned, true
	}
	h.EnterRange = func(rs *ast.RangeStmt, s flow.State) flow.State { return s &^ bNotOwned }
	h.Atom = func(n ast.Node, s flow.State) []flow.State {
		c, ok := n.(*ast.CallExpr)
		if !ok {
			return []flow.State{s}
		}
		fn := core.CalleeOf(info, c)
		if fn == nil || fn.Name() != "deleteFragment" || len(c.Args) != 1 {
			return []flow.State{s}
		}
		nDel++
		if s&bNotOwned == 0 || subject == nil || objOf(c.Args[0]) != subject {
			bad++
		}
		return []flow.State{s}
	}
	it := flow.Run(h, fd.Body, 0)
	// the tested shard is the fragment's own
	subjOK := false
	if subject != nil {
		ast.Inspect(fd.Body, func(n ast.Node) bool {
			if as, ok := n.(*ast.AssignStmt); ok && len(as.Lhs) == 1 && len(as.Rhs) == 1 && objOf(as.Lhs[0]) == subject {
				if _, ok := core.FieldSel(info, as.Rhs[0], core.ModPath, "fragment", "shard"); ok {
					subjOK = true
				}
			}
			return true
		})
	}
	switch {
	case it.Unsupported != "":
		r.Undecide("R5", construct, p.Pos(fd.Pos()), it.Unsupported)
	case nDel == 0:
		r.Violate("R5", construct, p.Pos(fd.Pos()), "no deleteFragment call")
	case bad > 0 || !subjOK:
		r.Violate("R5", construct, p.Pos(fd.Pos()), "a fragment is deleted on a path that did not establish that its own shard is outside the shards this node owns: cleanup after a resize removes data the node is still responsible for")
	default:
		r.HoldAt("R5", construct, p.Pos(fd.Pos()), "deleteFragment(shard) only after uint64InSlice(shard, owned) == false, shard being the fragment's")
	}
}
