package props

// pathRule: a reusable must-pass-through rule on one function body.
// On every path from a trigger event (or from entry, when trigger is nil) to a
// *normal* return, each required event occurs after the trigger. Error exits
// (paths on which an error value was observed non-nil, returns of a non-nil
// error constructor or sentinel) are exempt.

import (
	"go/ast"
	"go/types"

	"verif/checker/core"
	"verif/checker/flow"
)

type pathRuleSpec struct {
	info     *types.Info
	fd       *ast.FuncDecl
	trigger  func(n ast.Node) bool   // nil: from function entry
	required []func(n ast.Node) bool // each must occur after the trigger
	// cleanse: optional events that cancel the trigger (e.g. the mutation was undone)
	cancel func(n ast.Node) bool
}

type pathRuleResult struct {
	triggered   bool
	missing     []int // indexes of required events missing on some normal path
	unsupported string
	witnessPos  ast.Node
}

func runPathRule(sp pathRuleSpec) pathRuleResult {
	const (
		bTrig flow.State = 1 << iota
		bErrP
		bExitE
	)
	reqBit := func(i int) flow.State { return 1 << uint(8+i) }
	res := pathRuleResult{}
	info := sp.info
	sig, _ := info.Defs[sp.fd.Name].Type().(*types.Signature)
	returnsErr := sig != nil && sig.Results().Len() > 0 && flow.IsErrorType(sig.Results().At(sig.Results().Len()-1).Type())
	missing := map[int]bool{}
	h := flow.Hooks{Info: info}
	h.Atom = func(n ast.Node, s flow.State) []flow.State {
		if sp.trigger != nil && sp.trigger(n) {
			res.triggered = true
			// a new trigger re-arms: required events must follow it
			s |= bTrig
			for i := range sp.required {
				s &^= reqBit(i)
			}
		}
		if sp.cancel != nil && sp.cancel(n) {
			s &^= bTrig
		}
		for i, rq := range sp.required {
			if rq(n) {
				s |= reqBit(i)
			}
		}
		return []flow.State{s}
	}
	h.Refine = func(cond ast.Expr, taken bool, s flow.State) (flow.State, bool) {
		if _, neq, ok := flow.IsErrNilTest(info, cond); ok {
			if taken == neq {
				return s | bErrP, true
			}
			return s &^ bErrP, true
		}
		return s, true
	}
	h.PreReturn = func(ret *ast.ReturnStmt, lit *ast.FuncLit, s flow.State) flow.State {
		if lit != nil {
			return s
		}
		isErr := false
		if returnsErr {
			isErr = s&bErrP != 0
			if ret != nil && len(ret.Results) > 0 {
				last := ast.Unparen(ret.Results[len(ret.Results)-1])
				if id, ok := last.(*ast.Ident); ok && id.Name == "nil" {
					isErr = false
				} else if c, ok := last.(*ast.CallExpr); ok && isErrCtor(info, c) {
					isErr = true
				} else if isPkgErrVar(info, last) {
					isErr = true
				}
			}
		}
		if isErr {
			s |= bExitE
		}
		return s
	}
	h.Return = func(ret *ast.ReturnStmt, s flow.State) {
		if s&bExitE != 0 {
			return
		}
		if sp.trigger != nil && s&bTrig == 0 {
			return
		}
		for i := range sp.required {
			if s&reqBit(i) == 0 {
				if !missing[i] {
					missing[i] = true
					if ret != nil {
						res.witnessPos = ret
					} else {
						res.witnessPos = sp.fd
					}
				}
			}
		}
	}
	if sp.trigger == nil {
		res.triggered = true
	}
	it := flow.Run(h, sp.fd.Body, 0)
	res.unsupported = it.Unsupported
	for i := range sp.required {
		if missing[i] {
			res.missing = append(res.missing, i)
		}
	}
	return res
}

// callTo returns a matcher for calls to the named function/method; recv ""
// matches package-level functions of pkgPath, otherwise methods whose receiver
// type is named recv (any package when pkgPath is "").
func callTo(info *types.Info, pkgPath, recv, name string) func(n ast.Node) bool {
	return func(n ast.Node) bool {
		c, ok := n.(*ast.CallExpr)
		if !ok {
			return false
		}
		fn := core.CalleeOf(info, c)
		if fn == nil || fn.Name() != name {
			return false
		}
		if pkgPath != "" && (fn.Pkg() == nil || fn.Pkg().Path() != pkgPath) {
			return false
		}
		if recv == "" {
			return fn.Type().(*types.Signature).Recv() == nil
		}
		return recvNamed(fn, recv)
	}
}
