package props

import (
	"go/ast"
	"go/token"
	"go/types"
	"strings"

	"verif/checker/core"
)

// c16StatefulFilterPerScan: R8. A rowFilter is called once per container of
// one fragment scan. A filter whose closure updates a captured variable (the
// counting limit filter) is good for one scan only: made outside a loop and
// used by a fragment.rows call inside it, the second scan starts with the
// first scan's state, and a limit counted down on one view hides the rows of
// the next.
func c16StatefulFilterPerScan(p *core.Program, r *core.Report) {
	pk := p.Pkg("")
	if pk == nil {
		r.Undecide("R8", "package pilosa", "", "not loaded")
		return
	}
	info := pk.TypesInfo
	// stateful constructors: functions returning rowFilter whose returned literal writes a captured variable
	stateful := map[*types.Func]bool{}
	for _, fd := range core.AllFuncDecls(pk) {
		if fd.Body == nil || fd.Recv != nil || fd.Type.Results == nil || len(fd.Type.Results.List) != 1 {
			continue
		}
		if nmd := core.NamedOf(info.TypeOf(fd.Type.Results.List[0].Type)); nmd == nil || nmd.Obj().Name() != "rowFilter" {
			continue
		}
		ast.Inspect(fd.Body, func(m ast.Node) bool {
			lit, ok := m.(*ast.FuncLit)
			if !ok {
				return true
			}
			ast.Inspect(lit.Body, func(k ast.Node) bool {
				var target ast.Expr
				switch x := k.(type) {
				case *ast.IncDecStmt:
					target = x.X
				case *ast.AssignStmt:
					if x.Tok != token.DEFINE && len(x.Lhs) > 0 {
						target = x.Lhs[0]
					}
				}
				if id, ok := target.(*ast.Ident); ok {
					if v, ok := info.ObjectOf(id).(*types.Var); ok && !(lit.Pos() <= v.Pos() && v.Pos() < lit.End()) {
						if o, ok := info.Defs[fd.Name].(*types.Func); ok {
							stateful[o] = true
						}
					}
				}
				return true
			})
			return false
		})
	}
	r.Floor("C16/R8 stateful row filter constructors", len(stateful), 1)
	nUses := 0
	for _, fd := range core.AllFuncDecls(pk) {
		if fd.Body == nil || strings.HasSuffix(p.Fset.Position(fd.Pos()).Filename, "_test.go") {
			continue
		}
		parents := parentMap(fd.Body)
		loopsOf := func(n ast.Node) []ast.Node {
			var out []ast.Node
			for x := parents[n]; x != nil; x = parents[x] {
				switch x.(type) {
				case *ast.ForStmt, *ast.RangeStmt:
					out = append(out, x)
				case *ast.FuncLit:
					return out
				}
			}
			return out
		}
		// variables holding a stateful filter (directly or in a slice), with the constructor call that made it
		made := map[types.Object]*ast.CallExpr{}
		isCtor := func(e ast.Expr) *ast.CallExpr {
			c, ok := ast.Unparen(e).(*ast.CallExpr)
			if !ok {
				return nil
			}
			if fn := core.CalleeOf(info, c); fn != nil && stateful[fn] {
				return c
			}
			return nil
		}
		for pass := 0; pass < 3; pass++ {
			ast.Inspect(fd.Body, func(m ast.Node) bool {
				as, ok := m.(*ast.AssignStmt)
				if !ok || len(as.Lhs) != len(as.Rhs) {
					return true
				}
				for i, l := range as.Lhs {
					id, ok := l.(*ast.Ident)
					if !ok {
						continue
					}
					var src *ast.CallExpr
					ast.Inspect(as.Rhs[i], func(k ast.Node) bool {
						if e, ok := k.(ast.Expr); ok {
							if c := isCtor(e); c != nil {
								src = c
							}
							if rid, ok := e.(*ast.Ident); ok && made[info.ObjectOf(rid)] != nil && src == nil {
								src = made[info.ObjectOf(rid)]
							}
						}
						return true
					})
					if src != nil && made[info.ObjectOf(id)] == nil {
						made[info.ObjectOf(id)] = src
					}
				}
				return true
			})
		}
		if len(made) == 0 {
			continue
		}
		ast.Inspect(fd.Body, func(m ast.Node) bool {
			c, ok := m.(*ast.CallExpr)
			if !ok {
				return true
			}
			fn := core.CalleeOf(info, c)
			if fn == nil || !recvNamed(fn, "fragment") || (fn.Name() != "rows" && fn.Name() != "unprotectedRows") {
				return true
			}
			for _, a := range c.Args {
				var ctor *ast.CallExpr
				if cc := isCtor(a); cc != nil {
					ctor = cc
				} else if id, ok := ast.Unparen(a).(*ast.Ident); ok {
					ctor = made[info.ObjectOf(id)]
				}
				if ctor == nil {
					continue
				}
				nUses++
				// every loop around the scan must also be around the constructor
				ctorLoops := map[ast.Node]bool{}
				for _, l := range loopsOf(ctor) {
					ctorLoops[l] = true
				}
				bad := false
				for _, l := range loopsOf(c) {
					if !ctorLoops[l] {
						bad = true
					}
				}
				construct := core.FuncName(fd) + ": a counting row filter serves one scan"
				r.Check(!bad, "R8", construct, p.Pos(c.Pos()),
					"the stateful filter handed to this scan is made in the same loop iteration",
					"the filter made at "+p.Pos(ctor.Pos())+" keeps state between calls and is handed to a fragment scan inside a loop that does not re-make it: after the first fragment or view has counted the limit down, later ones yield nothing, and Rows(limit=n) over several time views misses smaller row IDs held by later views")
			}
			return true
		})
	}
	r.Floor("C16/R8 scans that take a stateful filter", nUses, 1)
}
