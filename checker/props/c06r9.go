package props

import (
	"go/ast"
	"go/token"
	"go/types"
	"sort"
	"strings"

	"verif/checker/core"
	"verif/checker/flow"
)

// c06Slices: rules R9 and R10 on the roaring decode path.
//
// R9: a slice expression on a byte slice whose upper bound is a sum (an
// offset plus a size taken from the input) panics when the sum exceeds the
// capacity; it must be reached only after an extent check that compares a sum
// mentioning one of the bound's variables with len(<that slice>).
//
// R10: such an extent check is worthless if the sum can wrap: when the sum
// contains a 64-bit unsigned quantity read from the input (converted to int,
// or added in uint64), the path to the check must have bounded that quantity
// from above by a comparison that does not involve the sum itself.
func c06Slices(p *core.Program, r *core.Report) {
	rp := p.Pkg("roaring")
	if rp == nil {
		return
	}
	info := rp.TypesInfo
	decode := c06RoaringDecodePath(rp)
	isByteSlice := func(t types.Type) bool {
		if t == nil {
			return false
		}
		sl, ok := t.Underlying().(*types.Slice)
		if !ok {
			return false
		}
		b, ok := sl.Elem().Underlying().(*types.Basic)
		return ok && b.Kind() == types.Uint8
	}
	objsOf := func(e ast.Node) map[types.Object]bool {
		out := map[types.Object]bool{}
		ast.Inspect(e, func(n ast.Node) bool {
			switch x := n.(type) {
			case *ast.SelectorExpr:
				if sel := info.Selections[x]; sel != nil && sel.Kind() == types.FieldVal {
					out[sel.Obj()] = true
					return false
				}
			case *ast.Ident:
				if o := info.ObjectOf(x); o != nil {
					if _, isVar := o.(*types.Var); isVar {
						out[o] = true
					}
				}
			}
			return true
		})
		return out
	}
	hasSum := func(e ast.Expr) bool {
		found := false
		ast.Inspect(e, func(n ast.Node) bool {
			if be, ok := n.(*ast.BinaryExpr); ok && (be.Op == token.ADD || be.Op == token.MUL) {
				if tv, ok := info.Types[be]; !ok || tv.Value == nil {
					found = true
				}
			}
			return true
		})
		return found
	}
	sliceKey := func(e ast.Expr) string { return types.ExprString(ast.Unparen(e)) }
	isU64 := func(t types.Type) bool {
		if t == nil {
			return false
		}
		b, ok := t.Underlying().(*types.Basic)
		return ok && (b.Kind() == types.Uint64 || b.Kind() == types.Uint || b.Kind() == types.Uintptr)
	}
	// counters: variables and fields that only ever hold a constant, a step
	// from their previous value (++, += k) or a value computed from other
	// counters. A bound made of counters and constants is an index the loop
	// condition owns, not an extent taken from the input.
	isConst := func(e ast.Expr) bool {
		tv, ok := info.Types[e]
		return ok && tv.Value != nil
	}
	stepped := map[types.Object]bool{}
	assigned := map[types.Object][]ast.Expr{}
	for _, fd := range core.AllFuncDecls(rp) {
		if fd.Body == nil {
			continue
		}
		ast.Inspect(fd.Body, func(n ast.Node) bool {
			switch x := n.(type) {
			case *ast.IncDecStmt:
				for o := range objsOf(x.X) {
					stepped[o] = true
				}
			case *ast.AssignStmt:
				for i, l := range x.Lhs {
					var target types.Object
					switch y := ast.Unparen(l).(type) {
					case *ast.Ident:
						target = info.ObjectOf(y)
					case *ast.SelectorExpr:
						if sel := info.Selections[y]; sel != nil && sel.Kind() == types.FieldVal {
							target = sel.Obj()
						}
					}
					if target == nil {
						continue
					}
					switch {
					case (x.Tok == token.ADD_ASSIGN || x.Tok == token.SUB_ASSIGN) && len(x.Rhs) == 1 && isConst(x.Rhs[0]):
						stepped[target] = true
					case len(x.Rhs) == len(x.Lhs):
						assigned[target] = append(assigned[target], x.Rhs[i])
					default:
						assigned[target] = append(assigned[target], nil) // tuple result: unknown
					}
				}
			}
			return true
		})
	}
	counter := map[types.Object]bool{}
	for changed := true; changed; {
		changed = false
		consider := map[types.Object]bool{}
		for o := range stepped {
			consider[o] = true
		}
		for o := range assigned {
			consider[o] = true
		}
		for o := range consider {
			if counter[o] {
				continue
			}
			if _, isVar := o.(*types.Var); !isVar {
				continue
			}
			ok := stepped[o] || len(assigned[o]) > 0
			for _, rhs := range assigned[o] {
				if rhs == nil {
					ok = false
					break
				}
				if isConst(rhs) {
					continue
				}
				hasCall := false
				ast.Inspect(rhs, func(n ast.Node) bool {
					if c, isCall := n.(*ast.CallExpr); isCall {
						if tv, isT := info.Types[c.Fun]; !isT || !tv.IsType() {
							hasCall = true
						}
					}
					return true
				})
				if hasCall {
					ok = false
					break
				}
				for q := range objsOf(rhs) {
					if q != o && !counter[q] {
						ok = false
					}
				}
				if !ok {
					break
				}
			}
			// a variable only ever assigned constants and never stepped is a constant, fine too
			if ok {
				counter[o] = true
				changed = true
			}
		}
	}
	nSites, nChecks := 0, 0
	for _, fd := range core.AllFuncDecls(rp) {
		if fd.Body == nil || !decode[core.FuncName(fd)] {
			continue
		}
		type site struct {
			se    *ast.SliceExpr
			slice string
			offs  map[types.Object]bool
			bit   flow.State
		}
		var sites []*site
		ast.Inspect(fd.Body, func(n ast.Node) bool {
			se, ok := n.(*ast.SliceExpr)
			if !ok || !isByteSlice(info.TypeOf(se.X)) {
				return true
			}
			bound := se.High
			if bound == nil {
				bound = se.Low
			}
			if bound == nil || !hasSum(bound) {
				return true
			}
			fromInput := false
			for o := range objsOf(bound) {
				if !counter[o] {
					fromInput = true
				}
			}
			if !fromInput {
				return true
			}
			if len(sites) >= 40 {
				return true
			}
			sites = append(sites, &site{se: se, slice: sliceKey(se.X), offs: objsOf(bound), bit: 1 << uint(len(sites))})
			return true
		})
		// wide quantities: 64-bit unsigned variables/fields that appear in an extent sum
		wide := map[types.Object]flow.State{}
		wideBit := func(o types.Object) flow.State {
			if b, ok := wide[o]; ok {
				return b
			}
			if len(wide) >= 20 {
				return 0
			}
			b := flow.State(1) << uint(41+len(wide))
			wide[o] = b
			return b
		}
		bad := map[*site]bool{}
		var wraps []string
		seenCheck := map[token.Pos]bool{}
		checkSites := func(n ast.Node, s flow.State) {
			ast.Inspect(n, func(m ast.Node) bool {
				if _, ok := m.(*ast.FuncLit); ok {
					return false
				}
				if se, ok := m.(*ast.SliceExpr); ok {
					for _, st := range sites {
						if st.se == se && s&st.bit == 0 {
							bad[st] = true
						}
					}
				}
				return true
			})
		}
		h := flow.Hooks{Info: info}
		h.Refine = func(cond ast.Expr, taken bool, s flow.State) (flow.State, bool) {
			checkSites(cond, s)
			be, ok := ast.Unparen(cond).(*ast.BinaryExpr)
			if !ok {
				return s, true
			}
			switch be.Op {
			case token.LSS, token.LEQ, token.GTR, token.GEQ:
			default:
				return s, true
			}
			isExtentCheck := false
			for _, pair := range [][2]ast.Expr{{be.X, be.Y}, {be.Y, be.X}} {
				lenOf := ""
				ast.Inspect(pair[0], func(n ast.Node) bool {
					if c, ok := n.(*ast.CallExpr); ok && core.BuiltinName(info, c) == "len" && len(c.Args) == 1 {
						lenOf = sliceKey(c.Args[0])
					}
					return true
				})
				if lenOf == "" || !hasSum(pair[1]) {
					continue
				}
				isExtentCheck = true
				mentioned := objsOf(pair[1])
				for _, st := range sites {
					if st.slice != lenOf {
						continue
					}
					for o := range st.offs {
						if mentioned[o] {
							s |= st.bit
						}
					}
				}
				// R10: 64-bit unsigned input quantities inside the sum
				if !seenCheck[be.Pos()] {
					seenCheck[be.Pos()] = true
					nChecks++
				}
				ast.Inspect(pair[1], func(n ast.Node) bool {
					var e ast.Expr
					switch x := n.(type) {
					case *ast.SelectorExpr:
						e = x
					case *ast.Ident:
						e = x
					default:
						return true
					}
					if !isU64(info.TypeOf(e)) {
						return true
					}
					for o := range objsOf(e) {
						if _, isVar := o.(*types.Var); !isVar {
							continue
						}
						if b := wideBit(o); b != 0 && s&b == 0 {
							wraps = append(wraps, p.Pos(be.Pos())+": "+types.ExprString(e))
						}
					}
					_, isSel := e.(*ast.SelectorExpr)
					return !isSel
				})
			}
			if isExtentCheck {
				return s, true
			}
			// an upper bound on a wide quantity: o > K / o >= K not taken, o < K / o <= K taken (K without len)
			for _, pr := range []struct {
				x, y ast.Expr
				op   token.Token
			}{{be.X, be.Y, be.Op}, {be.Y, be.X, map[token.Token]token.Token{token.LSS: token.GTR, token.GTR: token.LSS, token.LEQ: token.GEQ, token.GEQ: token.LEQ}[be.Op]}} {
				if !isU64(info.TypeOf(pr.x)) {
					continue
				}
				upper := ((pr.op == token.GTR || pr.op == token.GEQ) && !taken) || ((pr.op == token.LSS || pr.op == token.LEQ) && taken)
				if !upper {
					continue
				}
				for o := range objsOf(pr.x) {
					if b := wideBit(o); b != 0 {
						s |= b
					}
				}
			}
			return s, true
		}
		h.Atom = func(n ast.Node, s flow.State) []flow.State {
			switch x := n.(type) {
			case *ast.CallExpr:
				for _, a := range x.Args {
					checkSites(a, s)
				}
			case *ast.AssignStmt:
				for _, e := range x.Rhs {
					checkSites(e, s)
				}
				for _, e := range x.Lhs {
					checkSites(e, s)
				}
				if x.Tok == token.ASSIGN || x.Tok == token.DEFINE {
					for _, l := range x.Lhs {
						for o := range objsOf(l) {
							for _, st := range sites {
								if st.offs[o] {
									s &^= st.bit
								}
							}
							if b, ok := wide[o]; ok {
								s &^= b
							}
						}
					}
				}
			}
			return []flow.State{s}
		}
		h.PreReturn = func(ret *ast.ReturnStmt, lit *ast.FuncLit, s flow.State) flow.State {
			if ret != nil {
				for _, e := range ret.Results {
					checkSites(e, s)
				}
			}
			return s
		}
		h.Eval = func(e ast.Expr, s flow.State) { checkSites(e, s) }
		if len(sites) == 0 {
			// still interpret for R10 if the function has extent checks
			hasLen := false
			ast.Inspect(fd.Body, func(n ast.Node) bool {
				if c, ok := n.(*ast.CallExpr); ok && core.BuiltinName(info, c) == "len" {
					hasLen = true
				}
				return true
			})
			if !hasLen {
				continue
			}
		}
		it := flow.Run(h, fd.Body, 0)
		for _, st := range sites {
			nSites++
			construct := core.FuncName(fd) + " slice " + types.ExprString(st.se)
			switch {
			case it.Unsupported != "":
				r.Undecide("R9", construct, p.Pos(st.se.Pos()), it.Unsupported)
			case bad[st]:
				r.Violate("R9", construct, p.Pos(st.se.Pos()), "the input is sliced up to an offset plus a size taken from the input on a path that did not compare that extent with len("+st.slice+"): a truncated or corrupted payload makes the slice expression panic (bounds out of range)")
			default:
				r.HoldAt("R9", construct, p.Pos(st.se.Pos()), "every path passed an extent check against len("+st.slice+")")
			}
		}
		if len(wraps) > 0 && it.Unsupported == "" {
			wraps = dedupe(wraps)
			sort.Strings(wraps)
			r.Violate("R10", core.FuncName(fd)+": extent sums cannot wrap", p.Pos(fd.Pos()), "an extent check adds a 64-bit unsigned quantity read from the input that no earlier comparison bounded from above ("+strings.Join(wraps, "; ")+"): near 2^64 (or above 2^63 once converted to int) the sum wraps, the check passes, and the slice or index that follows panics")
		} else if it.Unsupported == "" && len(wide) > 0 {
			r.HoldAt("R10", core.FuncName(fd)+": extent sums cannot wrap", p.Pos(fd.Pos()), "every 64-bit unsigned quantity in an extent sum was bounded from above first")
		}
	}
	r.Floor("C06/R9 input slices with a computed upper bound on the decode path", nSites, 6)
	r.Floor("C06/R10 extent checks examined", nChecks, 6)
}
