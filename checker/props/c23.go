package props

import (
	"fmt"
	"go/ast"
	"go/token"
	"go/types"
	"sort"
	"strings"

	"verif/checker/core"
	"verif/checker/flow"
)

func init() { register("C23", c23) }

// Frozen from the property text: the request kinds served during RESIZING
// ("cluster messages, coordinator changes, shard data transfer and resize
// abort"), named by the API entry point that serves them.
var c23ResizeServed = map[string]string{
	"ClusterMessage": "cluster messages",
	"SetCoordinator": "coordinator change",
	"FragmentData":   "shard data transfer",
	"ResizeAbort":    "resize abort",
}

// Frozen exemption table: exported *API methods that are not gated, one reason each.
var c23Ungated = map[string]string{
	"Close":                  "lifecycle: shuts the import workers down; serves no request",
	"Hosts":                  "status: node list (source lists the gate as not implemented)",
	"Node":                   "status: local node descriptor",
	"Schema":                 "status: schema listing used by status/handshake endpoints (source lists the gate as not implemented)",
	"MaxShards":              "status: shard counters (source lists the gate as not implemented)",
	"AvailableShardsByIndex": "status: shard sets exchanged in node status",
	"StatsWithTags":          "status: stats client",
	"LongQueryTime":          "status: configuration value",
	"State":                  "status: the cluster state itself",
	"Version":                "status: version string",
	"Info":                   "status: host information",
	"GetTranslateData":       "key-translation log streaming: not among the request kinds the statement enumerates; replicas must keep streaming across a resize",
	"TranslateKeys":          "key-translation service: not among the request kinds the statement enumerates",
}

const (
	c23Pending flow.State = 1 << iota // validate() was called, result not yet tested
	c23Valid                          // validate() returned nil on this path
	c23Refused                        // validate() returned an error on this path
)

func c23(p *core.Program, r *core.Report) {
	r.Rule("R1", "gate dominance: in every exported method of *API that is not in the frozen status/lifecycle table, a call api.validate(m) whose error is returned precedes every other call except tracing and error construction, on every path; a refusal is never swallowed")
	r.Rule("R2", "state table: validAPIMethods, evaluated statically from its map literals (appendMap interpreted as map union after its body is checked to be two copy loops), satisfies for the constant m gated by each entry point: data/schema entry points are refused in STARTING and RESIZING and admitted in NORMAL and DEGRADED; the four entry points the statement names are admitted in RESIZING; a state with no entry refuses everything")
	r.Rule("R3", "gate function: (*API).validate returns nil exactly when validAPIMethods[state][m] is present, and a non-nil method-not-allowed error otherwise")
	r.Rule("R4", "no bypass: packages http and gossip hold no value of type *pilosa.Holder, *pilosa.Server or *pilosa.cluster, and Server.receiveMessage is called only from the gated API.ClusterMessage")
	r.Exhaustive = true
	pk := p.Pkg("")
	if pk == nil {
		r.Undecide("R1", "package pilosa", "", "not loaded")
		return
	}
	info := pk.TypesInfo

	// ---- constants of type apiMethod
	consts := map[string]*types.Const{}
	for _, name := range pk.Types.Scope().Names() {
		if c, ok := pk.Types.Scope().Lookup(name).(*types.Const); ok && core.IsNamed(c.Type(), core.ModPath, "apiMethod") {
			consts[name] = c
		}
	}
	r.Floor("C23 apiMethod constants", len(consts), 20)

	// ---- R2: evaluate the table
	table, terr := c23Table(pk)
	if terr != "" {
		r.Undecide("R2", "validAPIMethods", "", terr)
	}
	states := []string{"ClusterStateStarting", "ClusterStateNormal", "ClusterStateDegraded", "ClusterStateResizing"}
	// every ClusterState* constant must be one of the four or have no entry
	for _, name := range pk.Types.Scope().Names() {
		if strings.HasPrefix(name, "ClusterState") {
			if _, ok := pk.Types.Scope().Lookup(name).(*types.Const); ok {
				known := false
				for _, s := range states {
					if s == name {
						known = true
					}
				}
				if !known && table != nil {
					_, has := table[name]
					r.Check(!has, "R2", "state "+name, "", "no table entry: every gated request is refused", "a cluster state outside the four the statement names has a table entry")
				}
			}
		}
	}

	// ---- R1 + R3 per method
	var methods []*ast.FuncDecl
	for _, fd := range core.AllFuncDecls(pk) {
		if core.RecvName(fd) == "API" && fd.Name.IsExported() && fd.Body != nil {
			methods = append(methods, fd)
		}
	}
	sort.Slice(methods, func(i, j int) bool { return methods[i].Name.Name < methods[j].Name.Name })
	r.Floor("C23 exported API methods", len(methods), 35)
	usedConst := map[string][]string{}
	nGated := 0
	for _, fd := range methods {
		name := fd.Name.Name
		construct := "(*API)." + name
		gateConsts, viol, unsup := c23Gate(p, info, fd)
		if len(gateConsts) == 0 {
			if why, ok := c23Ungated[name]; ok {
				r.HoldAt("R1", construct, p.Pos(fd.Pos()), "ungated by table: "+why)
			} else {
				r.Violate("R1", construct, p.Pos(fd.Pos()), "exported API entry point never consults api.validate and is not in the frozen status/lifecycle table: requests reach data while the cluster is STARTING or RESIZING")
			}
			continue
		}
		nGated++
		if _, ok := c23Ungated[name]; ok {
			r.HoldAt("R1", construct+" (listed ungated, but gated)", p.Pos(fd.Pos()), "method is in the ungated table yet consults the gate; table entry is stale but harmless")
		}
		if unsup != "" {
			r.Undecide("R1", construct, p.Pos(fd.Pos()), "control flow outside the modelled idioms: "+unsup)
		} else if len(viol) > 0 {
			for _, v := range viol {
				r.Violate("R1", construct, v.pos, v.msg)
			}
		} else {
			r.HoldAt("R1", construct, p.Pos(fd.Pos()), "api.validate("+strings.Join(gateConsts, ",")+") dominates every other call; refusal returned")
		}
		for _, c := range gateConsts {
			usedConst[c] = append(usedConst[c], name)
		}
		// R2 obligations for the constant(s) this method passes
		if table == nil {
			continue
		}
		for _, c := range gateConsts {
			for _, st := range states {
				_, allowed := table[st][c]
				oc := fmt.Sprintf("(%s, %s via %s)", strings.TrimPrefix(st, "ClusterState"), c, name)
				if what, served := c23ResizeServed[name]; served {
					if st == "ClusterStateResizing" {
						r.Check(allowed, "R2", oc, "", what+" is served during RESIZING", what+" must be served during RESIZING but the constant this entry point passes is not in the RESIZING set")
					} else {
						r.Hold("R2", oc, fmt.Sprintf("resize-class entry point (%s); allowed=%v; the statement constrains only RESIZING", what, allowed))
					}
					continue
				}
				want := st == "ClusterStateNormal" || st == "ClusterStateDegraded"
				if allowed == want {
					r.Hold("R2", oc, fmt.Sprintf("allowed=%v as required for a data/schema request", allowed))
				} else if want {
					r.Violate("R2", oc, p.Pos(fd.Pos()), "data/schema request must be admitted in this state but the constant passed to validate is not in the state's set")
				} else {
					r.Violate("R2", oc, p.Pos(fd.Pos()), "data/schema request must be refused in this state but the constant passed to validate is in the state's set (mislabelled or misplaced constant)")
				}
			}
		}
	}
	r.Floor("C23 gated API methods", nGated, 24)
	var cnames []string
	for c := range consts {
		cnames = append(cnames, c)
	}
	sort.Strings(cnames)
	for _, c := range cnames {
		if len(usedConst[c]) == 0 {
			r.Hold("R2", "constant "+c, "declared but passed by no entry point (no request can be admitted through it)")
		}
	}

	// ---- R3
	c23Validate(p, r, pk.TypesInfo, core.FuncDecl(pk, "API", "validate"))

	// ---- R4
	for _, rel := range []string{"http", "gossip"} {
		q := p.Pkg(rel)
		if q == nil {
			r.Undecide("R4", "package "+rel, "", "not loaded")
			continue
		}
		bad := ""
		for id, obj := range q.TypesInfo.Defs {
			if obj == nil {
				continue
			}
			for _, tn := range []string{"Holder", "Server", "cluster", "executor"} {
				if v, ok := obj.(*types.Var); ok && core.IsNamed(v.Type(), core.ModPath, tn) {
					bad = fmt.Sprintf("%s: %s has type %s", p.Pos(id.Pos()), id.Name, v.Type())
				}
			}
		}
		for e, tv := range q.TypesInfo.Types {
			if tv.Type == nil {
				continue
			}
			for _, tn := range []string{"Holder", "Server", "cluster", "executor"} {
				if core.IsNamed(tv.Type, core.ModPath, tn) && !tv.IsType() {
					bad = fmt.Sprintf("%s: expression of type %s", p.Pos(e.Pos()), tv.Type)
				}
			}
		}
		r.Check(bad == "", "R4", "package "+rel, "", "holds no Holder/Server/cluster/executor value: requests reach data only through *pilosa.API", "request-serving package reaches data without the API gate: "+bad)
	}
	// receiveMessage callers
	var callers []string
	for _, fd := range core.AllFuncDecls(pk) {
		if fd.Body == nil {
			continue
		}
		ast.Inspect(fd.Body, func(n ast.Node) bool {
			if c, ok := n.(*ast.CallExpr); ok {
				if fn := core.CalleeOf(info, c); fn != nil && fn.Name() == "receiveMessage" && recvNamed(fn, "Server") {
					callers = append(callers, core.FuncName(fd))
				}
			}
			// method value escaping
			if sel, ok := n.(*ast.SelectorExpr); ok && sel.Sel.Name == "receiveMessage" {
				if s, ok := info.Selections[sel]; ok && s.Kind() == types.MethodVal {
					// counted as caller when used as a value (not in call position)
				}
			}
			return true
		})
	}
	okCallers := len(callers) >= 1
	for _, c := range callers {
		if c != "(*API).ClusterMessage" {
			okCallers = false
		}
	}
	r.Check(okCallers, "R4", "(*Server).receiveMessage callers", "", "only called from the gated (*API).ClusterMessage", "receiveMessage is reachable without the state gate: callers "+strings.Join(callers, ", "))
}

type c23Viol struct{ pos, msg string }

// c23Gate runs the dominance analysis on one method.
func c23Gate(p *core.Program, info *types.Info, fd *ast.FuncDecl) (consts []string, viol []c23Viol, unsup string) {
	seen := map[string]bool{}
	reported := map[token.Pos]bool{}
	isValidate := func(c *ast.CallExpr) bool {
		fn := core.CalleeOf(info, c)
		return fn != nil && fn.Name() == "validate" && recvNamed(fn, "API")
	}
	allowedBefore := func(c *ast.CallExpr) bool {
		if core.BuiltinName(info, c) != "" {
			return true
		}
		if tv, ok := info.Types[c.Fun]; ok && tv.IsType() {
			return true
		}
		fn := core.CalleeOf(info, c)
		if fn == nil {
			return false
		}
		pkg := ""
		if fn.Pkg() != nil {
			pkg = fn.Pkg().Path()
		}
		switch pkg {
		case core.ModPath + "/tracing", "github.com/pkg/errors", "errors", "fmt", "github.com/opentracing/opentracing-go":
			return true
		}
		if pkg == core.ModPath && strings.HasPrefix(fn.Name(), "new") && strings.HasSuffix(fn.Name(), "Error") {
			return true // error constructors (newAPIMethodNotAllowedError, newBadRequestError, ...)
		}
		return false
	}
	h := flow.Hooks{Info: info}
	h.Atom = func(n ast.Node, s flow.State) []flow.State {
		c, ok := n.(*ast.CallExpr)
		if !ok {
			if _, isGo := n.(*ast.GoStmt); isGo && s&c23Valid == 0 && !reported[n.Pos()] {
				reported[n.Pos()] = true
				viol = append(viol, c23Viol{p.Pos(n.Pos()), "goroutine started before the state gate admitted the request"})
			}
			return []flow.State{s}
		}
		if isValidate(c) {
			if len(c.Args) == 1 {
				if id, ok := ast.Unparen(c.Args[0]).(*ast.Ident); ok {
					if !seen[id.Name] {
						seen[id.Name] = true
						consts = append(consts, id.Name)
					}
				} else if !reported[c.Pos()] {
					reported[c.Pos()] = true
					viol = append(viol, c23Viol{p.Pos(c.Pos()), "api.validate is not passed an apiMethod constant; the class of this entry point cannot be decided"})
				}
			}
			if s&c23Valid != 0 {
				return []flow.State{s} // second gate on an admitted path: harmless
			}
			return []flow.State{s&^c23Refused | c23Pending}
		}
		if s&c23Valid == 0 && !allowedBefore(c) && !reported[c.Pos()] {
			reported[c.Pos()] = true
			what := types.ExprString(c.Fun)
			state := "before api.validate admitted the request"
			if s&c23Refused != 0 {
				state = "on the path where api.validate refused the request"
			}
			viol = append(viol, c23Viol{p.Pos(c.Pos()), "call to " + what + " " + state + ": the request touches the server while the cluster may be STARTING or RESIZING"})
		}
		return []flow.State{s}
	}
	h.Refine = func(cond ast.Expr, taken bool, s flow.State) (flow.State, bool) {
		if _, neq, ok := flow.IsErrNilTest(info, cond); ok && s&c23Pending != 0 {
			if taken == neq {
				return s&^c23Pending | c23Refused, true
			}
			return s&^c23Pending | c23Valid, true
		}
		return s, true
	}
	h.PreReturn = func(ret *ast.ReturnStmt, lit *ast.FuncLit, s flow.State) flow.State {
		if lit != nil || s&c23Refused == 0 {
			return s
		}
		pos := fd.End()
		bad := false
		if ret == nil {
			bad = true
		} else {
			pos = ret.Pos()
			if len(ret.Results) > 0 {
				if id, ok := ast.Unparen(ret.Results[len(ret.Results)-1]).(*ast.Ident); ok && id.Name == "nil" {
					bad = true
				}
			}
		}
		if bad && !reported[pos] {
			reported[pos] = true
			viol = append(viol, c23Viol{p.Pos(pos), "the refusal returned by api.validate is swallowed: the method returns without an error"})
		}
		return s
	}
	it := flow.Run(h, fd.Body, 0)
	sort.Strings(consts)
	return consts, viol, it.Unsupported
}

