package props

import "verif/checker/core"

func init() { register("C09", c09) }

func c09(p *core.Program, r *core.Report) {
	r.Rule("R1", "durable before acknowledged: every storage mutation is either a logging mutator (appends to the op log) applied while OpWriter is attached, or every path from it to a normal return of a fragment entry point passes the snapshot rename, or a queued snapshot followed by the wait on snapshotCond")
	b, err := newFxBase(p)
	if err != nil {
		r.Undecide("R1", "fragment effects", "", err.Error())
		return
	}
	n := b.report(r, "R1", fxDurable, nil)
	r.Floor("C09/R1 storage-mutating functions (origins)", n, 8)
}
