package props

import (
	"go/ast"
	"go/constant"
	"go/types"
	"strings"

	"verif/checker/core"
)

func init() { register("C09", c09) }

// c09RenameExempt: rename sites whose temporary file may be opened without
// truncation, one function and one reason each.
var c09RenameExempt = map[string]string{
	"upgradeViewBSIv2": "one-shot format upgrade while the fragment is being opened: the temporary file's content is a deterministic function of the old-format data file, which cannot change before the upgrade completes, so a leftover of an interrupted attempt is always a prefix of the rewrite",
}

func c09(p *core.Program, r *core.Report) {
	r.Rule("R1", "durable before acknowledged: every storage mutation is either a logging mutator (appends to the op log) applied while OpWriter is attached, or every path from it to a normal return of a fragment entry point passes the snapshot rename, or a queued snapshot followed by the wait on snapshotCond")
	r.Rule("R2", "a file renamed over a persistent file starts empty: in package pilosa the source of every os.Rename is a temporary file created in the same function (or in the in-package function that returned its path) by os.Create, ioutil.WriteFile, or OpenFile with constant flags containing O_TRUNC or O_EXCL; a leftover from an interrupted earlier attempt is therefore never partly overwritten and then moved into place (its tail would be read as op-log records at the next start)")
	r.Rule("R3", "the op log stays attached: a fragment function that sets <fragment>.storage.OpWriter to nil has it attached again on every path on which it returns; writes acknowledged while it is nil are not in the log")
	opWriterReattached(p, r, "R3")
	r.Rule("R5", "snapshots are written through a buffer: no call of roaring Bitmap.WriteTo in package pilosa has the fragment's data file (<fragment>.file) as its writer")
	c09BufferedSnapshots(p, r)
	r.NotDecided = "file-system behaviour under power loss (no fsync before the snapshot rename); torn appends to the op log (the reader's handling of a short last record is C05/C06)"
	b, err := newFxBase(p)
	if err != nil {
		r.Undecide("R1", "fragment effects", "", err.Error())
		return
	}
	r.Rule("R4", "depth before bits: in every Field method that assigns the bit depth (FieldOptions.BitDepth / bsiGroup.BitDepth), no call that may write fragment storage (a fragment or view method reaching a storage mutation) happens between the assignment and Field.saveMeta")
	c09DepthBeforeBits(p, r, b)
	n := b.report(r, "R1", fxDurable, nil)
	r.Floor("C09/R1 storage-mutating functions (origins)", n, 8)

	// ---- R2
	pk := p.Pkg("")
	info := pk.TypesInfo
	truncFlag := func(e ast.Expr) (bool, bool) { // (truncates, decided)
		tv, ok := info.Types[e]
		if !ok || tv.Value == nil || tv.Value.Kind() != constant.Int {
			return false, false
		}
		v, _ := constant.Int64Val(tv.Value)
		const oExcl, oTrunc = 0x80, 0x200 // os.O_EXCL, os.O_TRUNC on linux
		return v&(oExcl|oTrunc) != 0, true
	}
	// creating calls of a function body: returns how path expression `match` is created
	type creation struct {
		pos   string
		ok    bool
		how   string
		found bool
	}
	findCreation := func(body *ast.BlockStmt, match func(ast.Expr) bool) creation {
		var c creation
		ast.Inspect(body, func(n ast.Node) bool {
			call, ok := n.(*ast.CallExpr)
			if !ok || len(call.Args) == 0 || c.found && !c.ok {
				return true
			}
			fn := core.CalleeOf(info, call)
			if fn == nil || fn.Pkg() == nil || !match(call.Args[0]) {
				return true
			}
			key := fn.Pkg().Path() + "." + fn.Name()
			switch {
			case key == "os.Create", key == "io/ioutil.WriteFile", key == "os.WriteFile":
				c = creation{p.Pos(call.Pos()), true, key, true}
			case (key == "os.OpenFile" || strings.HasSuffix(key, "/syswrap.OpenFile")) && len(call.Args) >= 2:
				t, decided := truncFlag(call.Args[1])
				c = creation{p.Pos(call.Pos()), t && decided, key + "(" + types.ExprString(call.Args[1]) + ")", true}
			}
			return true
		})
		return c
	}
	nRen := 0
	for _, fd := range core.AllFuncDecls(pk) {
		if fd.Body == nil || strings.HasSuffix(p.Fset.Position(fd.Pos()).Filename, "_test.go") {
			continue
		}
		ast.Inspect(fd.Body, func(nd ast.Node) bool {
			call, ok := nd.(*ast.CallExpr)
			if !ok || len(call.Args) != 2 {
				return true
			}
			fn := core.CalleeOf(info, call)
			if fn == nil || fn.Pkg() == nil || fn.Pkg().Path() != "os" || fn.Name() != "Rename" {
				return true
			}
			nRen++
			construct := core.FuncName(fd) + " rename " + types.ExprString(call.Args[0]) + " -> " + types.ExprString(call.Args[1])
			src := ast.Unparen(call.Args[0])
			srcStr := types.ExprString(src)
			var srcObj types.Object
			if id, ok := src.(*ast.Ident); ok {
				srcObj = info.ObjectOf(id)
			}
			match := func(e ast.Expr) bool {
				e = ast.Unparen(e)
				if id, ok := e.(*ast.Ident); ok && srcObj != nil {
					return info.ObjectOf(id) == srcObj
				}
				return types.ExprString(e) == srcStr
			}
			c := findCreation(fd.Body, match)
			if !c.found && srcObj != nil {
				// the path came from an in-package function: look for the creation there
				ast.Inspect(fd.Body, func(m ast.Node) bool {
					as, ok := m.(*ast.AssignStmt)
					if !ok || len(as.Rhs) != 1 {
						return true
					}
					for _, l := range as.Lhs {
						if id, ok := ast.Unparen(l).(*ast.Ident); ok && info.ObjectOf(id) == srcObj {
							if gc, ok := ast.Unparen(as.Rhs[0]).(*ast.CallExpr); ok {
								if g := core.CalleeOf(info, gc); g != nil && g.Pkg() == pk.Types {
									for _, gd := range core.AllFuncDecls(pk) {
										if info.Defs[gd.Name] == types.Object(g) && gd.Body != nil {
											// any string-typed path created in g
											cc := findCreation(gd.Body, func(e ast.Expr) bool {
												t := info.TypeOf(e)
												b, ok := t.Underlying().(*types.Basic)
												return ok && b.Kind() == types.String
											})
											if cc.found {
												c = cc
												c.how += " in " + core.FuncName(gd)
											}
										}
									}
								}
							}
						}
					}
					return true
				})
			}
			if why, ok := c09RenameExempt[core.FuncName(fd)]; ok && !c.ok && c.found {
				r.HoldAt("R2", construct, p.Pos(call.Pos()), "exempt: "+why)
				return true
			}
			switch {
			case !c.found:
				r.Undecide("R2", construct, p.Pos(call.Pos()), "the creation of the renamed file was not found in this function or in the function that returned its path")
			case c.ok:
				r.HoldAt("R2", construct, p.Pos(call.Pos()), "created by "+c.how+" at "+c.pos)
			default:
				r.Violate("R2", construct, p.Pos(call.Pos()), "the temporary file is opened by "+c.how+" at "+c.pos+" without truncation: if an interrupted earlier attempt left a longer file behind, its tail survives the rewrite and is moved into place; for a fragment the tail is then parsed as op-log records and the fragment (and with it the holder) fails to open")
			}
			return true
		})
	}
	r.Floor("C09/R2 rename sites", nRen, 5)
}
