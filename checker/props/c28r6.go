package props

import (
	"go/ast"
	"go/token"
	"go/types"
	"strings"

	"verif/checker/core"
)

// c28ImportSelectsViewsLikeTheQueries: R6. Field.Import decides per pair which
// views the pair goes to; Set()/Clear() queries decide the same in
// Field.SetBit/Field.ClearBit. Two structural clauses of their agreement:
//
//	(a) the standard view is a target only under `!options.NoStandardView`
//	    (SetBit writes nothing to a standard view the field does not have);
//	(b) on the clear path the targets come from the field's view registry
//	    (views()/viewMap), as in ClearBit, which clears the bit in every
//	    time view: the views a bit was written to are not recorded anywhere
//	    else.
func c28ImportSelectsViewsLikeTheQueries(p *core.Program, r *core.Report) {
	pk := p.Pkg("")
	if pk == nil {
		r.Undecide("R6", "package pilosa", "", "not loaded")
		return
	}
	info := pk.TypesInfo
	fd := core.FuncDecl(pk, "Field", "Import")
	if fd == nil || fd.Body == nil {
		r.Undecide("R6", "(*Field).Import", "", "not found")
		return
	}
	isViewStandard := func(e ast.Expr) bool {
		id, ok := ast.Unparen(e).(*ast.Ident)
		if !ok {
			return false
		}
		c, ok := info.Uses[id].(*types.Const)
		return ok && c.Name() == "viewStandard" && c.Pkg() == pk.Types
	}
	mentionsField := func(e ast.Expr, typ, field string) bool {
		found := false
		ast.Inspect(e, func(m ast.Node) bool {
			if sel, ok := m.(*ast.SelectorExpr); ok && sel.Sel.Name == field {
				if v, ok := info.Uses[sel.Sel].(*types.Var); ok && v.IsField() {
					if n := core.NamedOf(info.TypeOf(sel.X)); n != nil && n.Obj().Name() == typ {
						found = true
					}
				}
			}
			return true
		})
		return found
	}
	// locals defined from an expression that reads NoStandardView stand for it
	alias := map[types.Object]bool{}
	ast.Inspect(fd.Body, func(m ast.Node) bool {
		if as, ok := m.(*ast.AssignStmt); ok && len(as.Lhs) == 1 && len(as.Rhs) == 1 {
			if id, ok := as.Lhs[0].(*ast.Ident); ok && (mentionsField(as.Rhs[0], "FieldOptions", "NoStandardView") || mentionsField(as.Rhs[0], "fieldOptions", "NoStandardView")) {
				if _, neg := ast.Unparen(as.Rhs[0]).(*ast.UnaryExpr); !neg {
					alias[info.ObjectOf(id)] = true
				}
			}
		}
		return true
	})
	readsNoStd := func(e ast.Expr) bool {
		if mentionsField(e, "FieldOptions", "NoStandardView") || mentionsField(e, "fieldOptions", "NoStandardView") {
			return true
		}
		found := false
		ast.Inspect(e, func(m ast.Node) bool {
			if id, ok := m.(*ast.Ident); ok && alias[info.Uses[id]] {
				found = true
			}
			return true
		})
		return found
	}
	// ---- (a)
	var stack []ast.Node
	var badA []string
	nTargets := 0
	ast.Inspect(fd.Body, func(m ast.Node) bool {
		if m == nil {
			stack = stack[:len(stack)-1]
			return true
		}
		stack = append(stack, m)
		e, ok := m.(ast.Expr)
		if !ok || !isViewStandard(e) || len(stack) < 2 {
			return true
		}
		// a target: element of a []string literal, or a non-first argument of append
		target := false
		switch par := stack[len(stack)-2].(type) {
		case *ast.CompositeLit:
			target = true
		case *ast.CallExpr:
			if core.BuiltinName(info, par) == "append" && len(par.Args) > 1 && par.Args[0] != e {
				target = true
			}
		}
		if !target {
			return true
		}
		nTargets++
		// dominated by `!X.NoStandardView` (then-branch) or by the else-branch of `X.NoStandardView`
		ok = false
		for i := len(stack) - 2; i >= 1; i-- {
			is, isIf := stack[i-1].(*ast.IfStmt)
			if !isIf {
				continue
			}
			if !readsNoStd(is.Cond) {
				continue
			}
			neg := false
			if u, isU := ast.Unparen(is.Cond).(*ast.UnaryExpr); isU && u.Op == token.NOT {
				neg = true
			}
			if (neg && stack[i] == ast.Node(is.Body)) || (!neg && is.Else != nil && stack[i] == is.Else) {
				ok = true
			}
		}
		if !ok {
			badA = append(badA, p.Pos(e.Pos()))
		}
		return true
	})
	r.Check(len(badA) == 0, "R6", "(*Field).Import: standard view only if the field has one", p.Pos(fd.Pos()),
		"every place that makes viewStandard an import target is under `!options.NoStandardView`, as in SetBit",
		"viewStandard is made an import target at "+strings.Join(badA, ", ")+" without the `!options.NoStandardView` test SetBit applies: importing into a time field created without a standard view creates and fills one, and Row() answers differ from the same bits written by Set()")
	r.Floor("C28/R6 places where Import targets the standard view", nTargets, 1)
	// ---- (b)
	enumerates := func(body ast.Node) bool {
		found := false
		ast.Inspect(body, func(m ast.Node) bool {
			switch x := m.(type) {
			case *ast.CallExpr:
				if fn := core.CalleeOf(info, x); fn != nil && fn.Name() == "views" && recvNamed(fn, "Field") {
					found = true
				}
			case *ast.RangeStmt:
				if _, ok := core.FieldSel(info, x.X, core.ModPath, "Field", "viewMap"); ok {
					found = true
				}
			}
			return true
		})
		return found
	}
	clearBit := core.FuncDecl(pk, "Field", "ClearBit")
	if clearBit == nil || clearBit.Body == nil || !enumerates(clearBit.Body) {
		r.Undecide("R6", "(*Field).ClearBit enumerates the field's views", "", "the reference sibling no longer enumerates views()/viewMap: rule needs re-confirmation")
		return
	}
	okB := false
	ast.Inspect(fd.Body, func(m ast.Node) bool {
		if is, ok := m.(*ast.IfStmt); ok && mentionsField(is.Cond, "ImportOptions", "Clear") {
			if u, isU := ast.Unparen(is.Cond).(*ast.UnaryExpr); !(isU && u.Op == token.NOT) && enumerates(is.Body) {
				okB = true
			}
		}
		return true
	})
	r.Check(okB, "R6", "(*Field).Import: a clear reaches every view, as ClearBit does", p.Pos(fd.Pos()),
		"under options.Clear the targets are taken from the field's view registry",
		"Field.Import never enumerates the field's views under options.Clear, while Field.ClearBit clears the bit in every time view: a bit set with a timestamp and cleared by an import stays in the time views, so time-range queries still return it (a Clear() query removes it)")
}
