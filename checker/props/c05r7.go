package props

import (
	"go/ast"
	"go/token"
	"go/types"
	"strings"

	"golang.org/x/tools/go/packages"

	"verif/checker/core"
)

// c05FreshOpPerRecord: rule R7. op.UnmarshalBinary fills only the fields of
// the record's own type (a single op has no values, a batch no roaring
// payload), so it must be handed a zero op each time: an op reused from the
// previous record keeps that record's payload, size() then counts it, and the
// replay loop steps over the records that follow.
func c05FreshOpPerRecord(p *core.Program, r *core.Report, rp *packages.Package) {
	info := rp.TypesInfo
	n := 0
	for _, fd := range core.AllFuncDecls(rp) {
		if fd.Body == nil || strings.HasSuffix(p.Fset.Position(fd.Pos()).Filename, "_test.go") {
			continue
		}
		parents := parentMap(fd.Body)
		ast.Inspect(fd.Body, func(m ast.Node) bool {
			c, ok := m.(*ast.CallExpr)
			if !ok {
				return true
			}
			g := core.CalleeOf(info, c)
			if g == nil || g.Name() != "UnmarshalBinary" || !recvNamed(g, "op") {
				return true
			}
			sel, ok := ast.Unparen(c.Fun).(*ast.SelectorExpr)
			if !ok {
				return true
			}
			id, ok := ast.Unparen(sel.X).(*ast.Ident)
			if !ok {
				return true
			}
			obj := info.ObjectOf(id)
			// the innermost loop around the call
			var loop ast.Node
			for q := parents[ast.Node(c)]; q != nil; q = parents[q] {
				switch q.(type) {
				case *ast.ForStmt, *ast.RangeStmt:
					if loop == nil {
						loop = q
					}
				}
			}
			if loop == nil {
				return true
			}
			n++
			construct := core.FuncName(fd) + ": each record is decoded into a zero op"
			declaredInside := obj != nil && obj.Pos() >= loop.Pos() && obj.Pos() <= loop.End()
			// or reset to the zero value inside the loop before the call
			reset := false
			ast.Inspect(loop, func(k ast.Node) bool {
				as, ok := k.(*ast.AssignStmt)
				if !ok || as.Tok != token.ASSIGN || as.Pos() > c.Pos() {
					return true
				}
				for i, l := range as.Lhs {
					if lid, ok := ast.Unparen(l).(*ast.Ident); ok && info.ObjectOf(lid) == obj && i < len(as.Rhs) {
						if cl, ok := ast.Unparen(as.Rhs[i]).(*ast.CompositeLit); ok && len(cl.Elts) == 0 {
							if t := info.TypeOf(cl); t != nil && types.Identical(t, obj.Type()) {
								reset = true
							}
						}
					}
				}
				return true
			})
			if declaredInside || reset {
				r.HoldAt("R7", construct, p.Pos(c.Pos()), "the op is declared (or reset to its zero value) inside the loop")
			} else {
				r.Violate("R7", construct, p.Pos(c.Pos()), "the op that UnmarshalBinary fills lives across iterations of the replay loop: UnmarshalBinary assigns only the payload fields of the record's own type, so after a roaring op every later single or batch op still carries that payload, size() counts it, and the loop skips the records that follow (or fails on a misframed one)")
			}
			return true
		})
	}
	r.Floor("C05/R7 replay loops decoding ops", n, 1)
}
