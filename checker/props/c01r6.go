package props

import (
	"go/ast"
	"go/token"
	"go/types"
	"strings"

	"verif/checker/core"
	"verif/checker/flow"
)

// c01CarryIsConserved: R6. Bitmap.Shift walks the containers in key order and
// carries the bit shifted out of one container into the next through a bool
// flag (the second result of the shift kernel). One iteration that starts
// with the flag set must hand the carried bit on -- Container.add(0) on the
// container being built, or a Put of a fresh container at <key>+1 -- on every
// path before it overwrites the flag; otherwise the value (k+1)<<16 is lost.
func c01CarryIsConserved(p *core.Program, r *core.Report) {
	rp := p.Pkg("roaring")
	if rp == nil {
		r.Undecide("R6", "package roaring", "", "not loaded")
		return
	}
	info := rp.TypesInfo
	n := 0
	for _, fd := range core.AllFuncDecls(rp) {
		if fd.Body == nil || strings.HasSuffix(p.Fset.Position(fd.Pos()).Filename, "_test.go") {
			continue
		}
		// carry results: second variable defined from a call of a package function named shift*
		carryVar := map[types.Object]bool{}
		ast.Inspect(fd.Body, func(m ast.Node) bool {
			as, ok := m.(*ast.AssignStmt)
			if !ok || len(as.Lhs) != 2 || len(as.Rhs) != 1 {
				return true
			}
			c, ok := ast.Unparen(as.Rhs[0]).(*ast.CallExpr)
			if !ok {
				return true
			}
			fn := core.CalleeOf(info, c)
			if fn == nil || fn.Pkg() != rp.Types || !strings.HasPrefix(fn.Name(), "shift") {
				return true
			}
			if id, ok := as.Lhs[1].(*ast.Ident); ok && id.Name != "_" {
				if o := info.ObjectOf(id); o != nil && types.Identical(o.Type(), types.Typ[types.Bool]) {
					carryVar[o] = true
				}
			}
			return true
		})
		if len(carryVar) == 0 {
			continue
		}
		// the flag: a bool local assigned from a carry result, and the loop that does so
		var flag types.Object
		var loopBody *ast.BlockStmt
		var walk func(nd ast.Node, body *ast.BlockStmt)
		walk = func(nd ast.Node, body *ast.BlockStmt) {
			ast.Inspect(nd, func(m ast.Node) bool {
				switch x := m.(type) {
				case *ast.ForStmt:
					if x.Body != body {
						walk(x.Body, x.Body)
						return false
					}
				case *ast.RangeStmt:
					if x.Body != body {
						walk(x.Body, x.Body)
						return false
					}
				case *ast.AssignStmt:
					if x.Tok == token.ASSIGN && len(x.Lhs) == 1 && len(x.Rhs) == 1 && body != nil {
						l, ok1 := x.Lhs[0].(*ast.Ident)
						rr, ok2 := ast.Unparen(x.Rhs[0]).(*ast.Ident)
						if ok1 && ok2 && carryVar[info.ObjectOf(rr)] && flag == nil {
							flag = info.ObjectOf(l)
							loopBody = body
						}
					}
				}
				return true
			})
		}
		walk(fd.Body, nil)
		if flag == nil || loopBody == nil {
			continue
		}
		n++
		construct := core.FuncName(fd) + ": a carried bit is handed on before the carry flag is overwritten"
		const (
			bFlagTrue flow.State = 1 << iota
			bPending
		)
		var bad []string
		isFlag := func(e ast.Expr) bool {
			id, ok := ast.Unparen(e).(*ast.Ident)
			return ok && info.ObjectOf(id) == flag
		}
		h := flow.Hooks{Info: info}
		h.Refine = func(cond ast.Expr, taken bool, s flow.State) (flow.State, bool) {
			if isFlag(cond) && s&bFlagTrue != 0 && !taken {
				return s, false
			}
			if u, ok := ast.Unparen(cond).(*ast.UnaryExpr); ok && u.Op == token.NOT && isFlag(u.X) && s&bFlagTrue != 0 && taken {
				return s, false
			}
			return s, true
		}
		h.Atom = func(nd ast.Node, s flow.State) []flow.State {
			switch x := nd.(type) {
			case *ast.CallExpr:
				fn := core.CalleeOf(info, x)
				if fn == nil {
					break
				}
				if fn.Name() == "add" && recvNamed(fn, "Container") && len(x.Args) == 1 {
					if v, ok := c04ConstInt(info, x.Args[0]); ok && v == 0 {
						s &^= bPending
					}
				}
				if fn.Name() == "Put" && recvNamed(fn, "Containers") && len(x.Args) == 2 {
					if be, ok := ast.Unparen(x.Args[0]).(*ast.BinaryExpr); ok && be.Op == token.ADD {
						if v, ok := c04ConstInt(info, be.Y); ok && v == 1 {
							s &^= bPending
						}
					}
				}
			case *ast.AssignStmt:
				for _, l := range x.Lhs {
					if isFlag(l) {
						if s&bPending != 0 {
							bad = append(bad, p.Pos(x.Pos()))
						}
						s &^= bFlagTrue | bPending
					}
				}
			}
			return []flow.State{s}
		}
		it := flow.Run(h, loopBody, bFlagTrue|bPending)
		switch {
		case it.Unsupported != "":
			r.Undecide("R6", construct, p.Pos(fd.Pos()), it.Unsupported)
		case len(bad) > 0:
			r.Violate("R6", construct, p.Pos(fd.Pos()), "an iteration that starts with the carry flag set reaches the assignment of the flag at "+strings.Join(dedupe(bad), ", ")+" on a path with neither Container.add(0) nor a Put at <key>+1: the bit carried out of the previous container is dropped (the result misses (k+1)<<16)")
		default:
			r.HoldAt("R6", construct, p.Pos(fd.Pos()), "every path of an iteration entered with the flag set applies add(0) or puts a container at <key>+1 before the flag is reassigned")
		}
	}
	r.Floor("C01/R6 carry loops", n, 1)
}
