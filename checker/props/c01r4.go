package props

import (
	"fmt"
	"go/ast"
	"go/token"
	"go/types"
	"strings"

	"golang.org/x/tools/go/packages"

	"verif/checker/core"
	"verif/checker/ord"
)

// c01WordStores: rule R4. A kernel that walks the runs of a run container
// and builds an output bitmap word by word may meet the same word from two
// runs (a run ending and the next one starting inside it). A plain store
// out[i] = w discards what the earlier run put there, so it is right only
// when the word lies wholly inside the current run; everything else must
// accumulate (|=). Decided for every ordering of the word's first and last value and the
// run's bounds.
func c01WordStores(p *core.Program, r *core.Report, rp *packages.Package) {
	info := rp.TypesInfo
	isInterval := func(t types.Type) bool {
		n := core.NamedOf(t)
		return n != nil && n.Obj().Name() == "interval16"
	}
	isWordSlice := func(t types.Type) bool {
		sl, ok := t.Underlying().(*types.Slice)
		if !ok {
			return false
		}
		b, ok := sl.Elem().Underlying().(*types.Basic)
		return ok && b.Kind() == types.Uint64
	}
	nLoops, nStores := 0, 0
	for _, fd := range core.AllFuncDecls(rp) {
		if fd.Body == nil || strings.HasSuffix(p.Fset.Position(fd.Pos()).Filename, "_test.go") {
			continue
		}
		parents := parentMap(fd.Body)
		// plain stores into a word slice indexed by a variable
		type store struct {
			as   *ast.AssignStmt
			idx  types.Object
			loop *ast.ForStmt
		}
		var stores []store
		ast.Inspect(fd.Body, func(n ast.Node) bool {
			as, ok := n.(*ast.AssignStmt)
			if !ok || as.Tok != token.ASSIGN || len(as.Lhs) != 1 {
				return true
			}
			ix, ok := ast.Unparen(as.Lhs[0]).(*ast.IndexExpr)
			if !ok || !isWordSlice(info.TypeOf(ix.X)) {
				return true
			}
			id, ok := ast.Unparen(ix.Index).(*ast.Ident)
			if !ok {
				return true
			}
			// innermost enclosing for loop
			var loop *ast.ForStmt
			for q := parents[ast.Node(as)]; q != nil; q = parents[q] {
				if fs, ok := q.(*ast.ForStmt); ok {
					loop = fs
					break
				}
				if _, ok := q.(*ast.FuncLit); ok {
					break
				}
			}
			if loop == nil {
				return true
			}
			// the loop works on run bounds
			usesRun := false
			ast.Inspect(loop, func(m ast.Node) bool {
				if sel, ok := m.(*ast.SelectorExpr); ok && (sel.Sel.Name == "start" || sel.Sel.Name == "last") && isInterval(info.TypeOf(sel.X)) {
					usesRun = true
				}
				return true
			})
			// and the same word array is also accumulated into in that loop
			accum := false
			ast.Inspect(loop, func(m ast.Node) bool {
				if a2, ok := m.(*ast.AssignStmt); ok && a2.Tok == token.OR_ASSIGN && len(a2.Lhs) == 1 {
					if ix2, ok := ast.Unparen(a2.Lhs[0]).(*ast.IndexExpr); ok && types.ExprString(ix2.X) == types.ExprString(ix.X) {
						accum = true
					}
				}
				return true
			})
			if usesRun && accum {
				stores = append(stores, store{as, info.ObjectOf(id), loop})
			}
			return true
		})
		if len(stores) == 0 {
			continue
		}
		nLoops++
		for _, st := range stores {
			nStores++
			construct := core.FuncName(fd) + ": plain word store " + types.ExprString(st.as.Lhs[0]) + " in a run loop"
			// word-start variables: assigned from idx << 6 / idx * 64; word-last: <ws> + 63
			isWordStart := func(e ast.Expr) bool {
				be, ok := ast.Unparen(e).(*ast.BinaryExpr)
				if !ok {
					return false
				}
				id, ok := ast.Unparen(be.X).(*ast.Ident)
				if !ok || info.ObjectOf(id) != st.idx {
					return false
				}
				v, ok := c04ConstInt(info, be.Y)
				return ok && ((be.Op == token.SHL && v == 6) || (be.Op == token.MUL && v == 64))
			}
			env := map[types.Object]ord.Lin{}
			for pass := 0; pass < 2; pass++ {
				ast.Inspect(fd.Body, func(n ast.Node) bool {
					as, ok := n.(*ast.AssignStmt)
					if !ok || len(as.Lhs) != len(as.Rhs) {
						return true
					}
					for i, l := range as.Lhs {
						id, ok := ast.Unparen(l).(*ast.Ident)
						if !ok {
							continue
						}
						if isWordStart(as.Rhs[i]) {
							env[info.ObjectOf(id)] = ord.Lin{Base: "W"}
						} else if be, ok := ast.Unparen(as.Rhs[i]).(*ast.BinaryExpr); ok && be.Op == token.ADD {
							if x, ok := ast.Unparen(be.X).(*ast.Ident); ok {
								if l0, ok := env[info.ObjectOf(x)]; ok && l0.Base == "W" && l0.Off == 0 {
									if v, ok := c04ConstInt(info, be.Y); ok && v == 63 {
										env[info.ObjectOf(id)] = ord.Lin{Base: "E"}
									}
								}
							}
						}
					}
					return true
				})
			}
			if len(env) == 0 {
				r.Undecide("R4", construct, p.Pos(st.as.Pos()), "no variable holding the first value of word "+st.idx.Name()+" (index << 6) was found")
				continue
			}
			term := func(e ast.Expr) string {
				if isWordStart(e) {
					return "W"
				}
				if sel, ok := ast.Unparen(e).(*ast.SelectorExpr); ok && isInterval(info.TypeOf(sel.X)) {
					switch sel.Sel.Name {
					case "start":
						return "S"
					case "last":
						return "L"
					}
				}
				return ""
			}
			bad, undec := "", ""
			nOrd, nReached := 0, 0
			for _, o := range ord.Orderings([]string{"W", "E", "S", "L"}) {
				if o["S"] > o["L"] || o["W"] >= o["E"] {
					continue
				}
				nOrd++
				in := &ord.Interp{Info: info, O: o, Term: term}
				in.OnAssign = func(as *ast.AssignStmt, e map[types.Object]ord.Lin) {
					if as != st.as {
						return
					}
					nReached++
					w, w63 := ord.Lin{Base: "W"}, ord.Lin{Base: "E"}
					if (o.Cmp(w, token.GEQ, ord.Lin{Base: "S"}) != ord.True || o.Cmp(w63, token.LEQ, ord.Lin{Base: "L"}) != ord.True) && bad == "" {
						bad = fmt.Sprintf("for the ordering %s (W/E = first and last value of the word, S/L = the run's bounds) the store is reached although the word is not wholly inside the run", o)
					}
				}
				in.Run(st.loop.Body.List, env)
				if in.Unsupported != "" {
					undec = in.Unsupported
					break
				}
			}
			switch {
			case undec != "":
				r.Undecide("R4", construct, p.Pos(st.as.Pos()), undec)
			case bad != "":
				r.Violate("R4", construct, p.Pos(st.as.Pos()), bad+": a word shared with the previous run loses the bits that run contributed (the result misses values and its count is too high)")
			case nReached == 0:
				r.Undecide("R4", construct, p.Pos(st.as.Pos()), "the store was not reached under any ordering")
			default:
				r.HoldAt("R4", construct, p.Pos(st.as.Pos()), fmt.Sprintf("%d orderings, reached in %d: only for words wholly inside the run", nOrd, nReached))
			}
		}
	}
	r.Floor("C01/R4 plain word stores in run loops that also accumulate", nStores, 1)
	_ = nLoops
}
