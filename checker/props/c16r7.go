package props

import (
	"go/ast"
	"go/token"
	"go/types"
	"strings"

	"verif/checker/core"
	"verif/checker/flow"
)

// c16GroupByPaging: rule R7. GroupBy cuts its result to the limit early (per
// shard and while merging) and applies the offset to what is left, so every
// early cut must keep limit+offset groups, and offset and limit must shape
// only the final answer -- a remote leg returns its share of the merge.
func c16GroupByPaging(p *core.Program, r *core.Report) {
	pk := p.Pkg("")
	if pk == nil {
		return
	}
	info := pk.TypesInfo
	argOf := func(c *ast.CallExpr) string { // "limit"/"offset" for <call>.UintArg("limit")
		fn := core.CalleeOf(info, c)
		if fn == nil || fn.Name() != "UintArg" || len(c.Args) != 1 {
			return ""
		}
		if tv, ok := info.Types[c.Args[0]]; ok && tv.Value != nil {
			return strings.Trim(tv.Value.ExactString(), `"`)
		}
		return ""
	}
	nCuts := 0
	for _, name := range []string{"executeGroupBy", "executeGroupByShard"} {
		fd := core.FuncDecl(pk, "executor", name)
		if fd == nil {
			r.Undecide("R7", "(*executor)."+name, "", "not found")
			continue
		}
		// which of the two arguments each local depends on (flow-insensitive)
		deps := map[types.Object]map[string]bool{}
		add := func(o types.Object, ks map[string]bool) bool {
			ch := false
			if deps[o] == nil {
				deps[o] = map[string]bool{}
			}
			for k := range ks {
				if !deps[o][k] {
					deps[o][k] = true
					ch = true
				}
			}
			return ch
		}
		of := func(e ast.Node) map[string]bool {
			out := map[string]bool{}
			ast.Inspect(e, func(m ast.Node) bool {
				switch x := m.(type) {
				case *ast.CallExpr:
					if a := argOf(x); a == "limit" || a == "offset" {
						out[a] = true
					}
				case *ast.Ident:
					for k := range deps[info.ObjectOf(x)] {
						out[k] = true
					}
				}
				return true
			})
			return out
		}
		for changed := true; changed; {
			changed = false
			ast.Inspect(fd.Body, func(m ast.Node) bool {
				as, ok := m.(*ast.AssignStmt)
				if !ok {
					return true
				}
				var src map[string]bool
				if len(as.Rhs) == 1 {
					src = of(as.Rhs[0])
				}
				for i, l := range as.Lhs {
					id, ok := ast.Unparen(l).(*ast.Ident)
					if !ok {
						continue
					}
					s := src
					if len(as.Rhs) == len(as.Lhs) {
						s = of(as.Rhs[i])
					}
					if len(s) > 0 && add(info.ObjectOf(id), s) {
						changed = true
					}
				}
				return true
			})
		}
		// early cuts: the limit handed to mergeGroupCounts, and upper bounds of loops that collect results
		check := func(x ast.Expr, what string, at token.Pos) {
			d := of(x)
			if !d["limit"] {
				return // not a limit at all
			}
			nCuts++
			construct := "(*executor)." + name + ": " + what + " keeps limit+offset groups"
			r.Check(d["offset"], "R7", construct, p.Pos(at), "the cut depends on the offset as well as the limit", "the result is cut to `"+types.ExprString(x)+"`, which depends on the limit argument but not on the offset, before the offset is applied: with offset > 0 fewer than limit groups come back, and an offset at or beyond the limit returns the first page again")
		}
		ast.Inspect(fd.Body, func(m ast.Node) bool {
			switch x := m.(type) {
			case *ast.CallExpr:
				if fn := core.CalleeOf(info, x); fn != nil && fn.Name() == "mergeGroupCounts" && len(x.Args) == 3 {
					check(x.Args[2], "merge", x.Pos())
				}
			case *ast.ForStmt:
				if x.Cond != nil {
					ast.Inspect(x.Cond, func(k ast.Node) bool {
						if be, ok := k.(*ast.BinaryExpr); ok && (be.Op == token.LSS || be.Op == token.LEQ) {
							check(be.Y, "per-shard loop", be.Pos())
						}
						return true
					})
				}
			}
			return true
		})
		if name != "executeGroupBy" {
			continue
		}
		// the final offset/limit slicing happens at the coordinator only
		var optObj types.Object
		for _, fl := range fd.Type.Params.List {
			for _, nm := range fl.Names {
				if t := info.TypeOf(fl.Type); t != nil {
					if pt, ok := t.(*types.Pointer); ok && core.IsNamed(pt.Elem(), core.ModPath, "execOptions") {
						optObj = info.Defs[nm]
					}
				}
			}
		}
		if optObj == nil {
			r.Undecide("R7", "(*executor).executeGroupBy: offset applied by the coordinator only", p.Pos(fd.Pos()), "no *execOptions parameter")
			continue
		}
		const bNotRemote flow.State = 1
		var bad []string
		nSlices := 0
		h := flow.Hooks{Info: info}
		h.Refine = func(c ast.Expr, taken bool, s flow.State) (flow.State, bool) {
			e := ast.Unparen(c)
			neg := false
			if u, ok := e.(*ast.UnaryExpr); ok && u.Op == token.NOT {
				e, neg = ast.Unparen(u.X), true
			}
			if sel, ok := e.(*ast.SelectorExpr); ok && sel.Sel.Name == "Remote" {
				if id, ok := ast.Unparen(sel.X).(*ast.Ident); ok && info.ObjectOf(id) == optObj {
					if taken == neg { // Remote is false
						return s | bNotRemote, true
					}
				}
			}
			return s, true
		}
		h.Atom = func(n ast.Node, s flow.State) []flow.State {
			as, ok := n.(*ast.AssignStmt)
			if !ok {
				return []flow.State{s}
			}
			for _, rhs := range as.Rhs {
				if se, ok := ast.Unparen(rhs).(*ast.SliceExpr); ok {
					if t := info.TypeOf(se.X); t != nil {
						if sl, ok := t.Underlying().(*types.Slice); ok && core.IsNamed(sl.Elem(), core.ModPath, "GroupCount") {
							d := map[string]bool{}
							for _, b := range []ast.Expr{se.Low, se.High} {
								if b != nil {
									for k := range of(b) {
										d[k] = true
									}
								}
							}
							if d["offset"] || d["limit"] {
								nSlices++
								if s&bNotRemote == 0 {
									bad = append(bad, p.Pos(se.Pos()))
								}
							}
						}
					}
				}
			}
			return []flow.State{s}
		}
		it := flow.Run(h, fd.Body, 0)
		construct := "(*executor).executeGroupBy: offset and limit applied by the coordinator only"
		switch {
		case it.Unsupported != "":
			r.Undecide("R7", construct, p.Pos(fd.Pos()), it.Unsupported)
		case len(bad) > 0:
			r.Violate("R7", construct, p.Pos(fd.Pos()), "the result is sliced by offset/limit at "+strings.Join(dedupe(bad), ", ")+" on a path where the call may be a remote leg: every node drops the first groups of its own share before the coordinator merges the shares and drops them again")
		case nSlices == 0:
			r.Violate("R7", construct, p.Pos(fd.Pos()), "the offset is never applied")
		default:
			r.HoldAt("R7", construct, p.Pos(fd.Pos()), "sliced only after opt.Remote was tested false")
		}
	}
	r.Floor("C16/R7 early cuts of the GroupBy result", nCuts, 2)
}
