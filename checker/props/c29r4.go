package props

import (
	"go/ast"
	"go/types"
	"sort"
	"strings"

	"verif/checker/core"
	"verif/checker/flow"
)

// c29Registries: the guarded name->object maps that are filled on demand.
var c29Registries = []struct{ typ, field, mutex string }{
	{"Field", "viewMap", "mu"},
	{"Index", "fields", "mu"},
	{"Holder", "indexes", "mu"},
	{"view", "fragments", "mu"},
}

// c29CreateIfAbsent: rule R4. "Create if it does not exist" is atomic only if
// the absence test and the insertion happen under one hold of the write lock.
// A lookup made before the lock was taken (for example under the read lock)
// proves nothing by the time the lock is held: two writers that both missed
// each create an object and the second insertion orphans the first, together
// with whatever was written into it.
func c29CreateIfAbsent(p *core.Program, r *core.Report) {
	pk := p.Pkg("")
	if pk == nil {
		return
	}
	info := pk.TypesInfo
	decls := map[*types.Func]*ast.FuncDecl{}
	for _, fd := range core.AllFuncDecls(pk) {
		if fd.Body == nil || strings.HasSuffix(p.Fset.Position(fd.Pos()).Filename, "_test.go") {
			continue
		}
		if fn, ok := info.Defs[fd.Name].(*types.Func); ok {
			decls[fn] = fd
		}
	}
	setup := map[string]bool{}
	for _, spec := range c29Specs {
		for k := range spec.setup {
			setup[k] = true
		}
	}
	nStores := 0
	for _, reg := range c29Registries {
		isMap := func(e ast.Expr) bool {
			_, ok := core.FieldSel(info, e, core.ModPath, reg.typ, reg.field)
			return ok
		}
		// accessors: methods of the type that read the map and neither store into it nor take the write lock
		reads := map[*types.Func]bool{}
		for fn, fd := range decls {
			if core.RecvName(fd) != reg.typ {
				continue
			}
			rd, wr, locks := false, false, false
			ast.Inspect(fd.Body, func(m ast.Node) bool {
				switch x := m.(type) {
				case *ast.AssignStmt:
					for _, l := range x.Lhs {
						if ix, ok := ast.Unparen(l).(*ast.IndexExpr); ok && isMap(ix.X) {
							wr = true
						}
					}
				case *ast.IndexExpr:
					if isMap(x.X) {
						rd = true
					}
				case *ast.CallExpr:
					if sel, ok := ast.Unparen(x.Fun).(*ast.SelectorExpr); ok && sel.Sel.Name == "Lock" {
						locks = true
					}
				}
				return true
			})
			if rd && !wr && !locks {
				reads[fn] = true
			}
		}
		// analyse one function: does every store follow a read made under the current hold of the write lock?
		// needsEntry: a store is reachable from entry with no read and no own Lock before it
		type sum struct {
			stores     int
			bad        []string
			needsEntry bool
			unsup      string
		}
		memo := map[*types.Func]*sum{}
		var analyse func(fn *types.Func, depth int) *sum
		analyse = func(fn *types.Func, depth int) *sum {
			if s, ok := memo[fn]; ok {
				return s
			}
			out := &sum{}
			memo[fn] = out
			fd := decls[fn]
			if fd == nil || depth > 4 {
				return out
			}
			const (
				bChecked flow.State = 1 << iota // the map was read under the current hold
				bLocked                         // this function took the write lock itself
			)
			h := flow.Hooks{Info: info}
			h.Atom = func(nd ast.Node, s flow.State) []flow.State {
				switch x := nd.(type) {
				case *ast.CallExpr:
					if sel, ok := ast.Unparen(x.Fun).(*ast.SelectorExpr); ok {
						if msel, ok := ast.Unparen(sel.X).(*ast.SelectorExpr); ok && msel.Sel.Name == reg.mutex {
							if t := info.TypeOf(msel.X); t != nil && core.NamedOf(t) != nil && core.NamedOf(t).Obj().Name() == reg.typ {
								switch sel.Sel.Name {
								case "Lock":
									return []flow.State{(s | bLocked) &^ bChecked}
								case "Unlock", "RLock", "RUnlock":
									return []flow.State{s &^ bChecked}
								}
							}
						}
					}
					if g := core.CalleeOf(info, x); g != nil {
						if reads[g] {
							return []flow.State{s | bChecked}
						}
						if decls[g] != nil && g != fn && core.RecvName(decls[g]) == reg.typ && !setup[core.FuncName(decls[g])] && !strings.HasPrefix(g.Name(), "open") && g.Name() != "Open" {
							cs := analyse(g, depth+1)
							if cs.needsEntry && s&bChecked == 0 {
								if s&bLocked != 0 {
									out.bad = append(out.bad, p.Pos(x.Pos())+" (calls "+core.FuncName(decls[g])+", which inserts without looking)")
								} else {
									out.needsEntry = true
								}
							}
						}
					}
				case *ast.AssignStmt:
					// reads on the right-hand side
					for _, rh := range x.Rhs {
						ast.Inspect(rh, func(m ast.Node) bool {
							if ix, ok := m.(*ast.IndexExpr); ok && isMap(ix.X) {
								s |= bChecked
							}
							return true
						})
					}
					for _, l := range x.Lhs {
						if ix, ok := ast.Unparen(l).(*ast.IndexExpr); ok && isMap(ix.X) {
							out.stores++
							if s&bChecked == 0 {
								if s&bLocked != 0 {
									out.bad = append(out.bad, p.Pos(x.Pos()))
								} else {
									out.needsEntry = true
								}
							}
						}
					}
				}
				return []flow.State{s}
			}
			h.Refine = func(c ast.Expr, taken bool, s flow.State) (flow.State, bool) {
				ast.Inspect(c, func(m ast.Node) bool {
					if ix, ok := m.(*ast.IndexExpr); ok && isMap(ix.X) {
						s |= bChecked
					}
					return true
				})
				return s, true
			}
			it := flow.Run(h, fd.Body, 0)
			out.unsup = it.Unsupported
			return out
		}
		var fns []*types.Func
		for fn := range decls {
			fns = append(fns, fn)
		}
		sort.Slice(fns, func(i, j int) bool { return decls[fns[i]].Pos() < decls[fns[j]].Pos() })
		// callers inside the package
		called := map[*types.Func]bool{}
		for _, fd := range decls {
			ast.Inspect(fd.Body, func(m ast.Node) bool {
				if c, ok := m.(*ast.CallExpr); ok {
					if g := core.CalleeOf(info, c); g != nil && decls[g] != nil {
						called[g] = true
					}
				}
				return true
			})
		}
		for _, fn := range fns {
			fd := decls[fn]
			if setup[core.FuncName(fd)] {
				continue
			}
			s := analyse(fn, 0)
			if s.stores == 0 && len(s.bad) == 0 && !s.needsEntry {
				continue
			}
			// open-time loaders fill the map before the object is published
			if strings.HasPrefix(fd.Name.Name, "open") || fd.Name.Name == "Open" {
				continue
			}
			nStores += s.stores
			construct := core.FuncName(fd) + ": " + reg.typ + "." + reg.field + " is tested and filled under one hold of the lock"
			switch {
			case s.unsup != "":
				r.Undecide("R4", construct, p.Pos(fd.Pos()), s.unsup)
			case len(s.bad) > 0:
				r.Violate("R4", construct, p.Pos(fd.Pos()), "an entry is inserted at "+strings.Join(dedupe(s.bad), ", ")+" with the write lock held but without having looked the key up since the lock was taken: two concurrent first writers both miss, both create the object, the second insertion replaces the first, and what was written into the first is no longer reachable")
			case s.needsEntry && !called[fn]:
				r.Violate("R4", construct, p.Pos(fd.Pos()), "inserts without looking the key up and has no caller in the package that could have looked under the lock")
			case s.needsEntry:
				r.HoldAt("R4", construct, p.Pos(fd.Pos()), "inserts without looking; every caller that holds the lock looks first (checked at the call sites)")
			default:
				r.HoldAt("R4", construct, p.Pos(fd.Pos()), "the insertion follows a lookup made under the same hold of the lock")
			}
		}
	}
	r.Floor("C29/R4 insertions into guarded registries outside setup", nStores, 4)
}
