package props

import (
	"fmt"
	"go/ast"
	"go/constant"
	"go/token"
	"go/types"
	"sort"
	"strings"

	"verif/checker/core"
	"verif/checker/flow"
	"verif/checker/ord"
)

func init() { register("C14", c14) }

func c14(p *core.Program, r *core.Report) {
	r.Rule("R1", "signed range dispatch: fragment.rangeLT, rangeGT and rangeBetween reach their answer only through comparisons of the predicate with constants and through the unsigned helpers; interpreted over every order type of (stored value, predicate(s), -1, 0, 1) with the helpers taken at their specification (filter AND |v| < / <= / > / >= / between |predicate|), membership of a column equals the signed comparison it stands for")
	r.Rule("R2", "range saturation: bsiGroup.baseValue and bsiGroup.rangeAll only compare the predicate with the declared bounds and the range the bit depth can represent; interpreted over every order type of (predicate, stored value, representable min/max, declared min/max, base) and every operator, the call protocol 'out of range -> none (all for !=); rangeAll -> all not-null; otherwise rangeOp(op, baseValue)' selects exactly the stored values satisfying the comparison; baseValueBetween likewise, and it never hands rangeBetween a reversed interval; executeRowBSIGroupShard and Field.Range follow that protocol on every path that reaches rangeOp")
	r.Rule("R3", "aggregates respect the filter: in fragment.sum, min and max every row that is counted, tested for emptiness or handed to minUnsigned/maxUnsigned is derived (Intersect, or Difference on the left) from the filtered not-null row")
	r.Rule("R4", "one bit depth: every call from Field into the BSI view/fragment layer (importValue, setValue, value, sum, min, max, rangeOp) passes the field's current bit depth (bsiGroup.BitDepth), not a depth computed from the values at hand")
	r.Rule("R6", "a bit depth of 0 is a state, not an error: a fragment method that takes the bit depth, walks the value planes in a loop and returns a named count result has assigned that result on every path that returns it, including the path on which the loop runs no iteration")
	r.Rule("R7", "strictness at depth 0: a fragment method that takes the bit depth and the allowEquality flag and walks the planes in a loop consults the flag, or tests the depth, on every path that answers (the last-plane test inside the loop never runs at depth 0)")
	r.Rule("R5", "a value write touches every plane: positionsForValue, setValueBase and importSetValue reach a non-error return only after handling the not-null row, the sign row and the loop over the value rows (readers combine the planes without re-masking, so a clear that leaves the sign or value bits behind shows up in range queries)")
	r.Rule("R8", "every plane is written: in every loop of a fragment writer over the bit planes of a value (bsiOffsetBit+i) each iteration that goes on to the next plane has called unprotectedSetBit/unprotectedClearBit (setBit/clearBit) or appended a position to a set/clear list; zeros are cleared unconditionally, because the planes of a column that holds no value are not known to be empty")
	c14EveryPlaneIsWritten(p, r)
	r.Rule("R9", "the magnitude fits: every Field method condition that refuses a value below bsiGroup.Min with ErrBSIGroupValueTooLow also refuses math.MinInt64 (sign-and-magnitude in at most 63 planes cannot hold it; the default bounds admit it)")
	c14MagnitudeFits(p, r)
	r.NotDecided = "the bit-sliced loops themselves (rangeEQ, rangeLTUnsigned, rangeGTUnsigned, rangeBetweenUnsigned, minUnsigned, maxUnsigned, the place-value sum) are arithmetic on runtime values and are taken at their specification; last-writer semantics of overwrites; overflow of sums"
	pk := p.Pkg("")
	if pk == nil {
		r.Undecide("R1", "package pilosa", "", "not loaded")
		return
	}
	c14Dispatch(p, r)
	c14Saturation(p, r)
	c14Protocol(p, r)
	c14Aggregates(p, r)
	c14Depth(p, r)
	c14Planes(p, r)
	c14CountDefined(p, r)
	c14StrictnessAtDepthZero(p, r)
}

// ---------------------------------------------------------------- R1

type c14U struct { // an unsigned magnitude: |term| obtained as uint64(term) or uint64(-term)
	lin ord.Lin
	neg bool
	ok  bool
}

type c14Exec struct {
	info   *types.Info
	o      ord.Ordering
	v      string // term of the stored value
	ints   map[types.Object]c14U
	rows   map[types.Object]ord.Tri
	bools  map[types.Object]bool
	consts map[string]int64 // bsiExistsBit, bsiSignBit
	unsup  string
}

func triAnd(a, b ord.Tri) ord.Tri {
	if a == ord.False || b == ord.False {
		return ord.False
	}
	if a == ord.True && b == ord.True {
		return ord.True
	}
	return ord.Unknown
}

func triOr(a, b ord.Tri) ord.Tri {
	if a == ord.True || b == ord.True {
		return ord.True
	}
	if a == ord.False && b == ord.False {
		return ord.False
	}
	return ord.Unknown
}

func triNot(a ord.Tri) ord.Tri {
	switch a {
	case ord.True:
		return ord.False
	case ord.False:
		return ord.True
	}
	return ord.Unknown
}

func (x *c14Exec) clone() *c14Exec {
	y := *x
	y.ints = map[types.Object]c14U{}
	for k, v := range x.ints {
		y.ints[k] = v
	}
	y.rows = map[types.Object]ord.Tri{}
	for k, v := range x.rows {
		y.rows[k] = v
	}
	return &y
}

func (x *c14Exec) evalU(e ast.Expr) c14U {
	switch y := ast.Unparen(e).(type) {
	case *ast.Ident:
		if u, ok := x.ints[x.info.ObjectOf(y)]; ok {
			return u
		}
	case *ast.CallExpr:
		if tv, ok := x.info.Types[y.Fun]; ok && tv.IsType() && len(y.Args) == 1 {
			return x.evalU(y.Args[0])
		}
	case *ast.UnaryExpr:
		if y.Op == token.SUB {
			u := x.evalU(y.X)
			if u.ok && !u.neg && u.lin.Off == 0 {
				return c14U{lin: u.lin, neg: true, ok: true}
			}
		}
	}
	if tv, ok := x.info.Types[e]; ok && tv.Value != nil && tv.Value.Kind() == constant.Int {
		if v, ok := constant.Int64Val(tv.Value); ok {
			return c14U{lin: ord.Lin{Off: v}, ok: true}
		}
	}
	return c14U{}
}

// sign of a term: True = negative.
func (x *c14Exec) negative(l ord.Lin) ord.Tri {
	return x.o.Cmp(l, token.LSS, ord.Lin{Off: 0})
}

// absCmp: |v| op |u| for the stored value v.
func (x *c14Exec) absCmp(op token.Token, u c14U) ord.Tri {
	if !u.ok {
		return ord.Unknown
	}
	v := ord.Lin{Base: x.v}
	sv := x.negative(v)
	var su ord.Tri
	if u.lin.Base == "" {
		su = ord.False
		if u.lin.Off < 0 {
			su = ord.True
		}
	} else {
		su = x.negative(u.lin)
	}
	if sv == ord.Unknown || su == ord.Unknown {
		return ord.Unknown
	}
	// uint64(t) of a negative t, or uint64(-t) of a positive t, is not a magnitude
	if (su == ord.True) != u.neg {
		if x.o.Cmp(u.lin, token.EQL, ord.Lin{Off: 0}) != ord.True {
			return ord.Unknown
		}
	}
	switch {
	case sv == ord.False && su == ord.False:
		return x.o.Cmp(v, op, u.lin)
	case sv == ord.True && su == ord.True:
		return x.o.Cmp(u.lin, op, v)
	}
	// mixed signs: decidable only when the negative side is pinned to a constant
	pinned := func(l ord.Lin) (int64, bool) {
		if l.Base == "" {
			return l.Off, true
		}
		for t := range x.o {
			var c int64
			if _, err := fmt.Sscanf(t, "%d", &c); err == nil && fmt.Sprint(c) == t {
				if x.o.Cmp(l, token.EQL, ord.Lin{Off: c}) == ord.True {
					return c, true
				}
			}
		}
		return 0, false
	}
	if sv == ord.False && su == ord.True {
		if c, ok := pinned(u.lin); ok {
			return x.o.Cmp(v, op, ord.Lin{Off: -c})
		}
	}
	if sv == ord.True && su == ord.False {
		if c, ok := pinned(v); ok {
			return x.o.Cmp(ord.Lin{Off: -c}, op, u.lin)
		}
	}
	return ord.Unknown
}

func (x *c14Exec) boolArg(e ast.Expr) (bool, bool) {
	if id, ok := ast.Unparen(e).(*ast.Ident); ok {
		switch id.Name {
		case "true":
			return true, true
		case "false":
			return false, true
		}
		if b, ok := x.bools[x.info.ObjectOf(id)]; ok {
			return b, true
		}
	}
	return false, false
}

func (x *c14Exec) evalRow(e ast.Expr) ord.Tri {
	switch y := ast.Unparen(e).(type) {
	case *ast.Ident:
		if t, ok := x.rows[x.info.ObjectOf(y)]; ok {
			return t
		}
	case *ast.CallExpr:
		fn := core.CalleeOf(x.info, y)
		if fn == nil {
			break
		}
		sel, _ := ast.Unparen(y.Fun).(*ast.SelectorExpr)
		switch {
		case fn.Name() == "row" && recvNamed(fn, "fragment") && len(y.Args) == 1:
			if tv, ok := x.info.Types[y.Args[0]]; ok && tv.Value != nil {
				if c, ok := constant.Int64Val(constant.ToInt(tv.Value)); ok {
					switch c {
					case x.consts["bsiExistsBit"]:
						return ord.True // the column under consideration holds a value
					case x.consts["bsiSignBit"]:
						return x.negative(ord.Lin{Base: x.v})
					}
				}
			}
		case recvNamed(fn, "Row") && sel != nil && len(y.Args) == 1 && (fn.Name() == "Intersect" || fn.Name() == "Difference" || fn.Name() == "Union"):
			a := x.evalRow(sel.X)
			switch fn.Name() {
			case "Intersect":
				if a == ord.False {
					return ord.False
				}
				return triAnd(a, x.evalRow(y.Args[0]))
			case "Difference":
				if a == ord.False {
					return ord.False
				}
				return triAnd(a, triNot(x.evalRow(y.Args[0])))
			case "Union":
				if a == ord.True {
					return ord.True
				}
				return triOr(a, x.evalRow(y.Args[0]))
			}
		case recvNamed(fn, "fragment") && (fn.Name() == "rangeLTUnsigned" || fn.Name() == "rangeGTUnsigned") && len(y.Args) == 4:
			f := x.evalRow(y.Args[0])
			if f == ord.False {
				return ord.False
			}
			eq, ok := x.boolArg(y.Args[3])
			if !ok {
				break
			}
			var op token.Token
			switch {
			case fn.Name() == "rangeLTUnsigned" && eq:
				op = token.LEQ
			case fn.Name() == "rangeLTUnsigned":
				op = token.LSS
			case eq:
				op = token.GEQ
			default:
				op = token.GTR
			}
			return triAnd(f, x.absCmp(op, x.evalU(y.Args[2])))
		case recvNamed(fn, "fragment") && fn.Name() == "rangeBetweenUnsigned" && len(y.Args) == 4:
			f := x.evalRow(y.Args[0])
			if f == ord.False {
				return ord.False
			}
			return triAnd(f, triAnd(x.absCmp(token.GEQ, x.evalU(y.Args[2])), x.absCmp(token.LEQ, x.evalU(y.Args[3]))))
		}
	}
	x.unsup = "row expression outside the interpretable subset: " + types.ExprString(e)
	return ord.Unknown
}

func (x *c14Exec) cond(e ast.Expr) ord.Tri {
	switch y := ast.Unparen(e).(type) {
	case *ast.Ident:
		if b, ok := x.boolArg(y); ok {
			if b {
				return ord.True
			}
			return ord.False
		}
	case *ast.UnaryExpr:
		if y.Op == token.NOT {
			return triNot(x.cond(y.X))
		}
	case *ast.BinaryExpr:
		switch y.Op {
		case token.LAND:
			a := x.cond(y.X)
			if a == ord.False {
				return ord.False
			}
			return triAnd(a, x.cond(y.Y))
		case token.LOR:
			a := x.cond(y.X)
			if a == ord.True {
				return ord.True
			}
			return triOr(a, x.cond(y.Y))
		case token.LSS, token.LEQ, token.GTR, token.GEQ, token.EQL, token.NEQ:
			// err != nil: I/O faults are outside the property
			if id, ok := ast.Unparen(y.Y).(*ast.Ident); ok && id.Name == "nil" && flow.IsErrorType(x.info.TypeOf(y.X)) {
				if y.Op == token.NEQ {
					return ord.False
				}
				return ord.True
			}
			a, b := x.evalU(y.X), x.evalU(y.Y)
			if a.ok && b.ok && !a.neg && !b.neg {
				return x.o.Cmp(a.lin, y.Op, b.lin)
			}
		}
	}
	x.unsup = "condition outside the interpretable subset: " + types.ExprString(e)
	return ord.Unknown
}

// run returns the membership of the column in the returned row on every path.
func (x *c14Exec) run(list []ast.Stmt) (res []ord.Tri, fell bool) {
	for i, st := range list {
		switch s := st.(type) {
		case *ast.AssignStmt:
			if s.Tok != token.ASSIGN && s.Tok != token.DEFINE {
				x.unsup = "assignment operator"
				return nil, false
			}
			if len(s.Lhs) == 2 && len(s.Rhs) == 1 {
				if id, ok := s.Lhs[0].(*ast.Ident); ok {
					x.rows[x.info.ObjectOf(id)] = x.evalRow(s.Rhs[0])
				}
				continue
			}
			if len(s.Lhs) != len(s.Rhs) {
				x.unsup = "assignment shape"
				return nil, false
			}
			type upd struct {
				o types.Object
				u c14U
				r ord.Tri
				k int
			}
			var ups []upd
			for j, l := range s.Lhs {
				id, ok := l.(*ast.Ident)
				if !ok {
					x.unsup = "assignment target"
					return nil, false
				}
				o := x.info.ObjectOf(id)
				if o == nil {
					continue
				}
				if _, isPtr := o.Type().Underlying().(*types.Pointer); isPtr {
					ups = append(ups, upd{o: o, r: x.evalRow(s.Rhs[j]), k: 1})
				} else {
					ups = append(ups, upd{o: o, u: x.evalU(s.Rhs[j]), k: 2})
				}
			}
			for _, u := range ups {
				if u.k == 1 {
					x.rows[u.o] = u.r
				} else {
					x.ints[u.o] = u.u
				}
			}
		case *ast.IfStmt:
			if s.Init != nil {
				r1, f1 := x.run([]ast.Stmt{s.Init})
				if len(r1) > 0 || !f1 {
					return r1, f1
				}
			}
			c := x.cond(s.Cond)
			var out []ord.Tri
			fall := false
			branch := func(y *c14Exec, body []ast.Stmt) {
				rr, ff := y.run(append(append([]ast.Stmt{}, body...), list[i+1:]...))
				out = append(out, rr...)
				fall = fall || ff
				if y.unsup != "" && x.unsup == "" {
					x.unsup = y.unsup
				}
			}
			if c != ord.False {
				branch(x.clone(), s.Body.List)
			}
			if c != ord.True {
				var eb []ast.Stmt
				if s.Else != nil {
					eb = []ast.Stmt{s.Else}
				}
				branch(x.clone(), eb)
			}
			return out, fall
		case *ast.BlockStmt:
			rr, ff := x.run(append(append([]ast.Stmt{}, s.List...), list[i+1:]...))
			return rr, ff
		case *ast.ReturnStmt:
			if len(s.Results) == 0 {
				x.unsup = "bare return"
				return nil, false
			}
			if id, ok := ast.Unparen(s.Results[0]).(*ast.Ident); ok && id.Name == "nil" {
				return nil, false // error exit
			}
			return []ord.Tri{x.evalRow(s.Results[0])}, false
		case *ast.ExprStmt, *ast.EmptyStmt, *ast.DeclStmt:
		default:
			x.unsup = fmt.Sprintf("statement outside the interpretable subset (%T)", st)
			return nil, false
		}
		if x.unsup != "" {
			return nil, false
		}
	}
	return nil, true
}

func c14Dispatch(p *core.Program, r *core.Report) {
	pk := p.Pkg("")
	info := pk.TypesInfo
	consts := map[string]int64{}
	for _, n := range []string{"bsiExistsBit", "bsiSignBit"} {
		if c, ok := pk.Types.Scope().Lookup(n).(*types.Const); ok {
			v, _ := constant.Int64Val(constant.ToInt(c.Val()))
			consts[n] = v
		} else {
			r.Undecide("R1", "constants", "", n+" not found")
			return
		}
	}
	type spec struct {
		name  string
		terms []string
		// parameter roles in order after bitDepth
		preds  []string
		hasEq  bool
		oracle func(o ord.Ordering, eq bool) (ord.Tri, bool)
	}
	lin := func(t string) ord.Lin { return ord.Lin{Base: t} }
	specs := []spec{
		{"rangeLT", []string{"v", "p", "-1", "0", "1"}, []string{"p"}, true, func(o ord.Ordering, eq bool) (ord.Tri, bool) {
			if eq {
				return o.Cmp(lin("v"), token.LEQ, lin("p")), true
			}
			return o.Cmp(lin("v"), token.LSS, lin("p")), true
		}},
		{"rangeGT", []string{"v", "p", "-1", "0", "1"}, []string{"p"}, true, func(o ord.Ordering, eq bool) (ord.Tri, bool) {
			if eq {
				return o.Cmp(lin("v"), token.GEQ, lin("p")), true
			}
			return o.Cmp(lin("v"), token.GTR, lin("p")), true
		}},
		{"rangeBetween", []string{"v", "lo", "hi", "0"}, []string{"lo", "hi"}, false, func(o ord.Ordering, eq bool) (ord.Tri, bool) {
			if o.Cmp(lin("lo"), token.LEQ, lin("hi")) != ord.True {
				return ord.Unknown, false // precondition lo <= hi (established by baseValueBetween, R2)
			}
			return triAnd(o.Cmp(lin("lo"), token.LEQ, lin("v")), o.Cmp(lin("v"), token.LEQ, lin("hi"))), true
		}},
	}
	for _, sp := range specs {
		fd := core.FuncDecl(pk, "fragment", sp.name)
		construct := "(*fragment)." + sp.name
		if fd == nil {
			r.Undecide("R1", construct, "", "not found")
			continue
		}
		// parameters: bitDepth, predicates..., [allowEquality]
		var params []types.Object
		for _, fld := range fd.Type.Params.List {
			for _, nm := range fld.Names {
				params = append(params, info.Defs[nm])
			}
		}
		want := 1 + len(sp.preds)
		if sp.hasEq {
			want++
		}
		if len(params) != want {
			r.Undecide("R1", construct, p.Pos(fd.Pos()), "unexpected parameter list")
			continue
		}
		ords := ord.Orderings(sp.terms)
		n, bad, undec := 0, "", ""
		eqs := []bool{false}
		if sp.hasEq {
			eqs = []bool{false, true}
		}
		for _, o := range ords {
			for _, eq := range eqs {
				exp, ok := sp.oracle(o, eq)
				if !ok {
					continue
				}
				x := &c14Exec{info: info, o: o, v: "v", ints: map[types.Object]c14U{}, rows: map[types.Object]ord.Tri{}, bools: map[types.Object]bool{}, consts: consts}
				for i, t := range sp.preds {
					x.ints[params[1+i]] = c14U{lin: lin(t), ok: true}
				}
				if sp.hasEq {
					x.bools[params[len(params)-1]] = eq
				}
				res, _ := x.run(fd.Body.List)
				n++
				if x.unsup != "" {
					undec = x.unsup
					break
				}
				for _, got := range res {
					if got == ord.Unknown && undec == "" {
						undec = fmt.Sprintf("membership not determined for order type %s (allowEquality=%v): the code compares magnitudes of values with different signs", o, eq)
					} else if got != ord.Unknown && exp != ord.Unknown && got != exp && bad == "" {
						bad = fmt.Sprintf("order type %s, allowEquality=%v: a column holding v is in the result = %v, but the comparison it answers is %v", o, eq, got == ord.True, exp == ord.True)
					}
				}
			}
			if undec != "" && strings.HasPrefix(undec, "row") {
				break
			}
		}
		switch {
		case bad != "":
			r.Violate("R1", construct, p.Pos(fd.Pos()), bad)
		case undec != "":
			r.Undecide("R1", construct, p.Pos(fd.Pos()), undec)
		default:
			r.HoldAt("R1", construct, p.Pos(fd.Pos()), fmt.Sprintf("%d order type x equality cases, membership equals the signed comparison in each", n))
		}
		r.Count("R1 order-type cases", n)
	}
	// rangeOp maps operators to the functions above with the right equality flag
	if fd := core.FuncDecl(pk, "fragment", "rangeOp"); fd != nil {
		want := map[string][2]string{"EQ": {"rangeEQ", ""}, "NEQ": {"rangeNEQ", ""}, "LT": {"rangeLT", "LTE"}, "LTE": {"rangeLT", "LTE"}, "GT": {"rangeGT", "GTE"}, "GTE": {"rangeGT", "GTE"}}
		got := map[string][2]string{}
		ast.Inspect(fd.Body, func(n ast.Node) bool {
			cc, ok := n.(*ast.CaseClause)
			if !ok || len(cc.Body) != 1 {
				return true
			}
			ret, ok := cc.Body[0].(*ast.ReturnStmt)
			if !ok || len(ret.Results) != 1 {
				return true
			}
			call, ok := ast.Unparen(ret.Results[0]).(*ast.CallExpr)
			if !ok {
				return true
			}
			fn := core.CalleeOf(info, call)
			if fn == nil {
				return true
			}
			eqTok := ""
			if len(call.Args) == 3 {
				if be, ok := ast.Unparen(call.Args[2]).(*ast.BinaryExpr); ok && be.Op == token.EQL {
					if s, ok := ast.Unparen(be.Y).(*ast.SelectorExpr); ok {
						eqTok = s.Sel.Name
					}
				}
			}
			for _, e := range cc.List {
				if s, ok := ast.Unparen(e).(*ast.SelectorExpr); ok {
					got[s.Sel.Name] = [2]string{fn.Name(), eqTok}
				}
			}
			return true
		})
		ok := len(got) == len(want)
		for k, v := range want {
			if got[k] != v {
				ok = false
			}
		}
		r.Check(ok, "R1", "(*fragment).rangeOp table", p.Pos(fd.Pos()), "each operator reaches its range function; the inclusive variants pass equality", fmt.Sprintf("operator table is %v, expected %v: an operator is answered by the wrong range function or with the wrong strictness", got, want))
	} else {
		r.Undecide("R1", "(*fragment).rangeOp table", "", "not found")
	}
	// rangeNEQ is not-null minus rangeEQ
	if fd := core.FuncDecl(pk, "fragment", "rangeNEQ"); fd != nil {
		hasEQ, hasDiff := false, false
		ast.Inspect(fd.Body, func(n ast.Node) bool {
			if c, ok := n.(*ast.CallExpr); ok {
				if fn := core.CalleeOf(info, c); fn != nil {
					if fn.Name() == "rangeEQ" {
						hasEQ = true
					}
					if fn.Name() == "Difference" {
						hasDiff = true
					}
				}
			}
			return true
		})
		r.Check(hasEQ && hasDiff, "R1", "(*fragment).rangeNEQ", p.Pos(fd.Pos()), "not-null minus the equal columns", "rangeNEQ is no longer the not-null row minus rangeEQ")
	}
}

// ---------------------------------------------------------------- R2

func c14Saturation(p *core.Program, r *core.Report) {
	pk := p.Pkg("")
	info := pk.TypesInfo
	bv := core.FuncDecl(pk, "bsiGroup", "baseValue")
	ra := core.FuncDecl(pk, "bsiGroup", "rangeAll")
	bb := core.FuncDecl(pk, "bsiGroup", "baseValueBetween")
	if bv == nil || bb == nil {
		r.Undecide("R2", "(*bsiGroup).baseValue", "", "not found")
		return
	}
	pqlPkg := p.Pkg("pql")
	tok := func(name string) (int64, bool) {
		if pqlPkg == nil {
			return 0, false
		}
		if c, ok := pqlPkg.Types.Scope().Lookup(name).(*types.Const); ok {
			v, ok := constant.Int64Val(constant.ToInt(c.Val()))
			return v, ok
		}
		return 0, false
	}
	term := func(e ast.Expr) string {
		switch x := ast.Unparen(e).(type) {
		case *ast.SelectorExpr:
			if id, ok := ast.Unparen(x.X).(*ast.Ident); ok && core.IsNamed(info.TypeOf(id), core.ModPath, "bsiGroup") {
				switch x.Sel.Name {
				case "Base", "Min", "Max":
					return x.Sel.Name
				}
			}
		case *ast.CallExpr:
			if fn := core.CalleeOf(info, x); fn != nil && recvNamed(fn, "bsiGroup") {
				switch fn.Name() {
				case "bitDepthMin":
					return "dmin"
				case "bitDepthMax":
					return "dmax"
				}
			}
		}
		return ""
	}
	paramObjs := func(fd *ast.FuncDecl) []types.Object {
		var out []types.Object
		for _, fld := range fd.Type.Params.List {
			for _, nm := range fld.Names {
				out = append(out, info.Defs[nm])
			}
		}
		return out
	}
	resultObjs := func(fd *ast.FuncDecl) []types.Object {
		var out []types.Object
		if fd.Type.Results != nil {
			for _, fld := range fd.Type.Results.List {
				for _, nm := range fld.Names {
					out = append(out, info.Defs[nm])
				}
			}
		}
		return out
	}
	L := func(t string) ord.Lin { return ord.Lin{Base: t} }
	// orderings consistent with the data model
	all := ord.Orderings([]string{"value", "v", "dmin", "dmax", "Min", "Max", "Base"})
	var ords []ord.Ordering
	for _, o := range all {
		okc := o.Cmp(L("dmin"), token.LEQ, L("Base")) == ord.True && o.Cmp(L("Base"), token.LEQ, L("dmax")) == ord.True &&
			o.Cmp(L("Min"), token.LEQ, L("Max")) == ord.True &&
			o.Cmp(L("dmin"), token.LEQ, L("v")) == ord.True && o.Cmp(L("v"), token.LEQ, L("dmax")) == ord.True &&
			o.Cmp(L("Min"), token.LEQ, L("v")) == ord.True && o.Cmp(L("v"), token.LEQ, L("Max")) == ord.True
		if okc {
			ords = append(ords, o)
		}
	}
	r.Count("R2 order types", len(ords))
	type opSpec struct {
		name string
		cmp  token.Token
	}
	ops := []opSpec{{"LT", token.LSS}, {"LTE", token.LEQ}, {"GT", token.GTR}, {"GTE", token.GEQ}, {"EQ", token.EQL}, {"NEQ", token.NEQ}}
	// runBaseValue: (base value in unshifted coordinates, outOfRange) per path
	type bvRes struct {
		val ord.Lin
		oor ord.Tri
	}
	bvParams, bvResults := paramObjs(bv), resultObjs(bv)
	runBaseValue := func(o ord.Ordering, opv int64, value ord.Lin) ([]bvRes, string) {
		if len(bvParams) != 2 || len(bvResults) != 2 {
			return nil, "unexpected signature of baseValue"
		}
		in := &ord.Interp{Info: info, O: o, Term: term, Shift: "Base"}
		env := map[types.Object]ord.Lin{bvParams[0]: {Off: opv}, bvParams[1]: value, bvResults[0]: L("Base")}
		paths := in.Run(bv.Body.List, env)
		if in.Unsupported != "" {
			return nil, in.Unsupported
		}
		var out []bvRes
		for _, pa := range paths {
			if pa.End != ord.EndReturn || len(pa.Ret) != 2 {
				return nil, "baseValue path without a two-value return"
			}
			val, ok := in.Lin(pa.Ret[0], pa.Env)
			if !ok {
				return nil, "base value not a term: " + types.ExprString(pa.Ret[0])
			}
			oor := ord.Unknown
			if id, ok := ast.Unparen(pa.Ret[1]).(*ast.Ident); ok && (id.Name == "true" || id.Name == "false") {
				oor = ord.False
				if id.Name == "true" {
					oor = ord.True
				}
			}
			if oor == ord.Unknown {
				return nil, "outOfRange result is not a literal"
			}
			out = append(out, bvRes{val, oor})
		}
		return out, ""
	}
	runAll := func(o ord.Ordering, opv int64, value ord.Lin) (ord.Tri, string) {
		if ra == nil {
			return ord.False, ""
		}
		ps := paramObjs(ra)
		if len(ps) != 2 {
			return ord.Unknown, "unexpected signature of rangeAll"
		}
		in := &ord.Interp{Info: info, O: o, Term: term}
		paths := in.Run(ra.Body.List, map[types.Object]ord.Lin{ps[0]: {Off: opv}, ps[1]: value})
		if in.Unsupported != "" {
			return ord.Unknown, in.Unsupported
		}
		res := ord.Tri(-1)
		for _, pa := range paths {
			if pa.End != ord.EndReturn || len(pa.Ret) != 1 {
				return ord.Unknown, "rangeAll path without a return"
			}
			var t ord.Tri
			if id, ok := ast.Unparen(pa.Ret[0]).(*ast.Ident); ok && (id.Name == "true" || id.Name == "false") {
				t = ord.False
				if id.Name == "true" {
					t = ord.True
				}
			} else {
				t = in.Cond(pa.Ret[0], pa.Env)
				if in.Unsupported != "" {
					return ord.Unknown, in.Unsupported
				}
			}
			if res == ord.Tri(-1) {
				res = t
			} else if res != t {
				return ord.Unknown, ""
			}
		}
		return res, ""
	}
	for _, op := range ops {
		construct := "range protocol, operator " + op.name
		opv, ok := tok(op.name)
		if !ok {
			r.Undecide("R2", construct, "", "pql token not found")
			continue
		}
		gte, _ := tok("GTE")
		bad, undec := "", ""
		n := 0
		for _, o := range ords {
			exp := o.Cmp(L("v"), op.cmp, L("value"))
			if exp == ord.Unknown {
				continue
			}
			allT, why := runAll(o, opv, L("value"))
			if why != "" {
				undec = why
				break
			}
			res, why := runBaseValue(o, opv, L("value"))
			if why != "" {
				undec = why
				break
			}
			for _, b := range res {
				n++
				var got ord.Tri
				how := ""
				switch {
				case b.oor == ord.True && op.name != "NEQ":
					got, how = ord.False, "out of range -> no columns"
				case allT == ord.True:
					got, how = ord.True, "rangeAll -> all not-null columns"
				case b.oor == ord.True:
					got, how = ord.True, "out of range, != -> all not-null columns"
				case allT == ord.Unknown:
					got, how = ord.Unknown, "rangeAll undetermined"
				default:
					got, how = o.Cmp(L("v"), op.cmp, b.val), fmt.Sprintf("rangeOp(%s, %s-Base)", op.name, b.val)
				}
				if got == ord.Unknown {
					if undec == "" {
						undec = fmt.Sprintf("order type %s: %s not determined", o, how)
					}
					continue
				}
				if how[0] == 'r' && how[5] == 'O' && (o.Cmp(L("dmin"), token.LEQ, b.val) != ord.True || o.Cmp(b.val, token.LEQ, L("dmax")) != ord.True) && bad == "" {
					bad = fmt.Sprintf("order type %s: %s is given a base value outside what the bit depth can represent; the bit-plane comparison reads only its low bitDepth bits and so compares with a different number", o, how)
				}
				if got != exp && bad == "" {
					bad = fmt.Sprintf("order type %s: protocol answers via %s, so a stored value v is selected = %v, but v %s value is %v", o, how, got == ord.True, op.cmp, exp == ord.True)
				}
				// Field.Range's variant: rangeAll -> (GTE, lowest representable value)
				if allT == ord.True {
					res2, why := runBaseValue(o, gte, L("dmin"))
					if why != "" {
						undec = why
						continue
					}
					for _, b2 := range res2 {
						g2 := ord.False
						if b2.oor == ord.False {
							g2 = o.Cmp(L("v"), token.GEQ, b2.val)
						}
						if g2 != ord.True && bad == "" {
							bad = fmt.Sprintf("order type %s: after rangeAll, baseValue(GTE, lowest representable) gives (%s-Base, outOfRange=%v), which does not select every stored value", o, b2.val, b2.oor == ord.True)
						}
					}
				}
			}
		}
		switch {
		case bad != "":
			r.Violate("R2", construct, p.Pos(bv.Pos()), bad)
		case undec != "":
			r.Undecide("R2", construct, p.Pos(bv.Pos()), undec)
		default:
			r.HoldAt("R2", construct, p.Pos(bv.Pos()), fmt.Sprintf("%d (order type, path) cases: the protocol selects exactly the stored values satisfying the comparison", n))
		}
	}
	// between
	{
		construct := "range protocol, between"
		all := ord.Orderings([]string{"lo", "hi", "v", "dmin", "dmax", "Base"})
		ps, rs := paramObjs(bb), resultObjs(bb)
		bad, undec := "", ""
		n := 0
		if len(ps) != 2 {
			undec = "unexpected signature of baseValueBetween"
		}
		for _, o := range all {
			if undec != "" {
				break
			}
			if !(o.Cmp(L("dmin"), token.LEQ, L("Base")) == ord.True && o.Cmp(L("Base"), token.LEQ, L("dmax")) == ord.True && o.Cmp(L("dmin"), token.LEQ, L("v")) == ord.True && o.Cmp(L("v"), token.LEQ, L("dmax")) == ord.True) {
				continue
			}
			exp := triAnd(o.Cmp(L("lo"), token.LEQ, L("v")), o.Cmp(L("v"), token.LEQ, L("hi")))
			in := &ord.Interp{Info: info, O: o, Term: term, Shift: "Base"}
			env := map[types.Object]ord.Lin{ps[0]: L("lo"), ps[1]: L("hi")}
			for _, ro := range rs {
				env[ro] = L("Base")
			}
			paths := in.Run(bb.Body.List, env)
			if in.Unsupported != "" {
				undec = in.Unsupported
				break
			}
			for _, pa := range paths {
				if pa.End != ord.EndReturn || len(pa.Ret) != 3 {
					undec = "baseValueBetween path without a three-value return"
					break
				}
				n++
				oor := false
				if id, ok := ast.Unparen(pa.Ret[2]).(*ast.Ident); ok && id.Name == "true" {
					oor = true
				} else if !ok || id.Name != "false" {
					undec = "outOfRange result is not a literal"
					break
				}
				if oor {
					if exp == ord.True && bad == "" {
						bad = fmt.Sprintf("order type %s: reported out of range although lo <= v <= hi holds for a stored value", o)
					}
					continue
				}
				// in coordinates shifted by Base; constants 0 are only returned with outOfRange
				a, ok1 := in.Lin(pa.Ret[0], pa.Env)
				b, ok2 := in.Lin(pa.Ret[1], pa.Env)
				if !ok1 || !ok2 {
					undec = "between bounds are not terms"
					break
				}
				if o.Cmp(a, token.LEQ, b) != ord.True && bad == "" {
					bad = fmt.Sprintf("order type %s: hands rangeBetween the reversed interval [%s, %s]", o, a, b)
				}
				// the plane comparisons read only bitDepth bits of a bound: it must be representable
				for _, bd := range []ord.Lin{a, b} {
					if (o.Cmp(L("dmin"), token.LEQ, bd) != ord.True || o.Cmp(bd, token.LEQ, L("dmax")) != ord.True) && bad == "" {
						bad = fmt.Sprintf("order type %s: hands rangeBetween the bound %s-Base, which lies outside what the bit depth can represent; the bit-plane comparison reads only its low bitDepth bits and so compares with a different number", o, bd)
					}
				}
				got := triAnd(o.Cmp(a, token.LEQ, L("v")), o.Cmp(L("v"), token.LEQ, b))
				if got != ord.Unknown && exp != ord.Unknown && got != exp && bad == "" {
					bad = fmt.Sprintf("order type %s: rangeBetween(%s, %s) selects a stored value = %v, but lo <= v <= hi is %v", o, a, b, got == ord.True, exp == ord.True)
				}
			}
		}
		switch {
		case bad != "":
			r.Violate("R2", construct, p.Pos(bb.Pos()), bad)
		case undec != "":
			r.Undecide("R2", construct, p.Pos(bb.Pos()), undec)
		default:
			r.HoldAt("R2", construct, p.Pos(bb.Pos()), fmt.Sprintf("%d (order type, path) cases", n))
		}
	}
}

// c14Protocol: callers follow the protocol R2 assumes.
func c14Protocol(p *core.Program, r *core.Report) {
	pk := p.Pkg("")
	info := pk.TypesInfo
	const (
		bOorT flow.State = 1 << iota
		bOorF
		bAllF
		bNeqT
		bNeqF
		bBase
	)
	for _, fn := range [][2]string{{"executor", "executeRowBSIGroupShard"}, {"Field", "Range"}} {
		fd := core.FuncDecl(pk, fn[0], fn[1])
		construct := "(*" + fn[0] + ")." + fn[1] + " protocol"
		if fd == nil {
			r.Undecide("R2", construct, "", "not found")
			continue
		}
		// the outOfRange variable: second result of the baseValue call
		var oorObj types.Object
		ast.Inspect(fd.Body, func(n ast.Node) bool {
			if as, ok := n.(*ast.AssignStmt); ok && len(as.Lhs) == 2 && len(as.Rhs) == 1 {
				if c, ok := ast.Unparen(as.Rhs[0]).(*ast.CallExpr); ok {
					if g := core.CalleeOf(info, c); g != nil && g.Name() == "baseValue" && recvNamed(g, "bsiGroup") {
						if id, ok := as.Lhs[1].(*ast.Ident); ok {
							oorObj = info.ObjectOf(id)
						}
					}
				}
			}
			return true
		})
		if oorObj == nil {
			r.Violate("R2", construct, p.Pos(fd.Pos()), "no call of bsiGroup.baseValue whose outOfRange result is kept")
			continue
		}
		var bad []string
		nSinks := 0
		h := flow.Hooks{Info: info}
		h.Atom = func(n ast.Node, s flow.State) []flow.State {
			switch x := n.(type) {
			case *ast.AssignStmt:
				if len(x.Rhs) == 1 {
					if c, ok := ast.Unparen(x.Rhs[0]).(*ast.CallExpr); ok {
						if g := core.CalleeOf(info, c); g != nil && g.Name() == "baseValue" && recvNamed(g, "bsiGroup") {
							return []flow.State{(s | bBase) &^ (bOorT | bOorF)}
						}
					}
				}
			case *ast.CallExpr:
				g := core.CalleeOf(info, x)
				if g != nil && g.Name() == "rangeOp" && (recvNamed(g, "fragment") || recvNamed(g, "view")) {
					nSinks++
					if s&bBase == 0 {
						bad = append(bad, p.Pos(x.Pos())+": rangeOp reached without baseValue")
					} else if s&bOorF == 0 {
						bad = append(bad, p.Pos(x.Pos())+": rangeOp reached on a path where outOfRange was not tested false")
					}
					if fn[1] == "executeRowBSIGroupShard" && s&bAllF == 0 {
						bad = append(bad, p.Pos(x.Pos())+": rangeOp reached on a path where rangeAll was not tested false")
					}
				}
			}
			return []flow.State{s}
		}
		h.Refine = func(cond ast.Expr, taken bool, s flow.State) (flow.State, bool) {
			c := ast.Unparen(cond)
			if id, ok := c.(*ast.Ident); ok && info.ObjectOf(id) == oorObj {
				if taken {
					if s&bOorF != 0 {
						return s, false
					}
					return s | bOorT, true
				}
				if s&bOorT != 0 {
					return s, false
				}
				return s | bOorF, true
			}
			if call, ok := c.(*ast.CallExpr); ok {
				if g := core.CalleeOf(info, call); g != nil && g.Name() == "rangeAll" && recvNamed(g, "bsiGroup") && !taken {
					return s | bAllF, true
				}
			}
			if be, ok := c.(*ast.BinaryExpr); ok && (be.Op == token.EQL || be.Op == token.NEQ) {
				if sel, ok := ast.Unparen(be.Y).(*ast.SelectorExpr); ok && sel.Sel.Name == "NEQ" {
					isNeq := (be.Op == token.EQL) == taken
					if isNeq {
						if s&bNeqF != 0 {
							return s, false
						}
						return s | bNeqT, true
					}
					if s&bNeqT != 0 {
						return s, false
					}
					return s | bNeqF, true
				}
			}
			return s, true
		}
		it := flow.Run(h, fd.Body, 0)
		// Field.Range: rangeAll must be consulted before baseValue
		if fn[1] == "Range" {
			posAll, posBase := token.NoPos, token.NoPos
			ast.Inspect(fd.Body, func(n ast.Node) bool {
				if c, ok := n.(*ast.CallExpr); ok {
					if g := core.CalleeOf(info, c); g != nil && recvNamed(g, "bsiGroup") {
						if g.Name() == "rangeAll" && !posAll.IsValid() {
							posAll = c.Pos()
						}
						if g.Name() == "baseValue" && !posBase.IsValid() {
							posBase = c.Pos()
						}
					}
				}
				return true
			})
			if !posAll.IsValid() || posAll > posBase {
				bad = append(bad, p.Pos(fd.Pos())+": rangeAll is not consulted before baseValue")
			}
		}
		switch {
		case it.Unsupported != "":
			r.Undecide("R2", construct, p.Pos(fd.Pos()), it.Unsupported)
		case len(bad) > 0:
			sort.Strings(bad)
			r.Violate("R2", construct, p.Pos(fd.Pos()), strings.Join(bad, "; ")+" -- the saturated base value would be compared with the wrong strictness, or an out-of-range predicate evaluated as if it were in range")
		case nSinks == 0:
			r.Violate("R2", construct, p.Pos(fd.Pos()), "no rangeOp call found")
		default:
			r.HoldAt("R2", construct, p.Pos(fd.Pos()), "every path to rangeOp passed baseValue, outOfRange == false and the rangeAll shortcut")
		}
	}
}

// ---------------------------------------------------------------- R3

func c14Aggregates(p *core.Program, r *core.Report) {
	pk := p.Pkg("")
	info := pk.TypesInfo
	for _, name := range []string{"sum", "min", "max"} {
		fd := core.FuncDecl(pk, "fragment", name)
		construct := "(*fragment)." + name
		if fd == nil {
			r.Undecide("R3", construct, "", "not found")
			continue
		}
		// the filter parameter
		var filter types.Object
		for _, fld := range fd.Type.Params.List {
			for _, nm := range fld.Names {
				if o := info.Defs[nm]; o != nil && core.IsNamed(o.Type(), core.ModPath, "Row") {
					filter = o
				}
			}
		}
		if filter == nil {
			r.Undecide("R3", construct, p.Pos(fd.Pos()), "no *Row filter parameter")
			continue
		}
		// derived variables: flow-insensitive, but a variable is derived only if
		// every assignment to it is
		assigns := map[types.Object][]ast.Expr{}
		ast.Inspect(fd.Body, func(n ast.Node) bool {
			if as, ok := n.(*ast.AssignStmt); ok && len(as.Lhs) == len(as.Rhs) {
				for i, l := range as.Lhs {
					if id, ok := ast.Unparen(l).(*ast.Ident); ok {
						if o := info.ObjectOf(id); o != nil && core.IsNamed(o.Type(), core.ModPath, "Row") {
							assigns[o] = append(assigns[o], as.Rhs[i])
						}
					}
				}
			}
			return true
		})
		// "consider": assigned X.Intersect(filter) under `filter != nil`, otherwise the exists row
		derived := map[types.Object]bool{}
		var isDerived func(e ast.Expr, depth int) bool
		isDerived = func(e ast.Expr, depth int) bool {
			if depth > 8 {
				return false
			}
			switch x := ast.Unparen(e).(type) {
			case *ast.Ident:
				return derived[info.ObjectOf(x)]
			case *ast.CallExpr:
				fn := core.CalleeOf(info, x)
				sel, _ := ast.Unparen(x.Fun).(*ast.SelectorExpr)
				if fn == nil || sel == nil || !recvNamed(fn, "Row") || len(x.Args) != 1 {
					return false
				}
				switch fn.Name() {
				case "Intersect":
					return isDerived(sel.X, depth+1) || isDerived(x.Args[0], depth+1)
				case "Difference":
					return isDerived(sel.X, depth+1)
				}
			}
			return false
		}
		// seed: a variable with one assignment `v = v.Intersect(filter)` (or Intersect with filter on either side)
		for o, rhss := range assigns {
			for _, rhs := range rhss {
				if c, ok := ast.Unparen(rhs).(*ast.CallExpr); ok {
					if fn := core.CalleeOf(info, c); fn != nil && fn.Name() == "Intersect" && recvNamed(fn, "Row") && len(c.Args) == 1 {
						sel, _ := ast.Unparen(c.Fun).(*ast.SelectorExpr)
						isF := func(e ast.Expr) bool {
							id, ok := ast.Unparen(e).(*ast.Ident)
							return ok && info.ObjectOf(id) == filter
						}
						if sel != nil && (isF(c.Args[0]) || isF(sel.X)) {
							derived[o] = true
						}
					}
				}
			}
		}
		if len(derived) == 0 {
			r.Violate("R3", construct, p.Pos(fd.Pos()), "the filter is never intersected into the rows being aggregated")
			continue
		}
		for changed := true; changed; {
			changed = false
			for o, rhss := range assigns {
				if derived[o] {
					continue
				}
				all := len(rhss) > 0
				for _, rhs := range rhss {
					if !isDerived(rhs, 0) {
						all = false
					}
				}
				if all {
					derived[o] = true
					changed = true
				}
			}
		}
		var bad []string
		nSinks := 0
		ast.Inspect(fd.Body, func(n ast.Node) bool {
			c, ok := n.(*ast.CallExpr)
			if !ok {
				return true
			}
			fn := core.CalleeOf(info, c)
			if fn == nil {
				return true
			}
			sel, _ := ast.Unparen(c.Fun).(*ast.SelectorExpr)
			switch {
			case recvNamed(fn, "Row") && sel != nil && (fn.Name() == "Count" || fn.Name() == "Any"):
				nSinks++
				if !isDerived(sel.X, 0) {
					bad = append(bad, p.Pos(c.Pos())+": "+types.ExprString(c))
				}
			case recvNamed(fn, "Row") && sel != nil && fn.Name() == "intersectionCount" && len(c.Args) == 1:
				nSinks++
				if !isDerived(sel.X, 0) && !isDerived(c.Args[0], 0) {
					bad = append(bad, p.Pos(c.Pos())+": "+types.ExprString(c))
				}
			case recvNamed(fn, "fragment") && (fn.Name() == "minUnsigned" || fn.Name() == "maxUnsigned") && len(c.Args) >= 1:
				nSinks++
				if !isDerived(c.Args[0], 0) {
					bad = append(bad, p.Pos(c.Pos())+": "+types.ExprString(c))
				}
			}
			return true
		})
		if len(bad) > 0 {
			r.Violate("R3", construct, p.Pos(fd.Pos()), "rows that do not go through the filter feed the aggregate: "+strings.Join(bad, "; ")+" -- values of columns outside the filter are counted")
		} else {
			r.HoldAt("R3", construct, p.Pos(fd.Pos()), fmt.Sprintf("%d aggregate inputs, each derived from the filtered not-null row", nSinks))
		}
		r.Count("R3 aggregate inputs", nSinks)
	}
}

// ---------------------------------------------------------------- R4

func c14Depth(p *core.Program, r *core.Report) {
	pk := p.Pkg("")
	info := pk.TypesInfo
	targets := map[string]int{ // callee -> index of the bitDepth argument
		"(*fragment).importValue": 2, "(*view).setValue": 1, "(*view).value": 1, "(*view).sum": 1, "(*view).min": 1, "(*view).max": 1, "(*view).rangeOp": 1,
	}
	n := 0
	for _, fd := range core.AllFuncDecls(pk) {
		if fd.Body == nil || core.RecvName(fd) != "Field" || strings.HasSuffix(p.Fset.Position(fd.Pos()).Filename, "_test.go") {
			continue
		}
		ast.Inspect(fd.Body, func(nd ast.Node) bool {
			c, ok := nd.(*ast.CallExpr)
			if !ok {
				return true
			}
			fn := core.CalleeOf(info, c)
			if fn == nil {
				return true
			}
			key := ""
			for k := range targets {
				if strings.HasSuffix(k, "."+fn.Name()) && recvNamed(fn, strings.TrimSuffix(strings.TrimPrefix(k, "(*"), ")."+fn.Name())) {
					key = k
				}
			}
			if key == "" || targets[key] >= len(c.Args) {
				return true
			}
			n++
			arg := ast.Unparen(c.Args[targets[key]])
			ok2 := false
			if sel, isSel := arg.(*ast.SelectorExpr); isSel && sel.Sel.Name == "BitDepth" && core.IsNamed(info.TypeOf(sel.X), core.ModPath, "bsiGroup") {
				ok2 = true
			}
			construct := fmt.Sprintf("%s -> %s", core.FuncName(fd), key)
			r.Check(ok2, "R4", construct, p.Pos(c.Pos()), "passes bsiGroup.BitDepth", "passes "+types.ExprString(arg)+" as the bit depth instead of the field's current depth: bits above it are neither written nor read, so an overwrite with a smaller value keeps the old high bits (or a read drops them)")
			return true
		})
	}
	r.Floor("C14/R4 calls from Field into the BSI layer", n, 7)
}

// ---------------------------------------------------------------- R5

func c14Planes(p *core.Program, r *core.Report) {
	pk := p.Pkg("")
	info := pk.TypesInfo
	const (
		bE flow.State = 1 << iota
		bS
		bV
		bErr
	)
	mentions := func(e ast.Expr, name string) bool {
		hit := false
		ast.Inspect(e, func(n ast.Node) bool {
			if id, ok := n.(*ast.Ident); ok {
				if c, ok := info.ObjectOf(id).(*types.Const); ok && c.Name() == name && c.Pkg() == pk.Types {
					hit = true
				}
			}
			return true
		})
		return hit
	}
	for _, name := range []string{"positionsForValue", "setValueBase", "importSetValue"} {
		fd := core.FuncDecl(pk, "fragment", name)
		construct := "(*fragment)." + name + " planes"
		if fd == nil {
			r.Undecide("R5", construct, "", "not found")
			continue
		}
		var bad []string
		h := flow.Hooks{Info: info}
		h.Atom = func(n ast.Node, s flow.State) []flow.State {
			c, ok := n.(*ast.CallExpr)
			if !ok {
				return []flow.State{s}
			}
			fn := core.CalleeOf(info, c)
			if fn == nil || !recvNamed(fn, "fragment") {
				return []flow.State{s}
			}
			switch fn.Name() {
			case "pos", "unprotectedSetBit", "unprotectedClearBit":
			default:
				return []flow.State{s}
			}
			if len(c.Args) < 1 {
				return []flow.State{s}
			}
			switch {
			case mentions(c.Args[0], "bsiExistsBit"):
				s |= bE
			case mentions(c.Args[0], "bsiSignBit"):
				s |= bS
			case mentions(c.Args[0], "bsiOffsetBit"):
				s |= bV
			}
			return []flow.State{s}
		}
		h.Refine = func(cond ast.Expr, taken bool, s flow.State) (flow.State, bool) {
			if o, neq, ok := flow.IsErrNilTest(info, ast.Unparen(cond)); ok && o != nil {
				if neq == taken {
					return s | bErr, true
				}
				return s &^ bErr, true
			}
			return s, true
		}
		// the value loop runs bitDepth times; a depth of zero has no value rows
		h.Return = func(ret *ast.ReturnStmt, s flow.State) {
			if s&bErr != 0 {
				return
			}
			var miss []string
			if s&bE == 0 {
				miss = append(miss, "not-null row")
			}
			if s&bS == 0 {
				miss = append(miss, "sign row")
			}
			if s&bV == 0 {
				miss = append(miss, "value rows")
			}
			if len(miss) > 0 {
				pos := fd.End()
				if ret != nil {
					pos = ret.Pos()
				}
				bad = append(bad, p.Pos(pos)+": returns without handling the "+strings.Join(miss, ", "))
			}
		}
		h.RangeAtLeastOnce = func(*ast.RangeStmt) bool { return true }
		it := flow.Run(h, fd.Body, 0)
		// for-loops over the bit depth: the zero-iteration path carries no value rows by
		// construction; accept it when the loop exists at all
		hasLoop := false
		ast.Inspect(fd.Body, func(n ast.Node) bool {
			if fs, ok := n.(*ast.ForStmt); ok {
				ast.Inspect(fs.Body, func(m ast.Node) bool {
					if c, ok := m.(*ast.CallExpr); ok && len(c.Args) > 0 && mentions(c.Args[0], "bsiOffsetBit") {
						hasLoop = true
					}
					return true
				})
			}
			return true
		})
		var real []string
		for _, b := range dedupe(bad) {
			if hasLoop && strings.HasSuffix(b, "handling the value rows") {
				// only the zero-iteration path of the value loop
				continue
			}
			real = append(real, b)
		}
		switch {
		case it.Unsupported != "":
			r.Undecide("R5", construct, p.Pos(fd.Pos()), it.Unsupported)
		case !hasLoop:
			r.Violate("R5", construct, p.Pos(fd.Pos()), "no loop over the value rows (bsiOffsetBit+i)")
		case len(real) > 0:
			r.Violate("R5", construct, p.Pos(fd.Pos()), strings.Join(real, "; ")+" -- the planes left behind are combined unmasked by the range readers (rangeLT unions the sign row), so a cleared or overwritten column still matches")
		default:
			r.HoldAt("R5", construct, p.Pos(fd.Pos()), "every non-error return follows the not-null row, the sign row and the value-row loop")
		}
	}
}
