package props

import (
	"go/ast"
	"go/constant"
	"go/token"
	"go/types"
	"sort"
	"strings"

	"verif/checker/core"
)

func init() { register("C18", c18) }

// foldString constant-folds a string expression: literals, constants, locals
// with a single foldable assignment in fn, and slices with constant bounds.
func foldString(info *types.Info, fn *ast.FuncDecl, e ast.Expr, depth int) (string, bool) {
	if depth > 6 {
		return "", false
	}
	if tv, ok := info.Types[e]; ok && tv.Value != nil && tv.Value.Kind() == constant.String {
		return constant.StringVal(tv.Value), true
	}
	switch x := ast.Unparen(e).(type) {
	case *ast.Ident:
		obj := info.ObjectOf(x)
		var defs []ast.Expr
		bad := false
		ast.Inspect(fn.Body, func(n ast.Node) bool {
			switch s := n.(type) {
			case *ast.AssignStmt:
				for i, l := range s.Lhs {
					if id, ok := l.(*ast.Ident); ok && info.ObjectOf(id) == obj {
						if len(s.Lhs) == len(s.Rhs) {
							defs = append(defs, s.Rhs[i])
						} else {
							bad = true
						}
					}
				}
			case *ast.ValueSpec:
				for i, nm := range s.Names {
					if info.ObjectOf(nm) == obj && i < len(s.Values) {
						defs = append(defs, s.Values[i])
					}
				}
			}
			return true
		})
		if bad || len(defs) != 1 {
			return "", false
		}
		return foldString(info, fn, defs[0], depth+1)
	case *ast.SliceExpr:
		base, ok := foldString(info, fn, x.X, depth+1)
		if !ok {
			return "", false
		}
		lo, hi := 0, len(base)
		if x.Low != nil {
			tv, ok := info.Types[x.Low]
			if !ok || tv.Value == nil {
				return "", false
			}
			v, _ := constant.Int64Val(tv.Value)
			lo = int(v)
		}
		if x.High != nil {
			tv, ok := info.Types[x.High]
			if !ok || tv.Value == nil {
				return "", false
			}
			v, _ := constant.Int64Val(tv.Value)
			hi = int(v)
		}
		if lo < 0 || hi > len(base) || lo > hi {
			return "", false
		}
		return base[lo:hi], true
	}
	return "", false
}

func allDigits(s string) bool {
	if s == "" {
		return false
	}
	for _, c := range s {
		if c < '0' || c > '9' {
			return false
		}
	}
	return true
}

func c18(p *core.Program, r *core.Report) {
	r.Rule("R1", "view-name layout agreement: the set of compact (digits-only) reference-time layouts passed to time.Time.Format in package pilosa (the writers of time-view names) equals the set passed to time.Parse (the readers), after constant folding of local strings and constant slices; and a switch on len(<time part>) in a reader covers exactly the lengths the writers produce")
	r.NotDecided = "that viewsByTimeRange yields a disjoint exact cover of every aligned range (calendar arithmetic on runtime values)"
	pk := p.Pkg("")
	if pk == nil {
		r.Undecide("R1", "package pilosa", "", "not loaded")
		return
	}
	info := pk.TypesInfo
	writers, readers := map[string]string{}, map[string]string{}
	var readerFns []*ast.FuncDecl
	for _, fd := range core.AllFuncDecls(pk) {
		if fd.Body == nil {
			continue
		}
		isReader := false
		ast.Inspect(fd.Body, func(n ast.Node) bool {
			c, ok := n.(*ast.CallExpr)
			if !ok {
				return true
			}
			fn := core.CalleeOf(info, c)
			if fn == nil || fn.Pkg() == nil || fn.Pkg().Path() != "time" {
				return true
			}
			switch {
			case fn.Name() == "Format" && recvNamed(fn, "Time") && len(c.Args) == 1:
				if s, ok := foldString(info, fd, c.Args[0], 0); ok && allDigits(s) {
					writers[s] = core.FuncName(fd) + " at " + p.Pos(c.Pos())
				} else if !ok {
					r.Undecide("R1", core.FuncName(fd)+" Format layout", p.Pos(c.Pos()), "layout is not a foldable constant")
				}
			case fn.Name() == "Parse" && len(c.Args) == 2:
				if s, ok := foldString(info, fd, c.Args[0], 0); ok && allDigits(s) {
					readers[s] = core.FuncName(fd) + " at " + p.Pos(c.Pos())
					isReader = true
				} else if !ok {
					r.Undecide("R1", core.FuncName(fd)+" Parse layout", p.Pos(c.Pos()), "layout is not a foldable constant")
				}
			}
			return true
		})
		if isReader {
			readerFns = append(readerFns, fd)
		}
	}
	r.Floor("C18/R1 compact layouts written", len(writers), 4)
	r.Floor("C18/R1 compact layouts parsed", len(readers), 4)
	var ws []string
	for w := range writers {
		ws = append(ws, w)
	}
	sort.Strings(ws)
	for _, w := range ws {
		if _, ok := readers[w]; ok {
			r.Hold("R1", "layout "+w, "written by "+writers[w]+", parsed by "+readers[w])
		} else {
			r.Violate("R1", "layout "+w, strings.TrimPrefix(writers[w][strings.LastIndex(writers[w], " at ")+4:], ""), "view names are written with layout "+w+" ("+writers[w]+") but no reader parses that layout: such views cannot be mapped back to their interval")
		}
	}
	for rd, where := range readers {
		if _, ok := writers[rd]; !ok {
			r.Violate("R1", "layout "+rd, where[strings.LastIndex(where, " at ")+4:], "views are parsed with layout "+rd+" ("+where+") which no writer produces (e.g. 03 is the 12-hour clock: hours 13-23 are rejected)")
		}
	}
	// length switch
	lens := map[int]bool{}
	for w := range writers {
		lens[len(w)] = true
	}
	for _, fd := range readerFns {
		ast.Inspect(fd.Body, func(n ast.Node) bool {
			sw, ok := n.(*ast.SwitchStmt)
			if !ok || sw.Tag == nil {
				return true
			}
			c, ok := ast.Unparen(sw.Tag).(*ast.CallExpr)
			if !ok || core.BuiltinName(info, c) != "len" {
				return true
			}
			got := map[int]bool{}
			for _, cl := range sw.Body.List {
				for _, e := range cl.(*ast.CaseClause).List {
					if tv, ok := info.Types[e]; ok && tv.Value != nil {
						v, _ := constant.Int64Val(tv.Value)
						got[int(v)] = true
					}
				}
			}
			okAll := len(got) == len(lens)
			for l := range lens {
				if !got[l] {
					okAll = false
				}
			}
			r.Check(okAll, "R1", core.FuncName(fd)+" length switch", p.Pos(sw.Pos()), "cases are exactly the written layout lengths", "the switch on the time part's length does not cover exactly the lengths the writers produce")
			return true
		})
	}
	_ = token.NoPos
}
