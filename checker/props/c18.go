package props

import (
	"fmt"
	"go/ast"
	"go/constant"
	"go/token"
	"go/types"
	"sort"
	"strings"

	"verif/checker/core"
	"verif/checker/flow"
)

func init() { register("C18", c18) }

// foldString constant-folds a string expression: literals, constants, locals
// with a single foldable assignment in fn, and slices with constant bounds.
func foldString(info *types.Info, fn *ast.FuncDecl, e ast.Expr, depth int) (string, bool) {
	if depth > 6 {
		return "", false
	}
	if tv, ok := info.Types[e]; ok && tv.Value != nil && tv.Value.Kind() == constant.String {
		return constant.StringVal(tv.Value), true
	}
	switch x := ast.Unparen(e).(type) {
	case *ast.Ident:
		obj := info.ObjectOf(x)
		var defs []ast.Expr
		bad := false
		ast.Inspect(fn.Body, func(n ast.Node) bool {
			switch s := n.(type) {
			case *ast.AssignStmt:
				for i, l := range s.Lhs {
					if id, ok := l.(*ast.Ident); ok && info.ObjectOf(id) == obj {
						if len(s.Lhs) == len(s.Rhs) {
							defs = append(defs, s.Rhs[i])
						} else {
							bad = true
						}
					}
				}
			case *ast.ValueSpec:
				for i, nm := range s.Names {
					if info.ObjectOf(nm) == obj && i < len(s.Values) {
						defs = append(defs, s.Values[i])
					}
				}
			}
			return true
		})
		if bad || len(defs) != 1 {
			return "", false
		}
		return foldString(info, fn, defs[0], depth+1)
	case *ast.SliceExpr:
		base, ok := foldString(info, fn, x.X, depth+1)
		if !ok {
			return "", false
		}
		lo, hi := 0, len(base)
		if x.Low != nil {
			tv, ok := info.Types[x.Low]
			if !ok || tv.Value == nil {
				return "", false
			}
			v, _ := constant.Int64Val(tv.Value)
			lo = int(v)
		}
		if x.High != nil {
			tv, ok := info.Types[x.High]
			if !ok || tv.Value == nil {
				return "", false
			}
			v, _ := constant.Int64Val(tv.Value)
			hi = int(v)
		}
		if lo < 0 || hi > len(base) || lo > hi {
			return "", false
		}
		return base[lo:hi], true
	}
	return "", false
}

func allDigits(s string) bool {
	if s == "" {
		return false
	}
	for _, c := range s {
		if c < '0' || c > '9' {
			return false
		}
	}
	return true
}

func c18(p *core.Program, r *core.Report) {
	r.Rule("R1", "view-name layout agreement: the set of compact (digits-only) reference-time layouts passed to time.Time.Format in package pilosa (the writers of time-view names) equals the set passed to time.Parse (the readers), after constant folding of local strings and constant slices; and a switch on len(<time part>) in a reader covers exactly the lengths the writers produce")
	r.Rule("R3", "a view without a time stamp has no time part: viewTimePart, constant-folded on the package's plain view names (viewStandard, a bsig_ view), yields a string whose length is none of the stamp lengths that minMaxViews and timeOfView branch on")
	c18TimePartOfPlainViews(p, r)
	r.Rule("R4", "every view of the timestamp is written: a Field loop over viewsByTime(..) that writes bits (view.setBit) writes in every iteration, leaves the function only with an error, and is never left by a break")
	c18EveryViewWritten(p, r)
	r.Rule("R5", "the views of a record come from its own timestamp: a viewsByTime call inside a loop over records is not guarded by state carried over from an earlier record, unless the guard compares whole instants (Equal/Unix*) and no calendar part")
	c18OwnTimestampViews(p, r)
	r.Rule("R2", "a requested time range is answered from the time views: in every function that parses from/to arguments, a fragment read on a path where a parsed time is known to be set (or the field has no standard view) uses a view name produced by viewsByTimeRange on that path -- never the standard view, which also holds bits set without a timestamp")
	c18RangeViews(p, r)
	r.NotDecided = "that viewsByTimeRange yields a disjoint exact cover of every aligned range (calendar arithmetic on runtime values)"
	pk := p.Pkg("")
	if pk == nil {
		r.Undecide("R1", "package pilosa", "", "not loaded")
		return
	}
	info := pk.TypesInfo
	writers, readers := map[string]string{}, map[string]string{}
	var readerFns []*ast.FuncDecl
	for _, fd := range core.AllFuncDecls(pk) {
		if fd.Body == nil {
			continue
		}
		isReader := false
		ast.Inspect(fd.Body, func(n ast.Node) bool {
			c, ok := n.(*ast.CallExpr)
			if !ok {
				return true
			}
			fn := core.CalleeOf(info, c)
			if fn == nil || fn.Pkg() == nil || fn.Pkg().Path() != "time" {
				return true
			}
			switch {
			case fn.Name() == "Format" && recvNamed(fn, "Time") && len(c.Args) == 1:
				if s, ok := foldString(info, fd, c.Args[0], 0); ok && allDigits(s) {
					writers[s] = core.FuncName(fd) + " at " + p.Pos(c.Pos())
				} else if !ok {
					r.Undecide("R1", core.FuncName(fd)+" Format layout", p.Pos(c.Pos()), "layout is not a foldable constant")
				}
			case fn.Name() == "Parse" && len(c.Args) == 2:
				if s, ok := foldString(info, fd, c.Args[0], 0); ok && allDigits(s) {
					readers[s] = core.FuncName(fd) + " at " + p.Pos(c.Pos())
					isReader = true
				} else if !ok {
					r.Undecide("R1", core.FuncName(fd)+" Parse layout", p.Pos(c.Pos()), "layout is not a foldable constant")
				}
			}
			return true
		})
		if isReader {
			readerFns = append(readerFns, fd)
		}
	}
	r.Floor("C18/R1 compact layouts written", len(writers), 4)
	r.Floor("C18/R1 compact layouts parsed", len(readers), 4)
	var ws []string
	for w := range writers {
		ws = append(ws, w)
	}
	sort.Strings(ws)
	for _, w := range ws {
		if _, ok := readers[w]; ok {
			r.Hold("R1", "layout "+w, "written by "+writers[w]+", parsed by "+readers[w])
		} else {
			r.Violate("R1", "layout "+w, strings.TrimPrefix(writers[w][strings.LastIndex(writers[w], " at ")+4:], ""), "view names are written with layout "+w+" ("+writers[w]+") but no reader parses that layout: such views cannot be mapped back to their interval")
		}
	}
	for rd, where := range readers {
		if _, ok := writers[rd]; !ok {
			r.Violate("R1", "layout "+rd, where[strings.LastIndex(where, " at ")+4:], "views are parsed with layout "+rd+" ("+where+") which no writer produces (e.g. 03 is the 12-hour clock: hours 13-23 are rejected)")
		}
	}
	// length switch
	lens := map[int]bool{}
	for w := range writers {
		lens[len(w)] = true
	}
	for _, fd := range readerFns {
		ast.Inspect(fd.Body, func(n ast.Node) bool {
			sw, ok := n.(*ast.SwitchStmt)
			if !ok || sw.Tag == nil {
				return true
			}
			c, ok := ast.Unparen(sw.Tag).(*ast.CallExpr)
			if !ok || core.BuiltinName(info, c) != "len" {
				return true
			}
			got := map[int]bool{}
			for _, cl := range sw.Body.List {
				for _, e := range cl.(*ast.CaseClause).List {
					if tv, ok := info.Types[e]; ok && tv.Value != nil {
						v, _ := constant.Int64Val(tv.Value)
						got[int(v)] = true
					}
				}
			}
			okAll := len(got) == len(lens)
			for l := range lens {
				if !got[l] {
					okAll = false
				}
			}
			r.Check(okAll, "R1", core.FuncName(fd)+" length switch", p.Pos(sw.Pos()), "cases are exactly the written layout lengths", "the switch on the time part's length does not cover exactly the lengths the writers produce")
			return true
		})
	}
	_ = token.NoPos
}

// c18RangeViews: R2.
func c18RangeViews(p *core.Program, r *core.Report) {
	pk := p.Pkg("")
	info := pk.TypesInfo
	n := 0
	for _, fd := range core.AllFuncDecls(pk) {
		if fd.Body == nil || strings.HasSuffix(p.Fset.Position(fd.Pos()).Filename, "_test.go") {
			continue
		}
		parses := false
		ast.Inspect(fd.Body, func(nd ast.Node) bool {
			if c, ok := nd.(*ast.CallExpr); ok {
				if fn := core.CalleeOf(info, c); fn != nil && fn.Name() == "parseTime" && fn.Pkg() == pk.Types {
					parses = true
				}
			}
			return true
		})
		if !parses || fd.Name.Name == "parseTime" {
			continue
		}
		n++
		construct := core.FuncName(fd) + " range views"
		// slice variables assigned from viewsByTimeRange, and range variables over them
		const (
			bQ flow.State = 1 << iota // a time range is requested on this path
			bA                        // the views variable holds viewsByTimeRange's result
		)
		viewsVars := map[types.Object]bool{}
		ast.Inspect(fd.Body, func(nd ast.Node) bool {
			if as, ok := nd.(*ast.AssignStmt); ok && len(as.Lhs) == 1 && len(as.Rhs) == 1 {
				if c, ok := ast.Unparen(as.Rhs[0]).(*ast.CallExpr); ok {
					if fn := core.CalleeOf(info, c); fn != nil && fn.Name() == "viewsByTimeRange" {
						if id, ok := ast.Unparen(as.Lhs[0]).(*ast.Ident); ok {
							viewsVars[info.ObjectOf(id)] = true
						}
					}
				}
			}
			return true
		})
		rangeVars := map[types.Object]bool{}
		ast.Inspect(fd.Body, func(nd ast.Node) bool {
			if rs, ok := nd.(*ast.RangeStmt); ok {
				if id, ok := ast.Unparen(rs.X).(*ast.Ident); ok && viewsVars[info.ObjectOf(id)] {
					if v, ok := rs.Value.(*ast.Ident); ok {
						rangeVars[info.ObjectOf(v)] = true
					}
				}
			}
			return true
		})
		var bad []string
		nSinks := 0
		h := flow.Hooks{Info: info}
		h.Atom = func(nd ast.Node, s flow.State) []flow.State {
			switch x := nd.(type) {
			case *ast.AssignStmt:
				if len(x.Lhs) == 1 && len(x.Rhs) == 1 {
					if id, ok := ast.Unparen(x.Lhs[0]).(*ast.Ident); ok && viewsVars[info.ObjectOf(id)] {
						if c, ok := ast.Unparen(x.Rhs[0]).(*ast.CallExpr); ok {
							if fn := core.CalleeOf(info, c); fn != nil && fn.Name() == "viewsByTimeRange" {
								return []flow.State{s | bA}
							}
						}
						return []flow.State{s &^ bA}
					}
				}
			case *ast.CallExpr:
				fn := core.CalleeOf(info, x)
				if fn != nil && fn.Name() == "fragment" && recvNamed(fn, "Holder") && len(x.Args) == 4 {
					nSinks++
					if s&bQ == 0 {
						return []flow.State{s}
					}
					arg := ast.Unparen(x.Args[2])
					if id, ok := arg.(*ast.Ident); ok {
						if c, isConst := info.ObjectOf(id).(*types.Const); isConst && c.Name() == "viewStandard" {
							bad = append(bad, p.Pos(x.Pos())+": reads the standard view although a time range is requested")
						} else if rangeVars[info.ObjectOf(id)] && s&bA == 0 {
							bad = append(bad, p.Pos(x.Pos())+": reads views that were not computed by viewsByTimeRange on this path although a time range is requested")
						}
					}
				}
			}
			return []flow.State{s}
		}
		h.Refine = func(cond ast.Expr, taken bool, s flow.State) (flow.State, bool) {
			c := ast.Unparen(cond)
			if call, ok := c.(*ast.CallExpr); ok {
				if fn := core.CalleeOf(info, call); fn != nil && fn.Name() == "IsZero" && fn.Pkg() != nil && fn.Pkg().Path() == "time" && !taken {
					return s | bQ, true
				}
			}
			if sel, ok := c.(*ast.SelectorExpr); ok && sel.Sel.Name == "NoStandardView" && taken {
				return s | bQ, true
			}
			return s, true
		}
		it := flow.Run(h, fd.Body, 0)
		switch {
		case it.Unsupported != "":
			r.Undecide("R2", construct, p.Pos(fd.Pos()), it.Unsupported)
		case len(bad) > 0:
			r.Violate("R2", construct, p.Pos(fd.Pos()), strings.Join(dedupe(bad), "; ")+" -- columns (or rows) whose bits carry no timestamp in the range are returned")
		default:
			r.HoldAt("R2", construct, p.Pos(fd.Pos()), fmt.Sprintf("%d fragment read(s); whenever a range is requested the views come from viewsByTimeRange", nSinks))
		}
	}
	r.Floor("C18/R2 functions answering from/to", n, 2)
}
