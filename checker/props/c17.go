package props

import (
	"fmt"
	"go/ast"
	"go/constant"
	"go/token"
	"go/types"
	"sort"
	"strings"

	"verif/checker/core"
	"verif/checker/ord"
)

func init() { register("C17", c17) }

func c17(p *core.Program, r *core.Report) {
	r.Rule("R1", "first-arrival safety: in every reduce closure handed to executor.mapReduce, the accumulator parameter (nil when the first shard result arrives, whichever shard that is) is type-asserted only in comma-ok form or under a nil test; the value mapReduce returns (nil when no shard answered or on error) is asserted the same way or after the error check")
	r.Rule("R6", "shaping lists are computed cluster-wide: in an executor method that runs map/reduce, a call of another cluster-wide execute* method (one that takes *execOptions and is not a *Shard function) is handed the method's own options only on paths where opt.Remote was tested false; otherwise options with Remote cleared")
	c17ShapingListsAreGlobal(p, r)
	r.Rule("R5", "order-independent row reducers: every reduce function literal of package pilosa that asserts both partial results to a struct with ID and Count and returns one of them is abstractly executed for every ordering of the two IDs, the two counts and 0, and again with the operands exchanged; with different IDs both runs must choose the same partial result, with equal IDs and different positive counts both must combine the counts")
	c17PairReducers(p, r)
	r.Rule("R2", "order-independent value reducers: every ValCount method of shape (other ValCount) ValCount is abstractly executed for every weak ordering of {vc.Val, other.Val, vc.Count, other.Count, 0} (counts >= 0); the result as an abstract value must equal the result with the two operands exchanged, and when both operands hold the same value with positive counts the returned count must be the sum of both")
	r.Rule("R3", "single ownership function: executor.shardsByNode decides placement only through cluster.shardNodes/ShardNodes (shared with C20)")
	r.Rule("R4", "candidates are cut only after the exact recount: in executeTopN the only truncation to n applies to the list returned by the second, ids-restricted executeTopNShards call made by the original caller; a node answering a remote leg returns its whole merged candidate list (cutting it there makes the candidate set depend on which node coordinates and how shards are grouped onto nodes)")
	c17TopN(p, r)
	r.Rule("R7", "fail-over re-maps the failed leg only: inside executor.mapReduce's response loop every call of executor.mapper passes the shards field of a received mapResponse as its shards; the request's whole shard list is mapped once, before the loop")
	c17FailoverRemapsTheFailedLeg(p, r)
	r.NotDecided = "associativity of RowIDs.merge / mergeGroupCounts under limit, retry re-mapping after node failure, TopN tie order"
	pk := p.Pkg("")
	if pk == nil {
		r.Undecide("R1", "package pilosa", "", "not loaded")
		return
	}
	info := pk.TypesInfo
	// ---- R1
	nRed, nRes := 0, 0
	for _, fd := range core.AllFuncDecls(pk) {
		if fd.Body == nil {
			continue
		}
		parents := parentMap(fd.Body)
		// reduce closures: function literals assigned to a variable passed to mapReduce, or passed directly
		reduceLits := map[*ast.FuncLit]bool{}
		resultVars := map[types.Object]*ast.AssignStmt{}
		litOf := map[types.Object]*ast.FuncLit{}
		ast.Inspect(fd.Body, func(n ast.Node) bool {
			if as, ok := n.(*ast.AssignStmt); ok && len(as.Lhs) == len(as.Rhs) {
				for i, rh := range as.Rhs {
					if fl, ok := rh.(*ast.FuncLit); ok {
						if id, ok := as.Lhs[i].(*ast.Ident); ok {
							litOf[info.ObjectOf(id)] = fl
						}
					}
				}
			}
			return true
		})
		ast.Inspect(fd.Body, func(n ast.Node) bool {
			c, ok := n.(*ast.CallExpr)
			if !ok {
				return true
			}
			fn := core.CalleeOf(info, c)
			if fn == nil || fn.Name() != "mapReduce" || !recvNamed(fn, "executor") {
				return true
			}
			sig := fn.Type().(*types.Signature)
			for i := 0; i < sig.Params().Len() && i < len(c.Args); i++ {
				if core.IsNamed(sig.Params().At(i).Type(), core.ModPath, "reduceFunc") {
					switch a := ast.Unparen(c.Args[i]).(type) {
					case *ast.FuncLit:
						reduceLits[a] = true
					case *ast.Ident:
						if fl := litOf[info.ObjectOf(a)]; fl != nil {
							reduceLits[fl] = true
						}
					}
				}
			}
			if as, ok := parents[c].(*ast.AssignStmt); ok && len(as.Lhs) == 2 {
				if id, ok := as.Lhs[0].(*ast.Ident); ok && id.Name != "_" {
					resultVars[info.ObjectOf(id)] = as
				}
			}
			return true
		})
		for fl := range reduceLits {
			nRed++
			if fl.Type.Params.NumFields() < 1 || len(fl.Type.Params.List[0].Names) == 0 {
				continue
			}
			prev := info.ObjectOf(fl.Type.Params.List[0].Names[0])
			bad := c17UnsafeAssert(info, fl.Body, prev, nil, token.NoPos)
			construct := core.FuncName(fd) + " reduce closure"
			if bad != nil {
				r.Violate("R1", construct, p.Pos(bad.Pos()), "`"+types.ExprString(bad)+"` asserts the accumulator without a nil test: the first shard result to arrive finds it nil and the reducer panics")
			} else {
				r.HoldAt("R1", construct, p.Pos(fl.Pos()), "accumulator asserted comma-ok or under a nil test")
			}
		}
		for obj, as := range resultVars {
			nRes++
			var errObj types.Object
			if id, ok := as.Lhs[1].(*ast.Ident); ok {
				errObj = info.ObjectOf(id)
			}
			bad := c17UnsafeAssert(info, fd.Body, obj, errObj, as.Pos())
			construct := core.FuncName(fd) + " mapReduce result"
			if bad != nil {
				r.Violate("R1", construct, p.Pos(bad.Pos()), "`"+types.ExprString(bad)+"` asserts mapReduce's result without comma-ok or a preceding error/nil check: when no shard answers (or on error) the result is nil and the assertion panics")
			} else {
				r.HoldAt("R1", construct, p.Pos(as.Pos()), "result asserted comma-ok or after the error check")
			}
		}
	}
	r.Floor("C17/R1 reduce closures passed to mapReduce", nRed, 10)
	r.Floor("C17/R1 mapReduce results", nRes, 10)

	// ---- R2
	nM := 0
	for _, fd := range core.AllFuncDecls(pk) {
		if core.RecvName(fd) != "ValCount" || fd.Body == nil {
			continue
		}
		obj := info.Defs[fd.Name].(*types.Func)
		sig := obj.Type().(*types.Signature)
		if sig.Params().Len() != 1 || sig.Results().Len() != 1 || !core.IsNamed(sig.Params().At(0).Type(), core.ModPath, "ValCount") || !core.IsNamed(sig.Results().At(0).Type(), core.ModPath, "ValCount") {
			continue
		}
		nM++
		c17Reducer(p, r, info, fd)
	}
	r.Floor("C17/R2 ValCount reducers", nM, 3)

	// ---- R3
	if fd := core.FuncDecl(pk, "executor", "shardsByNode"); fd != nil {
		uses, direct := false, false
		ast.Inspect(fd.Body, func(n ast.Node) bool {
			switch x := n.(type) {
			case *ast.CallExpr:
				if fn := core.CalleeOf(info, x); fn != nil && (fn.Name() == "ShardNodes" || fn.Name() == "shardNodes") && recvNamed(fn, "cluster") {
					uses = true
				}
				if fn := core.CalleeOf(info, x); fn != nil && (fn.Name() == "partition" || fn.Name() == "partitionNodes" || fn.Name() == "Hash") {
					direct = true
				}
			}
			return true
		})
		r.Check(uses && !direct, "R3", "(*executor).shardsByNode", p.Pos(fd.Pos()), "placement is taken from cluster.ShardNodes only", "shardsByNode computes placement other than through cluster.ShardNodes: the coordinator and the owners may disagree on who holds a shard")
	} else {
		r.Undecide("R3", "(*executor).shardsByNode", "", "not found")
	}
}

// c17UnsafeAssert returns a single-value type assertion on obj that is not
// guarded by a nil test of obj (or, when errObj is given, by an earlier
// `if err != nil { return }`).
func c17UnsafeAssert(info *types.Info, body *ast.BlockStmt, obj, errObj types.Object, after token.Pos) ast.Expr {
	var bad ast.Expr
	parents := parentMap(body)
	isObj := func(e ast.Expr) bool {
		id, ok := ast.Unparen(e).(*ast.Ident)
		return ok && info.ObjectOf(id) == obj
	}
	nilTest := func(cond ast.Expr, o types.Object) (eq, neq bool) {
		ast.Inspect(cond, func(n ast.Node) bool {
			if be, ok := n.(*ast.BinaryExpr); ok && (be.Op == token.EQL || be.Op == token.NEQ) {
				if id, ok := ast.Unparen(be.X).(*ast.Ident); ok && info.ObjectOf(id) == o {
					if nl, ok := ast.Unparen(be.Y).(*ast.Ident); ok && nl.Name == "nil" {
						if be.Op == token.EQL {
							eq = true
						} else {
							neq = true
						}
					}
				}
			}
			return true
		})
		return
	}
	ast.Inspect(body, func(n ast.Node) bool {
		ta, ok := n.(*ast.TypeAssertExpr)
		if !ok || ta.Type == nil || !isObj(ta.X) {
			return true
		}
		// comma-ok?
		if as, ok := parents[ta].(*ast.AssignStmt); ok && len(as.Lhs) == 2 && len(as.Rhs) == 1 {
			return true
		}
		if vs, ok := parents[ta].(*ast.ValueSpec); ok && len(vs.Names) == 2 {
			return true
		}
		// guarded: inside `if obj != nil {...}`, or after `if obj == nil { return }` / `if err != nil { return }` in an enclosing block
		var child ast.Node = ta
		for q := parents[ta]; q != nil; child, q = q, parents[q] {
			if ifs, ok := q.(*ast.IfStmt); ok && child == ast.Node(ifs.Body) {
				if _, neq := nilTest(ifs.Cond, obj); neq {
					return true
				}
			}
			if blk, ok := q.(*ast.BlockStmt); ok {
				for _, st := range blk.List {
					if st.Pos() >= child.Pos() {
						break
					}
					ifs, ok := st.(*ast.IfStmt)
					if !ok || len(ifs.Body.List) == 0 || ifs.Pos() < after {
						continue
					}
					if _, isRet := ifs.Body.List[len(ifs.Body.List)-1].(*ast.ReturnStmt); !isRet {
						continue
					}
					if eq, _ := nilTest(ifs.Cond, obj); eq {
						return true
					}
					if errObj != nil {
						if _, neq := nilTest(ifs.Cond, errObj); neq {
							// error checked; a nil result with nil error is still possible only when no shard answered,
							// which mapReduce's callers exclude by construction — accept the error-check idiom
							return true
						}
					}
				}
			}
		}
		if bad == nil {
			bad = ta
		}
		return true
	})
	return bad
}

// c17Reducer checks one ValCount reducer for operand symmetry.
func c17Reducer(p *core.Program, r *core.Report, info *types.Info, fd *ast.FuncDecl) {
	construct := core.FuncName(fd)
	var recvObj types.Object
	if len(fd.Recv.List[0].Names) > 0 {
		recvObj = info.Defs[fd.Recv.List[0].Names[0]]
	}
	otherObj := info.ObjectOf(fd.Type.Params.List[0].Names[0])
	if recvObj == nil || otherObj == nil {
		r.Undecide("R2", construct, p.Pos(fd.Pos()), "unnamed receiver or parameter")
		return
	}
	term := func(e ast.Expr) string {
		if sel, ok := ast.Unparen(e).(*ast.SelectorExpr); ok {
			if id, ok := ast.Unparen(sel.X).(*ast.Ident); ok {
				switch info.ObjectOf(id) {
				case recvObj:
					return "vc." + sel.Sel.Name
				case otherObj:
					return "other." + sel.Sel.Name
				}
			}
		}
		return ""
	}
	terms := []string{"vc.Val", "other.Val", "vc.Count", "other.Count", "0"}
	// abstract result: field -> multiset of terms
	type aval map[string][]string
	flatten := func(e ast.Expr) ([]string, bool) {
		var out []string
		var walk func(e ast.Expr) bool
		walk = func(e ast.Expr) bool {
			if be, ok := ast.Unparen(e).(*ast.BinaryExpr); ok && be.Op == token.ADD {
				return walk(be.X) && walk(be.Y)
			}
			if t := term(e); t != "" {
				out = append(out, t)
				return true
			}
			return false
		}
		ok := walk(e)
		return out, ok
	}
	resultOf := func(pa ord.Path) (aval, bool) {
		if pa.End != ord.EndReturn || len(pa.Ret) != 1 {
			return nil, false
		}
		e := ast.Unparen(pa.Ret[0])
		switch x := e.(type) {
		case *ast.Ident:
			switch info.ObjectOf(x) {
			case otherObj:
				return aval{"Val": {"other.Val"}, "Count": {"other.Count"}}, true
			}
		case *ast.StarExpr:
			if id, ok := ast.Unparen(x.X).(*ast.Ident); ok && info.ObjectOf(id) == recvObj {
				return aval{"Val": {"vc.Val"}, "Count": {"vc.Count"}}, true
			}
		case *ast.CompositeLit:
			out := aval{}
			for _, el := range x.Elts {
				kv, ok := el.(*ast.KeyValueExpr)
				if !ok {
					return nil, false
				}
				k, ok := kv.Key.(*ast.Ident)
				if !ok {
					return nil, false
				}
				ts, ok := flatten(kv.Value)
				if !ok {
					return nil, false
				}
				out[k.Name] = ts
			}
			return out, true
		}
		return nil, false
	}
	swapName := func(t string) string {
		switch {
		case strings.HasPrefix(t, "vc."):
			return "other." + t[3:]
		case strings.HasPrefix(t, "other."):
			return "vc." + t[6:]
		}
		return t
	}
	canon := func(o ord.Ordering, ts []string, dropZero bool) string {
		var out []string
		for _, t := range ts {
			// representative: smallest name in the rank class ("0" wins)
			rep := t
			for u, ru := range o {
				if ru == o[t] && (u == "0" || (rep != "0" && u < rep)) {
					rep = u
				}
			}
			if dropZero && rep == "0" {
				continue
			}
			out = append(out, rep)
		}
		sort.Strings(out)
		return strings.Join(out, "+")
	}
	eval := func(o ord.Ordering) (aval, string) {
		in := &ord.Interp{Info: info, O: o, Term: term}
		paths := in.Run(fd.Body.List, nil)
		if in.Unsupported != "" {
			return nil, in.Unsupported
		}
		if len(paths) != 1 {
			return nil, fmt.Sprintf("%d abstract paths (a comparison is not decided by the ordering)", len(paths))
		}
		v, ok := resultOf(paths[0])
		if !ok {
			return nil, "returned expression outside the modelled forms"
		}
		return v, ""
	}
	nOrd := 0
	for _, o := range ord.Orderings(terms) {
		if o["vc.Count"] < o["0"] || o["other.Count"] < o["0"] {
			continue
		}
		nOrd++
		a, msg := eval(o)
		if msg != "" {
			r.Undecide("R2", construct, p.Pos(fd.Pos()), msg)
			return
		}
		so := ord.Ordering{}
		for t, rk := range o {
			so[swapName(t)] = rk
		}
		b, msg := eval(so)
		if msg != "" {
			r.Undecide("R2", construct, p.Pos(fd.Pos()), msg)
			return
		}
		for _, f := range []string{"Val", "Count"} {
			var bs []string
			for _, t := range b[f] {
				bs = append(bs, swapName(t))
			}
			ca, cb := canon(o, a[f], f == "Count"), canon(o, bs, f == "Count")
			// a value paired with a zero count is "no value": only compare Val when the count is non-zero
			if f == "Val" && canon(o, a["Count"], true) == "" && canon(o, bs2(b["Count"], swapName), true) == "" {
				continue
			}
			if ca != cb {
				r.Violate("R2", construct, p.Pos(fd.Pos()), fmt.Sprintf("for the ordering %s: x.%s(y).%s = %s but y.%s(x).%s = %s — the reduced %s depends on which shard's result arrives first", o, fd.Name.Name, f, orEmpty(ca), fd.Name.Name, f, orEmpty(cb), f))
				return
			}
		}
		// tie with two positive counts: the count is the total
		if fd.Name.Name != "add" && o["vc.Val"] == o["other.Val"] && o["vc.Count"] > o["0"] && o["other.Count"] > o["0"] {
			want := canon(o, []string{"vc.Count", "other.Count"}, true)
			if got := canon(o, a["Count"], true); got != want {
				r.Violate("R2", construct, p.Pos(fd.Pos()), fmt.Sprintf("for the ordering %s both operands hold the same value but the returned count is %s, not the total %s", o, orEmpty(got), want))
				return
			}
		}
	}
	r.Count("orderings_"+fd.Name.Name, nOrd)
	r.HoldAt("R2", construct, p.Pos(fd.Pos()), fmt.Sprintf("symmetric in its operands for all %d orderings; ties add the counts", nOrd))
}

func bs2(ts []string, f func(string) string) []string {
	out := make([]string, len(ts))
	for i, t := range ts {
		out[i] = f(t)
	}
	return out
}

func orEmpty(s string) string {
	if s == "" {
		return "0"
	}
	return s
}

// c17TopN: R4.
func c17TopN(p *core.Program, r *core.Report) {
	pk := p.Pkg("")
	info := pk.TypesInfo
	fd := core.FuncDecl(pk, "executor", "executeTopN")
	construct := "(*executor).executeTopN truncation"
	if fd == nil {
		r.Undecide("R4", construct, "", "not found")
		return
	}
	// the call parameter (the original query) and the n argument
	var callParam, nObj types.Object
	for _, fld := range fd.Type.Params.List {
		for _, nm := range fld.Names {
			if o := info.Defs[nm]; o != nil && core.IsNamed(o.Type(), core.ModPath+"/pql", "Call") {
				callParam = o
			}
		}
	}
	ast.Inspect(fd.Body, func(n ast.Node) bool {
		as, ok := n.(*ast.AssignStmt)
		if !ok || len(as.Rhs) != 1 || len(as.Lhs) < 1 {
			return true
		}
		if c, ok := ast.Unparen(as.Rhs[0]).(*ast.CallExpr); ok {
			if fn := core.CalleeOf(info, c); fn != nil && fn.Name() == "UintArg" && len(c.Args) == 1 {
				if tv, ok := info.Types[c.Args[0]]; ok && tv.Value != nil && constant.StringVal(tv.Value) == "n" {
					if id, ok := as.Lhs[0].(*ast.Ident); ok {
						nObj = info.ObjectOf(id)
					}
				}
			}
		}
		return true
	})
	if callParam == nil || nObj == nil {
		r.Undecide("R4", construct, p.Pos(fd.Pos()), "call parameter or n argument not recognised")
		return
	}
	// variables assigned from executeTopNShards, and whether the call they came from is the original one
	fromOriginal := map[types.Object]bool{}
	fromRefetch := map[types.Object]bool{}
	ast.Inspect(fd.Body, func(n ast.Node) bool {
		as, ok := n.(*ast.AssignStmt)
		if !ok || len(as.Rhs) != 1 || len(as.Lhs) < 1 {
			return true
		}
		c, ok := ast.Unparen(as.Rhs[0]).(*ast.CallExpr)
		if !ok {
			return true
		}
		fn := core.CalleeOf(info, c)
		if fn == nil || fn.Name() != "executeTopNShards" || len(c.Args) < 3 {
			return true
		}
		id, ok := as.Lhs[0].(*ast.Ident)
		if !ok {
			return true
		}
		if aid, ok := ast.Unparen(c.Args[2]).(*ast.Ident); ok && info.ObjectOf(aid) == callParam {
			fromOriginal[info.ObjectOf(id)] = true
		} else {
			fromRefetch[info.ObjectOf(id)] = true
		}
		return true
	})
	var bad []string
	nCuts := 0
	mentionsN := func(e ast.Expr) bool {
		hit := false
		if e == nil {
			return false
		}
		ast.Inspect(e, func(m ast.Node) bool {
			if id, ok := m.(*ast.Ident); ok && info.ObjectOf(id) == nObj {
				hit = true
			}
			return true
		})
		return hit
	}
	ast.Inspect(fd.Body, func(n ast.Node) bool {
		se, ok := n.(*ast.SliceExpr)
		if !ok || !mentionsN(se.High) {
			return true
		}
		nCuts++
		id, ok := ast.Unparen(se.X).(*ast.Ident)
		if !ok {
			bad = append(bad, p.Pos(se.Pos())+": "+types.ExprString(se))
			return true
		}
		o := info.ObjectOf(id)
		if !fromRefetch[o] || fromOriginal[o] {
			bad = append(bad, p.Pos(se.Pos())+": "+types.ExprString(se)+" cuts the first-pass candidate list")
		}
		return true
	})
	switch {
	case len(bad) > 0:
		r.Violate("R4", construct, p.Pos(fd.Pos()), strings.Join(bad, "; ")+" -- a row with the highest cluster-wide count can drop out depending on the coordinator")
	case nCuts == 0 || len(fromRefetch) == 0:
		r.Violate("R4", construct, p.Pos(fd.Pos()), "no truncation of the recounted list found (the two-pass shape is gone)")
	default:
		r.HoldAt("R4", construct, p.Pos(fd.Pos()), fmt.Sprintf("%d truncation(s) to n, each of the recounted list", nCuts))
	}
}
