package props

import (
	"go/ast"
	"go/token"
	"go/types"

	"verif/checker/core"
	"verif/checker/flow"

	"golang.org/x/tools/go/packages"
)

// findVarInit returns the initialiser expression of a package-level var.
func findVarInit(pk *packages.Package, name string) ast.Expr {
	for _, f := range pk.Syntax {
		for _, d := range f.Decls {
			gd, ok := d.(*ast.GenDecl)
			if !ok || gd.Tok != token.VAR {
				continue
			}
			for _, sp := range gd.Specs {
				vs := sp.(*ast.ValueSpec)
				for i, n := range vs.Names {
					if n.Name == name && i < len(vs.Values) {
						return vs.Values[i]
					}
				}
			}
		}
	}
	return nil
}

// c23Table evaluates validAPIMethods: state constant name -> set of
// apiMethod constant names.
func c23Table(pk *packages.Package) (map[string]map[string]struct{}, string) {
	init := findVarInit(pk, "validAPIMethods")
	lit, ok := init.(*ast.CompositeLit)
	if !ok {
		return nil, "validAPIMethods is not initialised by a map literal"
	}
	if msg := c23AppendMapShape(pk); msg != "" {
		return nil, msg
	}
	var evalSet func(e ast.Expr, depth int) (map[string]struct{}, string)
	evalSet = func(e ast.Expr, depth int) (map[string]struct{}, string) {
		if depth > 4 {
			return nil, "table expression too deep"
		}
		switch x := ast.Unparen(e).(type) {
		case *ast.Ident:
			in := findVarInit(pk, x.Name)
			if in == nil {
				return nil, "cannot resolve " + x.Name
			}
			return evalSet(in, depth+1)
		case *ast.CompositeLit:
			out := map[string]struct{}{}
			for _, el := range x.Elts {
				kv, ok := el.(*ast.KeyValueExpr)
				if !ok {
					return nil, "non key-value element in method set"
				}
				id, ok := ast.Unparen(kv.Key).(*ast.Ident)
				if !ok {
					return nil, "method set key is not a constant name"
				}
				if _, isConst := pk.TypesInfo.ObjectOf(id).(*types.Const); !isConst {
					return nil, "method set key " + id.Name + " is not a constant"
				}
				out[id.Name] = struct{}{}
			}
			return out, ""
		case *ast.CallExpr:
			fn := core.CalleeOf(pk.TypesInfo, x)
			if fn == nil || fn.Name() != "appendMap" || len(x.Args) != 2 {
				return nil, "unmodelled call in table: " + types.ExprString(x)
			}
			a, m1 := evalSet(x.Args[0], depth+1)
			if m1 != "" {
				return nil, m1
			}
			b, m2 := evalSet(x.Args[1], depth+1)
			if m2 != "" {
				return nil, m2
			}
			out := map[string]struct{}{}
			for k := range a {
				out[k] = struct{}{}
			}
			for k := range b {
				out[k] = struct{}{}
			}
			return out, ""
		}
		return nil, "unmodelled table expression " + types.ExprString(e)
	}
	table := map[string]map[string]struct{}{}
	for _, el := range lit.Elts {
		kv, ok := el.(*ast.KeyValueExpr)
		if !ok {
			return nil, "validAPIMethods element is not key: value"
		}
		id, ok := ast.Unparen(kv.Key).(*ast.Ident)
		if !ok {
			return nil, "validAPIMethods key is not a state constant"
		}
		set, msg := evalSet(kv.Value, 0)
		if msg != "" {
			return nil, msg
		}
		table[id.Name] = set
	}
	return table, ""
}

// c23AppendMapShape checks appendMap is map union: a fresh map, two range
// loops each copying into it, and it is what is returned.
func c23AppendMapShape(pk *packages.Package) string {
	fd := core.FuncDecl(pk, "", "appendMap")
	if fd == nil {
		return "" // not used: evalSet will complain if it is called
	}
	loops, other := 0, 0
	var res types.Object
	for _, st := range fd.Body.List {
		switch x := st.(type) {
		case *ast.AssignStmt:
			if len(x.Lhs) == 1 && len(x.Rhs) == 1 {
				if c, ok := x.Rhs[0].(*ast.CallExpr); ok && core.BuiltinName(pk.TypesInfo, c) == "make" {
					if id, ok := x.Lhs[0].(*ast.Ident); ok {
						res = pk.TypesInfo.ObjectOf(id)
						continue
					}
				}
			}
			other++
		case *ast.RangeStmt:
			src, ok := ast.Unparen(x.X).(*ast.Ident)
			if !ok || len(x.Body.List) != 1 {
				other++
				continue
			}
			as, ok := x.Body.List[0].(*ast.AssignStmt)
			if !ok || len(as.Lhs) != 1 {
				other++
				continue
			}
			ix, ok := as.Lhs[0].(*ast.IndexExpr)
			if !ok {
				other++
				continue
			}
			dst, ok := ast.Unparen(ix.X).(*ast.Ident)
			k, ok2 := ast.Unparen(ix.Index).(*ast.Ident)
			rk, ok3 := x.Key.(*ast.Ident)
			if !ok || !ok2 || !ok3 || pk.TypesInfo.ObjectOf(dst) != res || pk.TypesInfo.ObjectOf(k) != pk.TypesInfo.ObjectOf(rk) {
				other++
				continue
			}
			if _, isParam := pk.TypesInfo.ObjectOf(src).(*types.Var); !isParam {
				other++
				continue
			}
			loops++
		case *ast.ReturnStmt:
			if len(x.Results) != 1 {
				other++
				continue
			}
			if id, ok := ast.Unparen(x.Results[0]).(*ast.Ident); !ok || pk.TypesInfo.ObjectOf(id) != res {
				other++
			}
		default:
			other++
		}
	}
	if loops != 2 || other != 0 || res == nil {
		return "appendMap is no longer a plain union of its two arguments (two copy loops into a fresh map); the state table cannot be evaluated statically"
	}
	return ""
}

// c23Validate: validate returns nil iff the lookup succeeded.
func c23Validate(p *core.Program, r *core.Report, info *types.Info, fd *ast.FuncDecl) {
	const (
		okTrue flow.State = 1 << iota
		okFalse
	)
	if fd == nil {
		r.Undecide("R3", "(*API).validate", "", "function not found")
		return
	}
	// the `ok` of `_, ok := validAPIMethods[state][f]`
	var okObj types.Object
	stateFromCluster := false
	ast.Inspect(fd.Body, func(n ast.Node) bool {
		as, ok := n.(*ast.AssignStmt)
		if !ok || len(as.Rhs) != 1 {
			return true
		}
		if len(as.Lhs) == 2 {
			if ix, ok := ast.Unparen(as.Rhs[0]).(*ast.IndexExpr); ok {
				if ix2, ok := ast.Unparen(ix.X).(*ast.IndexExpr); ok {
					if id, ok := ast.Unparen(ix2.X).(*ast.Ident); ok && id.Name == "validAPIMethods" {
						if o, ok := as.Lhs[1].(*ast.Ident); ok {
							okObj = info.ObjectOf(o)
						}
					}
				}
			}
		}
		if c, ok := ast.Unparen(as.Rhs[0]).(*ast.CallExpr); ok {
			if fn := core.CalleeOf(info, c); fn != nil && fn.Name() == "State" && recvNamed(fn, "cluster") {
				stateFromCluster = true
			}
		}
		return true
	})
	if okObj == nil {
		r.Violate("R3", "(*API).validate", p.Pos(fd.Pos()), "validate no longer decides by a comma-ok lookup in validAPIMethods[state][method]")
		return
	}
	r.Check(stateFromCluster, "R3", "(*API).validate state source", p.Pos(fd.Pos()), "state is read from cluster.State()", "validate does not read the state from cluster.State()")
	var bad []string
	h := flow.Hooks{Info: info}
	h.Refine = func(cond ast.Expr, taken bool, s flow.State) (flow.State, bool) {
		c := ast.Unparen(cond)
		neg := false
		if ue, ok := c.(*ast.UnaryExpr); ok && ue.Op == token.NOT {
			neg, c = true, ast.Unparen(ue.X)
		}
		if id, ok := c.(*ast.Ident); ok && info.ObjectOf(id) == okObj {
			if taken != neg {
				return s&^okFalse | okTrue, true
			}
			return s&^okTrue | okFalse, true
		}
		return s, true
	}
	h.PreReturn = func(ret *ast.ReturnStmt, lit *ast.FuncLit, s flow.State) flow.State {
		if lit != nil {
			return s
		}
		isNil := ret == nil
		if ret != nil && len(ret.Results) == 1 {
			if id, ok := ast.Unparen(ret.Results[0]).(*ast.Ident); ok && id.Name == "nil" {
				isNil = true
			}
		}
		pos := fd.End()
		if ret != nil {
			pos = ret.Pos()
		}
		switch {
		case isNil && s&okTrue == 0:
			bad = append(bad, p.Pos(pos)+": returns nil (admits) on a path where the table lookup did not succeed")
		case !isNil && s&okFalse == 0:
			bad = append(bad, p.Pos(pos)+": returns an error (refuses) on a path where the table lookup may have succeeded")
		}
		return s
	}
	it := flow.Run(h, fd.Body, 0)
	if it.Unsupported != "" {
		r.Undecide("R3", "(*API).validate", p.Pos(fd.Pos()), it.Unsupported)
		return
	}
	if len(bad) > 0 {
		r.Violate("R3", "(*API).validate", p.Pos(fd.Pos()), bad[0])
	} else {
		r.HoldAt("R3", "(*API).validate", p.Pos(fd.Pos()), "nil is returned exactly on the lookup-succeeded paths")
	}
}
