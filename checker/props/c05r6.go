package props

import (
	"go/ast"
	"go/constant"
	"go/token"
	"go/types"
	"sort"
	"strings"

	"golang.org/x/tools/go/packages"

	"verif/checker/core"
	"verif/checker/flow"
)

// c05SingleValueFree: rule R6. For the single-value ops the record's value
// slot holds a bit position, and the writer logs any uint64 there; the
// decoder must therefore not look at op.value while the type can still be one
// of them. The set of op types still possible is tracked along every path of
// op.UnmarshalBinary (tests of op.typ against constants, switch cases).
func c05SingleValueFree(p *core.Program, r *core.Report, rp *packages.Package, consts map[int64]string) {
	info := rp.TypesInfo
	fd := core.FuncDecl(rp, "op", "UnmarshalBinary")
	construct := "(*op).UnmarshalBinary: value slot of single-value ops"
	if fd == nil {
		r.Undecide("R6", construct, "", "not found")
		return
	}
	var vals []int64
	for v := range consts {
		vals = append(vals, v)
	}
	sort.Slice(vals, func(i, j int) bool { return vals[i] < vals[j] })
	if len(vals) > 30 {
		r.Undecide("R6", construct, p.Pos(fd.Pos()), "too many op types")
		return
	}
	bitOf := map[int64]flow.State{}
	var all, singles flow.State
	for i, v := range vals {
		bitOf[v] = 1 << uint(i)
		all |= bitOf[v]
		if n := consts[v]; n == "opTypeAdd" || n == "opTypeRemove" {
			singles |= bitOf[v]
		}
	}
	other := flow.State(1) << uint(len(vals)) // any undeclared type byte
	if singles == 0 {
		r.Undecide("R6", construct, p.Pos(fd.Pos()), "opTypeAdd/opTypeRemove not declared")
		return
	}
	isTyp := func(e ast.Expr) bool {
		sel, ok := ast.Unparen(e).(*ast.SelectorExpr)
		if !ok {
			return false
		}
		t := info.TypeOf(sel)
		return t != nil && core.IsNamed(t, roaringPath, "opType") && sel.Sel.Name == "typ"
	}
	constOf := func(e ast.Expr) (int64, bool) {
		if tv, ok := info.Types[e]; ok && tv.Value != nil && tv.Value.Kind() == constant.Int {
			return constant.Int64Val(tv.Value)
		}
		return 0, false
	}
	// set of declared types (and "other") satisfying `typ op c`
	sat := func(op token.Token, c int64) flow.State {
		var out flow.State
		test := func(v int64) bool {
			switch op {
			case token.EQL:
				return v == c
			case token.NEQ:
				return v != c
			case token.LSS:
				return v < c
			case token.LEQ:
				return v <= c
			case token.GTR:
				return v > c
			case token.GEQ:
				return v >= c
			}
			return true
		}
		for _, v := range vals {
			if test(v) {
				out |= bitOf[v]
			}
		}
		// undeclared bytes: some satisfy and some do not, except equality with a declared constant
		if _, declared := consts[c]; !(op == token.EQL && declared) {
			out |= other
		}
		return out
	}
	mentionsValue := func(e ast.Node) (token.Pos, bool) {
		var pos token.Pos
		ast.Inspect(e, func(n ast.Node) bool {
			if sel, ok := n.(*ast.SelectorExpr); ok && sel.Sel.Name == "value" {
				if s, ok := info.Selections[sel]; ok && s.Kind() == types.FieldVal && core.IsNamed(s.Recv(), roaringPath, "op") && !pos.IsValid() {
					pos = sel.Pos()
				}
			}
			return true
		})
		return pos, pos.IsValid()
	}
	var bad []string
	nCond := 0
	look := func(e ast.Node, s flow.State) {
		if pos, ok := mentionsValue(e); ok {
			nCond++
			if s&singles != 0 {
				var which []string
				for _, v := range vals {
					if s&singles&bitOf[v] != 0 {
						which = append(which, consts[v])
					}
				}
				bad = append(bad, p.Pos(pos)+" (type may still be "+strings.Join(which, "/")+")")
			}
		}
	}
	flip := map[token.Token]token.Token{token.LSS: token.GTR, token.GTR: token.LSS, token.LEQ: token.GEQ, token.GEQ: token.LEQ, token.EQL: token.EQL, token.NEQ: token.NEQ}
	neg := map[token.Token]token.Token{token.LSS: token.GEQ, token.GTR: token.LEQ, token.LEQ: token.GTR, token.GEQ: token.LSS, token.EQL: token.NEQ, token.NEQ: token.EQL}
	h := flow.Hooks{Info: info}
	h.Atom = func(n ast.Node, s flow.State) []flow.State {
		// the type is (re)read from the input: every type is possible again
		if as, ok := n.(*ast.AssignStmt); ok {
			for _, l := range as.Lhs {
				if isTyp(l) {
					s = all | other
				}
			}
		}
		return []flow.State{s}
	}
	h.Refine = func(c ast.Expr, taken bool, s flow.State) (flow.State, bool) {
		look(c, s)
		be, ok := ast.Unparen(c).(*ast.BinaryExpr)
		if !ok {
			return s, true
		}
		op := be.Op
		var cv int64
		switch {
		case isTyp(be.X):
			v, ok := constOf(be.Y)
			if !ok {
				return s, true
			}
			cv = v
		case isTyp(be.Y):
			v, ok := constOf(be.X)
			if !ok {
				return s, true
			}
			cv, op = v, flip[op]
		default:
			return s, true
		}
		if _, known := neg[op]; !known {
			return s, true
		}
		if !taken {
			op = neg[op]
		}
		s &= sat(op, cv)
		return s, s != 0
	}
	h.Case = func(tag, val ast.Expr, taken bool, s flow.State) (flow.State, bool) {
		if !isTyp(tag) {
			return s, true
		}
		v, ok := constOf(val)
		if !ok {
			return s, true
		}
		if taken {
			s &= sat(token.EQL, v)
		} else {
			s &= sat(token.NEQ, v)
		}
		return s, s != 0
	}
	h.Eval = func(e ast.Expr, s flow.State) { look(e, s) }
	it := flow.Run(h, fd.Body, all|other)
	switch {
	case it.Unsupported != "":
		r.Undecide("R6", construct, p.Pos(fd.Pos()), it.Unsupported)
	case len(bad) > 0:
		bad = dedupe(bad)
		sort.Strings(bad)
		r.Violate("R6", construct, p.Pos(fd.Pos()), "a condition reads op.value at "+strings.Join(bad, "; ")+": for a single-value op that slot is the bit position, which the writer logs for any value, so the decoder rejects (or treats differently) a record the writer produced and everything after it in the log is lost")
	default:
		r.HoldAt("R6", construct, p.Pos(fd.Pos()), "every condition on op.value is evaluated only where the type is a batch or roaring op")
	}
	r.Floor("C05/R6 conditions on op.value in the decoder", nCond, 3)
}
