package props

import (
	"go/ast"
	"go/token"
	"go/types"
	"strings"

	"verif/checker/core"
	"verif/checker/flow"
)

// c02CountRepaired: rule R5. (*Container).unionInPlace leaves a bitmap
// container's cardinality stale by design; the caller must recount before the
// count is read or the container is handed back.
func c02CountRepaired(p *core.Program, r *core.Report) {
	rp := p.Pkg("roaring")
	if rp == nil {
		return
	}
	info := rp.TypesInfo
	isMeth := func(c *ast.CallExpr, recv, name string) bool {
		fn := core.CalleeOf(info, c)
		return fn != nil && fn.Name() == name && recvNamed(fn, recv)
	}
	// function-like bodies that call unionInPlace directly
	type unit struct {
		name string
		body *ast.BlockStmt
		pos  token.Pos
	}
	var units []unit
	for _, fd := range core.AllFuncDecls(rp) {
		if fd.Body == nil || strings.HasSuffix(p.Fset.Position(fd.Pos()).Filename, "_test.go") {
			continue
		}
		if core.FuncName(fd) == "(*Container).unionInPlace" {
			continue
		}
		var stack []ast.Node
		litN := 0
		has := map[ast.Node]bool{}
		ast.Inspect(fd, func(n ast.Node) bool {
			if n == nil {
				stack = stack[:len(stack)-1]
				return false
			}
			stack = append(stack, n)
			if c, ok := n.(*ast.CallExpr); ok && isMeth(c, "Container", "unionInPlace") {
				for i := len(stack) - 1; i >= 0; i-- {
					if fl, ok := stack[i].(*ast.FuncLit); ok {
						has[fl] = true
						return true
					}
				}
				has[fd] = true
			}
			return true
		})
		if has[fd] {
			units = append(units, unit{core.FuncName(fd), fd.Body, fd.Pos()})
		}
		ast.Inspect(fd, func(n ast.Node) bool {
			if fl, ok := n.(*ast.FuncLit); ok {
				litN++
				if has[fl] {
					units = append(units, unit{core.FuncName(fd) + " func literal using unionInPlace", fl.Body, fl.Pos()})
				}
			}
			return true
		})
	}
	const (
		bStale flow.State = 1 << iota // some container united in place has not been recounted
		bVar                          // the result variable currently refers to such a container
	)
	for _, u := range units {
		construct := u.name + ": count repaired after unionInPlace"
		// variables holding the result of a unionInPlace call (or its receiver when the result is dropped)
		resVars := map[types.Object]bool{}
		ast.Inspect(u.body, func(n ast.Node) bool {
			switch x := n.(type) {
			case *ast.AssignStmt:
				if len(x.Rhs) == 1 {
					if c, ok := ast.Unparen(x.Rhs[0]).(*ast.CallExpr); ok && isMeth(c, "Container", "unionInPlace") {
						if id, ok := ast.Unparen(x.Lhs[0]).(*ast.Ident); ok {
							resVars[info.ObjectOf(id)] = true
						}
					}
				}
			case *ast.ExprStmt:
				if c, ok := ast.Unparen(x.X).(*ast.CallExpr); ok && isMeth(c, "Container", "unionInPlace") {
					if sel, ok := ast.Unparen(c.Fun).(*ast.SelectorExpr); ok {
						if id, ok := ast.Unparen(sel.X).(*ast.Ident); ok {
							resVars[info.ObjectOf(id)] = true
						}
					}
				}
			}
			return true
		})
		isRes := func(e ast.Expr) bool {
			id, ok := ast.Unparen(e).(*ast.Ident)
			return ok && resVars[info.ObjectOf(id)]
		}
		var bad []string
		type staleCand struct {
			pos token.Pos
			txt string
		}
		staleReads := map[token.Pos]bool{}
		var staleCands []staleCand
		h := flow.Hooks{Info: info}
		h.Atom = func(n ast.Node, s flow.State) []flow.State {
			if as, ok := n.(*ast.AssignStmt); ok {
				// the result variable is bound to another container (the united one stays in the collection)
				for i, l := range as.Lhs {
					if !isRes(l) {
						continue
					}
					var rhs ast.Expr
					if len(as.Rhs) == len(as.Lhs) {
						rhs = as.Rhs[i]
					} else if len(as.Rhs) == 1 {
						rhs = as.Rhs[0]
					}
					keeps := false
					if rhs != nil {
						// conversions and thaws of the same container keep its (stale) state
						ast.Inspect(rhs, func(m ast.Node) bool {
							if id, ok := m.(*ast.Ident); ok && resVars[info.ObjectOf(id)] {
								keeps = true
							}
							if c, ok := m.(*ast.CallExpr); ok && isMeth(c, "Container", "unionInPlace") {
								keeps = true
							}
							return true
						})
					}
					if !keeps {
						s &^= bVar
					}
				}
				return []flow.State{s}
			}
			c, ok := n.(*ast.CallExpr)
			if !ok {
				return []flow.State{s}
			}
			switch {
			case isMeth(c, "Container", "unionInPlace"):
				return []flow.State{s | bStale | bVar}
			case isMeth(c, "Container", "Repair"), isMeth(c, "Container", "bitmapRepair"), isMeth(c, "Container", "count"):
				return []flow.State{s &^ (bStale | bVar)}
			case isMeth(c, "Container", "N"):
				if sel, ok := ast.Unparen(c.Fun).(*ast.SelectorExpr); ok && isRes(sel.X) && s&bVar != 0 {
					bad = append(bad, p.Pos(c.Pos())+": the count of the united container is read before it was recounted")
				}
			default:
				if fn := core.CalleeOf(info, c); fn != nil && fn.Name() == "Repair" {
					// Containers.Repair (interface or implementation): recounts every container
					return []flow.State{s &^ (bStale | bVar)}
				}
			}
			return []flow.State{s}
		}
		// a test of the *result's* type after the union: only bitmaps are stale
		h.Refine = func(c ast.Expr, taken bool, s flow.State) (flow.State, bool) {
			if s&bStale == 0 {
				return s, true
			}
			isBitmapTest, negated := false, false
			switch x := ast.Unparen(c).(type) {
			case *ast.BinaryExpr:
				if x.Op == token.EQL || x.Op == token.NEQ {
					for _, pr := range [][2]ast.Expr{{x.X, x.Y}, {x.Y, x.X}} {
						var subject ast.Expr
						switch y := ast.Unparen(pr[0]).(type) {
						case *ast.SelectorExpr:
							if y.Sel.Name == "typeID" {
								subject = y.X
							}
						case *ast.CallExpr:
							if isMeth(y, "Container", "typ") {
								if sel, ok := ast.Unparen(y.Fun).(*ast.SelectorExpr); ok {
									subject = sel.X
								}
							}
						}
						if subject == nil || !isRes(subject) {
							continue
						}
						if id, ok := ast.Unparen(pr[1]).(*ast.Ident); ok && id.Name == "containerBitmap" {
							isBitmapTest, negated = true, x.Op == token.NEQ
						}
					}
				}
			case *ast.CallExpr:
				if isMeth(x, "Container", "isBitmap") {
					if sel, ok := ast.Unparen(x.Fun).(*ast.SelectorExpr); ok && isRes(sel.X) {
						isBitmapTest = true
					}
				}
			}
			if isBitmapTest && taken == negated {
				return s &^ (bStale | bVar), true // not a bitmap: the in-place union kept the count
			}
			return s, true
		}
		// containers loaded from a collection (X.Containers.Get(..)): their counts are what the
		// unrepaired unions leave stale
		loaded := map[types.Object]bool{}
		ast.Inspect(u.body, func(n ast.Node) bool {
			if as, ok := n.(*ast.AssignStmt); ok && len(as.Rhs) == 1 && len(as.Lhs) >= 1 {
				if c, ok := ast.Unparen(as.Rhs[0]).(*ast.CallExpr); ok {
					if g := core.CalleeOf(info, c); g != nil && g.Name() == "Get" {
						if sig, ok := g.Type().(*types.Signature); ok && sig.Recv() != nil && core.NamedOf(sig.Recv().Type()) != nil && core.NamedOf(sig.Recv().Type()).Obj().Name() == "Containers" {
							if id, ok := ast.Unparen(as.Lhs[0]).(*ast.Ident); ok {
								loaded[info.ObjectOf(id)] = true
							}
						}
					}
				}
			}
			return true
		})
		prevRefine := h.Refine
		// a stale count is a lower bound: it can show that a container is full, never that it is empty
		h.Refine = func(c ast.Expr, taken bool, s flow.State) (flow.State, bool) {
			if be, ok := ast.Unparen(c).(*ast.BinaryExpr); ok && len(loaded) > 0 {
				for _, pr := range [][2]ast.Expr{{be.X, be.Y}, {be.Y, be.X}} {
					call, ok := ast.Unparen(pr[0]).(*ast.CallExpr)
					if !ok || !isMeth(call, "Container", "N") {
						continue
					}
					sel, _ := ast.Unparen(call.Fun).(*ast.SelectorExpr)
					id, ok := ast.Unparen(sel.X).(*ast.Ident)
					if !ok || !loaded[info.ObjectOf(id)] {
						continue
					}
					k, isConst := c04ConstInt(info, pr[1])
					op := be.Op
					if pr[0] == be.Y {
						op = map[token.Token]token.Token{token.LSS: token.GTR, token.GTR: token.LSS, token.LEQ: token.GEQ, token.GEQ: token.LEQ, token.EQL: token.EQL, token.NEQ: token.NEQ}[op]
					}
					// outcomes that assert an upper bound on the count: N == k (k small), N < k, N <= k taken; N != k, N > k, N >= k not taken
					upper := false
					switch op {
					case token.EQL:
						upper = taken && isConst && k < 65536
					case token.NEQ:
						upper = !taken && isConst && k < 65536
					case token.LSS, token.LEQ:
						upper = taken
					case token.GTR, token.GEQ:
						upper = !taken
					}
					if upper && !staleReads[be.Pos()] {
						staleReads[be.Pos()] = true
						staleCands = append(staleCands, staleCand{be.Pos(), types.ExprString(be)})
					}
				}
			}
			if prevRefine != nil {
				return prevRefine(c, taken, s)
			}
			return s, true
		}
		h.Return = func(ret *ast.ReturnStmt, s flow.State) {
			if s&bStale != 0 {
				pos := p.Pos(u.body.End())
				if ret != nil {
					pos = p.Pos(ret.Pos())
				}
				bad = append(bad, pos+": returns with the united container's count not recounted")
			}
		}
		it := flow.Run(h, u.body, 0)
		// the count of a container loaded from the collection can be stale only if the function defers the
		// recount to the end (Containers.Repair after the loops) instead of repairing each result at once
		defers := false
		ast.Inspect(u.body, func(n ast.Node) bool {
			if c, ok := n.(*ast.CallExpr); ok {
				if fn := core.CalleeOf(info, c); fn != nil && fn.Name() == "Repair" && !isMeth(c, "Container", "Repair") {
					defers = true
				}
			}
			return true
		})
		if defers {
			for _, sc := range staleCands {
				bad = append(bad, p.Pos(sc.pos)+": `"+sc.txt+"` takes an unrepaired count for an upper bound")
			}
		}
		switch {
		case it.Unsupported != "":
			r.Undecide("R5", construct, p.Pos(u.pos), it.Unsupported)
		case len(bad) > 0:
			bad = dedupe(bad)
			r.Violate("R5", construct, p.Pos(u.pos), strings.Join(bad, "; ")+" -- unionInPlace on bitmap words does not maintain the cardinality: Count()/N() then disagree with membership and iteration, the reported number of changed bits is wrong, and a later Remove of the last counted bit drops the whole container")
		default:
			r.HoldAt("R5", construct, p.Pos(u.pos), "every path from unionInPlace recounts (Repair) or has established that the result is not a bitmap container before the count is read or the function returns")
		}
	}
	r.Floor("C02/R5 callers of (*Container).unionInPlace", len(units), 2)
}
