package props

import (
	"go/ast"
	"go/constant"
	"go/token"
	"go/types"
	"strings"

	"verif/checker/core"
	"verif/checker/flow"
)

// c07CacheIsNotStorage: rule R6. The count cache is lossy (rows below the
// rank threshold, evicted LRU entries, a missing .cache file all read as 0),
// so a zero from <fragment>.cache.Get says nothing about the row. On every
// path that learned "zero" from it, storage must be consulted before the
// function returns.
func c07CacheIsNotStorage(p *core.Program, r *core.Report) {
	pk := p.Pkg("")
	if pk == nil {
		return
	}
	info := pk.TypesInfo
	isCacheGet := func(c *ast.CallExpr) bool {
		sel, ok := ast.Unparen(c.Fun).(*ast.SelectorExpr)
		if !ok || sel.Sel.Name != "Get" {
			return false
		}
		_, ok = core.FieldSel(info, sel.X, core.ModPath, "fragment", "cache")
		return ok
	}
	storageRead := func(c *ast.CallExpr) bool {
		sel, ok := ast.Unparen(c.Fun).(*ast.SelectorExpr)
		if !ok {
			return false
		}
		if _, ok := core.FieldSel(info, sel.X, core.ModPath, "fragment", "storage"); ok {
			return true
		}
		fn := core.CalleeOf(info, c)
		if fn != nil && recvNamed(fn, "fragment") {
			switch fn.Name() {
			case "row", "unprotectedRow", "rowFromStorage", "bit":
				return true
			}
		}
		return false
	}
	nSites := 0
	for _, fd := range core.AllFuncDecls(pk) {
		if fd.Body == nil || strings.HasSuffix(p.Fset.Position(fd.Pos()).Filename, "_test.go") {
			continue
		}
		// results of cache.Get held in locals
		vars := map[types.Object]bool{}
		has := false
		ast.Inspect(fd.Body, func(n ast.Node) bool {
			switch x := n.(type) {
			case *ast.CallExpr:
				if isCacheGet(x) {
					has = true
				}
			case *ast.AssignStmt:
				if len(x.Rhs) == 1 {
					if c, ok := ast.Unparen(x.Rhs[0]).(*ast.CallExpr); ok && isCacheGet(c) {
						if id, ok := ast.Unparen(x.Lhs[0]).(*ast.Ident); ok {
							vars[info.ObjectOf(id)] = true
						}
					}
				}
			}
			return true
		})
		if !has {
			continue
		}
		nSites++
		isGetVal := func(e ast.Expr) bool {
			e = ast.Unparen(e)
			if id, ok := e.(*ast.Ident); ok {
				return vars[info.ObjectOf(id)]
			}
			if c, ok := e.(*ast.CallExpr); ok {
				return isCacheGet(c)
			}
			return false
		}
		constInt := func(e ast.Expr) (int64, bool) {
			if tv, ok := info.Types[e]; ok && tv.Value != nil && tv.Value.Kind() == constant.Int {
				return constant.Int64Val(tv.Value)
			}
			return 0, false
		}
		const bZero flow.State = 1
		var bad []string
		h := flow.Hooks{Info: info}
		h.Atom = func(n ast.Node, s flow.State) []flow.State {
			if c, ok := n.(*ast.CallExpr); ok && storageRead(c) {
				return []flow.State{s &^ bZero}
			}
			return []flow.State{s}
		}
		h.Refine = func(c ast.Expr, taken bool, s flow.State) (flow.State, bool) {
			be, ok := ast.Unparen(c).(*ast.BinaryExpr)
			if !ok {
				return s, true
			}
			x, y, op := be.X, be.Y, be.Op
			if isGetVal(y) && !isGetVal(x) {
				flip := map[token.Token]token.Token{token.LSS: token.GTR, token.GTR: token.LSS, token.LEQ: token.GEQ, token.GEQ: token.LEQ, token.EQL: token.EQL, token.NEQ: token.NEQ}
				x, y, op = y, x, flip[op]
			}
			if !isGetVal(x) {
				return s, true
			}
			k, isConst := constInt(y)
			zeroWhenTaken, zeroWhenNot := true, true // unknown shape: zero is possible on both sides
			if isConst {
				// is n == 0 consistent with (n op k)?
				sat := func(n int64) bool {
					switch op {
					case token.EQL:
						return n == k
					case token.NEQ:
						return n != k
					case token.LSS:
						return n < k
					case token.LEQ:
						return n <= k
					case token.GTR:
						return n > k
					case token.GEQ:
						return n >= k
					}
					return true
				}
				zeroWhenTaken, zeroWhenNot = sat(0), !sat(0)
			}
			if (taken && zeroWhenTaken) || (!taken && zeroWhenNot) {
				return s | bZero, true
			}
			return s, true
		}
		h.Return = func(ret *ast.ReturnStmt, s flow.State) {
			if s&bZero != 0 {
				pos := p.Pos(fd.End())
				if ret != nil {
					pos = p.Pos(ret.Pos())
				}
				bad = append(bad, pos)
			}
		}
		it := flow.Run(h, fd.Body, 0)
		construct := core.FuncName(fd) + ": a zero from the count cache is checked against storage"
		switch {
		case it.Unsupported != "":
			r.Undecide("R6", construct, p.Pos(fd.Pos()), it.Unsupported)
		case len(bad) > 0:
			bad = dedupe(bad)
			r.Violate("R6", construct, p.Pos(fd.Pos()), "returns at "+strings.Join(bad, ", ")+" on a path that took a zero from <fragment>.cache.Get as the row's count without reading storage: the cache drops rows (rank threshold, LRU eviction, lost .cache file), so a non-empty row is treated as empty")
		default:
			r.HoldAt("R6", construct, p.Pos(fd.Pos()), "every path that sees a zero from the count cache reads the row from storage before returning")
		}
	}
	r.Floor("C07/R6 functions consulting <fragment>.cache.Get", nSites, 1)
}
