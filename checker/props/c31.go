package props

import (
	"go/ast"
	"go/constant"
	"go/token"
	"go/types"
	"reflect"
	"sort"
	"strings"

	"verif/checker/core"
)

func init() { register("C31", c31) }

// tomlLeaves walks a struct type and returns dotted toml key -> Go field path
// for every leaf that toml.Marshal renders (untagged fields render under
// their Go name; `toml:"-"` is skipped).
func tomlLeaves(t types.Type, prefix, goPrefix string, out map[string]string, depth int) {
	st, ok := t.Underlying().(*types.Struct)
	if !ok || depth > 6 {
		return
	}
	for i := 0; i < st.NumFields(); i++ {
		f := st.Field(i)
		if !f.Exported() {
			continue
		}
		tag := reflect.StructTag(st.Tag(i)).Get("toml")
		name := strings.Split(tag, ",")[0]
		if name == "-" {
			continue
		}
		if name == "" {
			name = f.Name()
		}
		key, gp := name, f.Name()
		if prefix != "" {
			key = prefix + "." + name
			gp = goPrefix + "." + f.Name()
		}
		ft := f.Type()
		if n := core.NamedOf(ft); n != nil && n.Obj().Name() == "Duration" {
			out[strings.ToLower(key)] = gp
			continue
		}
		if _, isStruct := ft.Underlying().(*types.Struct); isStruct {
			tomlLeaves(ft, key, gp, out, depth+1)
			continue
		}
		out[strings.ToLower(key)] = gp
	}
}

// tomlPathOf renders the toml key of a selector chain rooted at a Config value.
func tomlPathOf(info *types.Info, e ast.Expr) (tomlKey, goPath string, ok bool) {
	var fields []*types.Var
	var tags []string
	cur := ast.Unparen(e)
	for {
		sel, isSel := cur.(*ast.SelectorExpr)
		if !isSel {
			break
		}
		s, has := info.Selections[sel]
		if !has || s.Kind() != types.FieldVal {
			break
		}
		recv := s.Recv()
		if p, isPtr := recv.(*types.Pointer); isPtr {
			recv = p.Elem()
		}
		st, isStruct := recv.Underlying().(*types.Struct)
		if !isStruct {
			break
		}
		tag := ""
		for i := 0; i < st.NumFields(); i++ {
			if st.Field(i) == s.Obj() {
				tag = strings.Split(reflect.StructTag(st.Tag(i)).Get("toml"), ",")[0]
			}
		}
		fields = append([]*types.Var{s.Obj().(*types.Var)}, fields...)
		tags = append([]string{tag}, tags...)
		if core.IsNamed(s.Recv(), core.ModPath+"/server", "Config") {
			var ks, gs []string
			for i, f := range fields {
				k := tags[i]
				if k == "" {
					k = f.Name()
				}
				ks = append(ks, k)
				gs = append(gs, f.Name())
			}
			return strings.Join(ks, "."), strings.Join(gs, "."), true
		}
		cur = ast.Unparen(sel.X)
	}
	return "", "", false
}

func c31(p *core.Program, r *core.Report) {
	r.Rule("R1", "option registry: every flag registered for the server command is bound to the server.Config field whose dotted toml tag path equals the flag name (so the flag, the environment variable derived from the flag name and the configuration-file key address the same option), and every leaf that toml.Marshal(Config) renders is a registered flag name (setAllConfig rejects unknown keys, so anything else breaks the generate-config round trip)")
	r.Rule("R2", "default agreement: the default passed to each flag registration is the bound Config field itself, or a constant equal to what NewConfig assigns to that field")
	r.Rule("R5", "no successful return without the copy: in setAllConfig every return before the loop that copies viper's resolved value into each flag (flags.VisitAll with <flag>.Value.Set) returns an error value, never nil")
	r.Rule("R3", "precedence skeleton of setAllConfig: flags are bound and the environment enabled before values are read; the configuration file is read only when a path is given; a flag the user set (f.Changed) is never overwritten; string-slice options are read with GetStringSlice")
	r.Rule("R4", "every value survives rendering: a Config field whose toml tag carries `omitempty` has the zero value as its NewConfig default; otherwise setting it to zero renders no key and reading the file back restores the non-zero default")
	r.NotDecided = "viper's own precedence implementation (third party), TOML encode/decode fidelity for all values"
	ctl, srv, cmd := p.Pkg("ctl"), p.Pkg("server"), p.Pkg("cmd")
	if ctl == nil || srv == nil || cmd == nil {
		r.Undecide("R1", "packages ctl/server/cmd", "", "not loaded")
		return
	}
	cfgObj := srv.Types.Scope().Lookup("Config")
	if cfgObj == nil {
		r.Undecide("R1", "server.Config", "", "not found")
		return
	}
	leaves := map[string]string{}
	tomlLeaves(cfgObj.Type(), "", "", leaves, 0)
	r.Floor("C31/R1 leaves rendered by toml.Marshal(Config)", len(leaves), 40)

	info := ctl.TypesInfo
	fd := core.FuncDecl(ctl, "", "BuildServerFlags")
	if fd == nil {
		r.Undecide("R1", "ctl.BuildServerFlags", "", "not found")
		return
	}
	// NewConfig defaults: go path -> constant value string
	defaults := c31Defaults(srv)
	{
		var walk func(t types.Type, goPrefix string, depth int)
		nOmit := 0
		walk = func(t types.Type, goPrefix string, depth int) {
			st, ok := t.Underlying().(*types.Struct)
			if !ok || depth > 6 {
				return
			}
			for i := 0; i < st.NumFields(); i++ {
				f := st.Field(i)
				if !f.Exported() {
					continue
				}
				gp := f.Name()
				if goPrefix != "" {
					gp = goPrefix + "." + f.Name()
				}
				tag := reflect.StructTag(st.Tag(i)).Get("toml")
				parts := strings.Split(tag, ",")
				omit := false
				for _, o := range parts[1:] {
					if o == "omitempty" {
						omit = true
					}
				}
				if omit {
					nOmit++
					def, has := defaults[gp]
					zero := !has || def == "" || def == zeroOf(f.Type()) || def == "0" || def == "false" || def == `""`
					r.Check(zero, "R4", "Config."+gp+" omitempty", "", "default is the zero value", "Config."+gp+" is rendered with omitempty but NewConfig defaults it to "+def+": a file rendered from a configuration that sets it to the zero value carries no key for it, and reading the file back restores "+def)
				}
				if n := core.NamedOf(f.Type()); n != nil && n.Obj().Name() == "Duration" {
					continue
				}
				if _, isStruct := f.Type().Underlying().(*types.Struct); isStruct {
					walk(f.Type(), gp, depth+1)
				}
			}
		}
		walk(cfgObj.Type(), "", 0)
		if nOmit == 0 {
			r.Hold("R4", "Config omitempty tags", "no Config field is rendered with omitempty")
		}
	}

	registered := map[string]bool{}
	type reg struct {
		name    string
		target  ast.Expr
		def     ast.Expr
		pos     token.Pos
	}
	var regs []reg
	var collect func(body *ast.BlockStmt, bind map[types.Object]ast.Expr, depth int)
	collect = func(body *ast.BlockStmt, bind map[types.Object]ast.Expr, depth int) {
		ast.Inspect(body, func(n ast.Node) bool {
			c, ok := n.(*ast.CallExpr)
			if !ok {
				return true
			}
			fn := core.CalleeOf(info, c)
			if fn == nil {
				return true
			}
			if fn.Pkg() != nil && fn.Pkg().Path() == "github.com/spf13/pflag" && strings.Contains(fn.Name(), "Var") && len(c.Args) >= 3 {
				// XxxVar(p, name, def, usage) / XxxVarP(p, name, short, def, usage)
				nameArg, defArg := c.Args[1], c.Args[2]
				if strings.HasSuffix(fn.Name(), "P") && len(c.Args) >= 4 {
					defArg = c.Args[3]
				}
				tv, ok := info.Types[nameArg]
				if !ok || tv.Value == nil {
					return true
				}
				target := c.Args[0]
				// strip &, conversions, and resolve parameters bound by the caller
				for {
					switch x := ast.Unparen(target).(type) {
					case *ast.UnaryExpr:
						if x.Op == token.AND {
							target = x.X
							continue
						}
					case *ast.CallExpr:
						if t, ok := info.Types[x.Fun]; ok && t.IsType() && len(x.Args) == 1 {
							target = x.Args[0]
							continue
						}
					case *ast.Ident:
						if b, ok := bind[info.ObjectOf(x)]; ok {
							target = b
							continue
						}
					}
					break
				}
				regs = append(regs, reg{constant.StringVal(tv.Value), target, defArg, c.Pos()})
				return true
			}
			// helper in package ctl taking pointers (SetTLSConfig)
			if hd := core.FuncDecl(ctl, "", fn.Name()); hd != nil && fn.Pkg() == ctl.Types && depth < 2 && hd != fd {
				nb := map[types.Object]ast.Expr{}
				i := 0
				for _, fl := range hd.Type.Params.List {
					for _, nm := range fl.Names {
						if i < len(c.Args) {
							nb[info.ObjectOf(nm)] = c.Args[i]
						}
						i++
					}
				}
				collect(hd.Body, nb, depth+1)
			}
			return true
		})
	}
	collect(fd.Body, map[types.Object]ast.Expr{}, 0)
	r.Floor("C31/R1 flag registrations", len(regs), 40)
	for _, rg := range regs {
		registered[rg.name] = true
		key, goPath, ok := tomlPathOf(info, rg.target)
		construct := "flag --" + rg.name
		if !ok {
			r.Undecide("R1", construct, p.Pos(rg.pos), "the flag is not bound to a field of server.Config (target "+types.ExprString(rg.target)+")")
			continue
		}
		if key != rg.name {
			r.Violate("R1", construct, p.Pos(rg.pos), "the flag is bound to Config."+goPath+", whose configuration-file key is `"+key+"`: the flag/environment name and the file key address different options, so precedence between them is undefined for this option")
		} else {
			r.HoldAt("R1", construct, p.Pos(rg.pos), "bound to Config."+goPath+" (toml key "+key+")")
		}
		// R2
		defKey, _, isField := tomlPathOf(info, rg.def)
		// strip conversion around the default
		if !isField {
			if ce, ok := ast.Unparen(rg.def).(*ast.CallExpr); ok && len(ce.Args) == 1 {
				if t, ok := info.Types[ce.Fun]; ok && t.IsType() {
					defKey, _, isField = tomlPathOf(info, ce.Args[0])
				}
			}
		}
		switch {
		case isField && defKey == key:
			r.HoldAt("R2", construct+" default", p.Pos(rg.pos), "default is the bound field itself (NewConfig's value)")
		case isField:
			r.Violate("R2", construct+" default", p.Pos(rg.pos), "the default is taken from a different Config field (`"+defKey+"`)")
		default:
			got := constString(info, rg.def)
			want, has := defaults[goPath]
			if !has {
				want = zeroOf(info.TypeOf(rg.def))
			}
			if got == "?" {
				r.Undecide("R2", construct+" default", p.Pos(rg.pos), "default `"+types.ExprString(rg.def)+"` is neither the bound field nor a constant")
			} else if got != want {
				r.Violate("R2", construct+" default", p.Pos(rg.pos), "the flag's default is "+got+" but NewConfig gives Config."+goPath+" the value "+want+": the effective default depends on whether flags were parsed")
			} else {
				r.HoldAt("R2", construct+" default", p.Pos(rg.pos), "constant default "+got+" equals NewConfig's value")
			}
		}
	}
	var keys []string
	for k := range leaves {
		keys = append(keys, k)
	}
	sort.Strings(keys)
	for _, k := range keys {
		construct := "config key " + k
		if registered[k] {
			r.Hold("R1", construct, "rendered by generate-config and accepted on read (flag registered)")
		} else {
			r.Violate("R1", construct, "", "toml.Marshal(Config) renders Config."+leaves[k]+" under key `"+k+"`, but no flag of that name is registered: setAllConfig rejects the generated file with \"invalid option in configuration file\"")
		}
	}

	// ---- R3
	c31Skeleton(p, r, cmd)
	c31CopyOnEverySuccess(p, r, cmd)
}

func constString(info *types.Info, e ast.Expr) string {
	if tv, ok := info.Types[e]; ok && tv.Value != nil {
		return tv.Value.ExactString()
	}
	if cl, ok := ast.Unparen(e).(*ast.CompositeLit); ok && len(cl.Elts) == 0 {
		return "empty"
	}
	return "?"
}

func zeroOf(t types.Type) string {
	if t == nil {
		return "?"
	}
	switch u := t.Underlying().(type) {
	case *types.Basic:
		switch {
		case u.Info()&types.IsString != 0:
			return `""`
		case u.Info()&types.IsBoolean != 0:
			return "false"
		case u.Info()&types.IsNumeric != 0:
			return "0"
		}
	case *types.Slice:
		return "empty"
	}
	return "?"
}

