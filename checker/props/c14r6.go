package props

import (
	"go/ast"
	"go/types"
	"strings"

	"verif/checker/core"
	"verif/checker/flow"
)

// c14CountDefined: rule R6. The bit depth of a group is 0 until a value other
// than the base is stored, so a loop over the value planes may run no
// iteration. A named result that such a function returns as the number of
// columns must have been assigned on that path too; otherwise the function
// answers "no columns" for a group whose columns all hold the base value.
func c14CountDefined(p *core.Program, r *core.Report) {
	pk := p.Pkg("")
	if pk == nil {
		return
	}
	info := pk.TypesInfo
	n := 0
	for _, fd := range core.AllFuncDecls(pk) {
		if fd.Body == nil || core.RecvName(fd) != "fragment" || fd.Type.Results == nil || strings.HasSuffix(p.Fset.Position(fd.Pos()).Filename, "_test.go") {
			continue
		}
		hasDepth := false
		for _, fl := range fd.Type.Params.List {
			for _, nm := range fl.Names {
				if nm.Name == "bitDepth" {
					hasDepth = true
				}
			}
		}
		if !hasDepth {
			continue
		}
		// named integer results called count
		var countObj types.Object
		idx, k := -1, 0
		for _, fl := range fd.Type.Results.List {
			for _, nm := range fl.Names {
				if nm.Name == "count" {
					countObj, idx = info.Defs[nm], k
				}
				k++
			}
			if len(fl.Names) == 0 {
				k++
			}
		}
		if countObj == nil {
			continue
		}
		// only functions that walk the value planes
		hasLoop := false
		ast.Inspect(fd.Body, func(m ast.Node) bool {
			if _, ok := m.(*ast.ForStmt); ok {
				hasLoop = true
			}
			return true
		})
		if !hasLoop {
			continue
		}
		n++
		const bSet flow.State = 1
		var bad []string
		h := flow.Hooks{Info: info}
		h.Atom = func(nd ast.Node, s flow.State) []flow.State {
			if as, ok := nd.(*ast.AssignStmt); ok {
				for _, l := range as.Lhs {
					if id, ok := ast.Unparen(l).(*ast.Ident); ok && info.ObjectOf(id) == countObj {
						s |= bSet
					}
				}
			}
			return []flow.State{s}
		}
		h.Return = func(ret *ast.ReturnStmt, s flow.State) {
			if s&bSet != 0 {
				return
			}
			pos := p.Pos(fd.End())
			usesNamed := ret == nil || len(ret.Results) == 0
			if ret != nil {
				pos = p.Pos(ret.Pos())
				if idx < len(ret.Results) {
					if id, ok := ast.Unparen(ret.Results[idx]).(*ast.Ident); ok && info.ObjectOf(id) == countObj {
						usesNamed = true
					}
				}
			}
			if usesNamed {
				bad = append(bad, pos)
			}
		}
		it := flow.Run(h, fd.Body, 0)
		construct := core.FuncName(fd) + ": count defined when no plane is visited"
		switch {
		case it.Unsupported != "":
			r.Undecide("R6", construct, p.Pos(fd.Pos()), it.Unsupported)
		case len(bad) > 0:
			r.Violate("R6", construct, p.Pos(fd.Pos()), "returns its named count result at "+strings.Join(dedupe(bad), ", ")+" on a path that never assigned it (the plane loop ran no iteration: bit depth 0): Min/Max report count 0 for a field whose columns all hold the base value")
		default:
			r.HoldAt("R6", construct, p.Pos(fd.Pos()), "the count result is assigned on every path that returns it")
		}
	}
	r.Floor("C14/R6 plane-walking functions with a named count result", n, 2)
}

// c14StrictnessAtDepthZero: rule R7. In the bit-plane comparisons the
// difference between a strict and an inclusive comparison is decided at the
// last plane (i == 0 && !allowEquality). With a bit depth of 0 no plane is
// visited, so a function that takes the strictness flag must consult it, or
// test the depth, on every path: otherwise "v > 0" and "v >= 0" answer alike
// for a group whose columns all hold the base value.
func c14StrictnessAtDepthZero(p *core.Program, r *core.Report) {
	pk := p.Pkg("")
	if pk == nil {
		return
	}
	info := pk.TypesInfo
	n := 0
	for _, fd := range core.AllFuncDecls(pk) {
		if fd.Body == nil || core.RecvName(fd) != "fragment" || strings.HasSuffix(p.Fset.Position(fd.Pos()).Filename, "_test.go") {
			continue
		}
		var depthObj, eqObj types.Object
		for _, fl := range fd.Type.Params.List {
			for _, nm := range fl.Names {
				switch nm.Name {
				case "bitDepth":
					depthObj = info.Defs[nm]
				case "allowEquality":
					eqObj = info.Defs[nm]
				}
			}
		}
		if depthObj == nil || eqObj == nil {
			continue
		}
		hasLoop := false
		ast.Inspect(fd.Body, func(m ast.Node) bool {
			if _, ok := m.(*ast.ForStmt); ok {
				hasLoop = true
			}
			return true
		})
		if !hasLoop {
			continue
		}
		n++
		const bSeen flow.State = 1
		var bad []string
		mentions := func(e ast.Node) bool {
			found := false
			ast.Inspect(e, func(m ast.Node) bool {
				if id, ok := m.(*ast.Ident); ok {
					if o := info.ObjectOf(id); o == depthObj || o == eqObj {
						found = true
					}
				}
				return true
			})
			return found
		}
		h := flow.Hooks{Info: info}
		h.Refine = func(c ast.Expr, taken bool, s flow.State) (flow.State, bool) {
			if mentions(c) {
				return s | bSeen, true
			}
			return s, true
		}
		h.Return = func(ret *ast.ReturnStmt, s flow.State) {
			if s&bSeen != 0 {
				return
			}
			// error returns do not answer the comparison
			if ret != nil && len(ret.Results) == 2 {
				if id, ok := ast.Unparen(ret.Results[0]).(*ast.Ident); ok && id.Name == "nil" {
					return
				}
			}
			pos := p.Pos(fd.End())
			if ret != nil {
				pos = p.Pos(ret.Pos())
			}
			bad = append(bad, pos)
		}
		it := flow.Run(h, fd.Body, 0)
		construct := core.FuncName(fd) + ": strictness decided when no plane is visited"
		switch {
		case it.Unsupported != "":
			r.Undecide("R7", construct, p.Pos(fd.Pos()), it.Unsupported)
		case len(bad) > 0:
			r.Violate("R7", construct, p.Pos(fd.Pos()), "answers at "+strings.Join(dedupe(bad), ", ")+" on a path that neither consulted allowEquality nor tested the bit depth (the plane loop ran no iteration): at bit depth 0 the strict and the inclusive comparison return the same columns, so Row(v > base) lists columns holding exactly the base value")
		default:
			r.HoldAt("R7", construct, p.Pos(fd.Pos()), "every answering path consulted the strictness flag or tested the depth")
		}
	}
	r.Floor("C14/R7 plane-walking comparisons with a strictness flag", n, 2)
}
