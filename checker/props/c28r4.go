package props

import (
	"go/ast"
	"go/token"
	"go/types"
	"sort"
	"strings"

	"golang.org/x/tools/go/packages"

	"verif/checker/core"
)

// sliceMutators computes, over packages pilosa and roaring, which slice
// parameters a function overwrites in place: an element store, copy into it,
// an in-place sort, or handing it (whole, re-sliced, or spread as a variadic
// argument) to a parameter that is itself overwritten.
type sliceMutators struct {
	m     map[*types.Func]map[int]string // func -> param index -> reason
	decls map[*types.Func]*ast.FuncDecl
	infos map[*types.Func]*types.Info
}

func computeSliceMutators(p *core.Program, pkgs ...*packages.Package) *sliceMutators {
	sm := &sliceMutators{m: map[*types.Func]map[int]string{}, decls: map[*types.Func]*ast.FuncDecl{}, infos: map[*types.Func]*types.Info{}}
	for _, pk := range pkgs {
		if pk == nil {
			continue
		}
		for _, fd := range core.AllFuncDecls(pk) {
			if fd.Body == nil || strings.HasSuffix(p.Fset.Position(fd.Pos()).Filename, "_test.go") {
				continue
			}
			if fn, ok := pk.TypesInfo.Defs[fd.Name].(*types.Func); ok {
				sm.decls[fn], sm.infos[fn] = fd, pk.TypesInfo
			}
		}
	}
	var fns []*types.Func
	for fn := range sm.decls {
		fns = append(fns, fn)
	}
	sort.Slice(fns, func(i, j int) bool { return sm.decls[fns[i]].Pos() < sm.decls[fns[j]].Pos() })
	paramIndex := func(fn *types.Func) map[types.Object]int {
		out := map[types.Object]int{}
		fd, info := sm.decls[fn], sm.infos[fn]
		k := 0
		for _, fl := range fd.Type.Params.List {
			if len(fl.Names) == 0 {
				k++
				continue
			}
			for _, nm := range fl.Names {
				if _, ok := info.TypeOf(fl.Type).Underlying().(*types.Slice); ok {
					out[info.Defs[nm]] = k
				} else if _, ok := fl.Type.(*ast.Ellipsis); ok {
					out[info.Defs[nm]] = k
				}
				k++
			}
		}
		return out
	}
	for changed := true; changed; {
		changed = false
		for _, fn := range fns {
			fd, info := sm.decls[fn], sm.infos[fn]
			params := paramIndex(fn)
			if len(params) == 0 {
				continue
			}
			// aliases: local := param / param[a:b]
			alias := map[types.Object]int{}
			for o, i := range params {
				alias[o] = i
			}
			root := func(e ast.Expr) (int, bool) {
				for {
					switch x := ast.Unparen(e).(type) {
					case *ast.SliceExpr:
						e = x.X
					case *ast.Ident:
						i, ok := alias[info.ObjectOf(x)]
						return i, ok
					default:
						return 0, false
					}
				}
			}
			for pass := 0; pass < 2; pass++ {
				ast.Inspect(fd.Body, func(n ast.Node) bool {
					if as, ok := n.(*ast.AssignStmt); ok && len(as.Lhs) == len(as.Rhs) {
						for i, l := range as.Lhs {
							if id, ok := ast.Unparen(l).(*ast.Ident); ok {
								if pi, ok := root(as.Rhs[i]); ok {
									if o := info.ObjectOf(id); o != nil {
										if _, isParam := params[o]; !isParam {
											alias[o] = pi
										}
									}
								}
							}
						}
					}
					return true
				})
			}
			mark := func(i int, why string) {
				if sm.m[fn] == nil {
					sm.m[fn] = map[int]string{}
				}
				if _, ok := sm.m[fn][i]; !ok {
					sm.m[fn][i] = why
					changed = true
				}
			}
			ast.Inspect(fd.Body, func(n ast.Node) bool {
				switch x := n.(type) {
				case *ast.AssignStmt:
					for _, l := range x.Lhs {
						if ix, ok := ast.Unparen(l).(*ast.IndexExpr); ok {
							if pi, ok := root(ix.X); ok {
								mark(pi, "stores to "+types.ExprString(ix)+" at "+p.Pos(ix.Pos()))
							}
						}
					}
				case *ast.CallExpr:
					if bn := core.BuiltinName(info, x); bn == "copy" && len(x.Args) == 2 {
						if pi, ok := root(x.Args[0]); ok {
							mark(pi, "copies into it at "+p.Pos(x.Pos()))
						}
						return true
					}
					callee := core.CalleeOf(info, x)
					if callee == nil {
						return true
					}
					if callee.Pkg() != nil && callee.Pkg().Path() == "sort" {
						for _, a := range x.Args {
							ast.Inspect(a, func(m ast.Node) bool {
								if e, ok := m.(ast.Expr); ok {
									if pi, ok := root(e); ok {
										mark(pi, "sorts it in place at "+p.Pos(x.Pos()))
									}
								}
								return true
							})
						}
						return true
					}
					cm := sm.m[callee]
					if cm == nil {
						return true
					}
					sig := callee.Type().(*types.Signature)
					for ai, a := range x.Args {
						pi, ok := root(a)
						if !ok {
							continue
						}
						ci := ai
						if sig.Variadic() && ai >= sig.Params().Len()-1 {
							if !x.Ellipsis.IsValid() {
								continue // individual values, copied into a fresh slice
							}
							ci = sig.Params().Len() - 1
						}
						if why, ok := cm[ci]; ok {
							mark(pi, "passes it to "+core.FuncKey(callee)+" ("+why+") at "+p.Pos(x.Pos()))
						}
					}
				}
				return true
			})
		}
	}
	return sm
}

// c28CallerKeepsItsSlices: rule R4.
func c28CallerKeepsItsSlices(p *core.Program, r *core.Report) {
	pk, rp := p.Pkg(""), p.Pkg("roaring")
	if pk == nil || rp == nil {
		return
	}
	info := pk.TypesInfo
	sm := computeSliceMutators(p, pk, rp)
	nAnchor := 0
	for fn := range sm.m {
		if fn.Name() == "bulkImportStandard" && recvNamed(fn, "fragment") {
			nAnchor++
		}
	}
	r.Floor("C28/R4 (*fragment).bulkImportStandard recognised as overwriting its column slice", nAnchor, 1)
	nSites := 0
	for _, fd := range core.AllFuncDecls(pk) {
		if fd.Body == nil || core.RecvName(fd) == "fragment" || strings.HasSuffix(p.Fset.Position(fd.Pos()).Filename, "_test.go") {
			continue
		}
		parents := parentMap(fd.Body)
		ast.Inspect(fd.Body, func(n ast.Node) bool {
			c, ok := n.(*ast.CallExpr)
			if !ok {
				return true
			}
			callee := core.CalleeOf(info, c)
			if callee == nil || sm.m[callee] == nil {
				return true
			}
			sig := callee.Type().(*types.Signature)
			for ai, a := range c.Args {
				ci := ai
				if sig.Variadic() && ai >= sig.Params().Len()-1 {
					if !c.Ellipsis.IsValid() {
						continue
					}
					ci = sig.Params().Len() - 1
				}
				why, ok := sm.m[callee][ci]
				if !ok {
					continue
				}
				// the expression handed over, without re-slicing
				e := ast.Unparen(a)
				for {
					if se, ok := e.(*ast.SliceExpr); ok {
						e = ast.Unparen(se.X)
						continue
					}
					break
				}
				switch e.(type) {
				case *ast.Ident, *ast.SelectorExpr:
				default:
					continue // a fresh value (call result, literal)
				}
				nSites++
				key := types.ExprString(e)
				construct := core.FuncName(fd) + ": " + key + " handed to " + core.FuncKey(callee)
				// a later read of the same expression, or any read in the same loop
				var loop ast.Node
				for q := parents[ast.Node(c)]; q != nil; q = parents[q] {
					switch q.(type) {
					case *ast.ForStmt, *ast.RangeStmt:
						if loop == nil {
							loop = q
						}
					}
				}
				// a loop that rebinds the expression's root each iteration does not carry it over
				if rs, ok := loop.(*ast.RangeStmt); ok {
					rootID := e
					for {
						if s, ok := rootID.(*ast.SelectorExpr); ok {
							rootID = ast.Unparen(s.X)
							continue
						}
						break
					}
					if id, ok := rootID.(*ast.Ident); ok {
						for _, kv := range []ast.Expr{rs.Key, rs.Value} {
							if k, ok := kv.(*ast.Ident); ok && info.ObjectOf(k) == info.ObjectOf(id) {
								loop = nil
							}
						}
					}
				}
				// a hand-over inside a return statement is the last thing the function does
				inReturn := false
				for q := parents[ast.Node(c)]; q != nil; q = parents[q] {
					if _, ok := q.(*ast.ReturnStmt); ok {
						inReturn = true
					}
					if _, ok := q.(*ast.FuncLit); ok {
						break
					}
				}
				var later token.Pos
				ast.Inspect(fd.Body, func(m ast.Node) bool {
					if inReturn {
						return false
					}
					ex, ok := m.(ast.Expr)
					if !ok || later.IsValid() {
						return true
					}
					switch ex.(type) {
					case *ast.Ident, *ast.SelectorExpr:
					default:
						return true
					}
					if types.ExprString(ex) != key {
						return true
					}
					// the argument itself
					if ex.Pos() >= c.Pos() && ex.End() <= c.End() {
						return false
					}
					after := ex.Pos() > c.End()
					inLoop := loop != nil && ex.Pos() >= loop.Pos() && ex.End() <= loop.End()
					if !after && !inLoop {
						return false
					}
					// being assigned a new value is not a read
					if as, ok := parents[m].(*ast.AssignStmt); ok {
						for _, l := range as.Lhs {
							if l == ex {
								return false
							}
						}
					}
					later = ex.Pos()
					return false
				})
				if later.IsValid() {
					r.Violate("R4", construct, p.Pos(c.Pos()), "the callee overwrites this slice in place ("+why+") and the caller reads "+key+" again at "+p.Pos(later)+": what it reads there is no longer what it was given (positions instead of columns, compacted duplicates), so the second write path sees different data from the first")
				} else {
					r.HoldAt("R4", construct, p.Pos(c.Pos()), "not read again after the hand-over")
				}
			}
			return true
		})
	}
	r.Floor("C28/R4 slices handed to an in-place importer outside fragment methods", nSites, 2)
}
