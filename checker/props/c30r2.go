package props

import (
	"go/ast"
	"go/types"
	"strings"

	"verif/checker/core"
	"verif/checker/flow"
)

// c30EveryRecordBuffered: rule R2. The import command reads the CSV record
// by record into a Bit (or FieldValue) and appends it to the buffer it sends.
// Once the fields of a record were stored into that value, the iteration must
// append it: dropping a parsed record (as a "duplicate", an "empty" one...)
// loses a line of the export that is being read back.
func c30EveryRecordBuffered(p *core.Program, r *core.Report) {
	cp := p.Pkg("ctl")
	if cp == nil {
		r.Undecide("R2", "package ctl", "", "not loaded")
		return
	}
	info := cp.TypesInfo
	isRecordType := func(t types.Type) bool {
		return t != nil && (core.IsNamed(t, core.ModPath, "Bit") || core.IsNamed(t, core.ModPath, "FieldValue"))
	}
	n := 0
	for _, fd := range core.AllFuncDecls(cp) {
		if fd.Body == nil || core.RecvName(fd) != "ImportCommand" || strings.HasSuffix(p.Fset.Position(fd.Pos()).Filename, "_test.go") {
			continue
		}
		ast.Inspect(fd.Body, func(nd ast.Node) bool {
			loop, ok := nd.(*ast.ForStmt)
			if !ok {
				return true
			}
			// the record value declared in this loop's body
			var rec types.Object
			for _, st := range loop.Body.List {
				switch x := st.(type) {
				case *ast.DeclStmt:
					if gd, ok := x.Decl.(*ast.GenDecl); ok {
						for _, sp := range gd.Specs {
							if vs, ok := sp.(*ast.ValueSpec); ok {
								for _, nm := range vs.Names {
									if o := info.Defs[nm]; o != nil && isRecordType(o.Type()) {
										rec = o
									}
								}
							}
						}
					}
				case *ast.AssignStmt:
					for _, l := range x.Lhs {
						if id, ok := l.(*ast.Ident); ok {
							if o := info.Defs[id]; o != nil && isRecordType(o.Type()) {
								rec = o
							}
						}
					}
				}
			}
			if rec == nil {
				return true
			}
			n++
			const (
				bParsed flow.State = 1 << iota
				bAppended
			)
			var bad []string
			h := flow.Hooks{Info: info}
			h.Atom = func(m ast.Node, s flow.State) []flow.State {
				as, ok := m.(*ast.AssignStmt)
				if !ok {
					return []flow.State{s}
				}
				for _, l := range as.Lhs {
					if sel, ok := ast.Unparen(l).(*ast.SelectorExpr); ok {
						if id, ok := ast.Unparen(sel.X).(*ast.Ident); ok && info.ObjectOf(id) == rec {
							s |= bParsed
						}
					}
				}
				for _, rh := range as.Rhs {
					if c, ok := ast.Unparen(rh).(*ast.CallExpr); ok && core.BuiltinName(info, c) == "append" {
						for _, a := range c.Args[1:] {
							if id, ok := ast.Unparen(a).(*ast.Ident); ok && info.ObjectOf(id) == rec {
								s |= bAppended
							}
						}
					}
				}
				return []flow.State{s}
			}
			h.Return = func(ret *ast.ReturnStmt, s flow.State) {
				if ret != nil && len(ret.Results) > 0 {
					return // leaves the function (error, or end of input)
				}
				if s&bParsed != 0 && s&bAppended == 0 {
					pos := p.Pos(loop.Body.End())
					if ret != nil {
						pos = p.Pos(ret.Pos())
					}
					bad = append(bad, pos)
				}
			}
			it := flow.Run(h, c13IterationBody(loop.Body), 0)
			construct := core.FuncName(fd) + ": every parsed record is buffered"
			switch {
			case it.Unsupported != "" && !strings.Contains(it.Unsupported, "break"):
				r.Undecide("R2", construct, p.Pos(loop.Pos()), it.Unsupported)
			case len(bad) > 0:
				r.Violate("R2", construct, p.Pos(loop.Pos()), "an iteration ends at "+strings.Join(dedupe(bad), ", ")+" after the record's fields were stored into "+rec.Name()+" but without appending it to the buffer: that line of the CSV is dropped, so importing an export does not restore the field")
			default:
				r.HoldAt("R2", construct, p.Pos(loop.Pos()), "once "+rec.Name()+" holds a parsed record the iteration appends it (or returns an error)")
			}
			return true
		})
	}
	r.Floor("C30/R2 record-reading loops of the import command", n, 2)
}
