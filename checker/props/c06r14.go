package props

import (
	"go/ast"
	"go/token"
	"go/types"
	"strings"

	"verif/checker/core"
	"verif/checker/flow"
)

// c06ValidateBeforeApply: R14. Bitmap.ImportRoaringBits applies containers as
// its iterator decodes them, and the iterators find a malformed container only
// when they reach it. "A rejected request leaves stored data unchanged" then
// needs a complete pass over the payload before the first container is
// applied: on every path to a call that writes the bitmap's containers, an
// error returned by roaringIterator.Next has been compared with io.EOF and
// found equal.
func c06ValidateBeforeApply(p *core.Program, r *core.Report) {
	rp := p.Pkg("roaring")
	if rp == nil {
		r.Undecide("R14", "package roaring", "", "not loaded")
		return
	}
	info := rp.TypesInfo
	fd := core.FuncDecl(rp, "Bitmap", "ImportRoaringBits")
	construct := "(*Bitmap).ImportRoaringBits: payload walked to its end before the first write"
	if fd == nil || fd.Body == nil {
		r.Undecide("R14", construct, "", "function not found")
		return
	}
	// error variables assigned from roaringIterator.Next
	nextErr := map[types.Object]bool{}
	ast.Inspect(fd.Body, func(m ast.Node) bool {
		as, ok := m.(*ast.AssignStmt)
		if !ok || len(as.Rhs) != 1 {
			return true
		}
		c, ok := ast.Unparen(as.Rhs[0]).(*ast.CallExpr)
		if !ok {
			return true
		}
		fn := core.CalleeOf(info, c)
		if fn == nil || fn.Name() != "Next" || !recvNamed(fn, "roaringIterator") {
			return true
		}
		if id, ok := as.Lhs[len(as.Lhs)-1].(*ast.Ident); ok && id.Name != "_" {
			nextErr[info.ObjectOf(id)] = true
		}
		return true
	})
	isEOF := func(e ast.Expr) bool {
		sel, ok := ast.Unparen(e).(*ast.SelectorExpr)
		if !ok {
			return false
		}
		o := info.Uses[sel.Sel]
		return o != nil && o.Pkg() != nil && o.Pkg().Path() == "io" && o.Name() == "EOF"
	}
	const bWalked flow.State = 1
	var bad []string
	nWrites := 0
	h := flow.Hooks{Info: info}
	h.Refine = func(cond ast.Expr, taken bool, s flow.State) (flow.State, bool) {
		be, ok := ast.Unparen(cond).(*ast.BinaryExpr)
		if !ok || (be.Op != token.NEQ && be.Op != token.EQL) {
			return s, true
		}
		var v ast.Expr
		switch {
		case isEOF(be.Y):
			v = be.X
		case isEOF(be.X):
			v = be.Y
		default:
			return s, true
		}
		id, ok := ast.Unparen(v).(*ast.Ident)
		if !ok || !nextErr[info.ObjectOf(id)] {
			return s, true
		}
		if (be.Op == token.NEQ) != taken { // err == io.EOF holds
			s |= bWalked
		}
		return s, true
	}
	h.Atom = func(nd ast.Node, s flow.State) []flow.State {
		c, ok := nd.(*ast.CallExpr)
		if !ok {
			return []flow.State{s}
		}
		fn := core.CalleeOf(info, c)
		if fn == nil || !recvNamed(fn, "Containers") {
			return []flow.State{s}
		}
		switch fn.Name() {
		case "Put", "Update", "UpdateEvery", "Remove", "GetOrCreate", "Reset", "Repair":
			nWrites++
			if s&bWalked == 0 {
				bad = append(bad, "Containers."+fn.Name()+" at "+p.Pos(c.Pos()))
			}
		}
		return []flow.State{s}
	}
	it := flow.Run(h, fd.Body, 0)
	switch {
	case it.Unsupported != "":
		r.Undecide("R14", construct, p.Pos(fd.Pos()), it.Unsupported)
	case len(bad) > 0:
		r.Violate("R14", construct, p.Pos(fd.Pos()), "the bitmap is written ("+strings.Join(dedupe(bad), ", ")+") on a path where no iterator over the payload has yet returned io.EOF: a malformed container further into the payload rejects the import with the earlier containers already merged and unlogged")
	default:
		r.HoldAt("R14", construct, p.Pos(fd.Pos()), "every container write follows an `err == io.EOF` outcome of a full iterator pass")
	}
	r.Floor("C06/R14 container writes in ImportRoaringBits", nWrites, 1)
}
