package props

import (
	"fmt"
	"go/ast"
	"go/token"
	"go/types"
	"sort"
	"strings"

	"verif/checker/core"
	"verif/checker/flow"
)

func init() { register("C28", c28) }

func c28(p *core.Program, r *core.Report) {
	r.Rule("R1", "effect-parity matrix: every fragment write path (row: storage-mutating function x entry point that reaches it) performs the same set of derived-state updates after mutating storage (columns: row-cache invalidation, block-checksum invalidation, count-cache update); a path that skips one answers reads differently from the other paths for the same bits")
	r.Rule("R2", "API-level parity: every API write entry that sets bits (Set via executor.executeSet, API.Import, API.ImportValue, API.ImportRoaring) records the written columns in the index's existence field when the write is not a clear, and validates shard ownership before writing locally")
	r.Rule("R4", "the caller keeps its slices: the functions of packages pilosa and roaring that overwrite a slice parameter in place are computed (element stores, copy, in-place sorts, hand-over to such a parameter, variadic spreads; (*fragment).bulkImportStandard is the anchor); outside fragment methods a variable or field handed to such a parameter is not read again later in the function or in the same loop (a range variable rebound per iteration excepted)")
	c28CallerKeepsItsSlices(p, r)
	// R5: issuing the same writes as Set() queries ends on the last one per column; the mutex/bool
	// import reduces its batch to that in one loop. The obligations are C13-R4's.
	r.Rule("R5", "last write wins in a batch (= C13-R4): fragment.bulkImportMutex's reduction loop records every input pair in the per-column map before anything can skip it, so a column written twice in one batch ends on the row the same writes issued one by one would leave")
	{
		tmp := core.NewReport("C13", r.Tier)
		c13(p, tmp)
		n := 0
		for _, o := range tmp.Obls {
			if o.Rule == "R4" {
				o.Rule = "R5"
				r.Obls = append(r.Obls, o)
				n++
			}
		}
		r.Floor("C28/R5 obligations taken over from C13-R4", n, 1)
	}
	r.Rule("R6", "Import selects views as the queries do: in Field.Import the standard view becomes a target only under `!options.NoStandardView` (as in SetBit), and under options.Clear the targets are enumerated from the field's view registry (views()/viewMap), as ClearBit does for every time view")
	c28ImportSelectsViewsLikeTheQueries(p, r)
	r.Rule("R3", "time-view parity: the single-bit path (Field.SetBit) and the bulk path (Field.Import) derive the time views to write from the same function (viewsByTime) with the field's quantum")
	r.NotDecided = "equality of query answers on generated data; duplicate handling inside one batch"
	b, err := newFxBase(p)
	if err != nil {
		r.Undecide("R1", "fragment effects", "", err.Error())
		return
	}
	pk := b.pk
	info := b.info
	// ---- R1
	kinds := []fxKind{fxRowCache, fxChecksum, fxCountCache}
	type cell struct{ dirty, unsup bool }
	rows := map[string]map[fxKind]cell{}
	pos := map[string]string{}
	for _, k := range kinds {
		for _, x := range b.analyse(k) {
			key := b.fname(x.origin) + " via " + b.fname(x.boundary)
			if rows[key] == nil {
				rows[key] = map[fxKind]cell{}
			}
			rows[key][k] = cell{x.dirty, x.unsupported != ""}
			pos[key] = p.Pos(x.muts[0].pos)
		}
	}
	var keys []string
	for k := range rows {
		keys = append(keys, k)
	}
	sort.Strings(keys)
	exemptCC := map[string]string{
		"(*fragment).importSetValue":                          "BSI value rows: bsig_ views force CacheTypeNone (checked under C12/R5)",
		"(*fragment).openStorage via (*fragment).openStorage": "only external caller is upgradeViewBSIv2 on bsig_ views (checked under C12/R2)",
	}
	var matrix []string
	for _, key := range keys {
		var missing []string
		rowTxt := key + ":"
		for _, k := range kinds {
			c := rows[key][k]
			mark := "ok"
			if c.unsup {
				mark = "?"
			} else if c.dirty {
				mark = "MISSING"
				if k == fxCountCache {
					origin := strings.SplitN(key, " via ", 2)[0]
					if _, ok := exemptCC[origin]; ok {
						mark = "n/a"
					}
					if _, ok := exemptCC[key]; ok {
						mark = "n/a"
					}
				}
				if mark == "MISSING" {
					missing = append(missing, k.String())
				}
			}
			rowTxt += " " + k.String() + "=" + mark
		}
		matrix = append(matrix, rowTxt)
		if len(missing) > 0 {
			r.Violate("R1", key, pos[key], "this write path skips "+strings.Join(missing, ", ")+" that the other write paths perform after mutating storage: the same bits written through it answer queries differently")
		} else {
			r.HoldAt("R1", key, pos[key], "same derived-state updates as the other write paths")
		}
	}
	r.Notes = append(r.Notes, matrix...)
	r.Floor("C28/R1 write-path rows", len(keys), 20)

	// ---- R2
	isCallNamed := func(n ast.Node, names ...string) bool {
		c, ok := n.(*ast.CallExpr)
		if !ok {
			return false
		}
		fn := core.CalleeOf(info, c)
		if fn == nil {
			return false
		}
		for _, nm := range names {
			if fn.Name() == nm {
				return true
			}
		}
		return false
	}
	type entry struct {
		recv, name string
		sink       []string // the local write
		exist      []string // existence update
		owner      bool     // must validate shard ownership
	}
	entries := []entry{
		{"API", "Import", []string{"Import"}, []string{"importExistenceColumns"}, true},
		{"API", "ImportValue", []string{"importValue"}, []string{"importExistenceColumns"}, true},
		{"API", "ImportRoaring", nil, []string{"importExistenceColumns"}, false},
		{"executor", "executeSet", []string{"executeSetBitField", "executeSetValueField"}, []string{"SetBit"}, false},
	}
	for _, e := range entries {
		fd := core.FuncDecl(pk, e.recv, e.name)
		construct := "(*" + e.recv + ")." + e.name
		if fd == nil {
			r.Undecide("R2", construct, "", "not found")
			continue
		}
		// existence update present at all?
		hasExist := false
		ast.Inspect(fd.Body, func(n ast.Node) bool {
			if isCallNamed(n, e.exist...) {
				if e.exist[0] != "SetBit" {
					hasExist = true
				} else if c := n.(*ast.CallExpr); true {
					if sel, ok := ast.Unparen(c.Fun).(*ast.SelectorExpr); ok {
						if id, ok := ast.Unparen(sel.X).(*ast.Ident); ok && strings.HasPrefix(strings.ToLower(id.Name), "ef") {
							hasExist = true
						}
					}
				}
			}
			return true
		})
		if !hasExist {
			r.Violate("R2", construct+" existence", p.Pos(fd.Pos()), "this write entry never records the written columns in the index's existence field: with existence tracking on, Not() and column-existence queries miss columns written through it, unlike the other write paths")
		} else if len(e.sink) > 0 {
			// path rule: on the non-clear path the existence update precedes the local write
			const done flow.State = 1
			bad := token.NoPos
			h := flow.Hooks{Info: info}
			h.Atom = func(n ast.Node, s flow.State) []flow.State {
				if isCallNamed(n, e.exist...) {
					return []flow.State{s | done}
				}
				if isCallNamed(n, e.sink...) {
					if c := n.(*ast.CallExpr); true {
						fn := core.CalleeOf(info, c)
						if fn != nil && (recvNamed(fn, "Field") || recvNamed(fn, "executor")) && s&done == 0 && !bad.IsValid() {
							bad = n.Pos()
						}
					}
				}
				return []flow.State{s}
			}
			h.Refine = func(cond ast.Expr, taken bool, s flow.State) (flow.State, bool) {
				// `!options.Clear` false branch / `options.Clear` true branch: a clear needs no existence update
				c := ast.Unparen(cond)
				neg := false
				if ue, ok := c.(*ast.UnaryExpr); ok && ue.Op == token.NOT {
					neg, c = true, ast.Unparen(ue.X)
				}
				if sel, ok := c.(*ast.SelectorExpr); ok && sel.Sel.Name == "Clear" {
					if taken != neg {
						return s | done, true
					}
				}
				// no existence field: nothing to update
				if be, ok := c.(*ast.BinaryExpr); ok && (be.Op == token.NEQ || be.Op == token.EQL) {
					if id, ok := ast.Unparen(be.Y).(*ast.Ident); ok && id.Name == "nil" && strings.HasPrefix(strings.ToLower(types.ExprString(be.X)), "ef") {
						if (be.Op == token.EQL) == taken {
							return s | done, true
						}
					}
				}
				return s, true
			}
			it := flow.Run(h, fd.Body, 0)
			switch {
			case it.Unsupported != "":
				r.Undecide("R2", construct+" existence", p.Pos(fd.Pos()), it.Unsupported)
			case bad.IsValid():
				r.Violate("R2", construct+" existence", p.Pos(bad), "a non-clear path reaches the local write without recording the columns in the existence field")
			default:
				r.HoldAt("R2", construct+" existence", p.Pos(fd.Pos()), "existence recorded before the local write on every non-clear path")
			}
		} else {
			r.HoldAt("R2", construct+" existence", p.Pos(fd.Pos()), "existence recorded")
		}
		if e.owner {
			res := runPathRule(pathRuleSpec{info: info, fd: fd,
				trigger: nil,
				required: []func(ast.Node) bool{func(n ast.Node) bool { return isCallNamed(n, "validateShardOwnership") }}})
			// the requirement is only for paths that write locally: use a sink-based variant
			const okOwn flow.State = 1
			bad := token.NoPos
			h := flow.Hooks{Info: info}
			h.Atom = func(n ast.Node, s flow.State) []flow.State {
				if isCallNamed(n, "validateShardOwnership") {
					return []flow.State{s | okOwn}
				}
				if isCallNamed(n, e.sink...) {
					fn := core.CalleeOf(info, n.(*ast.CallExpr))
					if fn != nil && recvNamed(fn, "Field") && s&okOwn == 0 && !bad.IsValid() {
						bad = n.Pos()
					}
				}
				return []flow.State{s}
			}
			flow.Run(h, fd.Body, 0)
			_ = res
			r.Check(!bad.IsValid(), "R2", construct+" ownership", p.Pos(fd.Pos()), "shard ownership validated before the local write", "the local write is reachable without validating that this node owns the shard: bits land on a node that anti-entropy and queries do not consult")
		}
	}

	// ---- R3
	users := map[string]bool{}
	for _, name := range []string{"SetBit", "Import"} {
		fd := core.FuncDecl(pk, "Field", name)
		if fd == nil {
			r.Undecide("R3", "(*Field)."+name, "", "not found")
			continue
		}
		ok := false
		ast.Inspect(fd.Body, func(n ast.Node) bool {
			if c, isCall := n.(*ast.CallExpr); isCall {
				if fn := core.CalleeOf(info, c); fn != nil && fn.Name() == "viewsByTime" && len(c.Args) == 3 {
					if core.IsNamed(info.TypeOf(c.Args[2]), core.ModPath, "TimeQuantum") {
						ok = true
					}
				}
			}
			return true
		})
		users[name] = ok
		r.Check(ok, "R3", "(*Field)."+name, p.Pos(fd.Pos()), "time views come from viewsByTime(view, t, quantum)", fmt.Sprintf("Field.%s no longer derives its time views from viewsByTime with the field's quantum: the two write paths write different views for the same timestamp", name))
	}
}
