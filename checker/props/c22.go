package props

import (
	"fmt"
	"go/ast"
	"go/constant"
	"go/token"
	"go/types"
	"sort"
	"strings"

	"verif/checker/core"
	"verif/checker/flow"
)

func init() { register("C22", c22) }

// Frozen: who may change the member list, and under which dominating guard.
var c22MemberWriters = map[string]string{
	"(*cluster).handleNodeAction":   "coordinator resize path: only in the resizeJobStateDone case, after completeCurrentJob",
	"(*cluster).setup":              "adds the local node itself at start-up",
	"(*cluster).nodeJoin":           "before any data exists or while the start-up topology is being agreed (needTopologyAgreement / !holder.HasData)",
	"(*cluster).nodeLeave":          "only when the holder has no data (nothing to resize)",
	"(*cluster).mergeClusterStatus": "non-coordinator applying the coordinator's member list",
}

func c22(p *core.Program, r *core.Report) {
	r.Rule("R1", "channel discipline on a resize job's result channel: the coordinator receives from it once per job, so every send is non-blocking (a select with a default case) and the channel is buffered, or the number of plain send sites does not exceed its capacity; a plain send on an unbuffered result channel blocks the message handler on a duplicate, late or post-abort completion")
	r.Rule("R2", "terminal transitions wake the waiter: every function outside handleNodeAction that moves the current job to a terminal state (completeCurrentJob / unprotectedCompleteCurrentJob) also reports on the job's result channel, otherwise the coordinator's wait never ends")
	r.Rule("R3", "unknown job: the result of cluster.job(id) is nil-checked before it is dereferenced (completion messages for finished or unknown jobs arrive from the network)")
	r.Rule("R4", "membership changes: cluster.addNode/removeNode are called only from the frozen set of functions; on the coordinator's resize path they sit in the resizeJobStateDone case, after completeCurrentJob")
	r.Rule("R5", "one job at a time: cluster.currentJob is assigned a job only after a test that it is nil, and is cleared only by unprotectedCompleteCurrentJob; both under cluster.mu (lock analysis)")
	r.Rule("R6", "leaving RESIZING: every return of handleNodeAction is followed in listenForJoins by a path that sets the state back to NORMAL")
	r.NotDecided = "the full interleaving semantics of joins, leaves, completions and aborts (a model-checking question); this check covers the blocking and ordering shapes that make the bad interleavings possible"
	pk := p.Pkg("")
	if pk == nil {
		r.Undecide("R1", "package pilosa", "", "not loaded")
		return
	}
	info := pk.TypesInfo
	isResult := func(e ast.Expr) bool {
		_, ok := core.FieldSel(info, e, core.ModPath, "resizeJob", "result")
		return ok
	}
	// ---- R1
	capacity := int64(-1)
	nSend, nPlain, nRecv := 0, 0, 0
	var plainPos []string
	for _, fd := range core.AllFuncDecls(pk) {
		if fd.Body == nil {
			continue
		}
		parents := parentMap(fd.Body)
		ast.Inspect(fd.Body, func(n ast.Node) bool {
			switch x := n.(type) {
			case *ast.KeyValueExpr:
				if id, ok := x.Key.(*ast.Ident); ok && id.Name == "result" {
					if c, ok := ast.Unparen(x.Value).(*ast.CallExpr); ok && core.BuiltinName(info, c) == "make" {
						capacity = 0
						if len(c.Args) == 2 {
							if tv, ok := info.Types[c.Args[1]]; ok && tv.Value != nil {
								capacity, _ = constant.Int64Val(tv.Value)
							} else {
								capacity = -2
							}
						}
					}
				}
			case *ast.SendStmt:
				if !isResult(x.Chan) {
					return true
				}
				nSend++
				nonBlocking := false
				if cc, ok := parents[x].(*ast.CommClause); ok {
					if sel, ok := parents[parents[cc]].(*ast.SelectStmt); ok {
						for _, c := range sel.Body.List {
							if c.(*ast.CommClause).Comm == nil {
								nonBlocking = true
							}
						}
					}
				}
				if !nonBlocking {
					nPlain++
					plainPos = append(plainPos, core.FuncName(fd)+" at "+p.Pos(x.Pos()))
				}
			case *ast.UnaryExpr:
				if x.Op == token.ARROW && isResult(x.X) {
					nRecv++
				}
			}
			return true
		})
	}
	r.Floor("C22/R1 send sites on resizeJob.result", nSend, 1)
	switch {
	case capacity == -1 || capacity == -2:
		r.Undecide("R1", "resizeJob.result", "", "the channel's construction (make with a constant capacity in the resizeJob literal) was not found")
	case nRecv != 1:
		r.Undecide("R1", "resizeJob.result", "", fmt.Sprintf("expected exactly one receive site, found %d: the rule's model of a single waiter no longer applies", nRecv))
	case int64(nPlain) > capacity:
		r.Violate("R1", "resizeJob.result", "", fmt.Sprintf("%d plain (blocking) send site(s) on a channel of capacity %d that is received from once per job: %s — a duplicate, late or post-abort completion blocks its handler forever", nPlain, capacity, strings.Join(plainPos, "; ")))
	case capacity == 0 && nSend > 0:
		r.Violate("R1", "resizeJob.result", "", "all sends are non-blocking but the channel is unbuffered: a result reported before the coordinator starts waiting is dropped and the wait never ends")
	default:
		r.Hold("R1", "resizeJob.result", fmt.Sprintf("capacity %d, %d send site(s) of which %d plain, 1 receive site", capacity, nSend, nPlain))
	}

	// ---- R3 (nil-checked lookups)
	nLookups := 0
	for _, fd := range core.AllFuncDecls(pk) {
		if fd.Body == nil {
			continue
		}
		var jobVars []types.Object
		ast.Inspect(fd.Body, func(n ast.Node) bool {
			as, ok := n.(*ast.AssignStmt)
			if !ok || len(as.Lhs) != 1 || len(as.Rhs) != 1 {
				return true
			}
			c, ok := ast.Unparen(as.Rhs[0]).(*ast.CallExpr)
			if !ok {
				return true
			}
			if fn := core.CalleeOf(info, c); fn != nil && fn.Name() == "job" && recvNamed(fn, "cluster") {
				if id, ok := as.Lhs[0].(*ast.Ident); ok {
					jobVars = append(jobVars, info.ObjectOf(id))
				}
			}
			return true
		})
		for _, jv := range jobVars {
			nLookups++
			bad := nilUseBeforeCheck(info, fd, jv)
			construct := core.FuncName(fd) + ": " + jv.Name() + " := cluster.job(id)"
			if bad.IsValid() {
				r.Violate("R3", construct, p.Pos(bad), "the looked-up job is dereferenced on a path where it was not tested against nil: a completion message naming a finished or unknown job crashes the handler")
			} else {
				r.HoldAt("R3", construct, p.Pos(fd.Pos()), "nil-checked before use")
			}
		}
	}
	r.Floor("C22/R3 cluster.job lookups", nLookups, 1)

	// ---- R2
	isComplete := func(n ast.Node) bool {
		c, ok := n.(*ast.CallExpr)
		if !ok {
			return false
		}
		fn := core.CalleeOf(info, c)
		return fn != nil && (fn.Name() == "completeCurrentJob" || fn.Name() == "unprotectedCompleteCurrentJob") && recvNamed(fn, "cluster")
	}
	signals := func(fd *ast.FuncDecl) bool {
		found := false
		ast.Inspect(fd.Body, func(n ast.Node) bool {
			switch x := n.(type) {
			case *ast.SendStmt:
				if isResult(x.Chan) {
					found = true
				}
			case *ast.CallExpr:
				if fn := core.CalleeOf(info, x); fn != nil && fn.Name() == "signal" && recvNamed(fn, "resizeJob") {
					found = true
				}
			}
			return true
		})
		return found
	}
	nTerm := 0
	for _, q := range p.All {
		for _, fd := range core.AllFuncDecls(q) {
			if fd.Body == nil || q != pk {
				continue
			}
			name := core.FuncName(fd)
			if name == "(*cluster).handleNodeAction" || name == "(*cluster).completeCurrentJob" {
				continue
			}
			calls := false
			ast.Inspect(fd.Body, func(n ast.Node) bool {
				if isComplete(n) {
					calls = true
				}
				return true
			})
			if !calls {
				continue
			}
			nTerm++
			r.Check(signals(fd), "R2", name, p.Pos(fd.Pos()), "reports on the job's result channel", "moves the current job to a terminal state but never reports on its result channel: handleNodeAction keeps waiting, listenForJoins stays blocked and the cluster stays RESIZING")
		}
	}
	r.Floor("C22/R2 functions completing the current job outside handleNodeAction", nTerm, 1)

	// ---- R4
	callersOf := map[string][]*ast.CallExpr{}
	for _, fd := range core.AllFuncDecls(pk) {
		if fd.Body == nil {
			continue
		}
		ast.Inspect(fd.Body, func(n ast.Node) bool {
			if c, ok := n.(*ast.CallExpr); ok {
				if fn := core.CalleeOf(info, c); fn != nil && (fn.Name() == "addNode" || fn.Name() == "removeNode") && recvNamed(fn, "cluster") {
					callersOf[core.FuncName(fd)] = append(callersOf[core.FuncName(fd)], c)
				}
			}
			return true
		})
	}
	var names []string
	for n := range callersOf {
		names = append(names, n)
	}
	sort.Strings(names)
	nMem := 0
	for _, n := range names {
		nMem += len(callersOf[n])
		why, ok := c22MemberWriters[n]
		if !ok {
			r.Violate("R4", n+" changes membership", p.Pos(callersOf[n][0].Pos()), "calls addNode/removeNode but is not one of the functions allowed to change the member list: membership can change without a completed resize")
			continue
		}
		r.HoldAt("R4", n+" changes membership", p.Pos(callersOf[n][0].Pos()), "allowed: "+why)
	}
	r.Floor("C22/R4 addNode/removeNode call sites", nMem, 6)
	if fd := core.FuncDecl(pk, "cluster", "handleNodeAction"); fd != nil {
		// every membership call sits in a case clause naming resizeJobStateDone and after a completeCurrentJob call in that clause
		parents := parentMap(fd.Body)
		for _, c := range callersOf["(*cluster).handleNodeAction"] {
			okCase, okAfter := false, false
			for q := parents[ast.Node(c)]; q != nil; q = parents[q] {
				cc, ok := q.(*ast.CaseClause)
				if !ok {
					continue
				}
				for _, e := range cc.List {
					if id, ok := ast.Unparen(e).(*ast.Ident); ok && id.Name == "resizeJobStateDone" {
						okCase = true
					}
				}
				ast.Inspect(cc, func(n ast.Node) bool {
					if isComplete(n) && n.Pos() < c.Pos() {
						okAfter = true
					}
					return true
				})
				break
			}
			r.Check(okCase && okAfter, "R4", "(*cluster).handleNodeAction membership call", p.Pos(c.Pos()), "in the resizeJobStateDone case after completeCurrentJob", "the member list is changed outside the job-done case or before the job was completed: membership changes although not every node reported success")
		}
	}

	// ---- R5
	nCur := 0
	for _, fd := range core.AllFuncDecls(pk) {
		if fd.Body == nil {
			continue
		}
		parents := parentMap(fd.Body)
		ast.Inspect(fd.Body, func(n ast.Node) bool {
			as, ok := n.(*ast.AssignStmt)
			if !ok {
				return true
			}
			for i, l := range as.Lhs {
				if _, ok := core.FieldSel(info, l, core.ModPath, "cluster", "currentJob"); !ok {
					continue
				}
				nCur++
				isNil := false
				if len(as.Rhs) == len(as.Lhs) {
					if id, ok := ast.Unparen(as.Rhs[i]).(*ast.Ident); ok && id.Name == "nil" {
						isNil = true
					}
				}
				construct := core.FuncName(fd) + " assigns currentJob"
				if isNil {
					r.Check(core.FuncName(fd) == "(*cluster).unprotectedCompleteCurrentJob", "R5", construct+" = nil", p.Pos(as.Pos()), "cleared by the completion function", "currentJob is cleared outside unprotectedCompleteCurrentJob: a job can be dropped without reaching a terminal state")
					continue
				}
				// must be preceded in the function by `if c.currentJob != nil { return ... }`
				guarded := false
				ast.Inspect(fd.Body, func(m ast.Node) bool {
					ifs, ok := m.(*ast.IfStmt)
					if !ok || ifs.Pos() > as.Pos() {
						return true
					}
					if be, ok := ast.Unparen(ifs.Cond).(*ast.BinaryExpr); ok && be.Op == token.NEQ {
						if _, ok := core.FieldSel(info, be.X, core.ModPath, "cluster", "currentJob"); ok {
							if n := len(ifs.Body.List); n > 0 {
								if _, isRet := ifs.Body.List[n-1].(*ast.ReturnStmt); isRet {
									guarded = true
								}
							}
						}
					}
					return true
				})
				_ = parents
				r.Check(guarded, "R5", construct, p.Pos(as.Pos()), "assigned only after `currentJob != nil` returned", "a new job is installed without first refusing when one is already running: two resize jobs can run at once")
			}
			return true
		})
	}
	r.Floor("C22/R5 assignments to cluster.currentJob", nCur, 2)

	// ---- R6
	if fd := core.FuncDecl(pk, "cluster", "listenForJoins"); fd != nil {
		// each `err := c.handleNodeAction(..); if err != nil { ...; continue }` must set the state back to NORMAL before continuing
		nSites, bad := 0, token.NoPos
		ast.Inspect(fd.Body, func(n ast.Node) bool {
			ifs, ok := n.(*ast.IfStmt)
			if !ok {
				return true
			}
			if _, neq, ok := flow.IsErrNilTest(info, ifs.Cond); !ok || !neq {
				return true
			}
			hasContinue, setsNormal := false, false
			for _, st := range ifs.Body.List {
				if b, ok := st.(*ast.BranchStmt); ok && b.Tok == token.CONTINUE {
					hasContinue = true
				}
				ast.Inspect(st, func(m ast.Node) bool {
					if c, ok := m.(*ast.CallExpr); ok {
						if fn := core.CalleeOf(info, c); fn != nil && strings.Contains(fn.Name(), "etStateAndBroadcast") {
							setsNormal = true
						}
					}
					return true
				})
			}
			if hasContinue {
				nSites++
				if !setsNormal {
					bad = ifs.Pos()
				}
			}
			return true
		})
		r.Floor("C22/R6 error exits of handleNodeAction in listenForJoins", nSites, 1)
		if bad.IsValid() {
			r.Violate("R6", "(*cluster).listenForJoins error exit", p.Pos(bad), "when handleNodeAction fails (job aborted, instruction distribution failed) the loop continues without setting the cluster state back to NORMAL: the cluster stays RESIZING until some later join succeeds")
		} else {
			r.HoldAt("R6", "(*cluster).listenForJoins error exit", p.Pos(fd.Pos()), "state is reset on the error exits")
		}
	} else {
		r.Undecide("R6", "(*cluster).listenForJoins", "", "not found")
	}

	// ---- lock discipline on cluster.mu for the job table
	r.Rule("R8", "only nodes without work start out complete: in the function that builds the resize instructions, a job's per-node completion entry (resizeJob.IDs[id]) is set to anything but false only inside a loop over the same merged per-node source collection the instructions are built from, for the loop's own key, and only when that node's merged list is empty (true under len(sources) == 0, or that test's value); the collection is not written once it is ranged over")
	c22PremarkedNodes(p, r)
	r.Rule("R9", "the job slot is freed: a cluster method that installs a job (calls unprotectedGenerateResizeJob and tests its error) reaches completeCurrentJob on every path from the successful call to a return")
	c22JobSlotFreed(p, r)
	r.Rule("R10", "RESIZING is sticky: determineClusterState returns ClusterStateResizing on every path on which cluster.state was found equal to ClusterStateResizing")
	c22ResizingIsSticky(p, r)
	r.Rule("R11", "no blocking send under the cluster lock: a send into cluster.joiningLeavingNodes from a function that runs with cluster.mu held is non-blocking (select with default)")
	c22NoBlockingSendUnderLock(p, r)
	la := newLockAnalysis(p, lockSpec{pkgRel: "", typ: "cluster", mutex: "mu", guarded: set("jobs", "currentJob"),
		setup: map[string]string{"newCluster": "constructor"}})
	if la != nil {
		r.Rule("R7", "guarded-by cluster.mu / resizeJob.mu: the job table (jobs, currentJob) is accessed only with cluster.mu held, a job's state and per-node completion map only with the job's mutex held, every lock is released on every exit, and no method that takes a job's mutex is called while it is held (self-deadlock of the completion handler)")
		la.report(r, "R7")
	}
	lj := newLockAnalysis(p, lockSpec{pkgRel: "", typ: "resizeJob", mutex: "mu", guarded: set("state", "IDs"),
		setup: map[string]string{"newResizeJob": "constructor"}})
	if lj != nil {
		n := lj.report(r, "R7")
		r.Floor("C22/R7 functions touching resizeJob state", n, 3)
	}
}

// nilUseBeforeCheck returns the position of a dereference of obj (field
// selection or method call through it) reachable without a preceding nil test.
func nilUseBeforeCheck(info *types.Info, fd *ast.FuncDecl, obj types.Object) token.Pos {
	const checked flow.State = 1
	bad := token.NoPos
	h := flow.Hooks{Info: info}
	deref := func(n ast.Node, s flow.State) {
		if s&checked != 0 || bad.IsValid() {
			return
		}
		ast.Inspect(n, func(m ast.Node) bool {
			if _, ok := m.(*ast.FuncLit); ok {
				return false
			}
			if sel, ok := m.(*ast.SelectorExpr); ok {
				if id, ok := ast.Unparen(sel.X).(*ast.Ident); ok && info.ObjectOf(id) == obj && !bad.IsValid() {
					bad = sel.Pos()
				}
			}
			return true
		})
	}
	h.Atom = func(n ast.Node, s flow.State) []flow.State {
		switch x := n.(type) {
		case *ast.CallExpr:
			deref(x.Fun, s)
			for _, a := range x.Args {
				deref(a, s)
			}
		case *ast.AssignStmt:
			for _, e := range x.Lhs {
				deref(e, s)
			}
			for _, e := range x.Rhs {
				if _, isCall := ast.Unparen(e).(*ast.CallExpr); !isCall {
					deref(e, s)
				}
			}
		case *ast.SendStmt:
			deref(x.Chan, s)
		}
		return []flow.State{s}
	}
	h.Refine = func(cond ast.Expr, taken bool, s flow.State) (flow.State, bool) {
		if be, ok := ast.Unparen(cond).(*ast.BinaryExpr); ok && (be.Op == token.EQL || be.Op == token.NEQ) {
			if id, ok := ast.Unparen(be.X).(*ast.Ident); ok && info.ObjectOf(id) == obj {
				if nl, ok := ast.Unparen(be.Y).(*ast.Ident); ok && nl.Name == "nil" {
					if (be.Op == token.NEQ) == taken {
						return s | checked, true
					}
					return s, true // the nil branch: any dereference here is a violation, found by deref
				}
			}
		}
		deref(cond, s)
		return s, true
	}
	flow.Run(h, fd.Body, 0)
	return bad
}
