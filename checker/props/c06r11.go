package props

import (
	"go/ast"
	"go/types"
	"sort"
	"strings"

	"verif/checker/core"
	"verif/checker/flow"
)

// c06DecodersLeaveNoNil: R11. A cluster message is decoded into a pilosa
// struct whose sub-messages are pointers; the handlers (Server.receiveMessage,
// cluster.followResizeInstruction, ...) dereference them without a test,
// because every decoder allocates them. An absent sub-message is legal
// protobuf, so the allocation must not depend on the input: a decode function
// of encoding/proto that assigns a pointer-to-struct field of its destination
// does so on every path to its normal return.
func c06DecodersLeaveNoNil(p *core.Program, r *core.Report) {
	pk := p.Pkg("encoding/proto")
	if pk == nil {
		r.Undecide("R11", "package encoding/proto", "", "not loaded")
		return
	}
	info := pk.TypesInfo
	nFn, nField := 0, 0
	for _, fd := range core.AllFuncDecls(pk) {
		if fd.Body == nil || fd.Recv != nil || !strings.HasPrefix(fd.Name.Name, "decode") || strings.HasSuffix(p.Fset.Position(fd.Pos()).Filename, "_test.go") {
			continue
		}
		// destination parameters: pointer to a struct of package pilosa
		dest := map[types.Object]bool{}
		for _, f := range fd.Type.Params.List {
			for _, nm := range f.Names {
				o := info.Defs[nm]
				if o == nil {
					continue
				}
				pt, ok := o.Type().Underlying().(*types.Pointer)
				if !ok {
					continue
				}
				if n := core.NamedOf(pt.Elem()); n != nil && n.Obj().Pkg() != nil && n.Obj().Pkg().Path() == core.ModPath {
					if _, ok := n.Underlying().(*types.Struct); ok {
						dest[o] = true
					}
				}
			}
		}
		if len(dest) == 0 {
			continue
		}
		// pointer-to-struct fields of a destination that the body assigns
		fieldOf := func(e ast.Expr) *types.Var {
			sel, ok := ast.Unparen(e).(*ast.SelectorExpr)
			if !ok {
				return nil
			}
			id, ok := ast.Unparen(sel.X).(*ast.Ident)
			if !ok || !dest[info.Uses[id]] {
				return nil
			}
			f, _ := info.Uses[sel.Sel].(*types.Var)
			if f == nil || !f.IsField() {
				return nil
			}
			pt, ok := f.Type().Underlying().(*types.Pointer)
			if !ok {
				return nil
			}
			if _, ok := pt.Elem().Underlying().(*types.Struct); !ok {
				return nil
			}
			return f
		}
		bits := map[*types.Var]flow.State{}
		var order []*types.Var
		ast.Inspect(fd.Body, func(m ast.Node) bool {
			if as, ok := m.(*ast.AssignStmt); ok {
				for _, l := range as.Lhs {
					if f := fieldOf(l); f != nil {
						if _, has := bits[f]; !has && len(bits) < 60 {
							bits[f] = flow.State(1) << uint(len(bits))
							order = append(order, f)
						}
					}
				}
			}
			return true
		})
		if len(bits) == 0 {
			continue
		}
		nFn++
		nField += len(bits)
		isNil := func(e ast.Expr) bool {
			tv, ok := info.Types[e]
			return ok && tv.IsNil()
		}
		missing := map[string]bool{}
		h := flow.Hooks{Info: info}
		h.Atom = func(nd ast.Node, s flow.State) []flow.State {
			if as, ok := nd.(*ast.AssignStmt); ok {
				for i, l := range as.Lhs {
					if f := fieldOf(l); f != nil {
						if len(as.Rhs) == len(as.Lhs) && isNil(as.Rhs[i]) {
							s &^= bits[f]
						} else {
							s |= bits[f]
						}
					}
				}
			}
			return []flow.State{s}
		}
		h.Return = func(ret *ast.ReturnStmt, s flow.State) {
			for _, f := range order {
				if s&bits[f] == 0 {
					at := "the end of the function"
					if ret != nil {
						at = p.Pos(ret.Pos())
					}
					missing[f.Name()+" (return at "+at+")"] = true
				}
			}
		}
		it := flow.Run(h, fd.Body, 0)
		construct := fd.Name.Name + ": sub-messages allocated on every path"
		var names []string
		for _, f := range order {
			names = append(names, f.Name())
		}
		switch {
		case it.Unsupported != "":
			r.Undecide("R11", construct, p.Pos(fd.Pos()), it.Unsupported)
		case len(missing) > 0:
			var ms []string
			for m := range missing {
				ms = append(ms, m)
			}
			sort.Strings(ms)
			r.Violate("R11", construct, p.Pos(fd.Pos()), "a path returns with the destination's pointer field still nil: "+strings.Join(ms, ", ")+"; a message whose optional sub-message is absent then decodes to a nil pointer that the handlers dereference without a test (in receiveMessage, or in a goroutine with no recover: the process exits)")
		default:
			r.HoldAt("R11", construct, p.Pos(fd.Pos()), "assigned on every path: "+strings.Join(names, ", "))
		}
	}
	r.Count("C06/R11 pointer fields", nField)
	r.Floor("C06/R11 decode functions that allocate sub-messages", nFn, 5)
}
