package props

import (
	"go/ast"
	"go/types"
	"strings"

	"verif/checker/core"
)

// c13BatchOrderKept: rule R5. For a mutex or bool field the last entry of a
// batch for a column wins (R4), so the order of the batch is part of its
// meaning. Between the caller's slices and fragment.bulkImport nothing may
// reorder the pairs: no sort over the data that is handed to bulkImport.
func c13BatchOrderKept(p *core.Program, r *core.Report) {
	pk := p.Pkg("")
	if pk == nil {
		return
	}
	info := pk.TypesInfo
	n := 0
	for _, fd := range core.AllFuncDecls(pk) {
		if fd.Body == nil || core.RecvName(fd) == "fragment" || strings.HasSuffix(p.Fset.Position(fd.Pos()).Filename, "_test.go") {
			continue
		}
		// roots of the values handed to (*fragment).bulkImport
		roots := map[types.Object]bool{}
		var at ast.Node
		ast.Inspect(fd.Body, func(m ast.Node) bool {
			c, ok := m.(*ast.CallExpr)
			if !ok {
				return true
			}
			g := core.CalleeOf(info, c)
			if g == nil || g.Name() != "bulkImport" || !recvNamed(g, "fragment") {
				return true
			}
			at = c
			for _, a := range c.Args[:2] {
				e := ast.Unparen(a)
				for {
					switch x := e.(type) {
					case *ast.SelectorExpr:
						e = ast.Unparen(x.X)
						continue
					case *ast.SliceExpr:
						e = ast.Unparen(x.X)
						continue
					case *ast.IndexExpr:
						e = ast.Unparen(x.X)
						continue
					}
					break
				}
				if id, ok := e.(*ast.Ident); ok {
					roots[info.ObjectOf(id)] = true
				}
			}
			return true
		})
		if at == nil {
			continue
		}
		n++
		var bad []string
		ast.Inspect(fd.Body, func(m ast.Node) bool {
			c, ok := m.(*ast.CallExpr)
			if !ok {
				return true
			}
			g := core.CalleeOf(info, c)
			if g == nil || g.Pkg() == nil || g.Pkg().Path() != "sort" {
				return true
			}
			for _, a := range c.Args {
				ast.Inspect(a, func(k ast.Node) bool {
					if id, ok := k.(*ast.Ident); ok && roots[info.ObjectOf(id)] {
						bad = append(bad, "sort."+g.Name()+" at "+p.Pos(c.Pos()))
					}
					return true
				})
			}
			return true
		})
		construct := core.FuncName(fd) + ": the batch reaches bulkImport in the caller's order"
		if len(bad) > 0 {
			r.Violate("R5", construct, p.Pos(at.Pos()), "the pairs handed to fragment.bulkImport are reordered first ("+strings.Join(dedupe(bad), "; ")+"): for a mutex or bool field the last entry of a batch for a column wins, so after the sort a column repeated with conflicting rows ends up with the row that sorts last instead of the one written last")
		} else {
			r.HoldAt("R5", construct, p.Pos(at.Pos()), "no sort over the data handed to bulkImport")
		}
	}
	r.Floor("C13/R5 callers of fragment.bulkImport outside the fragment", n, 1)
}
