package props

import (
	"go/ast"
	"go/token"
	"go/types"
	"strings"

	"verif/checker/core"
	"verif/checker/flow"
)

// c15SetMarksExistence: rule R6. Not(x) is the existence row minus x, so a
// column exists for Not exactly when some write marked it in the existence
// field. Every write Set() performs -- a bit or an int value -- must follow
// that mark (or the test that the index tracks no existence).
func c15SetMarksExistence(p *core.Program, r *core.Report) {
	pk := p.Pkg("")
	if pk == nil {
		return
	}
	info := pk.TypesInfo
	fd := core.FuncDecl(pk, "executor", "executeSet")
	construct := "(*executor).executeSet: every write follows the existence mark"
	if fd == nil {
		r.Undecide("R6", construct, "", "not found")
		return
	}
	// variables holding the index's existence field
	efVars := map[types.Object]bool{}
	ast.Inspect(fd.Body, func(n ast.Node) bool {
		as, ok := n.(*ast.AssignStmt)
		if !ok || len(as.Lhs) != 1 || len(as.Rhs) != 1 {
			return true
		}
		if c, ok := ast.Unparen(as.Rhs[0]).(*ast.CallExpr); ok {
			if g := core.CalleeOf(info, c); g != nil && g.Name() == "existenceField" {
				if id, ok := as.Lhs[0].(*ast.Ident); ok {
					efVars[info.ObjectOf(id)] = true
				}
			}
		}
		return true
	})
	isEf := func(e ast.Expr) bool {
		id, ok := ast.Unparen(e).(*ast.Ident)
		return ok && efVars[info.ObjectOf(id)]
	}
	const (
		bMarked flow.State = 1 << iota
		bNoExistence
	)
	var bad []string
	nWrites := 0
	h := flow.Hooks{Info: info}
	h.Refine = func(c ast.Expr, taken bool, s flow.State) (flow.State, bool) {
		be, ok := ast.Unparen(c).(*ast.BinaryExpr)
		if !ok || (be.Op != token.EQL && be.Op != token.NEQ) || !isEf(be.X) {
			return s, true
		}
		if id, ok := ast.Unparen(be.Y).(*ast.Ident); !ok || id.Name != "nil" {
			return s, true
		}
		if (be.Op == token.EQL) == taken {
			return s | bNoExistence, true
		}
		return s &^ bNoExistence, true
	}
	h.Atom = func(n ast.Node, s flow.State) []flow.State {
		c, ok := n.(*ast.CallExpr)
		if !ok {
			return []flow.State{s}
		}
		g := core.CalleeOf(info, c)
		if g == nil {
			return []flow.State{s}
		}
		if g.Name() == "SetBit" {
			if sel, ok := ast.Unparen(c.Fun).(*ast.SelectorExpr); ok && isEf(sel.X) {
				return []flow.State{s | bMarked}
			}
		}
		if recvNamed(g, "executor") && (g.Name() == "executeSetBitField" || g.Name() == "executeSetValueField") {
			nWrites++
			if s&(bMarked|bNoExistence) == 0 {
				bad = append(bad, g.Name()+" at "+p.Pos(c.Pos()))
			}
		}
		return []flow.State{s}
	}
	it := flow.Run(h, fd.Body, 0)
	switch {
	case it.Unsupported != "":
		r.Undecide("R6", construct, p.Pos(fd.Pos()), it.Unsupported)
	case len(efVars) == 0:
		r.Violate("R6", construct, p.Pos(fd.Pos()), "Set() never consults the index's existence field")
	case len(bad) > 0:
		r.Violate("R6", construct, p.Pos(fd.Pos()), "a write is reached ("+strings.Join(dedupe(bad), "; ")+") on a path that neither marked the column in the existence field nor found that the index tracks none: Not(..) misses columns written only through that path")
	default:
		r.HoldAt("R6", construct, p.Pos(fd.Pos()), "both the bit write and the value write follow the existence mark")
	}
	r.Floor("C15/R6 writes issued by executeSet", nWrites, 2)
}
