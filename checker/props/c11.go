package props

import (
	"fmt"
	"go/ast"
	"go/constant"
	"go/types"
	"strings"

	"verif/checker/core"
)

func init() { register("C11", c11) }

func c11(p *core.Program, r *core.Report) {
	r.Rule("R1", "accumulator self-append: in package pilosa an assignment `A[i].f = append(B[j].f, ...)` to an indexed struct-field accumulator appends to the same element it assigns (A[i].f and B[j].f are the same expression); appending one accumulator's contents into another loses or cross-contaminates per-replica repair lists")
	r.Rule("R2", "set/clear request symmetry: a function that builds several ImportRoaringRequest values addresses them to the same view key expression")
	r.Rule("R4", "same-view plumbing: composing the sender's view-to-key function (the callee used in the Views key) with the receiver's key-to-view mapping (the code that rewrites the range key over ImportRoaringRequest.Views) is the identity on every class of view name (standard, standard_<time>, bsig_<field>), evaluated over abstract string shapes")
	r.Rule("R5", "iterator end-of-data discipline: every call of a (rowID, columnID, eof) or (value, eof) iterator method (Next/Peek) in package pilosa that uses the returned position also binds the eof result and reads it; an exhausted iterator returns the zero position, which is a real bit (row 0, column 0)")
	r.Rule("R6", "one block, one extent: the positions fragment.mergeBlock admits into the vote for block id (the limit it puts on its iterators, read with the limit iterator's own comparison: inclusive or exclusive) are exactly the positions fragment.blockData(id) ships to the other replicas, [id*HashBlockSize*ShardWidth, (id+1)*HashBlockSize*ShardWidth); both are evaluated as linear forms in id")
	c11BlockExtent(p, r)
	r.Rule("R7", "both repairs reach every replica: in syncBlock's per-replica loop every path of an iteration that is not an error exit has, for each of the pair sets defined in the loop body (the replica's sets and its clears), either sent a request built from it (ImportRoaring with an argument derived from it) or tested its column list to be empty")
	c11BothRepairsSent(p, r)
	// R8: "afterwards all replicas report identical block checksums": a repair applied on a replica
	// (importRoaring for the remote legs, mergeBlock for the local one) must drop the cached checksum
	// of the block it changed. The obligations are C10-R1's for those two functions.
	r.Rule("R8", "repairs invalidate checksums (= C10-R1 on the repair paths): every path through fragment.importRoaring and fragment.mergeBlock that mutates storage drops the cached block checksum before it returns normally; a replica that keeps its pre-repair checksum reports a different checksum for identical bits and masks the next divergence")
	{
		tmp := core.NewReport("C10", r.Tier)
		c10(p, tmp)
		n := 0
		for _, o := range tmp.Obls {
			if o.Rule == "R1" && (strings.Contains(o.Construct, "(*fragment).importRoaring") || strings.Contains(o.Construct, "(*fragment).mergeBlock")) {
				o.Rule = "R8"
				r.Obls = append(r.Obls, o)
				n++
			}
		}
		r.Floor("C11/R8 repair-path obligations taken over from C10-R1", n, 2)
	}
	r.NotDecided = "the majority vote itself for all contents (the merge loop's iteration); convergence of checksums after a pass"
	pk := p.Pkg("")
	if pk == nil {
		r.Undecide("R1", "package pilosa", "", "not loaded")
		return
	}
	info := pk.TypesInfo
	// ---- R1
	nAcc := 0
	for _, fd := range core.AllFuncDecls(pk) {
		if fd.Body == nil {
			continue
		}
		ast.Inspect(fd.Body, func(n ast.Node) bool {
			as, ok := n.(*ast.AssignStmt)
			if !ok || len(as.Lhs) != 1 || len(as.Rhs) != 1 {
				return true
			}
			lsel, ok := ast.Unparen(as.Lhs[0]).(*ast.SelectorExpr)
			if !ok {
				return true
			}
			if _, isIdx := ast.Unparen(lsel.X).(*ast.IndexExpr); !isIdx {
				return true
			}
			call, ok := ast.Unparen(as.Rhs[0]).(*ast.CallExpr)
			if !ok || core.BuiltinName(info, call) != "append" || len(call.Args) < 1 {
				return true
			}
			nAcc++
			construct := core.FuncName(fd) + ": " + types.ExprString(as.Lhs[0])
			same := types.ExprString(ast.Unparen(as.Lhs[0])) == types.ExprString(ast.Unparen(call.Args[0]))
			r.Check(same, "R1", construct, p.Pos(as.Pos()), "appends to itself", "`"+types.ExprString(as.Lhs[0])+" = append("+types.ExprString(call.Args[0])+", ...)`: the accumulator is overwritten with another accumulator's contents plus one element")
			return true
		})
	}
	r.Floor("C11/R1 indexed struct-field accumulators", nAcc, 4)

	// ---- R5
	nIt := 0
	for _, fd := range core.AllFuncDecls(pk) {
		if fd.Body == nil {
			continue
		}
		ast.Inspect(fd.Body, func(n ast.Node) bool {
			as, ok := n.(*ast.AssignStmt)
			if !ok || len(as.Rhs) != 1 || len(as.Lhs) < 2 {
				return true
			}
			call, ok := ast.Unparen(as.Rhs[0]).(*ast.CallExpr)
			if !ok {
				return true
			}
			fn := core.CalleeOf(info, call)
			if fn == nil || (fn.Name() != "Next" && fn.Name() != "Peek") || fn.Pkg() == nil || fn.Pkg().Path() != core.ModPath {
				return true
			}
			sig := fn.Type().(*types.Signature)
			nres := sig.Results().Len()
			if nres != len(as.Lhs) || nres < 2 {
				return true
			}
			last := sig.Results().At(nres - 1)
			if bt, ok := last.Type().Underlying().(*types.Basic); !ok || bt.Kind() != types.Bool {
				return true
			}
			for i := 0; i < nres-1; i++ {
				if bt, ok := sig.Results().At(i).Type().Underlying().(*types.Basic); !ok || bt.Info()&types.IsInteger == 0 {
					return true
				}
			}
			nIt++
			usesPos := false
			for _, l := range as.Lhs[:nres-1] {
				if id, ok := l.(*ast.Ident); !ok || id.Name != "_" {
					usesPos = true
				}
			}
			eofID, isID := as.Lhs[nres-1].(*ast.Ident)
			construct := core.FuncName(fd) + ": " + types.ExprString(call)
			switch {
			case !usesPos:
				r.HoldAt("R5", construct, p.Pos(as.Pos()), "position discarded")
			case isID && eofID.Name == "_":
				r.Violate("R5", construct, p.Pos(as.Pos()), "the eof result of "+types.ExprString(call)+" is discarded while the returned position is used: an exhausted iterator reads as the bit (row 0, column 0)")
			default:
				// the eof variable must be read somewhere in the function
				used := false
				if isID {
					obj := info.ObjectOf(eofID)
					if fsig, ok := info.Defs[fd.Name].Type().(*types.Signature); ok {
						for i := 0; i < fsig.Results().Len(); i++ {
							if fsig.Results().At(i) == obj {
								used = true // named result: returned to the caller
							}
						}
					}
					ast.Inspect(fd.Body, func(m ast.Node) bool {
						if id, ok := m.(*ast.Ident); ok && id != eofID && info.Uses[id] == obj {
							used = true
						}
						return true
					})
				} else {
					used = true // stored into a field (buffered iterator)
				}
				r.Check(used, "R5", construct, p.Pos(as.Pos()), "eof bound and read", "the eof result is bound but never read")
			}
			return true
		})
	}
	r.Floor("C11/R5 position-iterator calls", nIt, 5)

	// ---- R2 and sender function for R4
	var senderFns []*types.Func
	nBuilders := 0
	for _, fd := range core.AllFuncDecls(pk) {
		if fd.Body == nil {
			continue
		}
		type lit struct {
			key ast.Expr
			pos ast.Node
		}
		var lits []lit
		ast.Inspect(fd.Body, func(n ast.Node) bool {
			cl, ok := n.(*ast.CompositeLit)
			if !ok || !core.IsNamed(info.TypeOf(cl), core.ModPath, "ImportRoaringRequest") {
				return true
			}
			for _, el := range cl.Elts {
				kv, ok := el.(*ast.KeyValueExpr)
				if !ok {
					continue
				}
				if id, ok := kv.Key.(*ast.Ident); !ok || id.Name != "Views" {
					continue
				}
				if m, ok := ast.Unparen(kv.Value).(*ast.CompositeLit); ok {
					for _, me := range m.Elts {
						if mkv, ok := me.(*ast.KeyValueExpr); ok {
							lits = append(lits, lit{mkv.Key, cl})
						}
					}
				}
			}
			return true
		})
		if len(lits) < 2 {
			continue
		}
		nBuilders++
		first := types.ExprString(lits[0].key)
		same := true
		for _, l := range lits[1:] {
			if types.ExprString(l.key) != first {
				same = false
				r.Violate("R2", core.FuncName(fd)+" ImportRoaringRequest views", p.Pos(l.pos.Pos()), "one request is addressed to view key `"+first+"` and another to `"+types.ExprString(l.key)+"`: repairs computed for one view land in a different view")
			}
		}
		if same {
			r.HoldAt("R2", core.FuncName(fd)+" ImportRoaringRequest views", p.Pos(fd.Pos()), "all requests use key `"+first+"`")
		}
		for _, l := range lits {
			if c, ok := ast.Unparen(l.key).(*ast.CallExpr); ok {
				if fn := core.CalleeOf(info, c); fn != nil {
					senderFns = append(senderFns, fn)
				}
			}
		}
	}
	r.Floor("C11/R2 functions building several ImportRoaringRequests", nBuilders, 1)

	// ---- R4
	constStr := func(name string) (string, bool) {
		if c, ok := pk.Types.Scope().Lookup(name).(*types.Const); ok && c.Val().Kind() == constant.String {
			return constant.StringVal(c.Val()), true
		}
		return "", false
	}
	std, ok1 := constStr("viewStandard")
	bsi, ok2 := constStr("viewBSIGroupPrefix")
	if !ok1 || !ok2 {
		r.Undecide("R4", "view name constants", "", "viewStandard / viewBSIGroupPrefix not found")
		return
	}
	classes := []struct {
		name string
		s    shape
	}{
		{"standard", litShape(std)},
		{"standard_<time>", shape{atoms: []atom{{lit: std + "_"}, {sym: "time"}}, ok: true}},
		{"bsig_<field>", shape{atoms: []atom{{lit: bsi}, {sym: "field"}}, ok: true}},
	}
	// receiver: range over <ImportRoaringRequest>.Views
	var recvBody []ast.Stmt
	var recvKey types.Object
	var recvFn *ast.FuncDecl
	for _, fd := range core.AllFuncDecls(pk) {
		if fd.Body == nil {
			continue
		}
		ast.Inspect(fd.Body, func(n ast.Node) bool {
			rs, ok := n.(*ast.RangeStmt)
			if !ok || recvBody != nil {
				return true
			}
			if _, ok := core.FieldSel(info, rs.X, core.ModPath, "ImportRoaringRequest", "Views"); !ok {
				return true
			}
			if id, ok := rs.Key.(*ast.Ident); ok {
				recvKey = info.ObjectOf(id)
				recvBody = rs.Body.List
				recvFn = fd
			}
			return true
		})
	}
	if recvBody == nil || len(senderFns) == 0 {
		r.Undecide("R4", "sender/receiver view mapping", "", "could not locate the range over ImportRoaringRequest.Views or the sender's key function")
		return
	}
	sender := senderFns[0]
	var senderDecl *ast.FuncDecl
	for _, fd := range core.AllFuncDecls(pk) {
		if info.Defs[fd.Name] == sender {
			senderDecl = fd
		}
	}
	if senderDecl == nil || senderDecl.Type.Params.NumFields() != 1 || len(senderDecl.Type.Params.List[0].Names) != 1 {
		r.Undecide("R4", "sender key function", "", "not a one-parameter function declared in package pilosa")
		return
	}
	// receiver prefix: leading statements that only rewrite the key
	var prefix []ast.Stmt
	for _, st := range recvBody {
		ifs, ok := st.(*ast.IfStmt)
		if !ok {
			break
		}
		mentionsOnlyKey := true
		ast.Inspect(ifs.Cond, func(n ast.Node) bool {
			if id, ok := n.(*ast.Ident); ok {
				if v, isVar := info.ObjectOf(id).(*types.Var); isVar && v != recvKey {
					mentionsOnlyKey = false
				}
			}
			return true
		})
		if !mentionsOnlyKey {
			break
		}
		prefix = append(prefix, st)
	}
	for _, cl := range classes {
		construct := "view class " + cl.name
		ev := &strEval{info: info, env: map[types.Object]shape{}}
		ev.env[info.ObjectOf(senderDecl.Type.Params.List[0].Names[0])] = cl.s
		ret, _ := ev.run(senderDecl.Body.List)
		if ret == nil || !ret.ok {
			r.Undecide("R4", construct, p.Pos(senderDecl.Pos()), "sender "+senderDecl.Name.Name+" not interpretable on this shape: "+ev.bad)
			continue
		}
		ev2 := &strEval{info: info, env: map[types.Object]shape{recvKey: *ret}}
		_, fell := ev2.run(prefix)
		got := ev2.env[recvKey]
		if !fell || !got.ok {
			r.Undecide("R4", construct, p.Pos(recvFn.Pos()), "receiver mapping not interpretable on key "+ret.String()+": "+ev2.bad)
			continue
		}
		detail := cl.s.String() + " -> key " + ret.String() + " -> view " + got.String()
		if got.equal(cl.s) {
			r.HoldAt("R4", construct, p.Pos(senderDecl.Pos()), detail)
		} else {
			r.Violate("R4", construct, p.Pos(senderDecl.Pos()), "a repair computed for view "+cl.s.String()+" is sent with key "+ret.String()+" and applied by "+core.FuncName(recvFn)+" to view "+got.String())
		}
	}
	_ = strings.TrimSpace
}

// lin1 is a*id + b.
type lin1 struct{ a, b int64 }

// c11Lin evaluates an integer expression as a linear form in the identifier idObj.
func c11Lin(info *types.Info, e ast.Expr, idObj types.Object, env map[types.Object]lin1) (lin1, bool) {
	if tv, ok := info.Types[e]; ok && tv.Value != nil && tv.Value.Kind() == constant.Int {
		if v, ok := constant.Int64Val(tv.Value); ok {
			return lin1{0, v}, true
		}
	}
	switch x := ast.Unparen(e).(type) {
	case *ast.Ident:
		o := info.ObjectOf(x)
		if o == idObj {
			return lin1{1, 0}, true
		}
		if l, ok := env[o]; ok {
			return l, true
		}
	case *ast.CallExpr:
		if tv, ok := info.Types[x.Fun]; ok && tv.IsType() && len(x.Args) == 1 {
			return c11Lin(info, x.Args[0], idObj, env)
		}
	case *ast.BinaryExpr:
		l, ok1 := c11Lin(info, x.X, idObj, env)
		r, ok2 := c11Lin(info, x.Y, idObj, env)
		if !ok1 || !ok2 {
			return lin1{}, false
		}
		switch x.Op.String() {
		case "+":
			return lin1{l.a + r.a, l.b + r.b}, true
		case "-":
			return lin1{l.a - r.a, l.b - r.b}, true
		case "*":
			if l.a == 0 {
				return lin1{l.b * r.a, l.b * r.b}, true
			}
			if r.a == 0 {
				return lin1{l.a * r.b, l.b * r.b}, true
			}
		}
	}
	return lin1{}, false
}

// c11BlockExtent: R6.
func c11BlockExtent(p *core.Program, r *core.Report) {
	pk := p.Pkg("")
	info := pk.TypesInfo
	construct := "mergeBlock / blockData extent"
	mb := core.FuncDecl(pk, "fragment", "mergeBlock")
	bd := core.FuncDecl(pk, "fragment", "blockData")
	ln := core.FuncDecl(pk, "limitIterator", "Next")
	if mb == nil || bd == nil || ln == nil {
		r.Undecide("R6", construct, "", "mergeBlock, blockData or limitIterator.Next not found")
		return
	}
	cst := func(name string) (int64, bool) {
		c, ok := pk.Types.Scope().Lookup(name).(*types.Const)
		if !ok {
			return 0, false
		}
		return constant.Int64Val(constant.ToInt(c.Val()))
	}
	H, ok1 := cst("HashBlockSize")
	W, ok2 := cst("ShardWidth")
	if !ok1 || !ok2 {
		r.Undecide("R6", construct, "", "HashBlockSize/ShardWidth not constants")
		return
	}
	firstParam := func(fd *ast.FuncDecl) types.Object {
		if len(fd.Type.Params.List) > 0 && len(fd.Type.Params.List[0].Names) > 0 {
			return info.Defs[fd.Type.Params.List[0].Names[0]]
		}
		return nil
	}
	// blockData: the ForEachRange bounds
	var lo, hi lin1
	found := false
	idB := firstParam(bd)
	ast.Inspect(bd.Body, func(n ast.Node) bool {
		c, ok := n.(*ast.CallExpr)
		if !ok || len(c.Args) < 2 {
			return true
		}
		if fn := core.CalleeOf(info, c); fn != nil && fn.Name() == "ForEachRange" {
			l, okl := c11Lin(info, c.Args[0], idB, nil)
			h, okh := c11Lin(info, c.Args[1], idB, nil)
			if okl && okh {
				lo, hi, found = l, h, true
			}
		}
		return true
	})
	if !found {
		r.Undecide("R6", construct, p.Pos(bd.Pos()), "blockData's range bounds are not linear in the block id")
		return
	}
	// mergeBlock: the arguments of newLimitIterator, through local definitions
	idM := firstParam(mb)
	env := map[types.Object]lin1{}
	ast.Inspect(mb.Body, func(n ast.Node) bool {
		if as, ok := n.(*ast.AssignStmt); ok && len(as.Lhs) == len(as.Rhs) {
			for i, l := range as.Lhs {
				if id, ok := ast.Unparen(l).(*ast.Ident); ok {
					if v, ok := c11Lin(info, as.Rhs[i], idM, env); ok {
						env[info.ObjectOf(id)] = v
					}
				}
			}
		}
		return true
	})
	type lim struct{ row, col lin1 }
	var lims []lim
	undec := ""
	ast.Inspect(mb.Body, func(n ast.Node) bool {
		c, ok := n.(*ast.CallExpr)
		if !ok || len(c.Args) != 3 {
			return true
		}
		if fn := core.CalleeOf(info, c); fn != nil && fn.Name() == "newLimitIterator" {
			rw, ok1 := c11Lin(info, c.Args[1], idM, env)
			cl, ok2 := c11Lin(info, c.Args[2], idM, env)
			if !ok1 || !ok2 {
				undec = "a limit passed to newLimitIterator is not linear in the block id"
				return true
			}
			lims = append(lims, lim{rw, cl})
		}
		return true
	})
	if undec != "" || len(lims) == 0 {
		if undec == "" {
			undec = "no newLimitIterator call in mergeBlock"
		}
		r.Undecide("R6", construct, p.Pos(mb.Pos()), undec)
		return
	}
	// the limit iterator's comparison: `columnID > max` (inclusive limit) or `>=` (exclusive)
	inclusive, decided := false, false
	ast.Inspect(ln.Body, func(n ast.Node) bool {
		be, ok := n.(*ast.BinaryExpr)
		if !ok {
			return true
		}
		if sel, ok := ast.Unparen(be.Y).(*ast.SelectorExpr); ok && sel.Sel.Name == "maxColumnID" {
			switch be.Op.String() {
			case ">":
				inclusive, decided = true, true
			case ">=":
				inclusive, decided = false, true
			}
		}
		return true
	})
	if !decided {
		r.Undecide("R6", construct, p.Pos(ln.Pos()), "limitIterator.Next does not compare the column with maxColumnID by > or >=")
		return
	}
	okAll := true
	detail := ""
	for _, l := range lims {
		// last admitted position (inclusive) or first refused one (exclusive), as a*id+b
		pos := lin1{l.row.a*W + l.col.a, l.row.b*W + l.col.b}
		want := hi
		if inclusive {
			want = lin1{hi.a, hi.b - 1}
		}
		if l.col.a != 0 || pos != want {
			okAll = false
			detail = fmt.Sprintf("mergeBlock limits its iterators at row %d*id%+d, column %d (%s), i.e. position %d*id%+d, but blockData ships positions up to %d*id%+d (exclusive): the vote for a block includes %s than the block",
				l.row.a, l.row.b, l.col.b, map[bool]string{true: "inclusive", false: "exclusive"}[inclusive], pos.a, pos.b, hi.a, hi.b, map[bool]string{true: "more", false: "less"}[pos.a > want.a || (pos.a == want.a && pos.b > want.b)])
		}
	}
	// the lower end: both start at id*H*W (mergeBlock seeks to row id*H, column 0)
	if lo != (lin1{H * W, 0}) {
		okAll = false
		detail = fmt.Sprintf("blockData starts at %d*id%+d, not at the block's first position", lo.a, lo.b)
	}
	if okAll {
		r.HoldAt("R6", construct, p.Pos(mb.Pos()), fmt.Sprintf("both cover [%d*id, %d*id%+d) (%d iterator limits, %s comparison)", lo.a, hi.a, hi.b, len(lims), map[bool]string{true: "inclusive", false: "exclusive"}[inclusive]))
	} else {
		r.Violate("R6", construct, p.Pos(mb.Pos()), detail+" -- bits of a neighbouring block are voted on with only the local replica's view of them")
	}
}
