package props

import (
	"go/ast"
	"go/types"
	"sort"

	"golang.org/x/tools/go/packages"

	"verif/checker/core"
)

// recvWriters computes, for one package, the methods that store into memory
// rooted at their own receiver: directly (recv.f = .., recv.f[i] = .., recv.n++,
// through a local that aliases a selector path of the receiver) or by calling
// such a method on an expression rooted at the receiver. Calls through an
// interface declared in the package are resolved to every implementing type
// of the package. Results of calls are not followed (an iterator obtained
// from the receiver and advanced is not a write to the receiver), so the set
// under-approximates: it names methods that certainly write, which is what a
// "no such call under the shared lock" rule needs to stay free of false alarms.
type recvWriters struct {
	why map[*types.Func]string // method -> first reason
}

func computeRecvWriters(p *core.Program, pk *packages.Package) *recvWriters {
	info := pk.TypesInfo
	rw := &recvWriters{why: map[*types.Func]string{}}
	decls := map[*types.Func]*ast.FuncDecl{}
	for _, fd := range core.AllFuncDecls(pk) {
		if fd.Body == nil || fd.Recv == nil {
			continue
		}
		if fn, ok := info.Defs[fd.Name].(*types.Func); ok {
			decls[fn] = fd
		}
	}
	// implementations of the package's interfaces
	var named []*types.Named
	for _, nm := range pk.Types.Scope().Names() {
		if tn, ok := pk.Types.Scope().Lookup(nm).(*types.TypeName); ok {
			if n, ok := tn.Type().(*types.Named); ok {
				named = append(named, n)
			}
		}
	}
	impls := func(m *types.Func) []*types.Func {
		sig := m.Type().(*types.Signature)
		if sig.Recv() == nil {
			return nil
		}
		it, ok := sig.Recv().Type().Underlying().(*types.Interface)
		if !ok {
			return []*types.Func{m}
		}
		var out []*types.Func
		for _, n := range named {
			if _, isI := n.Underlying().(*types.Interface); isI {
				continue
			}
			for _, t := range []types.Type{n, types.NewPointer(n)} {
				if types.Implements(t, it) {
					if o, _, _ := types.LookupFieldOrMethod(t, true, pk.Types, m.Name()); o != nil {
						if f, ok := o.(*types.Func); ok {
							out = append(out, f)
						}
					}
					break
				}
			}
		}
		return out
	}
	type fnInfo struct {
		recv   types.Object
		rooted map[types.Object]bool
	}
	infos := map[*types.Func]*fnInfo{}
	var fns []*types.Func
	for fn := range decls {
		fns = append(fns, fn)
	}
	sort.Slice(fns, func(i, j int) bool { return decls[fns[i]].Pos() < decls[fns[j]].Pos() })
	rootOf := func(fi *fnInfo, e ast.Expr) bool {
		for {
			switch x := ast.Unparen(e).(type) {
			case *ast.SelectorExpr:
				if s, ok := info.Selections[x]; !ok || s.Kind() != types.FieldVal {
					return false
				}
				e = x.X
			case *ast.IndexExpr:
				e = x.X
			case *ast.SliceExpr:
				e = x.X
			case *ast.StarExpr:
				e = x.X
			case *ast.UnaryExpr:
				e = x.X
			case *ast.Ident:
				o := info.ObjectOf(x)
				return o != nil && (o == fi.recv || fi.rooted[o])
			default:
				return false
			}
		}
	}
	pointerish := func(t types.Type) bool {
		switch t.Underlying().(type) {
		case *types.Pointer, *types.Slice, *types.Map:
			return true
		}
		return false
	}
	for _, fn := range fns {
		fd := decls[fn]
		fi := &fnInfo{rooted: map[types.Object]bool{}}
		if len(fd.Recv.List) > 0 && len(fd.Recv.List[0].Names) > 0 {
			fi.recv = info.Defs[fd.Recv.List[0].Names[0]]
			// a value receiver's own fields are a copy; only what they point to is shared
		}
		infos[fn] = fi
		if fi.recv == nil {
			continue
		}
		for pass := 0; pass < 3; pass++ {
			ast.Inspect(fd.Body, func(n ast.Node) bool {
				as, ok := n.(*ast.AssignStmt)
				if !ok || len(as.Lhs) != len(as.Rhs) {
					return true
				}
				for i, l := range as.Lhs {
					id, ok := ast.Unparen(l).(*ast.Ident)
					if !ok {
						continue
					}
					o := info.ObjectOf(id)
					if o == nil || !pointerish(o.Type()) {
						continue
					}
					if _, isCall := ast.Unparen(as.Rhs[i]).(*ast.CallExpr); isCall {
						continue
					}
					if rootOf(fi, as.Rhs[i]) {
						fi.rooted[o] = true
					}
				}
				return true
			})
		}
	}
	valueRecv := func(fn *types.Func) bool {
		sig := fn.Type().(*types.Signature)
		_, isPtr := sig.Recv().Type().(*types.Pointer)
		return !isPtr
	}
	// direct stores
	for _, fn := range fns {
		fd, fi := decls[fn], infos[fn]
		if fi.recv == nil {
			continue
		}
		store := func(l ast.Expr) {
			l = ast.Unparen(l)
			if _, isIdent := l.(*ast.Ident); isIdent {
				return // rebinding a local
			}
			if !rootOf(fi, l) {
				return
			}
			// a value receiver: recv.f = .. changes the copy only
			if valueRecv(fn) {
				if sel, ok := l.(*ast.SelectorExpr); ok {
					if id, ok := ast.Unparen(sel.X).(*ast.Ident); ok && info.ObjectOf(id) == fi.recv {
						return
					}
				}
			}
			if _, ok := rw.why[fn]; !ok {
				rw.why[fn] = "stores to " + types.ExprString(l) + " at " + p.Pos(l.Pos())
			}
		}
		ast.Inspect(fd.Body, func(n ast.Node) bool {
			switch x := n.(type) {
			case *ast.AssignStmt:
				for _, l := range x.Lhs {
					store(l)
				}
			case *ast.IncDecStmt:
				store(x.X)
			}
			return true
		})
	}
	// propagation
	for changed := true; changed; {
		changed = false
		for _, fn := range fns {
			if _, ok := rw.why[fn]; ok {
				continue
			}
			fd, fi := decls[fn], infos[fn]
			if fi.recv == nil {
				continue
			}
			ast.Inspect(fd.Body, func(n ast.Node) bool {
				c, ok := n.(*ast.CallExpr)
				if !ok {
					return true
				}
				if _, done := rw.why[fn]; done {
					return false
				}
				sel, ok := ast.Unparen(c.Fun).(*ast.SelectorExpr)
				if !ok || !rootOf(fi, sel.X) {
					return true
				}
				m := core.CalleeOf(info, c)
				if m == nil {
					return true
				}
				for _, g := range impls(m) {
					if w, ok := rw.why[g]; ok {
						// calling a value-receiver method on a copy does not matter: g's own stores were filtered above
						rw.why[fn] = "calls " + core.FuncKey(g) + " (" + w + ") at " + p.Pos(c.Pos())
						changed = true
						break
					}
				}
				return true
			})
		}
	}
	return rw
}

// writes reports whether calling m (possibly an interface method of the
// package) on a shared object stores into that object.
func (rw *recvWriters) writes(m *types.Func) (string, bool) {
	if w, ok := rw.why[m]; ok {
		return w, true
	}
	return "", false
}

// DebugRecvWriters prints the receiver-writing methods of package roaring.
func DebugRecvWriters(p *core.Program) {
	rw := computeRecvWriters(p, p.Pkg("roaring"))
	var ks []string
	for fn, w := range rw.why {
		ks = append(ks, core.FuncKey(fn)+": "+w)
	}
	sort.Strings(ks)
	for _, k := range ks {
		println(k)
	}
}
