package props

import (
	"go/ast"
	"go/types"
	"strings"

	"verif/checker/core"
	"verif/checker/flow"
)

// c29DepthOnlyGrows: rule R5. The bit depth of an int field is read without
// the lock to decide whether it has to grow, and grown under the lock. By the
// time the lock is held another writer may have grown it further, so the
// assignment must be guarded by a comparison with the current depth made
// under that lock; otherwise the later, smaller requirement shrinks the depth
// and the other writer's value is written and read with too few planes.
func c29DepthOnlyGrows(p *core.Program, r *core.Report) {
	pk := p.Pkg("")
	if pk == nil {
		return
	}
	info := pk.TypesInfo
	isDepth := func(e ast.Expr) bool {
		sel, ok := ast.Unparen(e).(*ast.SelectorExpr)
		if !ok || sel.Sel.Name != "BitDepth" {
			return false
		}
		s, ok := info.Selections[sel]
		if !ok || s.Kind() != types.FieldVal {
			return false
		}
		return core.IsNamed(s.Recv(), core.ModPath, "FieldOptions") || core.IsNamed(s.Recv(), core.ModPath, "bsiGroup")
	}
	mentionsDepth := func(e ast.Node) bool {
		found := false
		ast.Inspect(e, func(m ast.Node) bool {
			if ex, ok := m.(ast.Expr); ok && isDepth(ex) {
				found = true
			}
			return true
		})
		return found
	}
	n := 0
	for _, fd := range core.AllFuncDecls(pk) {
		if fd.Body == nil || core.RecvName(fd) != "Field" || strings.HasSuffix(p.Fset.Position(fd.Pos()).Filename, "_test.go") {
			continue
		}
		switch fd.Name.Name {
		case "loadMeta", "applyOptions", "Open":
			continue // setup: the field is not shared yet
		}
		assigns := false
		ast.Inspect(fd.Body, func(m ast.Node) bool {
			if as, ok := m.(*ast.AssignStmt); ok {
				for _, l := range as.Lhs {
					if isDepth(l) {
						assigns = true
					}
				}
			}
			return true
		})
		if !assigns {
			continue
		}
		n++
		const (
			bLocked flow.State = 1 << iota
			bCompared
		)
		var bad []string
		h := flow.Hooks{Info: info}
		h.Atom = func(nd ast.Node, s flow.State) []flow.State {
			switch x := nd.(type) {
			case *ast.CallExpr:
				if sel, ok := ast.Unparen(x.Fun).(*ast.SelectorExpr); ok {
					if _, ok := core.FieldSel(info, sel.X, core.ModPath, "Field", "mu"); ok {
						switch sel.Sel.Name {
						case "Lock":
							return []flow.State{(s | bLocked) &^ bCompared}
						case "Unlock":
							return []flow.State{s &^ (bLocked | bCompared)}
						}
					}
				}
			case *ast.AssignStmt:
				for _, l := range x.Lhs {
					if isDepth(l) && s&bCompared == 0 {
						if s&bLocked != 0 {
							bad = append(bad, p.Pos(x.Pos()))
						} else {
							bad = append(bad, p.Pos(x.Pos())+" (outside the lock)")
						}
					}
				}
			}
			return []flow.State{s}
		}
		h.Refine = func(c ast.Expr, taken bool, s flow.State) (flow.State, bool) {
			if s&bLocked != 0 && mentionsDepth(c) {
				return s | bCompared, true
			}
			return s, true
		}
		it := flow.Run(h, fd.Body, 0)
		construct := core.FuncName(fd) + ": the bit depth only grows"
		switch {
		case it.Unsupported != "":
			r.Undecide("R5", construct, p.Pos(fd.Pos()), it.Unsupported)
		case len(bad) > 0:
			r.Violate("R5", construct, p.Pos(fd.Pos()), "the bit depth is assigned at "+strings.Join(dedupe(bad), ", ")+" without having been compared with its current value since the field's lock was taken: of two concurrent writers that both saw the old depth, the one with the smaller requirement can assign last, and the other's value is then written and read with too few planes")
		default:
			r.HoldAt("R5", construct, p.Pos(fd.Pos()), "assigned only after a comparison with the current depth under the same hold of the lock")
		}
	}
	r.Floor("C29/R5 Field methods that assign the bit depth", n, 2)
}
