package props

import (
	"go/ast"
	"strings"

	"golang.org/x/tools/go/packages"

	"verif/checker/core"
	"verif/checker/flow"
)

// c31CopyOnEverySuccess: rule R5. setAllConfig ends by copying the value
// viper resolved for every flag (flag > environment > file > default) into
// the flag set. A successful return that skips this copy drops everything the
// environment and the file supplied, without an error.
func c31CopyOnEverySuccess(p *core.Program, r *core.Report, cmd *packages.Package) {
	info := cmd.TypesInfo
	var fd *ast.FuncDecl
	for _, d := range core.AllFuncDecls(cmd) {
		if d.Recv == nil && d.Name.Name == "setAllConfig" && d.Body != nil {
			fd = d
		}
	}
	construct := "setAllConfig: resolved values are copied on every successful return"
	if fd == nil {
		r.Undecide("R5", construct, "", "setAllConfig not found")
		return
	}
	// the copy: a VisitAll whose function literal calls <flag>.Value.Set
	isCopy := func(n ast.Node) bool {
		c, ok := n.(*ast.CallExpr)
		if !ok {
			return false
		}
		fn := core.CalleeOf(info, c)
		if fn == nil || fn.Name() != "VisitAll" || len(c.Args) != 1 {
			return false
		}
		fl, ok := ast.Unparen(c.Args[0]).(*ast.FuncLit)
		if !ok {
			return false
		}
		sets := false
		ast.Inspect(fl.Body, func(m ast.Node) bool {
			if cc, ok := m.(*ast.CallExpr); ok {
				if g := core.CalleeOf(info, cc); g != nil && g.Name() == "Set" {
					if sel, ok := ast.Unparen(cc.Fun).(*ast.SelectorExpr); ok {
						if s2, ok := ast.Unparen(sel.X).(*ast.SelectorExpr); ok && s2.Sel.Name == "Value" {
							sets = true
						}
					}
				}
			}
			return true
		})
		return sets
	}
	nCopy := 0
	ast.Inspect(fd.Body, func(n ast.Node) bool {
		if isCopy(n) {
			nCopy++
		}
		return true
	})
	r.Floor("C31/R5 copy loops in setAllConfig", nCopy, 1)
	const bCopied flow.State = 1
	var bad []string
	h := flow.Hooks{Info: info}
	h.Atom = func(n ast.Node, s flow.State) []flow.State {
		if isCopy(n) {
			s |= bCopied
		}
		return []flow.State{s}
	}
	h.Return = func(ret *ast.ReturnStmt, s flow.State) {
		if s&bCopied != 0 {
			return
		}
		if ret != nil && len(ret.Results) == 1 {
			if id, ok := ast.Unparen(ret.Results[0]).(*ast.Ident); !ok || id.Name != "nil" {
				return // an error value: the caller stops
			}
		}
		pos := p.Pos(fd.End())
		if ret != nil {
			pos = p.Pos(ret.Pos())
		}
		bad = append(bad, pos)
	}
	it := flow.Run(h, fd.Body, 0)
	switch {
	case it.Unsupported != "":
		r.Undecide("R5", construct, p.Pos(fd.Pos()), it.Unsupported)
	case len(bad) > 0:
		r.Violate("R5", construct, p.Pos(fd.Pos()), "returns nil at "+strings.Join(dedupe(bad), ", ")+" before the loop that copies the resolved values into the flags: options given through the environment (or the file) are silently ignored on that path")
	default:
		r.HoldAt("R5", construct, p.Pos(fd.Pos()), "every return before the copy loop returns an error value")
	}
}
