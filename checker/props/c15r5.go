package props

import (
	"go/ast"
	"go/types"
	"strings"

	"verif/checker/core"
)

// c15IteratorSides: rule R5. Row operations walk two segment lists in step
// through mergeSegmentIterator.next, which answers (segment of the receiver,
// segment of the other row); nil means "has no segment in this shard". The
// non-commutative operations (Difference) depend on which slot a segment
// arrives in, so every return must keep the sides apart.
func c15IteratorSides(p *core.Program, r *core.Report) {
	pk := p.Pkg("")
	if pk == nil {
		return
	}
	info := pk.TypesInfo
	fd := core.FuncDecl(pk, "mergeSegmentIterator", "next")
	construct := "(*mergeSegmentIterator).next: each slot holds a segment of its own row"
	if fd == nil {
		r.Undecide("R5", construct, "", "not found")
		return
	}
	// the two lists: fields of the receiver of type []rowSegment, in declaration order
	var sides []string
	if n := core.NamedOf(info.TypeOf(fd.Recv.List[0].Type)); n != nil {
		if st, ok := n.Underlying().(*types.Struct); ok {
			for i := 0; i < st.NumFields(); i++ {
				if sl, ok := st.Field(i).Type().Underlying().(*types.Slice); ok && core.IsNamed(sl.Elem(), core.ModPath, "rowSegment") {
					sides = append(sides, st.Field(i).Name())
				}
			}
		}
	}
	if len(sides) != 2 || fd.Type.Results.NumFields() != 2 {
		r.Undecide("R5", construct, p.Pos(fd.Pos()), "expected two []rowSegment fields and two results")
		return
	}
	// which side each pointer variable points into: v = &itr.<side>[..]
	sideOf := map[types.Object]string{}
	var resObjs []types.Object
	for _, fl := range fd.Type.Results.List {
		for _, nm := range fl.Names {
			resObjs = append(resObjs, info.Defs[nm])
		}
	}
	mixed := ""
	ast.Inspect(fd.Body, func(n ast.Node) bool {
		as, ok := n.(*ast.AssignStmt)
		if !ok || len(as.Lhs) != len(as.Rhs) {
			return true
		}
		for i, l := range as.Lhs {
			id, ok := ast.Unparen(l).(*ast.Ident)
			if !ok {
				continue
			}
			u, ok := ast.Unparen(as.Rhs[i]).(*ast.UnaryExpr)
			if !ok {
				continue
			}
			ix, ok := ast.Unparen(u.X).(*ast.IndexExpr)
			if !ok {
				continue
			}
			sel, ok := ast.Unparen(ix.X).(*ast.SelectorExpr)
			if !ok {
				continue
			}
			o := info.ObjectOf(id)
			if prev, seen := sideOf[o]; seen && prev != sel.Sel.Name {
				mixed = id.Name
			}
			sideOf[o] = sel.Sel.Name
		}
		return true
	})
	if mixed != "" {
		r.Violate("R5", construct, p.Pos(fd.Pos()), "the variable "+mixed+" is pointed into both lists")
		return
	}
	var bad []string
	nRet := 0
	ast.Inspect(fd.Body, func(n ast.Node) bool {
		ret, ok := n.(*ast.ReturnStmt)
		if !ok {
			return true
		}
		nRet++
		exprs := ret.Results
		if len(exprs) == 0 {
			return true // the named results: checked through their assignments above
		}
		for slot, e := range exprs {
			if slot > 1 {
				break
			}
			id, ok := ast.Unparen(e).(*ast.Ident)
			if !ok {
				bad = append(bad, p.Pos(ret.Pos())+": result "+types.ExprString(e)+" is not a tracked segment pointer")
				continue
			}
			if id.Name == "nil" {
				continue
			}
			if s, ok := sideOf[info.ObjectOf(id)]; !ok || s != sides[slot] {
				bad = append(bad, p.Pos(ret.Pos())+": slot "+string(rune('0'+slot))+" returns "+id.Name+", a segment of "+s+" (the slot belongs to "+sides[slot]+")")
			}
		}
		return true
	})
	// named results used by bare returns must point into their own side
	for slot, o := range resObjs {
		if s, ok := sideOf[o]; ok && slot < 2 && s != sides[slot] {
			bad = append(bad, "named result "+o.Name()+" points into "+s)
		}
	}
	if len(bad) > 0 {
		r.Violate("R5", construct, p.Pos(fd.Pos()), strings.Join(dedupe(bad), "; ")+" -- Row.Difference then treats a segment of the subtrahend as the receiver's and the result contains its columns; Merge and Union copy the wrong row's header")
	} else {
		r.HoldAt("R5", construct, p.Pos(fd.Pos()), "every return keeps the receiver's segment in the first slot and the other row's in the second")
	}
	r.Floor("C15/R5 returns of the segment iterator", nRet, 4)
}
