package props

import (
	"go/ast"
	"go/types"
	"strings"

	"verif/checker/core"
	"verif/checker/flow"
)

// c26OperatorAppliesOnce: rule R7. The parser keeps the comparison operator
// written before a value (f > 3, f >< [1,5]) in callStackElem.lastCond until
// the value arrives. Whenever an argument is completed -- lastField is
// cleared -- the pending operator must be cleared with it, or it turns the
// next plain argument of the call into a condition.
func c26OperatorAppliesOnce(p *core.Program, r *core.Report) {
	qp := p.Pkg("pql")
	if qp == nil {
		return
	}
	info := qp.TypesInfo
	isField := func(e ast.Expr, f string) bool {
		sel, ok := ast.Unparen(e).(*ast.SelectorExpr)
		if !ok || sel.Sel.Name != f {
			return false
		}
		s, ok := info.Selections[sel]
		return ok && s.Kind() == types.FieldVal && core.NamedOf(s.Recv()) != nil && core.NamedOf(s.Recv()).Obj().Name() == "callStackElem"
	}
	isIllegal := func(e ast.Expr) bool {
		id, ok := ast.Unparen(e).(*ast.Ident)
		return ok && id.Name == "ILLEGAL"
	}
	// helpers that clear the pending operator
	clears := map[*types.Func]bool{}
	for _, fd := range core.AllFuncDecls(qp) {
		if fd.Body == nil {
			continue
		}
		fn, _ := info.Defs[fd.Name].(*types.Func)
		if fn == nil {
			continue
		}
		all := true
		found := false
		// every path: approximate by "assigns it at top level of the body"
		for _, st := range fd.Body.List {
			if as, ok := st.(*ast.AssignStmt); ok && len(as.Lhs) == len(as.Rhs) {
				for i, l := range as.Lhs {
					if isField(l, "lastCond") && isIllegal(as.Rhs[i]) {
						found = true
					}
				}
			}
		}
		if found && all && core.RecvName(fd) == "callStackElem" {
			clears[fn] = true
		}
	}
	n := 0
	for _, fd := range core.AllFuncDecls(qp) {
		fnm := p.Fset.Position(fd.Pos()).Filename
		if fd.Body == nil || strings.HasSuffix(fnm, "_test.go") || strings.HasSuffix(fnm, ".peg.go") {
			continue
		}
		completes := false
		ast.Inspect(fd.Body, func(m ast.Node) bool {
			if as, ok := m.(*ast.AssignStmt); ok && len(as.Lhs) == len(as.Rhs) {
				for i, l := range as.Lhs {
					if isField(l, "lastField") {
						if tv, ok := info.Types[as.Rhs[i]]; ok && tv.Value != nil && tv.Value.ExactString() == `""` {
							completes = true
						}
					}
				}
			}
			return true
		})
		if !completes {
			continue
		}
		n++
		const (
			bFieldCleared flow.State = 1 << iota
			bCondCleared
		)
		var bad []string
		h := flow.Hooks{Info: info}
		h.Atom = func(nd ast.Node, s flow.State) []flow.State {
			switch x := nd.(type) {
			case *ast.AssignStmt:
				if len(x.Lhs) == len(x.Rhs) {
					for i, l := range x.Lhs {
						if isField(l, "lastField") {
							if tv, ok := info.Types[x.Rhs[i]]; ok && tv.Value != nil && tv.Value.ExactString() == `""` {
								s |= bFieldCleared
							}
						}
						if isField(l, "lastCond") && isIllegal(x.Rhs[i]) {
							s |= bCondCleared
						}
					}
				}
			case *ast.CallExpr:
				if g := core.CalleeOf(info, x); g != nil && clears[g] {
					s |= bCondCleared
				}
			}
			return []flow.State{s}
		}
		h.Return = func(ret *ast.ReturnStmt, s flow.State) {
			if s&bFieldCleared != 0 && s&bCondCleared == 0 {
				pos := p.Pos(fd.End())
				if ret != nil {
					pos = p.Pos(ret.Pos())
				}
				bad = append(bad, pos)
			}
		}
		it := flow.Run(h, fd.Body, 0)
		construct := core.FuncName(fd) + ": a completed argument clears the pending operator"
		switch {
		case it.Unsupported != "":
			r.Undecide("R7", construct, p.Pos(fd.Pos()), it.Unsupported)
		case len(bad) > 0:
			r.Violate("R7", construct, p.Pos(fd.Pos()), "returns at "+strings.Join(dedupe(bad), ", ")+" with the argument completed (lastField cleared) but the comparison operator still pending: the next plain argument of the same call is stored as a condition with that operator -- also in the forwarded text, which prints arguments in sorted order, so another node re-parses a different call")
		default:
			r.HoldAt("R7", construct, p.Pos(fd.Pos()), "lastCond is reset on every path that clears lastField")
		}
	}
	r.Floor("C26/R7 parser helpers that complete an argument", n, 3)
}
