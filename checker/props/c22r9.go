package props

import (
	"go/ast"
	"go/types"
	"strings"

	"verif/checker/core"
	"verif/checker/flow"
)

// c22JobSlotFreed: rule R9. unprotectedGenerateResizeJob installs the job as
// cluster.currentJob. Whatever happens to the job afterwards, the function
// that installed it must complete it (completeCurrentJob clears the slot)
// before it returns: a slot left occupied makes every later resize fail with
// "there is currently a resize job running".
func c22JobSlotFreed(p *core.Program, r *core.Report) {
	pk := p.Pkg("")
	if pk == nil {
		return
	}
	info := pk.TypesInfo
	n := 0
	for _, fd := range core.AllFuncDecls(pk) {
		if fd.Body == nil || core.RecvName(fd) != "cluster" || strings.HasSuffix(p.Fset.Position(fd.Pos()).Filename, "_test.go") {
			continue
		}
		// functions that install a job: call unprotectedGenerateResizeJob and keep its error
		var errObj types.Object
		ast.Inspect(fd.Body, func(m ast.Node) bool {
			as, ok := m.(*ast.AssignStmt)
			if !ok || len(as.Rhs) != 1 || len(as.Lhs) != 2 {
				return true
			}
			if c, ok := ast.Unparen(as.Rhs[0]).(*ast.CallExpr); ok {
				if g := core.CalleeOf(info, c); g != nil && g.Name() == "unprotectedGenerateResizeJob" {
					if id, ok := as.Lhs[1].(*ast.Ident); ok {
						errObj = info.ObjectOf(id)
					}
				}
			}
			return true
		})
		if errObj == nil || fd.Name.Name == "unprotectedGenerateResizeJob" {
			continue
		}
		n++
		const (
			bGenerated flow.State = 1 << iota // the call was made; outcome not yet tested
			bInstalled                        // the call succeeded: the slot is occupied
		)
		// the values a job's result can take: every constant handed to (*resizeJob).signal
		results := map[string]flow.State{}
		for _, gd := range core.AllFuncDecls(pk) {
			if gd.Body == nil {
				continue
			}
			ast.Inspect(gd.Body, func(m ast.Node) bool {
				c, ok := m.(*ast.CallExpr)
				if !ok || len(c.Args) != 1 {
					return true
				}
				if g := core.CalleeOf(info, c); g != nil && g.Name() == "signal" && recvNamed(g, "resizeJob") {
					if tv, ok := info.Types[c.Args[0]]; ok && tv.Value != nil {
						k := tv.Value.ExactString()
						if _, seen := results[k]; !seen && len(results) < 8 {
							results[k] = flow.State(1) << uint(8+len(results))
						}
					} else {
						results["?"] = 0 // a non-constant result: the set is open
					}
				}
				return true
			})
		}
		_, open := results["?"]
		var allResults flow.State
		for _, b := range results {
			allResults |= b
		}
		// variables received from a job's result channel
		resultVars := map[types.Object]bool{}
		ast.Inspect(fd.Body, func(m ast.Node) bool {
			as, ok := m.(*ast.AssignStmt)
			if !ok || len(as.Lhs) != 1 || len(as.Rhs) != 1 {
				return true
			}
			if u, ok := ast.Unparen(as.Rhs[0]).(*ast.UnaryExpr); ok && u.Op.String() == "<-" {
				if sel, ok := ast.Unparen(u.X).(*ast.SelectorExpr); ok && sel.Sel.Name == "result" {
					if id, ok := as.Lhs[0].(*ast.Ident); ok {
						resultVars[info.ObjectOf(id)] = true
					}
				}
			}
			return true
		})
		var bad []string
		h := flow.Hooks{Info: info}
		h.Atom = func(nd ast.Node, s flow.State) []flow.State {
			c, ok := nd.(*ast.CallExpr)
			if !ok {
				return []flow.State{s}
			}
			g := core.CalleeOf(info, c)
			if g == nil {
				return []flow.State{s}
			}
			switch g.Name() {
			case "unprotectedGenerateResizeJob":
				return []flow.State{s | bGenerated}
			case "completeCurrentJob", "unprotectedCompleteCurrentJob":
				return []flow.State{s &^ (bInstalled | bGenerated)}
			}
			return []flow.State{s}
		}
		h.Refine = func(c ast.Expr, taken bool, s flow.State) (flow.State, bool) {
			if s&bGenerated == 0 {
				return s, true
			}
			if obj, neq, ok := flow.IsErrNilTest(info, c); ok && obj == errObj {
				failed := neq == taken
				if failed {
					return s &^ (bGenerated | bInstalled), true
				}
				return (s &^ bGenerated) | bInstalled, true
			}
			return s, true
		}
		// a switch over the received result: once every value a job can report was excluded, the path is dead
		h.Case = func(tag, val ast.Expr, taken bool, s flow.State) (flow.State, bool) {
			id, ok := ast.Unparen(tag).(*ast.Ident)
			if !ok || !resultVars[info.ObjectOf(id)] || open || taken {
				return s, true
			}
			if tv, ok := info.Types[val]; ok && tv.Value != nil {
				s |= results[tv.Value.ExactString()]
			}
			if allResults != 0 && s&allResults == allResults {
				return s, false
			}
			return s, true
		}
		h.Return = func(ret *ast.ReturnStmt, s flow.State) {
			if s&(bInstalled|bGenerated) != 0 {
				pos := p.Pos(fd.End())
				if ret != nil {
					pos = p.Pos(ret.Pos())
				}
				bad = append(bad, pos)
			}
		}
		it := flow.Run(h, fd.Body, 0)
		construct := core.FuncName(fd) + ": the job slot is freed before returning"
		switch {
		case it.Unsupported != "":
			r.Undecide("R9", construct, p.Pos(fd.Pos()), it.Unsupported)
		case len(bad) > 0:
			r.Violate("R9", construct, p.Pos(fd.Pos()), "returns at "+strings.Join(dedupe(bad), ", ")+" after unprotectedGenerateResizeJob installed the job as currentJob, without completeCurrentJob: the slot stays occupied and every later join or leave is refused with \"there is currently a resize job running\"")
		default:
			r.HoldAt("R9", construct, p.Pos(fd.Pos()), "every return after a successful unprotectedGenerateResizeJob follows completeCurrentJob")
		}
	}
	r.Floor("C22/R9 functions that install a resize job", n, 1)
}

// DebugWrapNil lists errors.Wrap(err, ..) calls reached only on paths where err was tested nil.
func DebugWrapNil(p *core.Program) {
	for _, pk := range p.Pkgs {
		if !strings.HasPrefix(pk.PkgPath, core.ModPath) {
			continue
		}
		info := pk.TypesInfo
		for _, fd := range core.AllFuncDecls(pk) {
			if fd.Body == nil || strings.HasSuffix(p.Fset.Position(fd.Pos()).Filename, "_test.go") {
				continue
			}
			// error variables
			bits := map[types.Object]flow.State{}
			bitOf := func(o types.Object) flow.State {
				if b, ok := bits[o]; ok {
					return b
				}
				if len(bits) >= 30 {
					return 0
				}
				b := flow.State(1) << uint(len(bits))
				bits[o] = b
				return b
			}
			h := flow.Hooks{Info: info}
			h.Refine = func(c ast.Expr, taken bool, s flow.State) (flow.State, bool) {
				if obj, neq, ok := flow.IsErrNilTest(info, c); ok {
					isNil := neq != taken
					b := bitOf(obj)
					if isNil {
						return s | b, true
					}
					return s &^ b, true
				}
				return s, true
			}
			h.Atom = func(nd ast.Node, s flow.State) []flow.State {
				switch x := nd.(type) {
				case *ast.AssignStmt:
					for _, l := range x.Lhs {
						if id, ok := ast.Unparen(l).(*ast.Ident); ok {
							if b, ok := bits[info.ObjectOf(id)]; ok {
								s &^= b
							}
						}
					}
				case *ast.CallExpr:
					g := core.CalleeOf(info, x)
					if g != nil && g.Pkg() != nil && strings.HasSuffix(g.Pkg().Path(), "pkg/errors") && (g.Name() == "Wrap" || g.Name() == "Wrapf") && len(x.Args) > 0 {
						if id, ok := ast.Unparen(x.Args[0]).(*ast.Ident); ok {
							if b, ok := bits[info.ObjectOf(id)]; ok && s&b != 0 {
								println(p.Pos(x.Pos()), core.FuncName(fd), "wraps", id.Name, "which is nil on this path")
							}
						}
					}
				}
				return []flow.State{s}
			}
			flow.Run(h, fd.Body, 0)
		}
	}
}
