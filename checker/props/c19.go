package props

import (
	"go/ast"
	"go/constant"
	"go/token"
	"go/types"
	"strings"

	"verif/checker/core"
	"verif/checker/flow"
)

func init() { register("C19", c19) }

func c19(p *core.Program, r *core.Report) {
	r.Rule("R1", "Field.ClearBit clears every view that can hold the bit: every return that is not an error exit (taken after an `err != nil` test) is reached only after a loop over all of the field's views in which each iteration either calls clearBit on the view, or skips it on a test of the view's name prefix alone; and the standard view, when present, is cleared on the way")
	r.Rule("R2", "the views a time-range query reads are among those ClearBit clears: queries name time views viewsByTimeRange(viewStandard, ...) = viewStandard + \"_\" + time, SetBit writes viewsByTime(viewStandard, ...) of the same shape, and ClearBit's only skip is `not prefixed by viewStandard + \"_\"`")
	r.NotDecided = "that view.clearBit/fragment.clearBit remove the bit (C05/C07/C09 cover the fragment write path); concurrent SetBit during Clear"
	pk := p.Pkg("")
	if pk == nil {
		r.Undecide("R1", "package pilosa", "", "not loaded")
		return
	}
	info := pk.TypesInfo
	fd := core.FuncDecl(pk, "Field", "ClearBit")
	if fd == nil {
		r.Undecide("R1", "(*Field).ClearBit", "", "not found")
		return
	}
	// the all-views loops: range over f.views() or f.viewMap
	var recv types.Object
	if fd.Recv != nil && len(fd.Recv.List[0].Names) > 0 {
		recv = info.Defs[fd.Recv.List[0].Names[0]]
	}
	var isAllViews func(e ast.Expr) bool
	isAllViews = func(e ast.Expr) bool {
		switch x := ast.Unparen(e).(type) {
		case *ast.Ident:
			// a local that only ever holds the list of all views
			o := info.ObjectOf(x)
			if o == nil || o == recv {
				return false
			}
			n, all := 0, true
			ast.Inspect(fd.Body, func(m ast.Node) bool {
				if as, ok := m.(*ast.AssignStmt); ok && len(as.Lhs) == len(as.Rhs) {
					for i, l := range as.Lhs {
						if id, ok := ast.Unparen(l).(*ast.Ident); ok && info.ObjectOf(id) == o {
							n++
							if _, isId := ast.Unparen(as.Rhs[i]).(*ast.Ident); isId || !isAllViews(as.Rhs[i]) {
								all = false
							}
						}
					}
				}
				return true
			})
			return n > 0 && all
		case *ast.CallExpr:
			if fn := core.CalleeOf(info, x); fn != nil && fn.Name() == "views" && recvNamed(fn, "Field") {
				if sel, ok := ast.Unparen(x.Fun).(*ast.SelectorExpr); ok {
					if id, ok := ast.Unparen(sel.X).(*ast.Ident); ok && info.ObjectOf(id) == recv {
						return true
					}
				}
			}
		case *ast.SelectorExpr:
			if x.Sel.Name == "viewMap" {
				if id, ok := ast.Unparen(x.X).(*ast.Ident); ok && info.ObjectOf(id) == recv {
					return true
				}
			}
		}
		return false
	}
	loops := map[*ast.RangeStmt]types.Object{}
	ast.Inspect(fd.Body, func(n ast.Node) bool {
		if rs, ok := n.(*ast.RangeStmt); ok && isAllViews(rs.X) {
			if id, ok := rs.Value.(*ast.Ident); ok {
				loops[rs] = info.ObjectOf(id)
			}
		}
		return true
	})
	const (
		bIter  flow.State = 1 << iota // inside an iteration of an all-views loop
		bDone                         // this iteration cleared the view
		bSkip                         // this iteration is a non-time view (name-prefix test)
		bLoop                         // an all-views loop ran
		bErr                          // on the true side of an err != nil test
		bStd                          // standard view cleared
		bNoStd                        // standard view known absent
	)
	var cur types.Object
	var bad []string
	prefixOK := false
	isClearOn := func(n ast.Node, o types.Object) bool {
		c, ok := n.(*ast.CallExpr)
		if !ok {
			return false
		}
		fn := core.CalleeOf(info, c)
		if fn == nil || fn.Name() != "clearBit" || !recvNamed(fn, "view") {
			return false
		}
		sel, ok := ast.Unparen(c.Fun).(*ast.SelectorExpr)
		if !ok {
			return false
		}
		id, ok := ast.Unparen(sel.X).(*ast.Ident)
		return ok && (o == nil || info.ObjectOf(id) == o)
	}
	// the standard-view variable: v, present := f.viewMap[viewStandard]
	var stdVar, presentVar types.Object
	ast.Inspect(fd.Body, func(n ast.Node) bool {
		as, ok := n.(*ast.AssignStmt)
		if !ok || len(as.Lhs) != 2 || len(as.Rhs) != 1 {
			return true
		}
		ix, ok := ast.Unparen(as.Rhs[0]).(*ast.IndexExpr)
		if !ok || !isAllViews(ix.X) {
			return true
		}
		if a, ok := as.Lhs[0].(*ast.Ident); ok {
			stdVar = info.ObjectOf(a)
		}
		if b, ok := as.Lhs[1].(*ast.Ident); ok {
			presentVar = info.ObjectOf(b)
		}
		return true
	})
	endIteration := func(s flow.State, where token.Pos) {
		if s&bIter != 0 && s&(bDone|bSkip|bErr) == 0 {
			bad = append(bad, p.Pos(where)+": an iteration over the field's views can end without clearBit on that view and without the view being a non-time view")
		}
	}
	h := flow.Hooks{Info: info}
	h.EnterRange = func(rs *ast.RangeStmt, s flow.State) flow.State {
		if o, ok := loops[rs]; ok {
			endIteration(s, rs.Pos())
			cur = o
			return (s | bIter | bLoop) &^ (bDone | bSkip)
		}
		return s
	}
	// with no views at all there is nothing to clear: the zero-iteration path
	// of an all-views loop is not an obligation
	h.RangeAtLeastOnce = func(rs *ast.RangeStmt) bool { _, ok := loops[rs]; return ok }
	h.Atom = func(n ast.Node, s flow.State) []flow.State {
		if s&bIter != 0 && cur != nil && isClearOn(n, cur) {
			return []flow.State{s | bDone}
		}
		if stdVar != nil && isClearOn(n, stdVar) {
			return []flow.State{s | bStd}
		}
		return []flow.State{s}
	}
	// boolean locals that hold the result of the prefix test
	prefixVars := map[types.Object]ast.Expr{}
	ast.Inspect(fd.Body, func(m ast.Node) bool {
		if as, ok := m.(*ast.AssignStmt); ok && len(as.Lhs) == 1 && len(as.Rhs) == 1 {
			if id, ok := ast.Unparen(as.Lhs[0]).(*ast.Ident); ok {
				if call, ok := ast.Unparen(as.Rhs[0]).(*ast.CallExpr); ok {
					if fn := core.CalleeOf(info, call); fn != nil && fn.Pkg() != nil && fn.Pkg().Path() == "strings" && fn.Name() == "HasPrefix" {
						prefixVars[info.ObjectOf(id)] = call
					}
				}
			}
		}
		return true
	})
	h.Refine = func(cond ast.Expr, taken bool, s flow.State) (flow.State, bool) {
		c := ast.Unparen(cond)
		if ue, ok := c.(*ast.UnaryExpr); ok && ue.Op == token.NOT {
			c, taken = ast.Unparen(ue.X), !taken
		}
		if id, ok := c.(*ast.Ident); ok {
			if call, ok := prefixVars[info.ObjectOf(id)]; ok {
				c = call
			}
		}
		if o, neq, ok := flow.IsErrNilTest(info, c); ok && o != nil {
			if neq == taken {
				return s | bErr, true
			}
			return s &^ bErr, true
		}
		// strings.HasPrefix(view.name, viewStandard+"_") false: not a time view
		if call, ok := c.(*ast.CallExpr); ok && len(call.Args) == 2 {
			if fn := core.CalleeOf(info, call); fn != nil && fn.Pkg() != nil && fn.Pkg().Path() == "strings" && fn.Name() == "HasPrefix" {
				if sel, ok := ast.Unparen(call.Args[0]).(*ast.SelectorExpr); ok && sel.Sel.Name == "name" {
					if id, ok := ast.Unparen(sel.X).(*ast.Ident); ok && info.ObjectOf(id) == cur {
						if tv, ok := info.Types[call.Args[1]]; ok && tv.Value != nil && tv.Value.Kind() == constant.String {
							std := ""
							if cst, ok := pk.Types.Scope().Lookup("viewStandard").(*types.Const); ok {
								std = constant.StringVal(cst.Val())
							}
							if constant.StringVal(tv.Value) == std+"_" {
								prefixOK = true
								if !taken {
									return s | bSkip, true
								}
							}
						}
					}
				}
			}
		}
		if id, ok := c.(*ast.Ident); ok && presentVar != nil && info.ObjectOf(id) == presentVar && !taken {
			return s | bNoStd, true
		}
		return s, true
	}
	h.Return = func(ret *ast.ReturnStmt, s flow.State) {
		if s&bErr != 0 {
			return
		}
		pos := fd.End()
		if ret != nil {
			pos = ret.Pos()
		}
		endIteration(s, pos)
		if s&bLoop == 0 {
			bad = append(bad, p.Pos(pos)+": returns without having gone over the field's views")
		}
		if s&(bStd|bNoStd) == 0 && stdVar != nil && len(loops) > 0 {
			// the standard view is also covered if the all-views loop clears non-time views;
			// here it skips them, so the explicit clear is required
			bad = append(bad, p.Pos(pos)+": returns without clearing the standard view although it may be present")
		}
	}
	it := flow.Run(h, fd.Body, 0)
	switch {
	case it.Unsupported != "":
		r.Undecide("R1", "(*Field).ClearBit", p.Pos(fd.Pos()), it.Unsupported)
	case len(loops) == 0:
		r.Violate("R1", "(*Field).ClearBit", p.Pos(fd.Pos()), "no loop over all of the field's views (f.views() or f.viewMap): the set of time views a bit was written to is not recorded, so clearing fewer than all of them can leave the bit behind")
	case len(bad) > 0:
		r.Violate("R1", "(*Field).ClearBit", p.Pos(fd.Pos()), strings.Join(dedupe(bad), "; ")+" -- a time-range query can still return the column after Clear")
	default:
		r.HoldAt("R1", "(*Field).ClearBit", p.Pos(fd.Pos()), "every non-error return follows a loop over all views that clears each time view, and the standard view is cleared when present")
	}

	// ---- R2
	r.Check(prefixOK, "R2", "ClearBit view filter", p.Pos(fd.Pos()), "the only skipped views are those not prefixed by viewStandard+\"_\"", "ClearBit does not filter views by the prefix viewStandard+\"_\": either it clears views of another kind or skips time views")
	if vt := core.FuncDecl(pk, "", "viewByTimeUnit"); vt != nil {
		ok, n := true, 0
		ast.Inspect(vt.Body, func(nd ast.Node) bool {
			ret, isRet := nd.(*ast.ReturnStmt)
			if !isRet || len(ret.Results) != 1 {
				return true
			}
			if tv, isC := info.Types[ret.Results[0]]; isC && tv.Value != nil {
				return true // the "" default
			}
			n++
			c, isCall := ast.Unparen(ret.Results[0]).(*ast.CallExpr)
			if !isCall || len(c.Args) < 2 {
				ok = false
				return true
			}
			fn := core.CalleeOf(info, c)
			tv, isC := info.Types[c.Args[0]]
			if fn == nil || fn.Name() != "Sprintf" || !isC || tv.Value == nil || !strings.HasPrefix(constant.StringVal(tv.Value), "%s_") {
				ok = false
				return true
			}
			if id, isId := ast.Unparen(c.Args[1]).(*ast.Ident); !isId || id.Name != vt.Type.Params.List[0].Names[0].Name {
				ok = false
			}
			return true
		})
		r.Check(ok && n >= 4, "R2", "viewByTimeUnit", p.Pos(vt.Pos()), "time views are named <name>_<time> for every unit", "a time view name is not built as <name>_<time>: ClearBit's prefix filter would skip it")
	} else {
		r.Undecide("R2", "viewByTimeUnit", "", "not found")
	}
	// every caller names time views relative to viewStandard
	n := 0
	for _, cfd := range core.AllFuncDecls(pk) {
		if cfd.Body == nil || strings.HasSuffix(p.Fset.Position(cfd.Pos()).Filename, "_test.go") {
			continue
		}
		ast.Inspect(cfd.Body, func(nd ast.Node) bool {
			c, ok := nd.(*ast.CallExpr)
			if !ok || len(c.Args) < 1 {
				return true
			}
			fn := core.CalleeOf(info, c)
			if fn == nil || (fn.Name() != "viewsByTimeRange" && fn.Name() != "viewsByTime") || fn.Pkg() != pk.Types {
				return true
			}
			if core.FuncName(cfd) == "viewsByTimeRange" || core.FuncName(cfd) == "viewsByTime" {
				return true
			}
			n++
			good := false
			isStd := func(e ast.Expr) bool {
				id, ok := ast.Unparen(e).(*ast.Ident)
				if !ok {
					return false
				}
				cst, ok := info.ObjectOf(id).(*types.Const)
				return ok && cst.Name() == "viewStandard"
			}
			if isStd(c.Args[0]) {
				good = true
			} else if id, ok := ast.Unparen(c.Args[0]).(*ast.Ident); ok {
				// a local that is only ever assigned viewStandard
				o := info.ObjectOf(id)
				nDefs, allStd := 0, true
				ast.Inspect(cfd.Body, func(m ast.Node) bool {
					if as, ok := m.(*ast.AssignStmt); ok && len(as.Lhs) == len(as.Rhs) {
						for i, l := range as.Lhs {
							if lid, ok := ast.Unparen(l).(*ast.Ident); ok && info.ObjectOf(lid) == o {
								nDefs++
								if !isStd(as.Rhs[i]) {
									allStd = false
								}
							}
						}
					}
					return true
				})
				good = nDefs > 0 && allStd
			}
			r.Check(good, "R2", core.FuncName(cfd)+" -> "+fn.Name(), p.Pos(c.Pos()), "time views are derived from viewStandard", "time views are derived from "+types.ExprString(c.Args[0])+", not viewStandard: ClearBit's prefix filter does not cover them")
			return true
		})
	}
	r.Floor("C19/R2 users of viewsByTime/viewsByTimeRange", n, 3)
}

func dedupe(in []string) []string {
	seen := map[string]bool{}
	var out []string
	for _, s := range in {
		if !seen[s] {
			seen[s] = true
			out = append(out, s)
		}
	}
	return out
}
