package props

// Engine E5: lock discipline. For a struct type T with a mutex field and a
// table of fields that mutex guards:
//   pairing    every Lock/RLock taken in a function is released on every exit;
//   guarded-by every access to a guarded field of T happens with T's mutex
//              held — in the function itself or, for a function that accesses
//              them without locking (the repo's "unprotected" convention), at
//              every call site, transitively up to the first function called
//              from outside T's methods (which is then reported);
//   write      a guarded field is written only under the exclusive lock;
//   reentry    a method that takes T's lock is not called on the same object
//              while that lock is held (sync.RWMutex is not reentrant).

import (
	"fmt"
	"go/ast"
	"go/token"
	"go/types"
	"sort"
	"strings"

	"verif/checker/core"
	"verif/checker/flow"

	"golang.org/x/tools/go/packages"
)

type lockSpec struct {
	pkgRel, typ, mutex string
	guarded            map[string]bool
	// setup functions: run before the object is published / after it is
	// retired; accesses there need no lock (one reason each)
	setup map[string]string
	// accessors that are safe without the lock, with reason
	exemptAccess map[string]string
	// mutCallee: a method of another package that stores into its receiver;
	// calling it on a guarded field is a write of that field
	mutCallee func(*types.Func) (string, bool)
}

const (
	lkW   flow.State = 1 << iota // receiver's mutex held exclusively
	lkR                          // receiver's mutex held shared
	lkOth                        // some other object's mutex of the same type is held (by base expression, tracked separately)
)

type lockFinding struct {
	fn   *types.Func
	pos  token.Pos
	msg  string
	kind string // "unlocked", "write-under-rlock", "reentry", "pairing"
}

type lockSummary struct {
	needs     bool      // accesses guarded state of the receiver without holding its lock
	needsW    bool      // ... a write
	needsPos  token.Pos // first such access
	needsWhat string
	takes     bool // acquires the receiver's lock itself
	unsup     string
	findings  []lockFinding
}

type lockAnalysis struct {
	p         *core.Program
	pk        *packages.Package
	info      *types.Info
	spec      lockSpec
	decls     map[*types.Func]*ast.FuncDecl
	memo      map[*types.Func]*lockSummary
	busy      map[*types.Func]bool
	ctorDepth int
}

func newLockAnalysis(p *core.Program, spec lockSpec) *lockAnalysis {
	la := &lockAnalysis{p: p, pk: p.Pkg(spec.pkgRel), spec: spec, decls: map[*types.Func]*ast.FuncDecl{}, memo: map[*types.Func]*lockSummary{}, busy: map[*types.Func]bool{}}
	if la.pk == nil {
		return nil
	}
	la.info = la.pk.TypesInfo
	for _, fd := range core.AllFuncDecls(la.pk) {
		if o, ok := la.info.Defs[fd.Name].(*types.Func); ok && fd.Body != nil {
			la.decls[o] = fd
		}
	}
	return la
}

// isCtor: fn returns *T and builds it with a composite literal.
func (la *lockAnalysis) isCtor(fn *types.Func) bool {
	fd := la.decls[fn]
	if fd == nil {
		return false
	}
	sig := fn.Type().(*types.Signature)
	if sig.Results().Len() == 0 || !la.isT(sig.Results().At(0).Type()) {
		return false
	}
	found := false
	ast.Inspect(fd.Body, func(n ast.Node) bool {
		if cl, ok := n.(*ast.CompositeLit); ok && la.isT(la.info.TypeOf(cl)) {
			found = true
		}
		if c, ok := n.(*ast.CallExpr); ok {
			if cf := core.CalleeOf(la.info, c); cf != nil && cf != fn && la.decls[cf] != nil {
				cs := cf.Type().(*types.Signature)
				if cs.Results().Len() > 0 && la.isT(cs.Results().At(0).Type()) && la.ctorDepth < 3 {
					la.ctorDepth++
					if la.isCtor(cf) {
						found = true
					}
					la.ctorDepth--
				}
			}
		}
		return true
	})
	return found
}

func (la *lockAnalysis) pkgPath() string {
	if la.spec.pkgRel == "" {
		return core.ModPath
	}
	return core.ModPath + "/" + la.spec.pkgRel
}

func (la *lockAnalysis) isT(t types.Type) bool {
	return t != nil && core.IsNamed(t, la.pkgPath(), la.spec.typ)
}

// mutexCall: is call `X.<mutex>.Lock/Unlock/RLock/RUnlock()` with X of type T?
func (la *lockAnalysis) mutexCall(c *ast.CallExpr) (base ast.Expr, op string, ok bool) {
	sel, isSel := ast.Unparen(c.Fun).(*ast.SelectorExpr)
	if !isSel {
		return nil, "", false
	}
	switch sel.Sel.Name {
	case "Lock", "Unlock", "RLock", "RUnlock":
	default:
		return nil, "", false
	}
	msel, isSel := ast.Unparen(sel.X).(*ast.SelectorExpr)
	if !isSel || msel.Sel.Name != la.spec.mutex || !la.isT(la.info.TypeOf(msel.X)) {
		return nil, "", false
	}
	return msel.X, sel.Sel.Name, true
}

func (la *lockAnalysis) summarize(fn *types.Func) *lockSummary {
	if s, ok := la.memo[fn]; ok {
		return s
	}
	if la.busy[fn] {
		return &lockSummary{}
	}
	la.busy[fn] = true
	defer delete(la.busy, fn)
	fd := la.decls[fn]
	sum := &lockSummary{}
	var recvObj types.Object
	if fd.Recv != nil && len(fd.Recv.List) > 0 && len(fd.Recv.List[0].Names) > 0 && la.isT(la.info.TypeOf(fd.Recv.List[0].Type)) {
		recvObj = la.info.Defs[fd.Recv.List[0].Names[0]]
	}
	// functions taking a *T parameter treat the first such parameter like a receiver
	if recvObj == nil {
		for _, fl := range fd.Type.Params.List {
			for _, nm := range fl.Names {
				if recvObj == nil && la.isT(la.info.TypeOf(fl.Type)) {
					recvObj = la.info.Defs[nm]
				}
			}
		}
	}
	isRecv := func(e ast.Expr) bool {
		id, ok := ast.Unparen(e).(*ast.Ident)
		return ok && recvObj != nil && la.info.ObjectOf(id) == recvObj
	}
	// other objects of type T whose mutex is taken in this function: one state bit per base expression
	otherBit := map[string]flow.State{}
	bitOf := func(base ast.Expr) flow.State {
		key := types.ExprString(ast.Unparen(base))
		if b, ok := otherBit[key]; ok {
			return b
		}
		if len(otherBit) >= 16 {
			return 0
		}
		b := flow.State(1) << uint(8+len(otherBit))
		otherBit[key] = b
		return b
	}
	heldOther := func(base ast.Expr, s flow.State) bool {
		b, ok := otherBit[types.ExprString(ast.Unparen(base))]
		return ok && s&b != 0
	}
	// locals bound to a freshly constructed T in this function: not yet
	// reachable by other goroutines, so no lock is needed until published
	fresh := map[types.Object]bool{}
	ast.Inspect(fd.Body, func(n ast.Node) bool {
		as, ok := n.(*ast.AssignStmt)
		if !ok || len(as.Rhs) != 1 {
			return true
		}
		c, ok := ast.Unparen(as.Rhs[0]).(*ast.CallExpr)
		if !ok {
			return true
		}
		if cf := core.CalleeOf(la.info, c); cf != nil && la.isCtor(cf) {
			if id, ok := as.Lhs[0].(*ast.Ident); ok {
				fresh[la.info.ObjectOf(id)] = true
			}
		}
		return true
	})
	seen := map[token.Pos]bool{}
	note := func(kind string, pos token.Pos, msg string) {
		if seen[pos] {
			return
		}
		seen[pos] = true
		sum.findings = append(sum.findings, lockFinding{fn: fn, pos: pos, msg: msg, kind: kind})
	}
	setup := la.spec.setup[core.FuncName(fd)] != ""
	writeWhy := ""
	access := func(base ast.Expr, field string, write bool, pos token.Pos, s flow.State) {
		if setup {
			return
		}
		if isRecv(base) {
			if s&(lkW|lkR) == 0 {
				if !sum.needs {
					sum.needs, sum.needsPos, sum.needsWhat = true, pos, field
				}
				if write {
					if !sum.needsW && writeWhy != "" {
						sum.needsWhat = field + writeWhy
					}
					sum.needsW = true
				}
			} else if write && s&lkW == 0 {
				note("write-under-rlock", pos, "field "+field+" is written while only the read lock is held"+writeWhy)
			}
			return
		}
		if id, ok := ast.Unparen(base).(*ast.Ident); ok && fresh[la.info.ObjectOf(id)] {
			return
		}
		if !heldOther(base, s) {
			note("unlocked", pos, "field "+field+" of "+types.ExprString(base)+" is accessed without holding "+types.ExprString(base)+"."+la.spec.mutex)
		}
	}
	h := flow.Hooks{Info: la.info}
	var visitExpr func(e ast.Node, s flow.State, write bool)
	visitExpr = func(e ast.Node, s flow.State, write bool) {
		ast.Inspect(e, func(n ast.Node) bool {
			switch x := n.(type) {
			case *ast.FuncLit:
				return false
			case *ast.CallExpr:
				return false // handled as its own atom (arguments evaluated before)
			case *ast.SelectorExpr:
				if sl, ok := la.info.Selections[x]; ok && sl.Kind() == types.FieldVal && la.spec.guarded[x.Sel.Name] && la.isT(la.info.TypeOf(x.X)) {
					access(x.X, x.Sel.Name, write, x.Pos(), s)
				}
			}
			return true
		})
	}
	h.Atom = func(n ast.Node, s flow.State) []flow.State {
		switch x := n.(type) {
		case *ast.CallExpr:
			if base, op, ok := la.mutexCall(x); ok {
				if isRecv(base) {
					switch op {
					case "Lock":
						if s&(lkW|lkR) != 0 {
							note("reentry", x.Pos(), "Lock() while this object's lock is already held: self-deadlock")
						}
						sum.takes = true
						return []flow.State{s | lkW}
					case "RLock":
						if s&lkW != 0 {
							note("reentry", x.Pos(), "RLock() while this object's write lock is already held: self-deadlock")
						}
						sum.takes = true
						return []flow.State{s | lkR}
					case "Unlock":
						return []flow.State{s &^ lkW}
					case "RUnlock":
						return []flow.State{s &^ lkR}
					}
				} else {
					b := bitOf(base)
					if op == "Lock" || op == "RLock" {
						if s&b != 0 {
							note("reentry", x.Pos(), op+"() on "+types.ExprString(base)+" while its lock is already held: self-deadlock")
						}
						return []flow.State{s | b}
					}
					return []flow.State{s &^ b}
				}
				return []flow.State{s}
			}
			// receiver of a method call / arguments: reads of guarded fields
			if sel, ok := ast.Unparen(x.Fun).(*ast.SelectorExpr); ok {
				wr := false
				if la.spec.mutCallee != nil {
					if m := core.CalleeOf(la.info, x); m != nil {
						if why, ok := la.spec.mutCallee(m); ok {
							wr, writeWhy = true, " (the call of "+core.FuncKey(m)+" on it "+why+")"
						}
					}
				}
				visitExpr(sel.X, s, wr)
				writeWhy = ""
			}
			for _, a := range x.Args {
				visitExpr(a, s, false)
			}
			// delete(f.guarded, k) / append to guarded: writes
			if bn := core.BuiltinName(la.info, x); bn == "delete" && len(x.Args) > 0 {
				visitExpr(x.Args[0], s, true)
			}
			fn2 := core.CalleeOf(la.info, x)
			if fn2 != nil && la.decls[fn2] != nil {
				// which object does the callee operate on?
				var obj ast.Expr
				sig := fn2.Type().(*types.Signature)
				if sig.Recv() != nil && la.isT(sig.Recv().Type()) {
					if sel, ok := ast.Unparen(x.Fun).(*ast.SelectorExpr); ok {
						obj = sel.X
					}
				} else {
					for i := 0; i < sig.Params().Len() && i < len(x.Args); i++ {
						if obj == nil && la.isT(sig.Params().At(i).Type()) {
							obj = x.Args[i]
						}
					}
				}
				if obj != nil {
					cs := la.summarize(fn2)
					if cs.unsup != "" && sum.unsup == "" {
						sum.unsup = core.FuncName(la.decls[fn2]) + ": " + cs.unsup
					}
					if cs.needs && la.spec.exemptAccess[core.FuncName(la.decls[fn2])] == "" {
						access(obj, cs.needsWhat+" (in "+core.FuncName(la.decls[fn2])+")", cs.needsW, x.Pos(), s)
					}
					if cs.takes && isRecv(obj) && s&(lkW|lkR) != 0 {
						note("reentry", x.Pos(), "calls "+core.FuncName(la.decls[fn2])+", which takes this object's lock, while the lock is already held: self-deadlock (sync.RWMutex is not reentrant)")
					}
					if cs.takes && !isRecv(obj) && heldOther(obj, s) {
						note("reentry", x.Pos(), "calls "+core.FuncName(la.decls[fn2])+", which takes "+types.ExprString(obj)+"."+la.spec.mutex+", while that lock is already held here: self-deadlock (sync.RWMutex is not reentrant)")
					}
				}
			}
			return []flow.State{s}
		case *ast.AssignStmt:
			for _, l := range x.Lhs {
				// writes: X.guarded = ..., X.guarded[k] = ...
				le := ast.Unparen(l)
				if ix, ok := le.(*ast.IndexExpr); ok {
					visitExpr(ix.Index, s, false)
					le = ast.Unparen(ix.X)
				}
				if sel, ok := le.(*ast.SelectorExpr); ok {
					if sl, ok := la.info.Selections[sel]; ok && sl.Kind() == types.FieldVal && la.spec.guarded[sel.Sel.Name] && la.isT(la.info.TypeOf(sel.X)) {
						access(sel.X, sel.Sel.Name, true, sel.Pos(), s)
						continue
					}
				}
				visitExpr(l, s, false)
			}
			for _, rh := range x.Rhs {
				visitExpr(rh, s, false)
			}
			return []flow.State{s}
		case *ast.IncDecStmt:
			visitExpr(x.X, s, true)
			return []flow.State{s}
		case *ast.SendStmt:
			visitExpr(x.Value, s, false)
			return []flow.State{s}
		case *ast.ValueSpec:
			for _, v := range x.Values {
				visitExpr(v, s, false)
			}
			return []flow.State{s}
		case *ast.GoStmt:
			// the goroutine body starts with no lock held
			if fl, ok := ast.Unparen(x.Call.Fun).(*ast.FuncLit); ok {
				la.closure(fl, sum, recvObj, fn)
			}
			return []flow.State{s}
		case *ast.FuncLit:
			// a closure created here runs (if at all) no later than under the current state when called
			// synchronously; analysed with the current state
			return []flow.State{s}
		}
		return []flow.State{s}
	}
	h.Refine = func(cond ast.Expr, taken bool, s flow.State) (flow.State, bool) {
		visitExpr(cond, s, false)
		return s, true
	}
	h.Eval = func(e ast.Expr, s flow.State) { visitExpr(e, s, false) }
	h.PreReturn = func(ret *ast.ReturnStmt, lit *ast.FuncLit, s flow.State) flow.State {
		if ret != nil {
			for _, e := range ret.Results {
				visitExpr(e, s, false)
			}
		}
		return s
	}
	h.Return = func(ret *ast.ReturnStmt, s flow.State) {
		if s&(lkW|lkR) != 0 && sum.takes {
			pos := fd.End()
			if ret != nil {
				pos = ret.Pos()
			}
			note("pairing", pos, "returns with this object's lock still held (a Lock/RLock without a matching unlock on this path)")
		}
	}
	it := flow.Run(h, fd.Body, 0)
	if it.Unsupported != "" && sum.unsup == "" {
		sum.unsup = it.Unsupported
	}
	la.memo[fn] = sum
	return sum
}

// closure analyses a goroutine body: no lock is held at its start.
func (la *lockAnalysis) closure(fl *ast.FuncLit, sum *lockSummary, recvObj types.Object, fn *types.Func) {
	held := false
	ast.Inspect(fl.Body, func(n ast.Node) bool {
		switch x := n.(type) {
		case *ast.CallExpr:
			if _, op, ok := la.mutexCall(x); ok && (op == "Lock" || op == "RLock") {
				held = true
			}
		case *ast.SelectorExpr:
			if sl, ok := la.info.Selections[x]; ok && sl.Kind() == types.FieldVal && la.spec.guarded[x.Sel.Name] && la.isT(la.info.TypeOf(x.X)) && !held {
				sum.findings = append(sum.findings, lockFinding{fn: fn, pos: x.Pos(), kind: "unlocked", msg: "field " + x.Sel.Name + " is accessed in a goroutine body that does not take the lock"})
			}
		}
		return true
	})
}

// report evaluates every function of the package and reports findings at the
// outermost functions.
func (la *lockAnalysis) report(r *core.Report, rule string) (nFuncs int) {
	// callers within the package
	callers := map[*types.Func][]*types.Func{}
	for f, fd := range la.decls {
		ast.Inspect(fd.Body, func(n ast.Node) bool {
			if c, ok := n.(*ast.CallExpr); ok {
				if cal := core.CalleeOf(la.info, c); cal != nil && la.decls[cal] != nil {
					callers[cal] = append(callers[cal], f)
				}
			}
			return true
		})
	}
	var fns []*types.Func
	for f := range la.decls {
		fns = append(fns, f)
	}
	sort.Slice(fns, func(i, j int) bool { return fns[i].Pos() < fns[j].Pos() })
	tname := la.spec.typ
	for _, f := range fns {
		fd := la.decls[f]
		s := la.summarize(f)
		touches := s.needs || s.takes || len(s.findings) > 0
		if !touches {
			continue
		}
		nFuncs++
		name := core.FuncName(fd)
		construct := tname + ": " + name
		if s.unsup != "" {
			r.Undecide(rule, construct, la.p.Pos(fd.Pos()), "control flow outside the modelled idioms: "+s.unsup)
			continue
		}
		bad := false
		for _, fg := range s.findings {
			if why := la.spec.exemptAccess[name]; why != "" && fg.kind == "unlocked" {
				continue
			}
			bad = true
			r.Violate(rule, construct+" ["+fg.kind+"]", la.p.Pos(fg.pos), fg.msg)
		}
		if s.needs {
			// a function that needs the lock is fine if every caller provides it (checked at the call
			// sites through their summaries); it is reported when it is an entry point
			isMethodOfT := fd.Recv != nil && la.isT(la.info.TypeOf(fd.Recv.List[0].Type))
			entry := len(callers[f]) == 0 || (f.Exported() && la.usedOutside(f))
			if why := la.spec.exemptAccess[name]; why != "" {
				r.HoldAt(rule, construct, la.p.Pos(s.needsPos), "exempt: "+why)
				continue
			}
			if why := la.spec.setup[name]; why != "" {
				r.HoldAt(rule, construct, la.p.Pos(fd.Pos()), "setup/teardown: "+why)
				continue
			}
			if entry && isMethodOfT {
				bad = true
				r.Violate(rule, construct+" [unlocked]", la.p.Pos(s.needsPos), fmt.Sprintf("accesses %s without holding %s.%s and has no caller inside the package that could hold it (or is exported): a concurrent writer races with it", s.needsWhat, strings.ToLower(tname[:1]), la.spec.mutex))
			}
		}
		if !bad {
			detail := "locks released on every exit"
			if s.needs {
				detail = "lock-required helper: every caller holds the lock (checked at call sites)"
			}
			r.HoldAt(rule, construct, la.p.Pos(fd.Pos()), detail)
		}
	}
	return nFuncs
}

// usedOutside: is fn referenced from another package of the module?
func (la *lockAnalysis) usedOutside(fn *types.Func) bool {
	for _, q := range la.p.All {
		if q == la.pk {
			continue
		}
		for _, o := range q.TypesInfo.Uses {
			if o == fn {
				return true
			}
		}
	}
	return false
}
