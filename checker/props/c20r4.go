package props

import (
	"go/ast"
	"go/types"
	"sort"
	"strings"

	"verif/checker/core"
)

// c20OwnershipIsAFunction: rule R4. Every node computes owners by itself and
// all nodes must agree, so ownership has to be a function of the membership
// (nodes), the replica count, the partition count and the hasher -- nothing
// a node accumulated along the way. The placement functions therefore read
// only those fields of the cluster (and its mutex) and write none.
func c20OwnershipIsAFunction(p *core.Program, r *core.Report) {
	pk := p.Pkg("")
	if pk == nil {
		return
	}
	info := pk.TypesInfo
	// logger/stats: observers, not inputs of the answer
	allowed := map[string]bool{"nodes": true, "ReplicaN": true, "partitionN": true, "Hasher": true, "mu": true, "logger": true, "Logger": true, "stats": true, "Stats": true}
	placement := map[string]bool{"partition": true, "partitionNodes": true, "shardNodes": true, "ShardNodes": true, "ownsShard": true, "ownsShards": true, "containsShards": true, "primaryFieldTranslationNode": false}
	n := 0
	for _, fd := range core.AllFuncDecls(pk) {
		if fd.Body == nil || core.RecvName(fd) != "cluster" || !placement[fd.Name.Name] || strings.HasSuffix(p.Fset.Position(fd.Pos()).Filename, "_test.go") {
			continue
		}
		n++
		var recv types.Object
		if len(fd.Recv.List[0].Names) > 0 {
			recv = info.Defs[fd.Recv.List[0].Names[0]]
		}
		others := map[string]bool{}
		var writes []string
		ast.Inspect(fd.Body, func(m ast.Node) bool {
			switch x := m.(type) {
			case *ast.SelectorExpr:
				if id, ok := ast.Unparen(x.X).(*ast.Ident); ok && recv != nil && info.ObjectOf(id) == recv {
					if s, ok := info.Selections[x]; ok && s.Kind() == types.FieldVal && !allowed[x.Sel.Name] {
						others[x.Sel.Name] = true
					}
				}
			case *ast.AssignStmt:
				for _, l := range x.Lhs {
					root := ast.Unparen(l)
					for {
						switch y := root.(type) {
						case *ast.SelectorExpr:
							root = ast.Unparen(y.X)
							continue
						case *ast.IndexExpr:
							root = ast.Unparen(y.X)
							continue
						case *ast.StarExpr:
							root = ast.Unparen(y.X)
							continue
						}
						break
					}
					if id, ok := root.(*ast.Ident); ok && recv != nil && info.ObjectOf(id) == recv {
						if _, isID := ast.Unparen(l).(*ast.Ident); !isID {
							writes = append(writes, types.ExprString(l)+" at "+p.Pos(l.Pos()))
						}
					}
				}
			}
			return true
		})
		construct := core.FuncName(fd) + ": ownership is a function of the membership"
		var os []string
		for k := range others {
			os = append(os, k)
		}
		sort.Strings(os)
		switch {
		case len(writes) > 0:
			r.Violate("R4", construct, p.Pos(fd.Pos()), "writes cluster state ("+strings.Join(writes, "; ")+"): an ownership answer that depends on what this node computed before can differ from the answer of a node with the same membership that did not")
		case len(os) > 0:
			r.Violate("R4", construct, p.Pos(fd.Pos()), "reads cluster field(s) "+strings.Join(os, ", ")+" besides nodes, ReplicaN, partitionN and Hasher: ownership then depends on more than the membership, and two nodes with the same member list can disagree about who owns a shard")
		default:
			r.HoldAt("R4", construct, p.Pos(fd.Pos()), "reads only nodes, ReplicaN, partitionN, Hasher (and the mutex); writes nothing")
		}
	}
	r.Floor("C20/R4 placement functions", n, 5)
}
