package props

import (
	"go/ast"
	"go/types"
	"strings"

	"verif/checker/core"
	"verif/checker/flow"
)

// c14EveryPlaneIsWritten: R8. A value is stored as one bit per plane
// (bsiOffsetBit+i); "the answer is the last value written" needs every plane
// of the column to be written on every write, ones set and zeros cleared: the
// planes of a column without a value are not known to be empty (a clearing
// import leaves the cleared value's bits there). In every loop over the
// planes of a fragment writer each iteration that falls through to the next
// plane has called a bit writer, or appended a position to a set/clear list.
func c14EveryPlaneIsWritten(p *core.Program, r *core.Report) {
	pk := p.Pkg("")
	if pk == nil {
		r.Undecide("R8", "package pilosa", "", "not loaded")
		return
	}
	info := pk.TypesInfo
	mentionsPlane := func(n ast.Node) bool {
		found := false
		ast.Inspect(n, func(m ast.Node) bool {
			if id, ok := m.(*ast.Ident); ok {
				if c, ok := info.Uses[id].(*types.Const); ok && c.Name() == "bsiOffsetBit" {
					found = true
				}
			}
			return true
		})
		return found
	}
	isWriter := func(c *ast.CallExpr) bool {
		if core.BuiltinName(info, c) == "append" {
			return true
		}
		fn := core.CalleeOf(info, c)
		if fn == nil || !recvNamed(fn, "fragment") {
			return false
		}
		switch fn.Name() {
		case "unprotectedSetBit", "unprotectedClearBit", "setBit", "clearBit":
			return true
		}
		return false
	}
	n := 0
	for _, fd := range core.AllFuncDecls(pk) {
		if fd.Body == nil || core.RecvName(fd) != "fragment" || strings.HasSuffix(p.Fset.Position(fd.Pos()).Filename, "_test.go") {
			continue
		}
		ast.Inspect(fd.Body, func(m ast.Node) bool {
			fs, ok := m.(*ast.ForStmt)
			if !ok || !mentionsPlane(fs.Body) {
				return true
			}
			// a writer loop: the body contains a writer call at all
			writes := false
			ast.Inspect(fs.Body, func(k ast.Node) bool {
				if c, ok := k.(*ast.CallExpr); ok && isWriter(c) {
					writes = true
				}
				return true
			})
			if !writes {
				return true
			}
			n++
			const bWrote flow.State = 1
			var bad []string
			h := flow.Hooks{Info: info}
			h.Atom = func(nd ast.Node, s flow.State) []flow.State {
				if c, ok := nd.(*ast.CallExpr); ok && isWriter(c) {
					s |= bWrote
				}
				return []flow.State{s}
			}
			h.Return = func(ret *ast.ReturnStmt, s flow.State) {
				// explicit returns with results leave the function (error exits);
				// a bare return is a rewritten `continue`, nil is the end of the body
				if ret != nil && len(ret.Results) > 0 {
					return
				}
				if s&bWrote == 0 {
					at := p.Pos(fs.Body.End())
					if ret != nil {
						at = p.Pos(ret.Pos())
					}
					bad = append(bad, at)
				}
			}
			it := flow.Run(h, c13IterationBody(fs.Body), 0)
			construct := core.FuncName(fd) + ": every plane of the value is written"
			switch {
			case it.Unsupported != "":
				r.Undecide("R8", construct, p.Pos(fs.Pos()), it.Unsupported)
			case len(bad) > 0:
				r.Violate("R8", construct, p.Pos(fs.Pos()), "an iteration of the loop over the value's planes reaches the next plane (at "+strings.Join(dedupe(bad), ", ")+") without setting or clearing this plane's bit: a plane that still holds a bit of an earlier value (a cleared value keeps its planes) is not overwritten, and the column reads back old|new")
			default:
				r.HoldAt("R8", construct, p.Pos(fs.Pos()), "each plane is set or cleared (or queued for it) on every path of an iteration")
			}
			return true
		})
	}
	r.Floor("C14/R8 plane-writing loops", n, 2)
}
