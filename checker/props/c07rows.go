package props

// C07-R5: the "affected rows" set handed to a position importer covers the
// rows of every position written.

import (
	"fmt"
	"go/ast"
	"go/constant"
	"go/token"
	"go/types"
	"strings"

	"verif/checker/core"
)

// aff is a*N + b over one symbol N >= 0.
type aff struct {
	a, b int64
	ok   bool
}

func (x aff) String() string {
	switch {
	case !x.ok:
		return "?"
	case x.a == 0:
		return fmt.Sprint(x.b)
	case x.b == 0:
		return fmt.Sprintf("%d*N", x.a)
	}
	return fmt.Sprintf("%d*N%+d", x.a, x.b)
}

func affLE(x, y aff) bool { return x.ok && y.ok && x.a <= y.a && x.b <= y.b }

type affEnv struct {
	info *types.Info
	sym  types.Object            // the symbol N
	vars map[types.Object][2]aff // loop variables: inclusive interval
}

// eval returns the inclusive interval of e.
func (e *affEnv) eval(x ast.Expr) (lo, hi aff) {
	if tv, ok := e.info.Types[x]; ok && tv.Value != nil && tv.Value.Kind() == constant.Int {
		v, _ := constant.Int64Val(tv.Value)
		return aff{0, v, true}, aff{0, v, true}
	}
	switch y := ast.Unparen(x).(type) {
	case *ast.Ident:
		o := e.info.ObjectOf(y)
		if o == e.sym && o != nil {
			return aff{1, 0, true}, aff{1, 0, true}
		}
		if iv, ok := e.vars[o]; ok {
			return iv[0], iv[1]
		}
	case *ast.CallExpr:
		if tv, ok := e.info.Types[y.Fun]; ok && tv.IsType() && len(y.Args) == 1 {
			return e.eval(y.Args[0])
		}
	case *ast.BinaryExpr:
		if y.Op == token.ADD {
			l1, h1 := e.eval(y.X)
			l2, h2 := e.eval(y.Y)
			if l1.ok && l2.ok && h1.ok && h2.ok {
				return aff{l1.a + l2.a, l1.b + l2.b, true}, aff{h1.a + h2.a, h1.b + h2.b, true}
			}
		}
	}
	return aff{}, aff{}
}

// loopVars records `for i := lo; i < hi; i++` variables of fd as intervals.
func (e *affEnv) loopVars(body ast.Node) {
	ast.Inspect(body, func(n ast.Node) bool {
		fs, ok := n.(*ast.ForStmt)
		if !ok || fs.Init == nil || fs.Cond == nil {
			return true
		}
		as, ok := fs.Init.(*ast.AssignStmt)
		if !ok || len(as.Lhs) != 1 || len(as.Rhs) != 1 {
			return true
		}
		id, ok := as.Lhs[0].(*ast.Ident)
		if !ok {
			return true
		}
		be, ok := ast.Unparen(fs.Cond).(*ast.BinaryExpr)
		if !ok || (be.Op != token.LSS && be.Op != token.LEQ) {
			return true
		}
		if cid, ok := ast.Unparen(be.X).(*ast.Ident); !ok || e.info.ObjectOf(cid) != e.info.ObjectOf(id) {
			return true
		}
		lo, _ := e.eval(as.Rhs[0])
		_, hi := e.eval(be.Y)
		if be.Op == token.LSS && hi.ok {
			hi.b--
		}
		if lo.ok && hi.ok {
			e.vars[e.info.ObjectOf(id)] = [2]aff{lo, hi}
		}
		return true
	})
}

func c07Rows(p *core.Program, r *core.Report, b *fxBase) {
	info := b.info
	isRowSet := func(t types.Type) bool {
		m, ok := t.Underlying().(*types.Map)
		if !ok {
			return false
		}
		k, ok := m.Key().Underlying().(*types.Basic)
		if !ok || k.Kind() != types.Uint64 {
			return false
		}
		st, ok := m.Elem().Underlying().(*types.Struct)
		return ok && st.NumFields() == 0
	}
	// consumers: fragment functions with a row-set parameter
	consumers := map[*types.Func]int{}
	for fn := range b.decls {
		sig := fn.Type().(*types.Signature)
		if !b.internal[fn] {
			continue
		}
		for i := 0; i < sig.Params().Len(); i++ {
			if isRowSet(sig.Params().At(i).Type()) {
				consumers[fn] = i
			}
		}
	}
	r.Floor("C07/R5 fragment functions taking an affected-row set", len(consumers), 1)
	posFn := func(c *ast.CallExpr) bool {
		fn := core.CalleeOf(info, c)
		return fn != nil && fn.Name() == "pos" && recvNamed(fn, "fragment") && len(c.Args) == 2
	}
	nSites := 0
	for caller, fd := range b.decls {
		// calls to a consumer with a local map
		var sets []types.Object
		ast.Inspect(fd.Body, func(n ast.Node) bool {
			c, ok := n.(*ast.CallExpr)
			if !ok {
				return true
			}
			fn := core.CalleeOf(info, c)
			idx, isC := consumers[fn]
			if !isC || idx >= len(c.Args) {
				return true
			}
			if id, ok := ast.Unparen(c.Args[idx]).(*ast.Ident); ok {
				if o := info.ObjectOf(id); o != nil {
					if _, isParam := consumers[caller]; isParam && b.paramIndex(caller, o) >= 0 {
						return true // forwards its own parameter
					}
					sets = append(sets, o)
				}
			}
			return true
		})
		if len(sets) == 0 {
			continue
		}
		setObj := sets[0]
		// keys inserted into the set
		keyIdents := map[types.Object]bool{}
		var keyExprs []ast.Expr
		ast.Inspect(fd.Body, func(n ast.Node) bool {
			as, ok := n.(*ast.AssignStmt)
			if !ok {
				return true
			}
			for _, l := range as.Lhs {
				ix, ok := ast.Unparen(l).(*ast.IndexExpr)
				if !ok {
					continue
				}
				if id, ok := ast.Unparen(ix.X).(*ast.Ident); !ok || info.ObjectOf(id) != setObj {
					continue
				}
				keyExprs = append(keyExprs, ix.Index)
				k := ast.Unparen(ix.Index)
				if c, ok := k.(*ast.CallExpr); ok && len(c.Args) == 1 {
					if tv, ok := info.Types[c.Fun]; ok && tv.IsType() {
						k = ast.Unparen(c.Args[0])
					}
				}
				if id, ok := k.(*ast.Ident); ok {
					keyIdents[info.ObjectOf(id)] = true
				}
			}
			return true
		})
		// (a) direct position computations in the caller
		ast.Inspect(fd.Body, func(n ast.Node) bool {
			c, ok := n.(*ast.CallExpr)
			if !ok || !posFn(c) {
				return true
			}
			nSites++
			construct := b.fname(caller) + ": pos(" + types.ExprString(c.Args[0]) + ", _)"
			rowArg := ast.Unparen(c.Args[0])
			id, ok := rowArg.(*ast.Ident)
			if !ok {
				r.Undecide("R5", construct, p.Pos(c.Pos()), "row argument is not a plain variable; cannot be matched against the affected-row set")
				return true
			}
			r.Check(keyIdents[info.ObjectOf(id)], "R5", construct, p.Pos(c.Pos()), "row "+id.Name+" is inserted into the affected-row set", "a position in row `"+id.Name+"` is written but that row is never inserted into the affected-row set `"+setObj.Name()+"`: its cached row, count and block checksum stay stale")
			return true
		})
		// (b) positions produced by a callee that computes rows itself
		ast.Inspect(fd.Body, func(n ast.Node) bool {
			c, ok := n.(*ast.CallExpr)
			if !ok {
				return true
			}
			g := core.CalleeOf(info, c)
			gd := b.decls[g]
			if gd == nil || g == caller || consumers[g] != 0 && isConsumer(consumers, g) {
				return true
			}
			// does g call pos with rows not taken from its parameters?
			var rows []ast.Expr
			ast.Inspect(gd.Body, func(m ast.Node) bool {
				if pc, ok := m.(*ast.CallExpr); ok && posFn(pc) {
					rows = append(rows, pc.Args[0])
				}
				return true
			})
			if len(rows) == 0 || g.Name() == "pos" {
				return true
			}
			// symbol: the callee's unsigned integer parameter that bounds its loops, matched to the caller's argument
			gsig := g.Type().(*types.Signature)
			for pi := 0; pi < gsig.Params().Len() && pi < len(c.Args); pi++ {
				gp := gsig.Params().At(pi)
				bt, ok := gp.Type().Underlying().(*types.Basic)
				if !ok || bt.Info()&types.IsUnsigned == 0 || bt.Kind() == types.Uint64 {
					continue
				}
				argID, ok := ast.Unparen(c.Args[pi]).(*ast.Ident)
				if !ok {
					continue
				}
				genv := &affEnv{info: info, sym: gp, vars: map[types.Object][2]aff{}}
				genv.loopVars(gd.Body)
				fenv := &affEnv{info: info, sym: info.ObjectOf(argID), vars: map[types.Object][2]aff{}}
				fenv.loopVars(fd.Body)
				// key interval: union must be one interval; take min lo / max hi
				var klo, khi aff
				for i, k := range keyExprs {
					lo, hi := fenv.eval(k)
					if !lo.ok || !hi.ok {
						klo.ok = false
						break
					}
					if i == 0 || affLE(lo, klo) {
						klo = lo
					}
					if i == 0 || affLE(khi, hi) {
						khi = hi
					}
				}
				construct := b.fname(caller) + ": rows written by " + b.fname(g)
				nSites++
				if !klo.ok || !khi.ok || len(keyExprs) == 0 {
					r.Undecide("R5", construct, p.Pos(c.Pos()), "the affected-row set's keys are not an affine range of "+argID.Name)
					return true
				}
				bad := ""
				for _, re := range rows {
					lo, hi := genv.eval(re)
					if !lo.ok || !hi.ok {
						bad = "row expression `" + types.ExprString(re) + "` in " + b.fname(g) + " is not affine in " + gp.Name()
						r.Undecide("R5", construct, p.Pos(re.Pos()), bad)
						return true
					}
					if !affLE(klo, lo) || !affLE(hi, khi) {
						bad = fmt.Sprintf("%s writes rows [%s, %s] (N = %s) but the affected-row set built here covers only [%s, %s]: the rows outside it are never invalidated", b.fname(g), lo, hi, gp.Name(), klo, khi)
						break
					}
				}
				if bad != "" {
					r.Violate("R5", construct, p.Pos(c.Pos()), bad)
				} else {
					r.HoldAt("R5", construct, p.Pos(c.Pos()), fmt.Sprintf("rows written are within the set's range [%s, %s]", klo, khi))
				}
				return true
			}
			return true
		})
	}
	r.Floor("C07/R5 position computations matched against an affected-row set", nSites, 4)
	_ = strings.TrimSpace
}

func isConsumer(m map[*types.Func]int, f *types.Func) bool { _, ok := m[f]; return ok }

// paramIndex returns the index of o among fn's parameters, or -1.
func (b *fxBase) paramIndex(fn *types.Func, o types.Object) int {
	sig := fn.Type().(*types.Signature)
	for i := 0; i < sig.Params().Len(); i++ {
		if sig.Params().At(i) == o {
			return i
		}
	}
	return -1
}
