package props

import (
	"fmt"
	"go/ast"
	"go/token"
	"go/types"
	"sort"
	"strings"

	"golang.org/x/tools/go/packages"

	"verif/checker/core"
)

// Payload alias/effect analysis for one package (used for roaring): a small
// inclusion-based points-to analysis with per-function summaries.
//
// Abstract locations inside a function:
//   - Param(i):      the memory parameter i (0 = receiver) points to
//   - ParamDeep(i):  everything reachable from Param(i) through further
//     pointers (collapsed)
//   - Input:         memory obtained by reinterpreting a []byte through
//     unsafe.Pointer(&b[i]) -- the bytes handed to a decoder
//   - Local(v):      the storage of local variable v
//   - Alloc(node):   an object allocated (or returned fresh by a callee) at node
//
// Per function, to a package-wide fixpoint:
//   - writes: locations (Param/ParamDeep/Input) the function may store to,
//     directly or through callees, with one witness each;
//   - links:  dst <- src: it may store a pointer to src into dst;
//   - rets:   what its pointer-like results may point to; a "boxed" entry is
//     a fresh object that holds a pointer to the entry.
//
// Flow-insensitive inside a function, field-insensitive for objects, static
// callees plus in-package implementations of in-package interface methods.
// Function literals are analysed as part of their enclosing declaration;
// calls of function values are not followed.

type plKind uint8

const (
	plParam plKind = iota + 1
	plParamDeep
	plInput
	plLocal
	plAlloc
)

type plLoc struct {
	kind plKind
	idx  int
	key  interface{} // types.Object for plLocal, ast.Node (+tag) for plAlloc
	tag  int
	// fld narrows the location to one struct field of the object; nil is the
	// whole object / an unknown field / an element.
	fld types.Object
}

func (l plLoc) base() plLoc { l.fld = nil; return l }

type plSet map[plLoc]bool

func (s plSet) addAll(o plSet) bool {
	ch := false
	for k := range o {
		if !s[k] {
			s[k] = true
			ch = true
		}
	}
	return ch
}

// plSum is a location as seen in a function summary.
type plSum struct {
	kind  plKind // plParam, plParamDeep, plInput
	idx   int
	boxed bool
	// fld: for a Param link destination the field stored to; for ParamDeep
	// the field of the parameter's object through which the memory is reached
	// (nil: any field).
	fld types.Object
	// pay (writes only): the memory written holds no pointers (slice elements
	// of scalars, interval16 values, ...); only such writes can land in
	// decoder input. Object writes change structs that contain pointers.
	pay bool
}

type plWitness struct {
	pos  token.Pos
	what string
}

type plLink struct{ dst, src plSum }

type plFunc struct {
	decl     *ast.FuncDecl
	obj      *types.Func
	params   map[types.Object]int
	paramTyp map[int]types.Type
	// plainParam: the parameter points to pointer-free memory ([]byte, *uint16)
	plainParam map[int]bool
	contents map[plLoc]plSet
	writes   map[plSum]plWitness
	links    map[plLink]bool
	rets     map[plSum]bool
	sawInput bool
	named    []types.Object
	// idiom: copies recognised as the redirect-then-copy idiom (see
	// redirectIdiom) and therefore not counted as writes of the old payload
	idiom []token.Pos
}

type plAnalysis struct {
	pk      *packages.Package
	info    *types.Info
	funcs   []*plFunc
	byObj   map[*types.Func]*plFunc
	impls   map[string][]*plFunc
	changed bool
	// sites: every direct payload-class store (not through a callee) that may
	// land in memory reachable from a parameter, keyed by position
	sites map[token.Pos]*plSite
}

type plSite struct {
	f    *plFunc
	pos  token.Pos
	what string
	sums map[plSum]bool
}

var plInputLoc = plLoc{kind: plInput}

func plPointerLike(t types.Type) bool { return plPointerLikeDepth(t, 0) }

func plPointerLikeDepth(t types.Type, d int) bool {
	if t == nil || d > 4 {
		return false
	}
	switch u := t.Underlying().(type) {
	case *types.Pointer, *types.Slice, *types.Map, *types.Chan, *types.Signature:
		return true
	case *types.Interface:
		if types.Identical(t, types.Universe.Lookup("error").Type()) {
			return false
		}
		return true
	case *types.Basic:
		return u.Kind() == types.UnsafePointer || u.Kind() == types.Uintptr
	case *types.Struct:
		for i := 0; i < u.NumFields(); i++ {
			if plPointerLikeDepth(u.Field(i).Type(), d+1) {
				return true
			}
		}
	case *types.Array:
		return plPointerLikeDepth(u.Elem(), d+1)
	case *types.Tuple:
		for i := 0; i < u.Len(); i++ {
			if plPointerLikeDepth(u.At(i).Type(), d+1) {
				return true
			}
		}
	}
	return false
}

func newPayloadAnalysis(pk *packages.Package) *plAnalysis {
	a := &plAnalysis{pk: pk, info: pk.TypesInfo, byObj: map[*types.Func]*plFunc{}, impls: map[string][]*plFunc{}, sites: map[token.Pos]*plSite{}}
	for _, fd := range core.AllFuncDecls(pk) {
		obj, _ := a.info.Defs[fd.Name].(*types.Func)
		if obj == nil || fd.Body == nil {
			continue
		}
		if strings.HasSuffix(pk.Fset.Position(fd.Pos()).Filename, "_test.go") {
			continue
		}
		f := &plFunc{decl: fd, obj: obj, params: map[types.Object]int{}, paramTyp: map[int]types.Type{}, plainParam: map[int]bool{}, contents: map[plLoc]plSet{}, writes: map[plSum]plWitness{}, links: map[plLink]bool{}, rets: map[plSum]bool{}}
		bind := func(nm *ast.Ident, i int) {
			o := a.info.Defs[nm]
			if o == nil {
				return
			}
			f.params[o] = i
			f.paramTyp[i] = o.Type()
		switch u := o.Type().Underlying().(type) {
		case *types.Slice:
			f.plainParam[i] = !plPointerLike(u.Elem())
		case *types.Pointer:
			f.plainParam[i] = !plPointerLike(u.Elem())
		}
			if plPointerLike(o.Type()) {
				f.contents[plLoc{kind: plLocal, key: o}] = plSet{plLoc{kind: plParam, idx: i}: true}
			}
		}
		if fd.Recv != nil && len(fd.Recv.List) > 0 && len(fd.Recv.List[0].Names) > 0 {
			bind(fd.Recv.List[0].Names[0], 0)
		}
		i := 1
		for _, fld := range fd.Type.Params.List {
			if len(fld.Names) == 0 {
				i++
				continue
			}
			for _, nm := range fld.Names {
				bind(nm, i)
				i++
			}
		}
		if fd.Type.Results != nil {
			for _, fld := range fd.Type.Results.List {
				for _, nm := range fld.Names {
					if o := a.info.Defs[nm]; o != nil {
						f.named = append(f.named, o)
					}
				}
			}
		}
		a.funcs = append(a.funcs, f)
		a.byObj[obj] = f
		if fd.Recv != nil {
			a.impls[fd.Name.Name] = append(a.impls[fd.Name.Name], f)
		}
	}
	for iter := 0; iter < 60; iter++ {
		a.changed = false
		for _, f := range a.funcs {
			a.scan(f)
		}
		if !a.changed {
			break
		}
	}
	return a
}

func (a *plAnalysis) callees(call *ast.CallExpr) []*plFunc {
	fn := core.CalleeOf(a.info, call)
	if fn == nil {
		return nil
	}
	if f := a.byObj[fn]; f != nil {
		return []*plFunc{f}
	}
	if sig, ok := fn.Type().(*types.Signature); ok && sig.Recv() != nil && fn.Pkg() == a.pk.Types {
		if _, isIface := sig.Recv().Type().Underlying().(*types.Interface); isIface {
			var out []*plFunc
			for _, f := range a.impls[fn.Name()] {
				if fs, ok := f.obj.Type().(*types.Signature); ok && fs.Params().Len() == sig.Params().Len() && fs.Results().Len() == sig.Results().Len() {
					out = append(out, f)
				}
			}
			return out
		}
	}
	return nil
}

func plActual(call *ast.CallExpr, i int) ast.Expr {
	if i == 0 {
		if sel, ok := ast.Unparen(call.Fun).(*ast.SelectorExpr); ok {
			return sel.X
		}
		return nil
	}
	if i-1 < len(call.Args) {
		return call.Args[i-1]
	}
	return nil
}

// contentsOf: what pointers stored in location l may point to. A field
// location also sees what was stored into the object as a whole (unknown
// field); a whole-object location sees every field.
func (a *plAnalysis) contentsOf(f *plFunc, l plLoc) plSet {
	out := plSet{}
	switch l.kind {
	case plParam:
		out[plLoc{kind: plParamDeep, idx: l.idx, fld: l.fld}] = true
		return out
	case plParamDeep:
		out[l] = true
		return out
	case plInput:
		return out
	}
	out.addAll(f.contents[l])
	if l.fld != nil {
		out.addAll(f.contents[l.base()])
	} else {
		for k, v := range f.contents {
			if k.fld != nil && k.base() == l {
				out.addAll(v)
			}
		}
	}
	return out
}

func (a *plAnalysis) load(f *plFunc, ls plSet) plSet {
	out := plSet{}
	for l := range ls {
		out.addAll(a.contentsOf(f, l))
	}
	return out
}

// closure: everything reachable from ls by one or more loads.
func (a *plAnalysis) closure(f *plFunc, ls plSet) plSet {
	out := plSet{}
	work := []plLoc{}
	for l := range ls {
		work = append(work, l)
	}
	seen := plSet{}
	for len(work) > 0 {
		l := work[len(work)-1]
		work = work[:len(work)-1]
		if seen[l] {
			continue
		}
		seen[l] = true
		for c := range a.contentsOf(f, l) {
			if !out[c] {
				out[c] = true
				work = append(work, c)
			}
		}
	}
	return out
}

func (a *plAnalysis) addContents(f *plFunc, l plLoc, vs plSet) {
	// Pointers stored into objects that exist outside the function (Param,
	// ParamDeep) are summarised as links only: what long-lived objects hold is
	// protected by the mapped/frozen flags at run time, not by this analysis.
	if len(vs) == 0 || l.kind == plInput || l.kind == plParam || l.kind == plParamDeep {
		return
	}
	if f.contents[l] == nil {
		f.contents[l] = plSet{}
	}
	if f.contents[l].addAll(vs) {
		a.changed = true
	}
}

func (a *plAnalysis) isInputCast(call *ast.CallExpr) bool {
	if len(call.Args) != 1 {
		return false
	}
	tv, ok := a.info.Types[call.Fun]
	if !ok || !tv.IsType() {
		return false
	}
	if b, ok := tv.Type.Underlying().(*types.Basic); !ok || b.Kind() != types.UnsafePointer {
		return false
	}
	ue, ok := ast.Unparen(call.Args[0]).(*ast.UnaryExpr)
	if !ok || ue.Op != token.AND {
		return false
	}
	ix, ok := ast.Unparen(ue.X).(*ast.IndexExpr)
	if !ok {
		return false
	}
	if sl, ok := a.info.TypeOf(ix.X).Underlying().(*types.Slice); ok {
		if b, ok := sl.Elem().Underlying().(*types.Basic); ok && b.Kind() == types.Uint8 {
			return true
		}
	}
	return false
}

func (a *plAnalysis) isLocalVar(f *plFunc, o types.Object) bool {
	v, ok := o.(*types.Var)
	if !ok {
		return false
	}
	return v.Parent() != a.pk.Types.Scope() && v.Pkg() == a.pk.Types
}

// eval: the locations the value of e may point to.
func (a *plAnalysis) eval(f *plFunc, e ast.Expr) plSet {
	out := plSet{}
	if e == nil {
		return out
	}
	t := a.info.TypeOf(e)
	switch x := ast.Unparen(e).(type) {
	case *ast.Ident:
		o := a.info.ObjectOf(x)
		if o != nil && a.isLocalVar(f, o) {
			out.addAll(f.contents[plLoc{kind: plLocal, key: o}])
		}
	case *ast.StarExpr:
		if plPointerLike(t) {
			out.addAll(a.load(f, a.eval(f, x.X)))
		}
	case *ast.UnaryExpr:
		if x.Op == token.AND {
			out.addAll(a.addr(f, x.X))
		}
	case *ast.IndexExpr:
		if plPointerLike(t) {
			out.addAll(a.load(f, a.addr(f, x)))
		}
	case *ast.SliceExpr:
		if _, isArr := a.info.TypeOf(x.X).Underlying().(*types.Array); isArr {
			out.addAll(a.addr(f, x.X))
		} else {
			out.addAll(a.eval(f, x.X))
		}
	case *ast.SelectorExpr:
		if sel := a.info.Selections[x]; sel != nil && sel.Kind() == types.FieldVal {
			if plPointerLike(t) {
				out.addAll(a.load(f, a.addr(f, x)))
			}
		}
	case *ast.TypeAssertExpr:
		out.addAll(a.eval(f, x.X))
	case *ast.CompositeLit:
		switch t.Underlying().(type) {
		case *types.Slice, *types.Map:
			al := plLoc{kind: plAlloc, key: ast.Node(x)}
			a.addContents(f, al, a.elts(f, x))
			out[al] = true
		default:
			out.addAll(a.elts(f, x))
		}
	case *ast.BinaryExpr:
		if b, ok := t.Underlying().(*types.Basic); ok && (b.Kind() == types.Uintptr || b.Kind() == types.UnsafePointer) {
			out.addAll(a.eval(f, x.X))
			out.addAll(a.eval(f, x.Y))
		}
	case *ast.CallExpr:
		if tv, ok := a.info.Types[x.Fun]; ok && tv.IsType() {
			if len(x.Args) == 1 {
				out.addAll(a.eval(f, x.Args[0]))
			}
			if a.isInputCast(x) {
				out[plInputLoc] = true
			}
			break
		}
		switch core.BuiltinName(a.info, x) {
		case "new", "make":
			out[plLoc{kind: plAlloc, key: ast.Node(x)}] = true
		case "append":
			if len(x.Args) > 0 {
				al := plLoc{kind: plAlloc, key: ast.Node(x)}
				out.addAll(a.eval(f, x.Args[0]))
				out[al] = true
				if sl, ok := t.Underlying().(*types.Slice); ok && plPointerLike(sl.Elem()) {
					vs := plSet{}
					for i, arg := range x.Args[1:] {
						if x.Ellipsis.IsValid() && i == len(x.Args)-2 {
							vs.addAll(a.load(f, a.eval(f, arg)))
						} else {
							vs.addAll(a.eval(f, arg))
						}
					}
					for l := range out {
						a.addContents(f, l, vs)
					}
				}
			}
		case "":
			if t != nil && plPointerLike(t) {
				gs := a.callees(x)
				for _, g := range gs {
					for s := range g.rets {
						out.addAll(a.translate(f, g, x, s))
					}
				}
				out[plLoc{kind: plAlloc, key: ast.Node(x)}] = true
			}
		}
	}
	// pointer-free memory (decoder input, the backing array of a []byte
	// parameter) holds no pointer-bearing objects: a pointer to such an object
	// (or an interface, map, channel, function) cannot point into it
	if t != nil {
		objPtr := false
		switch u := t.Underlying().(type) {
		case *types.Pointer:
			objPtr = plPointerLike(u.Elem())
		case *types.Slice:
			objPtr = plPointerLike(u.Elem())
		case *types.Interface, *types.Map, *types.Chan, *types.Signature:
			objPtr = true
		}
		if objPtr {
			for l := range out {
				if l.kind == plInput || (l.kind == plParam && f.plainParam[l.idx]) {
					delete(out, l)
				}
			}
		}
	}
	if out[plInputLoc] {
		f.sawInput = true
	}
	return out
}

func (a *plAnalysis) elts(f *plFunc, x *ast.CompositeLit) plSet {
	out := plSet{}
	for _, el := range x.Elts {
		if kv, ok := el.(*ast.KeyValueExpr); ok {
			out.addAll(a.eval(f, kv.Value))
			if _, isMap := a.info.TypeOf(x).Underlying().(*types.Map); isMap {
				out.addAll(a.eval(f, kv.Key))
			}
		} else {
			out.addAll(a.eval(f, el))
		}
	}
	return out
}

// addr: the locations in which the lvalue e is stored.
func (a *plAnalysis) addr(f *plFunc, e ast.Expr) plSet {
	out := plSet{}
	switch x := ast.Unparen(e).(type) {
	case *ast.Ident:
		o := a.info.ObjectOf(x)
		if o != nil && a.isLocalVar(f, o) {
			out[plLoc{kind: plLocal, key: o}] = true
		}
	case *ast.SelectorExpr:
		if sel := a.info.Selections[x]; sel != nil && sel.Kind() == types.FieldVal {
			var bs plSet
			if _, isPtr := a.info.TypeOf(x.X).Underlying().(*types.Pointer); isPtr {
				bs = a.eval(f, x.X)
			} else {
				bs = a.addr(f, x.X)
			}
			for b := range bs {
				if b.kind == plParam || b.kind == plLocal || b.kind == plAlloc {
					b.fld = sel.Obj()
				}
				out[b] = true
			}
		}
	case *ast.IndexExpr:
		xt := a.info.TypeOf(x.X)
		if xt == nil {
			return out
		}
		switch xt.Underlying().(type) {
		case *types.Array:
			out.addAll(a.addr(f, x.X))
		case *types.Slice, *types.Pointer, *types.Map:
			out.addAll(a.eval(f, x.X))
		}
	case *ast.StarExpr:
		out.addAll(a.eval(f, x.X))
	case *ast.CompositeLit:
		al := plLoc{kind: plAlloc, key: ast.Node(x)}
		a.addContents(f, al, a.elts(f, x))
		out[al] = true
	case *ast.CallExpr, *ast.TypeAssertExpr:
		// a value without an address of its own: a temporary
		al := plLoc{kind: plAlloc, key: ast.Node(x), tag: 1}
		a.addContents(f, al, a.eval(f, x))
		out[al] = true
	}
	if out[plInputLoc] {
		f.sawInput = true
	}
	return out
}

// translate maps a summary location of callee g to locations of caller f.
func (a *plAnalysis) translate(f *plFunc, g *plFunc, call *ast.CallExpr, s plSum) plSet {
	base := plSet{}
	switch s.kind {
	case plInput:
		base[plInputLoc] = true
	case plParam, plParamDeep:
		arg := plActual(call, s.idx)
		if arg == nil {
			break
		}
		var pts plSet
		// pointer receiver called on an addressable value: &arg is passed
		_, wantPtr := g.paramTyp[s.idx].Underlying().(*types.Pointer)
		_, havePtr := a.info.TypeOf(arg).Underlying().(*types.Pointer)
		if s.idx == 0 && wantPtr && !havePtr {
			pts = a.addr(f, arg)
		} else {
			pts = a.eval(f, arg)
		}
		if s.kind == plParam {
			for b := range pts {
				if s.fld != nil && (b.kind == plParam || b.kind == plLocal || b.kind == plAlloc) {
					b.fld = s.fld
				}
				base[b] = true
			}
		} else if s.fld == nil {
			base = a.closure(f, pts)
		} else {
			cells := plSet{}
			for b := range pts {
				if b.kind == plParam || b.kind == plLocal || b.kind == plAlloc {
					b.fld = s.fld
				}
				cells[b] = true
			}
			start := a.load(f, cells)
			base.addAll(start)
			base.addAll(a.closure(f, start))
		}
	}
	if !s.boxed {
		return base
	}
	al := plLoc{kind: plAlloc, key: ast.Node(call), tag: 2}
	a.addContents(f, al, base)
	return plSet{al: true}
}

// toSum converts caller-side locations to summary form; local objects are
// replaced by boxed versions of what they reach.
func (a *plAnalysis) toSum(f *plFunc, ls plSet) map[plSum]bool {
	out := map[plSum]bool{}
	for l := range ls {
		switch l.kind {
		case plParam, plInput:
			out[plSum{kind: l.kind, idx: l.idx}] = true
		case plParamDeep:
			out[plSum{kind: l.kind, idx: l.idx, fld: l.fld}] = true
		default:
			for c := range a.closure(f, plSet{l.base(): true}) {
				switch c.kind {
				case plParam, plInput:
					out[plSum{kind: c.kind, idx: c.idx, boxed: true}] = true
				case plParamDeep:
					out[plSum{kind: c.kind, idx: c.idx, fld: c.fld, boxed: true}] = true
				}
			}
		}
	}
	return out
}

func (a *plAnalysis) noteWrite(f *plFunc, ls plSet, pay bool, pos token.Pos, what string) {
	for l := range ls {
		var s plSum
		switch l.kind {
		case plParam:
			s = plSum{kind: l.kind, idx: l.idx, pay: pay}
		case plParamDeep:
			s = plSum{kind: l.kind, idx: l.idx, fld: l.fld, pay: pay}
		case plInput:
			if !pay {
				continue // input bytes never hold pointer-bearing structs
			}
			s = plSum{kind: l.kind, pay: true}
		default:
			continue
		}
		if _, ok := f.writes[s]; !ok {
			f.writes[s] = plWitness{pos, what}
			a.changed = true
		}
		if pay && !strings.HasPrefix(what, "call of") {
			st := a.sites[pos]
			if st == nil {
				st = &plSite{f: f, pos: pos, what: what, sums: map[plSum]bool{}}
				a.sites[pos] = st
			}
			st.sums[s] = true
		}
	}
}

// storeClass: does a store to lhs write pointer-free memory (payload) or a
// pointer-bearing object? Decided by the type of the memory reached at the
// first dereference (explicit, implicit, or slice index) of the lvalue.
func (a *plAnalysis) storeClass(lhs ast.Expr) bool {
	e := ast.Unparen(lhs)
	for {
		switch x := e.(type) {
		case *ast.SelectorExpr:
			if pt, ok := a.info.TypeOf(x.X).Underlying().(*types.Pointer); ok {
				return !plPointerLike(pt.Elem())
			}
			e = ast.Unparen(x.X)
		case *ast.IndexExpr:
			switch u := a.info.TypeOf(x.X).Underlying().(type) {
			case *types.Slice:
				return !plPointerLike(u.Elem())
			case *types.Pointer:
				return !plPointerLike(u.Elem())
			case *types.Array:
				e = ast.Unparen(x.X)
			default:
				return false
			}
		case *ast.StarExpr:
			if pt, ok := a.info.TypeOf(x.X).Underlying().(*types.Pointer); ok {
				return !plPointerLike(pt.Elem())
			}
			return false
		default:
			return false
		}
	}
}

func (a *plAnalysis) noteLink(f *plFunc, dst plLoc, vs plSet) {
	if dst.kind != plParam && dst.kind != plParamDeep {
		return
	}
	d := plSum{kind: dst.kind, idx: dst.idx, fld: dst.fld}
	if dst.kind == plParamDeep {
		d.fld = nil
	}
	for s := range a.toSum(f, vs) {
		if (s.kind == d.kind && s.idx == d.idx && !s.boxed) || (s.kind == plParamDeep && !s.boxed && s.idx == d.idx) {
			continue
		}
		l := plLink{d, s}
		if !f.links[l] {
			f.links[l] = true
			a.changed = true
		}
	}
}

// store: `lhs = value` where the value points to vs.
func (a *plAnalysis) store(f *plFunc, lhs ast.Expr, vs plSet, pos token.Pos) {
	lhs = ast.Unparen(lhs)
	if id, ok := lhs.(*ast.Ident); ok {
		if id.Name == "_" {
			return
		}
		if o := a.info.ObjectOf(id); o != nil && a.isLocalVar(f, o) && plPointerLike(o.Type()) {
			a.addContents(f, plLoc{kind: plLocal, key: o}, vs)
		}
		return
	}
	targets := a.addr(f, lhs)
	a.noteWrite(f, targets, a.storeClass(lhs), pos, "store to "+types.ExprString(lhs))
	if len(vs) == 0 {
		return
	}
	for l := range targets {
		a.addContents(f, l, vs)
		a.noteLink(f, l, vs)
	}
}

func (a *plAnalysis) scan(f *plFunc) {
	litDepth := 0
	var walk func(n ast.Node) bool
	walk = func(n ast.Node) bool {
		switch x := n.(type) {
		case *ast.FuncLit:
			litDepth++
			ast.Inspect(x.Body, walk)
			litDepth--
			return false
		case *ast.AssignStmt:
			plain := x.Tok == token.ASSIGN || x.Tok == token.DEFINE
			if len(x.Lhs) == len(x.Rhs) {
				for i := range x.Lhs {
					vs := plSet{}
					if plain && plPointerLike(a.info.TypeOf(x.Rhs[i])) {
						vs = a.eval(f, x.Rhs[i])
					}
					a.store(f, x.Lhs[i], vs, x.Pos())
				}
			} else if len(x.Rhs) == 1 {
				vs := a.eval(f, x.Rhs[0])
				for _, l := range x.Lhs {
					if t := a.info.TypeOf(l); t != nil && !plPointerLike(t) {
						a.store(f, l, plSet{}, x.Pos())
						continue
					}
					a.store(f, l, vs, x.Pos())
				}
			}
		case *ast.IncDecStmt:
			a.store(f, x.X, plSet{}, x.Pos())
		case *ast.ValueSpec:
			if len(x.Values) == len(x.Names) {
				for i, nm := range x.Names {
					a.store(f, nm, a.eval(f, x.Values[i]), x.Pos())
				}
			} else if len(x.Values) == 1 {
				vs := a.eval(f, x.Values[0])
				for _, nm := range x.Names {
					a.store(f, nm, vs, x.Pos())
				}
			}
		case *ast.RangeStmt:
			var from plSet
			if _, isArr := a.info.TypeOf(x.X).Underlying().(*types.Array); isArr {
				from = a.addr(f, x.X)
			} else {
				from = a.eval(f, x.X)
			}
			elems := a.load(f, from)
			if x.Value != nil && plPointerLike(a.info.TypeOf(x.Value)) {
				a.store(f, x.Value, elems, x.Pos())
			}
			if x.Key != nil && plPointerLike(a.info.TypeOf(x.Key)) {
				a.store(f, x.Key, elems, x.Pos())
			}
		case *ast.TypeSwitchStmt:
			if as, ok := x.Assign.(*ast.AssignStmt); ok && len(as.Rhs) == 1 {
				if ta, ok := ast.Unparen(as.Rhs[0]).(*ast.TypeAssertExpr); ok {
					vs := a.eval(f, ta.X)
					for _, cl := range x.Body.List {
						if o := a.info.Implicits[cl]; o != nil {
							a.addContents(f, plLoc{kind: plLocal, key: o}, vs)
						}
					}
				}
			}
		case *ast.ReturnStmt:
			if litDepth == 0 {
				for _, res := range x.Results {
					if plPointerLike(a.info.TypeOf(res)) {
						for s := range a.toSum(f, a.eval(f, res)) {
							if !f.rets[s] {
								f.rets[s] = true
								a.changed = true
							}
						}
					}
				}
			}
		case *ast.SendStmt:
			a.eval(f, x.Value)
		case *ast.CallExpr:
			if tv, ok := a.info.Types[x.Fun]; ok && tv.IsType() {
				a.eval(f, x)
				return true
			}
			switch core.BuiltinName(a.info, x) {
			case "copy":
				if len(x.Args) == 2 {
					dst := a.eval(f, x.Args[0])
					pay := false
					if sl, ok := a.info.TypeOf(x.Args[0]).Underlying().(*types.Slice); ok {
						pay = !plPointerLike(sl.Elem())
					}
					if a.redirectIdiom(f, x) {
						f.idiom = append(f.idiom, x.Pos())
						return true
					}
					a.noteWrite(f, dst, pay, x.Pos(), "copy into "+types.ExprString(x.Args[0]))
					if sl, ok := a.info.TypeOf(x.Args[0]).Underlying().(*types.Slice); ok && plPointerLike(sl.Elem()) {
						vs := a.load(f, a.eval(f, x.Args[1]))
						for l := range dst {
							a.addContents(f, l, vs)
							a.noteLink(f, l, vs)
						}
					}
				}
				return true
			case "append":
				if len(x.Args) > 0 {
					pay := false
					if sl, ok := a.info.TypeOf(x.Args[0]).Underlying().(*types.Slice); ok {
						pay = !plPointerLike(sl.Elem())
					}
					a.noteWrite(f, a.eval(f, x.Args[0]), pay, x.Pos(), "append to "+types.ExprString(x.Args[0])+" (may write into its spare capacity)")
					a.eval(f, x)
				}
				return true
			case "":
			default:
				return true
			}
			for _, g := range a.callees(x) {
				name := core.FuncName(g.decl)
				var ws []plSum
				for s := range g.writes {
					ws = append(ws, s)
				}
				sort.Slice(ws, func(i, j int) bool {
					if ws[i].idx != ws[j].idx {
						return ws[i].idx < ws[j].idx
					}
					if ws[i].kind != ws[j].kind {
						return ws[i].kind < ws[j].kind
					}
					if ws[i].pay != ws[j].pay {
						return ws[j].pay
					}
					return plFldName(ws[i].fld) < plFldName(ws[j].fld)
				})
				for _, s := range ws {
					if s.kind == plInput {
						continue // reported inside the callee
					}
					deep := ""
					if s.kind == plParamDeep {
						deep = "memory reachable from "
					}
					t := s
					t.pay = false
					a.noteWrite(f, a.translate(f, g, x, t), s.pay, x.Pos(), "call of "+name+", which writes "+deep+plParamName(g, s.idx))
				}
				for l := range g.links {
					dst := a.translate(f, g, x, l.dst)
					src := a.translate(f, g, x, l.src)
					if len(src) == 0 {
						continue
					}
					for d := range dst {
						a.addContents(f, d, src)
						a.noteLink(f, d, src)
					}
				}
			}
			for _, arg := range x.Args {
				a.eval(f, arg)
			}
		}
		return true
	}
	ast.Inspect(f.decl.Body, walk)
	for _, o := range f.named {
		if plPointerLike(o.Type()) {
			for s := range a.toSum(f, f.contents[plLoc{kind: plLocal, key: o}]) {
				if !f.rets[s] {
					f.rets[s] = true
					a.changed = true
				}
			}
		}
	}
}

func plParamName(g *plFunc, i int) string {
	for o, p := range g.params {
		if p == i {
			return "its parameter " + o.Name()
		}
	}
	if i == 0 {
		return "its receiver"
	}
	return "a parameter"
}

// base object of an lvalue chain (x in x.f.g, x[i].f, (*x).f).
func plBase(e ast.Expr) ast.Expr {
	for {
		switch x := ast.Unparen(e).(type) {
		case *ast.SelectorExpr:
			e = x.X
		case *ast.IndexExpr:
			e = x.X
		case *ast.StarExpr:
			e = x.X
		case *ast.SliceExpr:
			e = x.X
		default:
			return ast.Unparen(e)
		}
	}
}

// DebugPayload prints the summaries of the named roaring functions.
func DebugPayload(p *core.Program, names []string) {
	rp := p.Pkg("roaring")
	a := newPayloadAnalysis(rp)
	sumStr := func(s plSum) string {
		t := map[plKind]string{plParam: "P", plParamDeep: "P*", plInput: "IN"}[s.kind]
		if s.kind != plInput {
			t += fmt.Sprint(s.idx)
		}
		if s.fld != nil {
			t += "." + s.fld.Name()
		}
		if s.pay {
			t += " (payload)"
		}
		if s.boxed {
			t = "box(" + t + ")"
		}
		return t
	}
	for _, f := range a.funcs {
		for _, n := range names {
			if core.FuncName(f.decl) != n {
				continue
			}
			fmt.Println("==", n)
			for s, w := range f.writes {
				fmt.Printf("  writes %s at %s: %s\n", sumStr(s), p.Pos(w.pos), w.what)
			}
			for l := range f.links {
				fmt.Printf("  link %s <- %s\n", sumStr(l.dst), sumStr(l.src))
			}
			for s := range f.rets {
				fmt.Printf("  ret %s\n", sumStr(s))
			}
		}
	}
}

func plFldName(o types.Object) string {
	if o == nil {
		return ""
	}
	return o.Name()
}

// redirectIdiom recognises, inside a method, `copy(recv.acc(), old)` where the
// immediately preceding statement of the same block redirected the receiver's
// payload pointer to memory inside the receiver itself (the in-struct stash):
//
//	c.pointer, c.cap = (*uint16)(unsafe.Pointer(&c.data)), n
//	copy(c.runs(), oldRuns)
//
// The destination is then the stash, not the memory the pointer referred to
// before. The analysis is flow-insensitive and cannot see the redirect, so
// this one ordering is recognised structurally.
func (a *plAnalysis) redirectIdiom(f *plFunc, cp *ast.CallExpr) bool {
	if f.decl.Recv == nil || len(f.decl.Recv.List) == 0 || len(f.decl.Recv.List[0].Names) == 0 {
		return false
	}
	recv := a.info.Defs[f.decl.Recv.List[0].Names[0]]
	isRecv := func(e ast.Expr) bool {
		id, ok := ast.Unparen(e).(*ast.Ident)
		return ok && a.info.ObjectOf(id) == recv
	}
	dst, ok := ast.Unparen(cp.Args[0]).(*ast.CallExpr)
	if !ok || len(dst.Args) != 0 {
		return false
	}
	sel, ok := ast.Unparen(dst.Fun).(*ast.SelectorExpr)
	if !ok || !isRecv(sel.X) {
		return false
	}
	// find the statement holding cp and its predecessor
	var prev ast.Stmt
	found := false
	ast.Inspect(f.decl.Body, func(n ast.Node) bool {
		var list []ast.Stmt
		switch b := n.(type) {
		case *ast.BlockStmt:
			list = b.List
		case *ast.CaseClause:
			list = b.Body
		default:
			return true
		}
		for i, st := range list {
			if es, ok := st.(*ast.ExprStmt); ok && es.X == ast.Expr(cp) && i > 0 {
				prev, found = list[i-1], true
			}
		}
		return !found
	})
	as, ok := prev.(*ast.AssignStmt)
	if !found || !ok || len(as.Lhs) != len(as.Rhs) {
		return false
	}
	for i, l := range as.Lhs {
		ls, ok := ast.Unparen(l).(*ast.SelectorExpr)
		if !ok || !isRecv(ls.X) {
			continue
		}
		if _, isPtr := a.info.TypeOf(l).Underlying().(*types.Pointer); !isPtr {
			continue
		}
		// the new value points into the receiver object itself
		vs := a.eval(f, as.Rhs[i])
		inSelf := len(vs) > 0
		for v := range vs {
			if v.kind != plParam || v.idx != 0 {
				inSelf = false
			}
		}
		if inSelf {
			return true
		}
	}
	return false
}

// DebugPayloadWriters lists the direct payload store sites.
func DebugPayloadWriters(p *core.Program) {
	rp := p.Pkg("roaring")
	a := newPayloadAnalysis(rp)
	var ps []token.Pos
	for pos := range a.sites {
		ps = append(ps, pos)
	}
	sort.Slice(ps, func(i, j int) bool { return ps[i] < ps[j] })
	for _, pos := range ps {
		st := a.sites[pos]
		var ks []string
		for s := range st.sums {
			k := map[plKind]string{plParam: "P", plParamDeep: "P*", plInput: "IN"}[s.kind]
			ks = append(ks, fmt.Sprintf("%s%d.%s", k, s.idx, plFldName(s.fld)))
		}
		sort.Strings(ks)
		fmt.Printf("%s %s: %s -> %s\n", p.Pos(pos), core.FuncName(st.f.decl), st.what, strings.Join(ks, ","))
	}
}
