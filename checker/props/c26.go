package props

import (
	"fmt"
	"go/ast"
	"go/constant"
	"go/token"
	"go/types"
	"sort"
	"strings"

	"verif/checker/core"

	"golang.org/x/tools/go/packages"
)

func init() { register("C26", c26) }

// value types that %v prints in a form the grammar reads back as the same type (frozen)
var c26PercentV = map[string]string{
	"int64":      "decimal integer",
	"uint64":     "decimal integer",
	"int":        "decimal integer",
	"bool":       "true/false",
	"*pql.Call":  "Call implements Stringer and prints itself as PQL",
	"*Call":      "Call implements Stringer and prints itself as PQL",
	"pql.Token":  "condition operators print as their PQL spelling",
	"Token":      "condition operators print as their PQL spelling",
}

func c26(p *core.Program, r *core.Report) {
	r.Rule("R1", "rune/byte offset typing: in the generated parser's Execute, token offsets (which index the []rune buffer) are never used to slice a string; the matched text is taken from the rune buffer")
	r.Rule("R2", "forwardable-argument table: every static type stored into a call's argument map (parser actions and their helpers in package pql; executor rewrites in package pilosa) is printed by formatValue in a form the grammar re-reads as the same type: an explicit formatValue case, or one of the frozen types whose %v form is grammatical; formatValue's nil, list and float cases do not fall through to %v")
	r.Rule("R4", "the grammar parses the text as given: wherever package pql sets PQL.Buffer, the value is the input converted to a string -- no function call rewrites the query text before parsing")
	c26BufferUntouched(p, r)
	r.Rule("R3", "quoting is the inverse of unquoting: the parser reads string literals with strconv.Unquote, so in package pql's printing code (everything outside the generated parser) a string is put between double quotes only by strconv.Quote or the %q verb; wrapping by hand (concatenation with a `\"` literal, or a format like \"%s\" with the quotes written out) is accepted only around time.Time.Format results")
	c26Quoting(p, r)
	r.Rule("R5", "list elements are printed like scalars: a printing function of package pql (outside the generated parser) that takes a []interface{} hands each element to formatValue and prints none with a fmt verb of its own")
	c26ListElements(p, r)
	r.Rule("R6", "conversion errors are not discarded: wherever package pql (generated parser actions included) turns query text into a value with strconv (Unquote, ParseInt, ParseFloat, ...), the error result is kept, not assigned to _")
	c26ConversionErrors(p, r)
	r.Rule("R7", "an operator applies to one argument: every hand-written parser helper of package pql that clears callStackElem.lastField (the argument is complete) also resets lastCond to ILLEGAL on that path, directly or through a callStackElem method that does")
	c26OperatorAppliesOnce(p, r)
	r.NotDecided = "that the PEG grammar accepts exactly PQL; escape handling inside strconv.Unquote; numeric range handling; values nested inside lists"
	qp, pk := p.Pkg("pql"), p.Pkg("")
	if qp == nil || pk == nil {
		r.Undecide("R1", "packages pql/pilosa", "", "not loaded")
		return
	}
	info := qp.TypesInfo
	// ---- R1
	fd := core.FuncDecl(qp, "PQL", "Execute")
	if fd == nil {
		r.Undecide("R1", "(*PQL).Execute", "", "not found")
	} else {
		// locals assigned from token.begin / token.end
		offs := map[types.Object]bool{}
		ast.Inspect(fd.Body, func(n ast.Node) bool {
			as, ok := n.(*ast.AssignStmt)
			if !ok || len(as.Lhs) != len(as.Rhs) {
				return true
			}
			for i, rh := range as.Rhs {
				txt := types.ExprString(rh)
				if strings.Contains(txt, ".begin") || strings.Contains(txt, ".end") {
					if id, ok := as.Lhs[i].(*ast.Ident); ok {
						offs[info.ObjectOf(id)] = true
					}
				}
			}
			return true
		})
		nSlices, bad := 0, ast.Node(nil)
		ast.Inspect(fd.Body, func(n ast.Node) bool {
			se, ok := n.(*ast.SliceExpr)
			if !ok {
				return true
			}
			usesOff := false
			for _, b := range []ast.Expr{se.Low, se.High} {
				if id, ok := b.(*ast.Ident); ok && offs[info.ObjectOf(id)] {
					usesOff = true
				}
			}
			if !usesOff {
				return true
			}
			nSlices++
			if bt, ok := info.TypeOf(se.X).Underlying().(*types.Basic); ok && bt.Info()&types.IsString != 0 {
				bad = se
			}
			return true
		})
		r.Floor("C26/R1 slices by token offsets in Execute", nSlices, 1)
		r.Floor("C26/R1 token offset locals", len(offs), 2)
		if bad != nil {
			r.Violate("R1", "(*PQL).Execute", p.Pos(bad.Pos()), "a string is sliced with token offsets, which count runes: any literal at or after a multi-byte character is cut at the wrong bytes")
		} else {
			r.HoldAt("R1", "(*PQL).Execute", p.Pos(fd.Pos()), "token offsets only slice the rune buffer")
		}
	}

	// ---- R2
	ffd := core.FuncDecl(qp, "", "formatValue")
	if ffd == nil {
		r.Undecide("R2", "pql.formatValue", "", "not found")
		return
	}
	cases, _, _ := typeSwitchCases(info, ffd)
	handled := map[string]bool{}
	for t := range cases {
		handled[t] = true
	}
	for _, must := range []string{"nil", "float64", "[]int64", "[]uint64", "[]interface{}", "string"} {
		r.Check(handled[must], "R2", "formatValue case "+must, p.Pos(ffd.Pos()), "explicit case", "formatValue has no case for "+must+": it falls through to %v, which prints a form the grammar does not read back (e.g. <nil>, [1 2 3], 1e+06)")
	}
	// collect stored types
	stored := map[string]string{}
	collect := func(q *packages.Package) {
		qi := q.TypesInfo
		isArgsMap := func(e ast.Expr) bool {
			sel, ok := ast.Unparen(e).(*ast.SelectorExpr)
			if !ok || sel.Sel.Name != "Args" {
				return false
			}
			return core.IsNamed(qi.TypeOf(sel.X), core.ModPath+"/pql", "Call")
		}
		ifaceParamStores := map[*types.Func]int{} // function -> index of the interface{} param it stores into Args
		for _, fd := range core.AllFuncDecls(q) {
			if fd.Body == nil {
				continue
			}
			fobj, _ := qi.Defs[fd.Name].(*types.Func)
			ast.Inspect(fd.Body, func(n ast.Node) bool {
				as, ok := n.(*ast.AssignStmt)
				if !ok || len(as.Lhs) != len(as.Rhs) {
					return true
				}
				for i, l := range as.Lhs {
					ix, ok := ast.Unparen(l).(*ast.IndexExpr)
					if !ok || !isArgsMap(ix.X) {
						continue
					}
					rt := qi.TypeOf(as.Rhs[i])
					if rt == nil {
						continue
					}
					if types.IsInterface(rt) {
						// a parameter of interface type: look at the callers
						if id, ok := ast.Unparen(as.Rhs[i]).(*ast.Ident); ok && fobj != nil {
							sig := fobj.Type().(*types.Signature)
							for pi := 0; pi < sig.Params().Len(); pi++ {
								if sig.Params().At(pi) == qi.ObjectOf(id) {
									ifaceParamStores[fobj] = pi
								}
							}
						}
						continue
					}
					stored[typeKey(rt)] = core.FuncName(fd) + " at " + p.Pos(as.Pos())
				}
				return true
			})
		}
		// callers of the storing helpers
		for _, fd := range core.AllFuncDecls(q) {
			if fd.Body == nil {
				continue
			}
			ast.Inspect(fd.Body, func(n ast.Node) bool {
				c, ok := n.(*ast.CallExpr)
				if !ok {
					return true
				}
				fn := core.CalleeOf(qi, c)
				pi, isStore := ifaceParamStores[fn]
				if !isStore || pi >= len(c.Args) {
					return true
				}
				at := qi.TypeOf(c.Args[pi])
				if at == nil {
					return true
				}
				if id, ok := ast.Unparen(c.Args[pi]).(*ast.Ident); ok && id.Name == "nil" {
					stored["nil"] = core.FuncName(fd) + " at " + p.Pos(c.Pos())
					return true
				}
				if types.IsInterface(at) {
					return true
				}
				stored[typeKey(at)] = core.FuncName(fd) + " at " + p.Pos(c.Pos())
				return true
			})
		}
	}
	collect(qp)
	collect(pk)
	var ts []string
	for t := range stored {
		ts = append(ts, t)
	}
	sort.Strings(ts)
	r.Floor("C26/R2 static types stored into Call.Args", len(ts), 6)
	for _, t := range ts {
		short := strings.ReplaceAll(t, "pql.", "")
		construct := "argument type " + t
		switch {
		case handled[t] || handled[short]:
			r.Hold("R2", construct, "explicit formatValue case (stored by "+stored[t]+")")
		case c26PercentV[t] != "" || c26PercentV[short] != "":
			r.Hold("R2", construct, "prints grammatically with %v: "+c26PercentV[t]+c26PercentV[short])
		default:
			r.Violate("R2", construct, "", "values of type "+t+" are stored into a call's arguments ("+stored[t]+") but formatValue has no case for them: the forwarded query text does not re-parse to the same value")
		}
	}
}

// c26Quoting: R3.
func c26Quoting(p *core.Program, r *core.Report) {
	qp := p.Pkg("pql")
	info := qp.TypesInfo
	isTimeFormat := func(e ast.Expr) bool {
		c, ok := ast.Unparen(e).(*ast.CallExpr)
		if !ok {
			return false
		}
		fn := core.CalleeOf(info, c)
		return fn != nil && fn.Name() == "Format" && fn.Pkg() != nil && fn.Pkg().Path() == "time"
	}
	constStr := func(e ast.Expr) (string, bool) {
		tv, ok := info.Types[e]
		if !ok || tv.Value == nil || tv.Value.Kind() != constant.String {
			return "", false
		}
		return constant.StringVal(tv.Value), true
	}
	var bad []string
	nQuote := 0
	for _, fd := range core.AllFuncDecls(qp) {
		if fd.Body == nil {
			continue
		}
		file := p.Fset.Position(fd.Pos()).Filename
		if strings.HasSuffix(file, "_test.go") || strings.HasSuffix(file, ".peg.go") {
			continue
		}
		ast.Inspect(fd.Body, func(n ast.Node) bool {
			switch x := n.(type) {
			case *ast.BinaryExpr:
				if x.Op != token.ADD {
					return true
				}
				for _, pair := range [][2]ast.Expr{{x.X, x.Y}, {x.Y, x.X}} {
					if c, ok := constStr(pair[0]); ok && strings.Contains(c, "\"") {
						if _, isConst := constStr(pair[1]); !isConst {
							if b, ok := info.TypeOf(pair[1]).Underlying().(*types.Basic); ok && b.Kind() == types.String && !isTimeFormat(pair[1]) {
								// the other operand may itself be a concatenation; look at its leaves
								bad = append(bad, p.Pos(x.Pos())+": "+types.ExprString(x))
							}
						}
					}
				}
			case *ast.CallExpr:
				fn := core.CalleeOf(info, x)
				if fn == nil || fn.Pkg() == nil {
					return true
				}
				key := fn.Pkg().Path() + "." + fn.Name()
				if key == "strconv.Quote" {
					nQuote++
				}
				if fn.Pkg().Path() != "fmt" || len(x.Args) == 0 {
					return true
				}
				fi := 0
				if strings.HasPrefix(fn.Name(), "F") {
					fi = 1
				}
				if fi >= len(x.Args) {
					return true
				}
				format, ok := constStr(x.Args[fi])
				if !ok {
					return true
				}
				if strings.Contains(format, "%q") {
					nQuote++
				}
				// verbs in order; a %s or %v directly wrapped in quotes
				args := x.Args[fi+1:]
				ai := 0
				for i := 0; i < len(format); i++ {
					if format[i] != '%' || i+1 >= len(format) {
						continue
					}
					j := i + 1
					for j < len(format) && strings.ContainsRune("+-# 0123456789.[]*", rune(format[j])) {
						j++
					}
					if j >= len(format) {
						break
					}
					verb := format[j]
					if verb == '%' {
						i = j
						continue
					}
					wrapped := i > 0 && format[i-1] == '"' && j+1 < len(format) && format[j+1] == '"'
					if wrapped && (verb == 's' || verb == 'v') && ai < len(args) {
						if b, ok := info.TypeOf(args[ai]).Underlying().(*types.Basic); ok && b.Kind() == types.String && !isTimeFormat(args[ai]) {
							bad = append(bad, p.Pos(x.Pos())+": "+types.ExprString(x))
						}
					}
					ai++
					i = j
				}
			}
			return true
		})
	}
	switch {
	case len(bad) > 0:
		r.Violate("R3", "pql printing code", "", "a string is wrapped in double quotes by hand at "+strings.Join(dedupe(bad), "; ")+": characters that strconv.Unquote rejects or interprets (a raw newline, a backslash, a quote) make the receiving node read a different value, or silently an empty string")
	case nQuote == 0:
		r.Violate("R3", "pql printing code", "", "no use of strconv.Quote or %q found: string arguments are not quoted for the parser")
	default:
		r.Hold("R3", "pql printing code", fmt.Sprintf("%d quoting sites use strconv.Quote/%%q; no hand-made quoting of string values", nQuote))
	}
}
