package props

import (
	"fmt"
	"go/ast"
	"go/constant"
	"go/token"
	"go/types"
	"sort"
	"strings"

	"verif/checker/core"
	"verif/checker/flow"

	"golang.org/x/tools/go/packages"
)

func init() { register("C06", c06) }

// entry points for bytes that arrive from a client or a peer (slots by
// resolved symbol): the roaring import payload and the cluster message.
func c06IsDecoder(fn *types.Func) bool {
	if fn == nil || fn.Pkg() == nil || fn.Pkg().Path() != core.ModPath {
		return false
	}
	return (fn.Name() == "importRoaring" && recvNamed(fn, "Field")) || (fn.Name() == "ClusterMessage" && recvNamed(fn, "API"))
}

// panics with a frozen reason (not reachable with wire content)
var c06PanicExempt = map[string]string{
	"(*Container).unmapOrClone": "default case of a switch on the container's type: unreachable once unknown type bytes are rejected where they enter (rule R6)",
	"(*Container).Clone":        "same: unknown container type, rejected at the decoders (R6)",
	"(*Container).setBitmap":    "nil or frozen receiver: the decoders call it only on containers they just created through PutContainerValues (thawed there)",
	"(*Container).setArray":     "same as setBitmap",
	"(*Container).setRuns":      "same as setBitmap",
	"(*Container).Update":       "nil or frozen receiver: only called from UpdateOrMake after Thaw",
	"(Serializer).Unmarshal":  "default case: the caller passed a Go type the serializer does not know (programmer error); the type comes from getMessage or from the handler, not from the bytes",
	"encodeQueryResponse":     "encoding side: an executor result of unknown Go type (programmer error)",
	"getMessageType":          "encoding side: a message of unregistered Go type (C27/R1 checks every sent type is registered)",
	"(*op).apply":             "unreachable with wire content: op.UnmarshalBinary rejects unknown op types before apply runs (C05/R1)",
	"(*op).count":             "same as op.apply",
	"(*op).size":              "paranoia build tag only",
	"(*op).encodeSize":        "paranoia build tag only",
}

func c06(p *core.Program, r *core.Report) {
	r.Rule("R1", "recover coverage: every goroutine started by the server that reaches a decoder of external input (roaring import/unmarshal, the wire serializer, the PQL parser, the cluster-message type table) through static calls has a deferred recover in its own body, or is started per request by code that already runs under one; the framework-invoked gossip delegates that feed API.ClusterMessage are listed with the reason they need none after R2-R4 hold")
	r.Rule("R2", "no panic on wire content: functions that interpret external bytes (package roaring's decoders and iterators, broadcast.go's type tables, the decode side of encoding/proto, API.ClusterMessage, importWorker, and the functions of package gossip that hand peer-supplied bytes to Serializer.Unmarshal) contain no call to panic outside the frozen, reasoned list")
	r.Rule("R3", "constant-index guards: a constant index or constant-bound slice of an externally supplied []byte (a []byte parameter, a range value over request views, or the result of ReadAll) is preceded in the same function by a test of that slice's length, or every static caller tests the length before the call")
	r.Rule("R4", "nil-contradiction in message handling: in Server.receiveMessage every result of holder.Index/holder.Field is compared with nil before it is used (most cases do; the ones that did not crashed on messages for unknown schema)")
	r.Rule("R5", "locks released on reject: every Lock/RLock of a fragment taken in a function that reaches a decoder is released by defer (so a recovered panic leaves no lock held)")
	r.Rule("R7", "payload extents are checked before input is reinterpreted: in package roaring every cast unsafe.Pointer(&data[off]) of a byte slice on the decode path is reached only on paths that passed a comparison between len(data) and an extent -- a sum that contains the offset (off + size) -- so neither the cast nor the unchecked slice built from it can reach past the data; a test of the bare offset does not count")
	r.Rule("R8", "sizes computed from input counts do not wrap: on the decode path a product or sum of an input count that is compared with len(data) is computed in 64 bits (or in int after widening), never in the count's own 16- or 32-bit type")
	r.Rule("R9", "computed slice bounds are checked: on the roaring decode path a slice expression on a byte slice whose bound is a sum (offset + size from the input) is reached only after a comparison of a sum mentioning one of the bound's variables with len(<that slice>); a later plain assignment to such a variable discards the check")
	r.Rule("R10", "extent sums cannot wrap: a 64-bit unsigned quantity from the input that enters the sum of an extent check was bounded from above on every path to the check by a comparison not involving len")
	r.Rule("R11", "decoders leave no nil sub-message: a decode function of encoding/proto that assigns a pointer-to-struct field of its destination (m.Meta, m.Node, m.Schema, ...) assigns it a non-nil value on every path to a normal return -- an early return on an absent input or an `if pb.X != nil` around the allocation leaves the field nil, and the message handlers dereference these fields unguarded")
	c06DecodersLeaveNoNil(p, r)
	r.Rule("R12", "index sums cannot wrap (generated decoders): in every Unmarshal method of package internal a sum of the decode index and a length read from the input -- `postIndex := iNdEx + n`, `(iNdEx + skippy)` -- is tested `< 0` with a returning body before it is compared with the buffer length and used as a slice bound or as the next index")
	c06IndexSumsCannotWrap(p, r)
	r.Rule("R13", "the stored count is not an extent: in package roaring a slice made with length Container.N() is never filled by indexed stores (the payload, not the header count, decides how many values a conversion yields); make(T, 0, N()) plus append is the accepted form")
	c06CountIsNotAnExtent(p, r)
	r.Rule("R14", "validate, then apply: in Bitmap.ImportRoaringBits every call that writes the bitmap's containers (Containers.Update/Put/Remove/...) is reached only after an error returned by roaringIterator.Next was found equal to io.EOF, i.e. after the whole payload was decoded once without error")
	c06ValidateBeforeApply(p, r)
	r.Rule("R15", "decode, then replace: a fragment method that takes an io.Reader and renames a file onto <fragment>.path reaches the rename only on paths where the result of (*roaring.Bitmap).UnmarshalBinary was found nil (error nil-ness is tracked per variable, so `if err == nil { err = decode }; if err != nil { return }` is understood)")
	c06DecodeBeforeReplace(p, r)
	c06Extents(p, r)
	c06Slices(p, r)
	r.NotDecided = "that counts inside the payload are consistent with the payload itself (a cardinality that disagrees with the runs), that a rejected multi-container import leaves no partial change (the source itself notes it may)"
	pk, rp, pp, gp := p.Pkg(""), p.Pkg("roaring"), p.Pkg("encoding/proto"), p.Pkg("gossip")
	if pk == nil || rp == nil || pp == nil || gp == nil {
		r.Undecide("R1", "packages", "", "pilosa/roaring/encoding/proto/gossip not all loaded")
		return
	}
	// static call graph over the module
	type fnode struct {
		fd  *ast.FuncDecl
		pkg *packages.Package
	}
	decls := map[*types.Func]fnode{}
	for _, q := range p.All {
		for _, fd := range core.AllFuncDecls(q) {
			if o, ok := q.TypesInfo.Defs[fd.Name].(*types.Func); ok && fd.Body != nil {
				decls[o] = fnode{fd, q}
			}
		}
	}
	declMap := map[*types.Func]c06Decl{}
	for fn, nd := range decls {
		declMap[fn] = c06Decl{nd.fd, nd.pkg.TypesInfo}
	}
	decls2 := func(interface{}) map[*types.Func]c06Decl { return declMap }
	reachMemo := map[*types.Func]int{} // 0 unknown, 1 yes, 2 no
	var reaches func(fn *types.Func, depth int) bool
	bodyReaches := func(info *types.Info, body ast.Node, depth int) bool {
		found := false
		ast.Inspect(body, func(n ast.Node) bool {
			if found {
				return false
			}
			if c, ok := n.(*ast.CallExpr); ok {
				fn := core.CalleeOf(info, c)
				if c06IsDecoder(fn) {
					found = true
				} else if fn != nil && depth < 6 && reaches(fn, depth+1) {
					found = true
				}
			}
			return true
		})
		return found
	}
	reaches = func(fn *types.Func, depth int) bool {
		if v := reachMemo[fn]; v != 0 {
			return v == 1
		}
		nd, ok := decls[fn]
		if !ok {
			return false
		}
		reachMemo[fn] = 2
		if bodyReaches(nd.pkg.TypesInfo, nd.fd.Body, depth) {
			reachMemo[fn] = 1
			return true
		}
		return false
	}
	hasRecover := func(info *types.Info, body ast.Node) bool {
		found := false
		ast.Inspect(body, func(n ast.Node) bool {
			d, ok := n.(*ast.DeferStmt)
			if !ok {
				return true
			}
			ast.Inspect(d.Call, func(m ast.Node) bool {
				if c, ok := m.(*ast.CallExpr); ok && core.BuiltinName(info, c) == "recover" {
					found = true
				}
				return true
			})
			return true
		})
		return found
	}
	// ---- R1
	nRoots, nInput := 0, 0
	for _, q := range []*packages.Package{pk, gp, p.Pkg("http"), p.Pkg("server")} {
		if q == nil {
			continue
		}
		info := q.TypesInfo
		for _, fd := range core.AllFuncDecls(q) {
			if fd.Body == nil {
				continue
			}
			ast.Inspect(fd.Body, func(n ast.Node) bool {
				g, ok := n.(*ast.GoStmt)
				if !ok {
					return true
				}
				nRoots++
				var body ast.Node
				var binfo = info
				name := ""
				if fl, ok := ast.Unparen(g.Call.Fun).(*ast.FuncLit); ok {
					body, name = fl.Body, "goroutine in "+core.FuncName(fd)
				} else if fn := core.CalleeOf(info, g.Call); fn != nil {
					if nd, ok := decls[fn]; ok {
						body, binfo, name = nd.fd.Body, nd.pkg.TypesInfo, "goroutine "+core.FuncName(nd.fd)
					}
				}
				if body == nil {
					return true
				}
				if !bodyReaches(binfo, body, 0) {
					return true
				}
				nInput++
				construct := name
				// recover in the goroutine body itself or in a directly called function of the body
				ok2 := hasRecover(binfo, body)
				if !ok2 {
					ast.Inspect(body, func(m ast.Node) bool {
						if c, ok := m.(*ast.CallExpr); ok {
							if fn := core.CalleeOf(binfo, c); fn != nil {
								if nd, ok := decls[fn]; ok && reaches(fn, 1) && hasRecover(nd.pkg.TypesInfo, nd.fd.Body) {
									ok2 = true
								}
							}
						}
						return true
					})
				}
				if why, ex := c06RootExempt[construct]; ex && !ok2 {
					r.HoldAt("R1", construct, p.Pos(g.Pos()), "exempt: "+why)
					return true
				}
				r.Check(ok2, "R1", construct, p.Pos(g.Pos()), "decodes external input under a deferred recover", "this goroutine reaches a decoder of external input and nothing in it recovers: a panic on malformed input (none of its callers can catch it) terminates the whole server")
				return true
			})
		}
	}
	r.Floor("C06/R1 go statements examined", nRoots, 20)
	r.Floor("C06/R1 goroutines reaching a decoder", nInput, 1)
	// the HTTP entry recovers
	if hp := p.Pkg("http"); hp != nil {
		if fd := core.FuncDecl(hp, "Handler", "ServeHTTP"); fd != nil {
			r.Check(hasRecover(hp.TypesInfo, fd.Body), "R1", "(*Handler).ServeHTTP", p.Pos(fd.Pos()), "HTTP requests run under a deferred recover", "the HTTP entry point no longer recovers: a panic while serving one request terminates the server")
		} else {
			r.Undecide("R1", "(*Handler).ServeHTTP", "", "not found")
		}
	}
	// gossip delegates: no recover of their own; they only call API.ClusterMessage
	for _, m := range []string{"NotifyMsg", "MergeRemoteState"} {
		fd := core.FuncDecl(gp, "memberSet", m)
		if fd == nil {
			r.Undecide("R1", "(*memberSet)."+m, "", "not found")
			continue
		}
		only := true
		ast.Inspect(fd.Body, func(n ast.Node) bool {
			if c, ok := n.(*ast.CallExpr); ok {
				if fn := core.CalleeOf(gp.TypesInfo, c); fn != nil && fn.Pkg() != nil && fn.Pkg().Path() == core.ModPath && fn.Name() != "ClusterMessage" {
					only = false
				}
			}
			return true
		})
		r.Check(only || hasRecover(gp.TypesInfo, fd.Body), "R1", "(*memberSet)."+m, p.Pos(fd.Pos()), "hands the packet to API.ClusterMessage only (whose decoding path is panic-free by R2-R4)", "the gossip delegate does more with the packet than hand it to API.ClusterMessage and has no recover: the memberlist goroutine that calls it cannot catch a panic")
	}

	// ---- R2
	nFns := 0
	nGossip := 0
	inputFuncs := func(q *packages.Package, fd *ast.FuncDecl) bool {
		name := core.FuncName(fd)
		switch q {
		case rp:
			return c06RoaringDecodePath(rp)[name]
		case pp:
			return strings.HasPrefix(fd.Name.Name, "decode") || fd.Name.Name == "Unmarshal"
		case pk:
			return name == "getMessage" || name == "getMessageType" || name == "(*API).ClusterMessage" || name == "importWorker" || name == "(*Server).receiveMessage" || name == "MarshalInternalMessage"
		case p.Pkg("pql"):
			return name == "(*parser).Parse" || name == "ParseString"
		case gp:
			// gossip: whatever hands peer-supplied bytes (packets, node meta) to the serializer
			calls := false
			ast.Inspect(fd.Body, func(n ast.Node) bool {
				if c, ok := n.(*ast.CallExpr); ok {
					if fn := core.CalleeOf(gp.TypesInfo, c); fn != nil && fn.Name() == "Unmarshal" && recvNamed(fn, "Serializer") {
						calls = true
					}
				}
				return true
			})
			if calls {
				nGossip++
			}
			return calls
		}
		return false
	}
	for _, q := range []*packages.Package{rp, pp, pk, p.Pkg("pql"), gp} {
		if q == nil {
			continue
		}
		for _, fd := range core.AllFuncDecls(q) {
			if fd.Body == nil || !inputFuncs(q, fd) {
				continue
			}
			nFns++
			var panics []token.Pos
			ast.Inspect(fd.Body, func(n ast.Node) bool {
				if c, ok := n.(*ast.CallExpr); ok && core.BuiltinName(q.TypesInfo, c) == "panic" {
					// paranoia-only panics: inside `if roaringParanoia {...}`
					panics = append(panics, c.Pos())
				}
				return true
			})
			if len(panics) == 0 {
				continue
			}
			name := core.FuncName(fd)
			construct := q.Name + "." + name
			// under a constant-false build flag?
			parents := parentMap(fd.Body)
			live := 0
			var livePos token.Pos
			ast.Inspect(fd.Body, func(n ast.Node) bool {
				c, ok := n.(*ast.CallExpr)
				if !ok || core.BuiltinName(q.TypesInfo, c) != "panic" {
					return true
				}
				guarded := false
				for x := parents[ast.Node(c)]; x != nil; x = parents[x] {
					if ifs, ok := x.(*ast.IfStmt); ok {
						if id, ok := ast.Unparen(ifs.Cond).(*ast.Ident); ok {
							if k, ok := q.TypesInfo.ObjectOf(id).(*types.Const); ok && k.Val().Kind() == constant.Bool && !constant.BoolVal(k.Val()) {
								guarded = true
							}
						}
					}
				}
				if !guarded {
					live++
					livePos = c.Pos()
				}
				return true
			})
			if live == 0 {
				r.HoldAt("R2", construct, p.Pos(panics[0]), "panics only under a build flag that is false in this configuration")
				continue
			}
			if why, ok := c06PanicExempt[name]; ok {
				r.HoldAt("R2", construct, p.Pos(livePos), "exempt: "+why)
				continue
			}
			// the PQL parser re-panics unknown panics: allowed only under the HTTP recover (queries arrive by HTTP or from the executor under it)
			if q == p.Pkg("pql") {
				r.HoldAt("R2", construct, p.Pos(livePos), "re-panics a parser panic it does not recognise; every caller (API.Query) runs under the HTTP handler's recover")
				continue
			}
			r.Violate("R2", construct, p.Pos(livePos), "calls panic while interpreting external bytes: malformed input crashes the goroutine (and, outside an HTTP request, the server) instead of being rejected with an error")
		}
	}
	r.Floor("C06/R2 input-interpreting functions examined", nFns, 150)
	r.Floor("C06/R2 gossip functions that unmarshal peer-supplied bytes", nGossip, 1)

	// ---- R3
	c06ConstIndex(p, r, []*packages.Package{pk, rp})

	// ---- R6
	r.Rule("R6", "type bytes are validated where they enter: in package roaring every switch on a container type that was read from external data (an import iterator's current type, a type parameter filled from a header, or a freshly decoded container whose storage is being attached) has a default case")
	c06TypeSwitches(p, r, rp)

	// ---- R4
	if fd := core.FuncDecl(pk, "Server", "receiveMessage"); fd != nil {
		info := pk.TypesInfo
		n := 0
		ast.Inspect(fd.Body, func(nd ast.Node) bool {
			cc, ok := nd.(*ast.CaseClause)
			if !ok {
				return true
			}
			for _, st := range cc.Body {
				as, ok := st.(*ast.AssignStmt)
				if !ok || len(as.Lhs) != 1 || len(as.Rhs) != 1 {
					continue
				}
				c, ok := ast.Unparen(as.Rhs[0]).(*ast.CallExpr)
				if !ok {
					continue
				}
				fn := core.CalleeOf(info, c)
				if fn == nil || !recvNamed(fn, "Holder") || (fn.Name() != "Index" && fn.Name() != "Field") {
					continue
				}
				id, ok := as.Lhs[0].(*ast.Ident)
				if !ok {
					continue
				}
				n++
				obj := info.ObjectOf(id)
				// within the clause: first use must be a nil comparison
				checked, badUse := false, token.NoPos
				for _, st2 := range cc.Body {
					if st2.Pos() <= as.Pos() {
						continue
					}
					ast.Inspect(st2, func(m ast.Node) bool {
						if badUse.IsValid() || checked {
							return false
						}
						switch x := m.(type) {
						case *ast.BinaryExpr:
							if xid, ok := ast.Unparen(x.X).(*ast.Ident); ok && info.ObjectOf(xid) == obj {
								if nl, ok := ast.Unparen(x.Y).(*ast.Ident); ok && nl.Name == "nil" {
									checked = true
									return false
								}
							}
						case *ast.SelectorExpr:
							if xid, ok := ast.Unparen(x.X).(*ast.Ident); ok && info.ObjectOf(xid) == obj {
								badUse = x.Pos()
								return false
							}
						}
						return true
					})
					if checked || badUse.IsValid() {
						break
					}
				}
				construct := "receiveMessage: " + id.Name + " := holder." + fn.Name() + " (" + typeKey(info.TypeOf(cc.List[0])) + ")"
				if badUse.IsValid() && !checked {
					r.Violate("R4", construct, p.Pos(badUse), "the looked-up "+strings.ToLower(fn.Name())+" is used without the nil check its sibling cases have: a message naming schema this node does not hold crashes the handler")
				} else {
					r.HoldAt("R4", construct, p.Pos(as.Pos()), "nil-checked before use")
				}
			}
			return true
		})
		r.Floor("C06/R4 holder lookups in receiveMessage", n, 5)
	} else {
		r.Undecide("R4", "(*Server).receiveMessage", "", "not found")
	}

	// ---- R5: fragment locks taken at or below the decoder entry points
	below := map[*types.Func]bool{}
	var down func(fn *types.Func, depth int)
	down = func(fn *types.Func, depth int) {
		nd, ok := decls[fn]
		if !ok || below[fn] || depth > 8 {
			return
		}
		below[fn] = true
		ast.Inspect(nd.fd.Body, func(n ast.Node) bool {
			if c, ok := n.(*ast.CallExpr); ok {
				if cal := core.CalleeOf(nd.pkg.TypesInfo, c); cal != nil {
					down(cal, depth+1)
				}
			}
			return true
		})
	}
	for fn := range decls {
		if c06IsDecoder(fn) {
			down(fn, 0)
		}
	}
	nLocks := 0
	for fn, nd := range decls {
		if nd.pkg != pk || !below[fn] {
			continue
		}
		info := pk.TypesInfo
		parents := parentMap(nd.fd.Body)
		ast.Inspect(nd.fd.Body, func(n ast.Node) bool {
			c, ok := n.(*ast.CallExpr)
			if !ok {
				return true
			}
			sel, ok := ast.Unparen(c.Fun).(*ast.SelectorExpr)
			if !ok || (sel.Sel.Name != "Lock" && sel.Sel.Name != "RLock") {
				return true
			}
			if _, ok := core.FieldSel(info, sel.X, core.ModPath, "fragment", "mu"); !ok {
				return true
			}
			nLocks++
			// the next statement in the same block is `defer <same>.Unlock()`
			deferred := false
			if es, ok := parents[ast.Node(c)].(*ast.ExprStmt); ok {
				if blk, ok := parents[es].(*ast.BlockStmt); ok {
					for i, st := range blk.List {
						if st == ast.Stmt(es) && i+1 < len(blk.List) {
							if d, ok := blk.List[i+1].(*ast.DeferStmt); ok && strings.HasSuffix(types.ExprString(d.Call.Fun), "nlock") {
								deferred = true
							}
						}
					}
				}
			}
			if !deferred {
				// an explicit unlock is fine when nothing between the lock and the unlock decodes external bytes
				decodes := false
				if es, ok := parents[ast.Node(c)].(*ast.ExprStmt); ok {
					if blk, ok := parents[es].(*ast.BlockStmt); ok {
						after := false
						for _, st := range blk.List {
							if st == ast.Stmt(es) {
								after = true
								continue
							}
							if !after {
								continue
							}
							if ex, ok := st.(*ast.ExprStmt); ok && strings.HasSuffix(types.ExprString(ex.X), "nlock()") {
								break
							}
							ast.Inspect(st, func(m ast.Node) bool {
								if cc, ok := m.(*ast.CallExpr); ok {
									if cal := core.CalleeOf(info, cc); cal != nil && c06ReachesRoaringDecode(decls2(decls), cal, 0) {
										decodes = true
									}
								}
								return true
							})
						}
					}
				}
				if !decodes {
					r.HoldAt("R5", core.FuncName(nd.fd)+" fragment lock", p.Pos(c.Pos()), "explicit unlock, and nothing between lock and unlock decodes external bytes")
					return true
				}
			}
			construct := core.FuncName(nd.fd) + " fragment lock"
			r.Check(deferred, "R5", construct, p.Pos(c.Pos()), "released by defer", "a fragment lock taken below an entry point for external bytes is not released by defer: if decoding panics and the panic is recovered, the fragment stays locked and every later request on the shard hangs")
			return true
		})
	}
	r.Floor("C06/R5 fragment locks below the external-input entry points", nLocks, 3)
	_ = fmt.Sprint
	_ = sort.Strings
}

var c06RoaringMemo map[string]bool

// c06RoaringDecodePath: functions of package roaring reachable (static calls)
// from the entry points that take external bytes.
func c06RoaringDecodePath(rp *packages.Package) map[string]bool {
	if c06RoaringMemo != nil {
		return c06RoaringMemo
	}
	info := rp.TypesInfo
	decls := map[*types.Func]*ast.FuncDecl{}
	for _, fd := range core.AllFuncDecls(rp) {
		if o, ok := info.Defs[fd.Name].(*types.Func); ok && fd.Body != nil {
			decls[o] = fd
		}
	}
	out := map[string]bool{}
	var visit func(fn *types.Func)
	visit = func(fn *types.Func) {
		fd := decls[fn]
		if fd == nil || out[core.FuncName(fd)] {
			return
		}
		out[core.FuncName(fd)] = true
		ast.Inspect(fd.Body, func(n ast.Node) bool {
			if c, ok := n.(*ast.CallExpr); ok {
				if cal := core.CalleeOf(info, c); cal != nil {
					visit(cal)
				}
			}
			return true
		})
	}
	for fn, fd := range decls {
		switch core.FuncName(fd) {
		case "(*Bitmap).UnmarshalBinary", "(*Bitmap).ImportRoaringBits", "newRoaringIterator", "(*Bitmap).RemapRoaringStorage", "(*op).UnmarshalBinary":
			visit(fn)
		}
	}
	// iterator methods are called through the roaringIterator interface
	for fn, fd := range decls {
		if rn := core.RecvName(fd); strings.HasSuffix(rn, "RoaringIterator") {
			visit(fn)
		}
	}
	c06RoaringMemo = out
	return out
}

// frozen: goroutines that reach a decoder without their own recover
var c06RootExempt = map[string]string{
	"goroutine (*eventReceiver).listen":            "turns memberlist join/leave events into a NodeEvent that this node marshals itself before handing it to ClusterMessage: the bytes are locally produced, not received",
	"goroutine in (*API).ImportRoaring":            "forwards the request to another node through the HTTP client; no local decoding in this goroutine (the remote decodes under its own handler)",
	"goroutine in (*executor).mapperLocal":         "per-request worker started by the executor while serving an HTTP request: the query text was already parsed by API.Query",
	"goroutine in (*executor).mapper":              "remote fan-out of an already parsed query",
	"goroutine in (*cluster).followResizeInstruction": "retrieves fragments from peers during a resize; the bytes come from another pilosa node's data file, not from a client",
	"goroutine in (*Server).handleRemoteStatus":    "applies a NodeStatus that was already decoded",
	"goroutine in (*TranslateFile).replicate":      "reads the primary's translation log; LogEntry.ReadFrom returns errors and does not index raw bytes",
}

var c06IndexExempt = map[string]string{
	"madvise": "the slice is this process's own mmap of a non-empty data file (openStorage maps only when the file size is non-zero), not request bytes",
}

// c06TypeSwitches implements R6.
func c06TypeSwitches(p *core.Program, r *core.Report, rp *packages.Package) {
	info := rp.TypesInfo
	names := map[string]bool{"containerArray": true, "containerBitmap": true, "containerRun": true}
	n := 0
	for _, fd := range core.AllFuncDecls(rp) {
		if fd.Body == nil {
			continue
		}
		ast.Inspect(fd.Body, func(nd ast.Node) bool {
			sw, ok := nd.(*ast.SwitchStmt)
			if !ok || sw.Tag == nil {
				return true
			}
			usesTypes, hasDefault := false, false
			for _, c := range sw.Body.List {
				cc := c.(*ast.CaseClause)
				if cc.List == nil {
					hasDefault = true
				}
				for _, e := range cc.List {
					if id, ok := ast.Unparen(e).(*ast.Ident); ok && names[id.Name] {
						usesTypes = true
					}
				}
			}
			if !usesTypes {
				return true
			}
			// only functions that read a container type byte off the wire: byte(binary.*.Uint16(..))
			readsTypeByte := false
			ast.Inspect(fd.Body, func(m ast.Node) bool {
				if conv, ok := m.(*ast.CallExpr); ok && len(conv.Args) == 1 {
					if tv, ok := info.Types[conv.Fun]; ok && tv.IsType() {
						if bt, ok := tv.Type.Underlying().(*types.Basic); ok && bt.Kind() == types.Uint8 {
							isU16 := func(e ast.Expr) bool {
								inner, ok := ast.Unparen(e).(*ast.CallExpr)
								if !ok {
									return false
								}
								fn := core.CalleeOf(info, inner)
								return fn != nil && fn.Pkg() != nil && fn.Pkg().Path() == "encoding/binary" && fn.Name() == "Uint16"
							}
							if isU16(conv.Args[0]) {
								readsTypeByte = true
							}
							// or a local that holds such a read
							if id, ok := ast.Unparen(conv.Args[0]).(*ast.Ident); ok {
								o := info.ObjectOf(id)
								ast.Inspect(fd.Body, func(k ast.Node) bool {
									if as, ok := k.(*ast.AssignStmt); ok && len(as.Lhs) == len(as.Rhs) {
										for i, l := range as.Lhs {
											if lid, ok := ast.Unparen(l).(*ast.Ident); ok && info.ObjectOf(lid) == o && isU16(as.Rhs[i]) {
												readsTypeByte = true
											}
										}
									}
									return true
								})
							}
						}
					}
				}
				return true
			})
			if !readsTypeByte {
				return true
			}
			// raw byte from the input? i.e. the tag is a field of an iterator, a parameter, or a local — not X.typ()/X.typeID of a *Container
			raw := true
			switch t := ast.Unparen(sw.Tag).(type) {
			case *ast.CallExpr:
				if sel, ok := ast.Unparen(t.Fun).(*ast.SelectorExpr); ok && sel.Sel.Name == "typ" {
					raw = false
				}
			case *ast.SelectorExpr:
				if t.Sel.Name == "typeID" {
					raw = false
				}
			}
			// a container just filled from a header is as raw as the byte itself when the function is on the decode path
			if !raw && !c06RoaringDecodePath(rp)[core.FuncName(fd)] {
				return true
			}
			if !raw {
				// typ() of a container inside a decoder: only the ones that attach storage matter
				attaches := false
				ast.Inspect(sw, func(m ast.Node) bool {
					if c, ok := m.(*ast.CallExpr); ok {
						if fn := core.CalleeOf(info, c); fn != nil && (fn.Name() == "setRuns" || fn.Name() == "setArray" || fn.Name() == "setBitmap") {
							attaches = true
						}
					}
					return true
				})
				if !attaches {
					return true
				}
			}
			n++
			construct := core.FuncName(fd) + " switch " + types.ExprString(sw.Tag)
			r.Check(hasDefault, "R6", construct, p.Pos(sw.Pos()), "has a default case for type bytes that are none of array/bitmap/run", "a container type byte taken from external data is switched on without a default: an unknown type passes through with stale sizes or no storage and the first use of the container panics")
			return true
		})
	}
	r.Floor("C06/R6 switches on a container type byte from external data", n, 2)
}

// c06ConstIndex implements R3.
func c06ConstIndex(p *core.Program, r *core.Report, pkgs []*packages.Package) {
	nSites := 0
	for _, q := range pkgs {
		info := q.TypesInfo
		isBytes := func(t types.Type) bool {
			sl, ok := t.Underlying().(*types.Slice)
			if !ok {
				return false
			}
			b, ok := sl.Elem().Underlying().(*types.Basic)
			return ok && b.Kind() == types.Byte
		}
		// callers index
		callSites := map[*types.Func][]struct {
			fd   *ast.FuncDecl
			call *ast.CallExpr
		}{}
		for _, fd := range core.AllFuncDecls(q) {
			if fd.Body == nil {
				continue
			}
			ast.Inspect(fd.Body, func(n ast.Node) bool {
				if c, ok := n.(*ast.CallExpr); ok {
					if fn := core.CalleeOf(info, c); fn != nil {
						callSites[fn] = append(callSites[fn], struct {
							fd   *ast.FuncDecl
							call *ast.CallExpr
						}{fd, c})
					}
				}
				return true
			})
		}
		// lenTestedBefore: is there, before pos, a comparison of len(obj) that guarantees at least `need` bytes
		// on the fall-through path? `len(x) < K` / `len(x) <= K-1` / `len(x) == 0` (K=1) with a constant K >= need,
		// or a comparison against a non-constant bound (accepted: computed sizes).
		lenTestedBefore := func(fd *ast.FuncDecl, obj types.Object, pos token.Pos, need int64) bool {
			found := false
			ast.Inspect(fd.Body, func(n ast.Node) bool {
				be, ok := n.(*ast.BinaryExpr)
				if !ok || be.Pos() >= pos {
					return true
				}
				isLen := func(e ast.Expr) bool {
					// len(x) possibly wrapped in a conversion
					for {
						c, ok := ast.Unparen(e).(*ast.CallExpr)
						if !ok {
							return false
						}
						if core.BuiltinName(info, c) == "len" && len(c.Args) == 1 {
							id, ok := ast.Unparen(c.Args[0]).(*ast.Ident)
							return ok && info.ObjectOf(id) == obj
						}
						if tv, ok := info.Types[c.Fun]; ok && tv.IsType() && len(c.Args) == 1 {
							e = c.Args[0]
							continue
						}
						return false
					}
				}
				var other ast.Expr
				op := be.Op
				if isLen(be.X) {
					other = be.Y
				} else if isLen(be.Y) {
					other = be.X
					switch op {
					case token.LSS:
						op = token.GTR
					case token.GTR:
						op = token.LSS
					case token.LEQ:
						op = token.GEQ
					case token.GEQ:
						op = token.LEQ
					}
				} else {
					return true
				}
				tv, ok := info.Types[other]
				if !ok || tv.Value == nil {
					found = true // computed bound
					return true
				}
				k, _ := constant.Int64Val(tv.Value)
				guaranteed := int64(0)
				switch op {
				case token.LSS: // len < K rejected => len >= K
					guaranteed = k
				case token.LEQ:
					guaranteed = k + 1
				case token.EQL: // len == K rejected => only useful for K == 0
					if k == 0 {
						guaranteed = 1
					}
				case token.GEQ, token.GTR: // len >= K accepted branch
					guaranteed = k
					if op == token.GTR {
						guaranteed = k + 1
					}
				}
				if guaranteed >= need {
					found = true
				}
				return true
			})
			return found
		}
		for _, fd := range core.AllFuncDecls(q) {
			if fd.Body == nil {
				continue
			}
			fobj, _ := info.Defs[fd.Name].(*types.Func)
			// external byte slices: parameters, range values over .Views, ReadAll results
			ext := map[types.Object]int{} // value: param index (+1) or 0
			if fobj != nil {
				sig := fobj.Type().(*types.Signature)
				for i := 0; i < sig.Params().Len(); i++ {
					if isBytes(sig.Params().At(i).Type()) {
						ext[sig.Params().At(i)] = i + 1
					}
				}
			}
			ast.Inspect(fd.Body, func(n ast.Node) bool {
				switch x := n.(type) {
				case *ast.RangeStmt:
					if id, ok := x.Value.(*ast.Ident); ok && isBytes(info.TypeOf(id)) && strings.HasSuffix(types.ExprString(x.X), ".Views") {
						ext[info.ObjectOf(id)] = 0
					}
				case *ast.AssignStmt:
					if len(x.Rhs) == 1 {
						if c, ok := ast.Unparen(x.Rhs[0]).(*ast.CallExpr); ok {
							if fn := core.CalleeOf(info, c); fn != nil && fn.Name() == "ReadAll" {
								if id, ok := x.Lhs[0].(*ast.Ident); ok {
									ext[info.ObjectOf(id)] = 0
								}
							}
						}
					}
				}
				return true
			})
			if len(ext) == 0 {
				continue
			}
			ast.Inspect(fd.Body, func(n ast.Node) bool {
				var base ast.Expr
				var bounds []ast.Expr
				switch x := n.(type) {
				case *ast.IndexExpr:
					base, bounds = x.X, []ast.Expr{x.Index}
				case *ast.SliceExpr:
					base, bounds = x.X, []ast.Expr{x.Low, x.High}
				default:
					return true
				}
				id, ok := ast.Unparen(base).(*ast.Ident)
				if !ok {
					return true
				}
				obj := info.ObjectOf(id)
				pidx, isExt := ext[obj]
				if !isExt {
					return true
				}
				// all present bounds constant, and at least one positive requirement
				need := int64(-1)
				for _, b := range bounds {
					if b == nil {
						continue
					}
					tv, ok := info.Types[b]
					if !ok || tv.Value == nil {
						return true // variable bound: not decided here
					}
					v, _ := constant.Int64Val(tv.Value)
					if v > need {
						need = v
					}
				}
				if need < 0 {
					return true
				}
				nSites++
				construct := fmt.Sprintf("%s.%s: %s", q.Name, core.FuncName(fd), types.ExprString(n.(ast.Expr)))
				if why, ok := c06IndexExempt[core.FuncName(fd)]; ok {
					r.HoldAt("R3", construct, p.Pos(n.Pos()), "exempt: "+why)
					return true
				}
				if lenTestedBefore(fd, obj, n.Pos(), need+boolToInt(isIndex(n))) {
					r.HoldAt("R3", construct, p.Pos(n.Pos()), "length of "+id.Name+" tested earlier in the function")
					return true
				}
				// every static caller tests the length of the argument before the call
				if pidx > 0 && fobj != nil && len(callSites[fobj]) > 0 {
					all := true
					for _, cs := range callSites[fobj] {
						if pidx-1 >= len(cs.call.Args) {
							all = false
							continue
						}
						aid, ok := ast.Unparen(cs.call.Args[pidx-1]).(*ast.Ident)
						if !ok || !lenTestedBefore(cs.fd, info.ObjectOf(aid), cs.call.Pos(), need+boolToInt(isIndex(n))) {
							all = false
						}
					}
					if all {
						r.HoldAt("R3", construct, p.Pos(n.Pos()), "every caller tests the length before the call")
						return true
					}
				}
				r.Violate("R3", construct, p.Pos(n.Pos()), "an externally supplied byte slice is indexed at a constant position without a preceding length test (here or in every caller): a short payload panics instead of being rejected")
				return true
			})
		}
	}
	r.Floor("C06/R3 constant-position accesses to external byte slices", nSites, 10)
}

type c06Decl struct {
	fd   *ast.FuncDecl
	info *types.Info
}

var c06ReachMemo = map[*types.Func]int{}

// c06ReachesRoaringDecode: does fn (transitively, static calls) call one of
// package roaring's entry points for external bytes?
func c06ReachesRoaringDecode(decls map[*types.Func]c06Decl, fn *types.Func, depth int) bool {
	if fn.Pkg() != nil && fn.Pkg().Path() == roaringPath {
		switch fn.Name() {
		case "ImportRoaringBits", "UnmarshalBinary", "newRoaringIterator":
			return true
		}
	}
	if v := c06ReachMemo[fn]; v != 0 {
		return v == 1
	}
	d, ok := decls[fn]
	if !ok || depth > 6 {
		return false
	}
	c06ReachMemo[fn] = 2
	found := false
	ast.Inspect(d.fd.Body, func(n ast.Node) bool {
		if found {
			return false
		}
		if c, ok := n.(*ast.CallExpr); ok {
			if cal := core.CalleeOf(d.info, c); cal != nil && c06ReachesRoaringDecode(decls, cal, depth+1) {
				found = true
			}
		}
		return true
	})
	if found {
		c06ReachMemo[fn] = 1
	}
	return found
}

func isIndex(n ast.Node) bool { _, ok := n.(*ast.IndexExpr); return ok }

func boolToInt(b bool) int64 {
	if b {
		return 1
	}
	return 0
}

// c06Extents: R7 and R8.
func c06Extents(p *core.Program, r *core.Report) {
	rp := p.Pkg("roaring")
	if rp == nil {
		r.Undecide("R7", "package roaring", "", "not loaded")
		return
	}
	info := rp.TypesInfo
	decode := c06RoaringDecodePath(rp)
	isByteSlice := func(t types.Type) bool {
		sl, ok := t.Underlying().(*types.Slice)
		if !ok {
			return false
		}
		b, ok := sl.Elem().Underlying().(*types.Basic)
		return ok && b.Kind() == types.Uint8
	}
	// objects mentioned by an expression (identifiers and selected fields)
	objsOf := func(e ast.Expr) map[types.Object]bool {
		out := map[types.Object]bool{}
		ast.Inspect(e, func(n ast.Node) bool {
			switch x := n.(type) {
			case *ast.SelectorExpr:
				// a field is identified by the field, not by the variable holding the struct
				if sel := info.Selections[x]; sel != nil && sel.Kind() == types.FieldVal {
					out[sel.Obj()] = true
					return false
				}
			case *ast.Ident:
				if o := info.ObjectOf(x); o != nil {
					if _, isVar := o.(*types.Var); isVar {
						out[o] = true
					}
				}
			}
			return true
		})
		return out
	}
	sliceKey := func(e ast.Expr) string { return types.ExprString(ast.Unparen(e)) }
	// helpers whose body is an extent check on their own parameters
	extentHelpers := map[*types.Func]bool{}
	for _, fd := range core.AllFuncDecls(rp) {
		if fd.Body == nil || fd.Recv != nil {
			continue
		}
		fobj, _ := info.Defs[fd.Name].(*types.Func)
		if fobj == nil {
			continue
		}
		params := map[types.Object]bool{}
		var sliceParam types.Object
		for _, fld := range fd.Type.Params.List {
			for _, nm := range fld.Names {
				o := info.Defs[nm]
				params[o] = true
				if isByteSlice(o.Type()) {
					sliceParam = o
				}
			}
		}
		if sliceParam == nil {
			continue
		}
		ast.Inspect(fd.Body, func(n ast.Node) bool {
			be, ok := n.(*ast.BinaryExpr)
			if !ok {
				return true
			}
			switch be.Op {
			case token.LSS, token.LEQ, token.GTR, token.GEQ:
			default:
				return true
			}
			for _, pair := range [][2]ast.Expr{{be.X, be.Y}, {be.Y, be.X}} {
				hasLen := false
				ast.Inspect(pair[0], func(m ast.Node) bool {
					if c, ok := m.(*ast.CallExpr); ok && core.BuiltinName(info, c) == "len" && len(c.Args) == 1 {
						if id, ok := ast.Unparen(c.Args[0]).(*ast.Ident); ok && info.ObjectOf(id) == sliceParam {
							hasLen = true
						}
					}
					return true
				})
				if !hasLen {
					continue
				}
				ast.Inspect(pair[1], func(m ast.Node) bool {
					if add, ok := m.(*ast.BinaryExpr); ok && add.Op == token.ADD {
						for o := range objsOf(add) {
							if params[o] {
								extentHelpers[fobj] = true
							}
						}
					}
					return true
				})
			}
			return true
		})
	}
	nSites := 0
	for _, fd := range core.AllFuncDecls(rp) {
		if fd.Body == nil || !decode[core.FuncName(fd)] {
			continue
		}
		// input cast sites of this function
		type site struct {
			call  *ast.CallExpr
			slice string
			offs  map[types.Object]bool
			bit   flow.State
		}
		var sites []*site
		ast.Inspect(fd.Body, func(n ast.Node) bool {
			c, ok := n.(*ast.CallExpr)
			if !ok || len(c.Args) != 1 {
				return true
			}
			tv, ok := info.Types[c.Fun]
			if !ok || !tv.IsType() {
				return true
			}
			if b, ok := tv.Type.Underlying().(*types.Basic); !ok || b.Kind() != types.UnsafePointer {
				return true
			}
			ue, ok := ast.Unparen(c.Args[0]).(*ast.UnaryExpr)
			if !ok || ue.Op != token.AND {
				return true
			}
			ix, ok := ast.Unparen(ue.X).(*ast.IndexExpr)
			if !ok || !isByteSlice(info.TypeOf(ix.X)) {
				return true
			}
			if len(sites) >= 60 {
				return true
			}
			sites = append(sites, &site{call: c, slice: sliceKey(ix.X), offs: objsOf(ix.Index), bit: 1 << uint(len(sites))})
			return true
		})
		if len(sites) == 0 {
			continue
		}
		bad := map[*site]bool{}
		h := flow.Hooks{Info: info, Conversions: true}
		h.Refine = func(cond ast.Expr, taken bool, s flow.State) (flow.State, bool) {
			be, ok := ast.Unparen(cond).(*ast.BinaryExpr)
			if !ok {
				return s, true
			}
			switch be.Op {
			case token.LSS, token.LEQ, token.GTR, token.GEQ:
			default:
				return s, true
			}
			for _, pair := range [][2]ast.Expr{{be.X, be.Y}, {be.Y, be.X}} {
				// one side mentions len(<slice>)
				lenOf := ""
				ast.Inspect(pair[0], func(n ast.Node) bool {
					if c, ok := n.(*ast.CallExpr); ok && core.BuiltinName(info, c) == "len" && len(c.Args) == 1 {
						lenOf = sliceKey(c.Args[0])
					}
					return true
				})
				if lenOf == "" {
					continue
				}
				// the other side contains a sum mentioning the offset
				for _, st := range sites {
					if st.slice != lenOf {
						continue
					}
					isExtent := false
					ast.Inspect(pair[1], func(n ast.Node) bool {
						if add, ok := n.(*ast.BinaryExpr); ok && add.Op == token.ADD {
							for o := range objsOf(add) {
								if st.offs[o] {
									isExtent = true
								}
							}
						}
						return true
					})
					// the len side itself may carry the sum: len(data) < pos+n
					if !isExtent {
						continue
					}
					s |= st.bit
				}
			}
			return s, true
		}
		h.Atom = func(n ast.Node, s flow.State) []flow.State {
			if c, ok := n.(*ast.CallExpr); ok {
				for _, st := range sites {
					if st.call == c && s&st.bit == 0 {
						bad[st] = true
					}
				}
				// an extent check extracted into a helper: g(data, off, size) whose body
				// compares len(<its slice parameter>) with a sum of its other parameters
				if g := core.CalleeOf(info, c); g != nil && g.Pkg() == rp.Types && extentHelpers[g] {
					for _, st := range sites {
						passesSlice, passesOff := false, false
						for _, a := range c.Args {
							if sliceKey(a) == st.slice {
								passesSlice = true
							}
							for o := range objsOf(a) {
								if st.offs[o] {
									passesOff = true
								}
							}
						}
						if passesSlice && passesOff {
							s |= st.bit
						}
					}
				}
			}
			// an assignment to an offset variable invalidates earlier checks of it,
			// unless it only moves past a checked extent (x += ...), which the
			// next container's own check covers
			if as, ok := n.(*ast.AssignStmt); ok && as.Tok == token.ASSIGN {
				for _, l := range as.Lhs {
					for o := range objsOf(l) {
						for _, st := range sites {
							if st.offs[o] {
								s &^= st.bit
							}
						}
					}
				}
			}
			return []flow.State{s}
		}
		it := flow.Run(h, fd.Body, 0)
		for _, st := range sites {
			nSites++
			construct := core.FuncName(fd) + " cast of &" + types.ExprString(ast.Unparen(st.call.Args[0]).(*ast.UnaryExpr).X)
			switch {
			case it.Unsupported != "":
				r.Undecide("R7", construct, p.Pos(st.call.Pos()), it.Unsupported)
			case bad[st]:
				r.Violate("R7", construct, p.Pos(st.call.Pos()), "the input is reinterpreted at this offset on a path that did not compare an extent (offset + size) with len("+st.slice+"): a truncated or corrupted payload makes the index panic or the unchecked slice built from the cast read past the data")
			default:
				r.HoldAt("R7", construct, p.Pos(st.call.Pos()), "every path passed an extent check against len("+st.slice+")")
			}
		}
	}
	r.Floor("C06/R7 input casts on the decode path", nSites, 9)

	// ---- R8: narrow arithmetic in comparisons with len(data)
	nCmp := 0
	for _, fd := range core.AllFuncDecls(rp) {
		if fd.Body == nil || !decode[core.FuncName(fd)] {
			continue
		}
		ast.Inspect(fd.Body, func(n ast.Node) bool {
			be, ok := n.(*ast.BinaryExpr)
			if !ok {
				return true
			}
			switch be.Op {
			case token.LSS, token.LEQ, token.GTR, token.GEQ:
			default:
				return true
			}
			mentionsLen := false
			ast.Inspect(be, func(m ast.Node) bool {
				if c, ok := m.(*ast.CallExpr); ok && core.BuiltinName(info, c) == "len" && len(c.Args) == 1 && isByteSlice(info.TypeOf(c.Args[0])) {
					mentionsLen = true
				}
				return true
			})
			if !mentionsLen {
				return true
			}
			nCmp++
			// any product/sum inside the comparison whose type is narrower than 64 bits and that is not constant
			narrow := ""
			ast.Inspect(be, func(m ast.Node) bool {
				ar, ok := m.(*ast.BinaryExpr)
				if !ok || (ar.Op != token.MUL && ar.Op != token.ADD) {
					return true
				}
				if tv, ok := info.Types[ar]; ok && tv.Value != nil {
					return true
				}
				if b, ok := info.TypeOf(ar).Underlying().(*types.Basic); ok {
					switch b.Kind() {
					case types.Uint8, types.Uint16, types.Uint32, types.Int8, types.Int16, types.Int32:
						narrow = types.ExprString(ar) + " (" + b.Name() + ")"
					}
				}
				return true
			})
			construct := core.FuncName(fd) + " `" + types.ExprString(be) + "`"
			r.Check(narrow == "", "R8", construct, p.Pos(be.Pos()), "sizes are computed in int/64 bits", "the size "+narrow+" is computed in a narrow type from input counts: a large count wraps around, the comparison passes, and the decoder allocates or reads for the unwrapped count")
			return true
		})
	}
	r.Floor("C06/R8 size comparisons on the decode path", nCmp, 10)
}
