package props

import (
	"fmt"
	"go/ast"
	"go/constant"
	"go/token"
	"go/types"
	"sort"
	"strings"

	"verif/checker/core"

	"golang.org/x/tools/go/packages"
)

func init() { register("C05", c05) }

func opTypeConsts(rp *packages.Package) map[int64]string {
	out := map[int64]string{}
	for _, name := range rp.Types.Scope().Names() {
		if c, ok := rp.Types.Scope().Lookup(name).(*types.Const); ok && core.IsNamed(c.Type(), roaringPath, "opType") {
			v, _ := constant.Int64Val(c.Val())
			out[v] = name
		}
	}
	return out
}

// typSwitches returns the switch statements in fd whose tag has type opType.
func typSwitches(info *types.Info, fd *ast.FuncDecl) []*ast.SwitchStmt {
	var out []*ast.SwitchStmt
	ast.Inspect(fd.Body, func(n ast.Node) bool {
		if sw, ok := n.(*ast.SwitchStmt); ok && sw.Tag != nil {
			if t := info.TypeOf(sw.Tag); t != nil && core.IsNamed(t, roaringPath, "opType") {
				out = append(out, sw)
			}
		}
		return true
	})
	return out
}

func clauseVals(info *types.Info, cc *ast.CaseClause) []int64 {
	var out []int64
	for _, e := range cc.List {
		if tv, ok := info.Types[e]; ok && tv.Value != nil {
			if v, ok := constant.Int64Val(tv.Value); ok {
				out = append(out, v)
			}
		}
	}
	sort.Slice(out, func(i, j int) bool { return out[i] < out[j] })
	return out
}

func valsKey(v []int64) string {
	s := make([]string, len(v))
	for i, x := range v {
		s[i] = fmt.Sprint(x)
	}
	return strings.Join(s, ",")
}

func c05(p *core.Program, r *core.Report) {
	r.Rule("R1", "op table exhaustiveness: every switch on an op's type in package roaring (apply, WriteTo, UnmarshalBinary, size, encodeSize, count, ...) covers exactly the declared opType constants (numeric literals are folded), and every `typ == k || typ == k'` chain names exactly one of that function's switch classes")
	r.Rule("R2", "record layout agreement: per op class, the constant byte ranges and widths the writer stores through binary.LittleEndian.PutUintNN(buf[a:b], ..) equal those the reader loads with UintNN(data[a:b]); the checksum slot and its covered prefix agree; size() and encodeSize() agree on each class's fixed header size (roaring payload length added only by size())")
	r.Rule("R3", "live/replay mutator agreement: for each op type, the direct mutator the live API applies when it logs that op is the one op.apply runs on replay; replayed roaring ops pass log=false and the clear flag of their type")
	r.Rule("R4", "log what changed: a batch op's values are the mutated slice truncated by the direct mutator's own changed count; a roaring op's opN is the accumulated changed count")
	r.Rule("R5", "counter plumbing: writeOp and the replay loop both add op.count() to opN and 1 to ops per op, and Bitmap.UnmarshalBinary sets both counters to zero before the replay")
	r.Rule("R6", "the decoder accepts what the writer logs: in op.UnmarshalBinary no condition reads op.value on a path where the type can still be opTypeAdd or opTypeRemove (there the slot is a bit position and every uint64 is valid); the set of possible types is tracked through tests of op.typ and switch cases")
	r.Rule("R7", "a zero op per record: in every loop that calls op.UnmarshalBinary, the op it fills is declared inside the loop body or assigned its zero value before the call in that iteration")
	r.NotDecided = "history-dependent equivalence of snapshot+log replay with the live bitmap for all interleavings; checksum arithmetic"
	rp := p.Pkg("roaring")
	if rp == nil {
		r.Undecide("R1", "package roaring", "", "not loaded")
		return
	}
	info := rp.TypesInfo
	consts := opTypeConsts(rp)
	r.Floor("C05/R1 opType constants", len(consts), 6)
	all := map[int64]bool{}
	for v := range consts {
		all[v] = true
	}
	// ---- R1
	nSw := 0
	classesByFn := map[string]map[string]bool{}
	for _, fd := range core.AllFuncDecls(rp) {
		if fd.Body == nil {
			continue
		}
		sws := typSwitches(info, fd)
		for _, sw := range sws {
			nSw++
			covered := map[int64]bool{}
			classes := map[string]bool{}
			for _, c := range sw.Body.List {
				cc := c.(*ast.CaseClause)
				vs := clauseVals(info, cc)
				for _, v := range vs {
					covered[v] = true
				}
				if len(vs) > 0 {
					classes[valsKey(vs)] = true
				}
			}
			classesByFn[core.FuncName(fd)] = classes
			var missing, extra []string
			for v := range all {
				if !covered[v] {
					missing = append(missing, consts[v])
				}
			}
			for v := range covered {
				if !all[v] {
					extra = append(extra, fmt.Sprint(v))
				}
			}
			sort.Strings(missing)
			construct := core.FuncName(fd) + " switch on op type"
			switch {
			case len(missing) > 0:
				r.Violate("R1", construct, p.Pos(sw.Pos()), "no case for "+strings.Join(missing, ", ")+": ops of that type are mis-sized, dropped, or rejected on replay")
			case len(extra) > 0:
				r.Violate("R1", construct, p.Pos(sw.Pos()), "case value(s) "+strings.Join(extra, ", ")+" are not declared op types")
			default:
				r.HoldAt("R1", construct, p.Pos(sw.Pos()), "covers all declared op types")
			}
		}
		// == chains
		if len(sws) > 0 {
			ast.Inspect(fd.Body, func(n ast.Node) bool {
				be, ok := n.(*ast.BinaryExpr)
				if !ok || be.Op != token.LOR {
					return true
				}
				vals, ok := typEqChain(info, be)
				if !ok {
					return true
				}
				key := valsKey(vals)
				r.Check(classesByFn[core.FuncName(fd)][key], "R1", core.FuncName(fd)+" type test {"+key+"}", p.Pos(be.Pos()), "names one switch class", "the `typ ==` chain {"+key+"} does not equal any case class of this function's switch: a class member is handled by the switch but not by this test")
				return false
			})
		}
	}
	r.Floor("C05/R1 switches on op type", nSw, 6)

	// ---- R2
	c05Layout(p, r, rp)

	// ---- R3
	c05Replay(p, r, rp, consts)
	c05SingleValueFree(p, r, rp, consts)
	c05FreshOpPerRecord(p, r, rp)
	// R5, second half: the decoder starts both counters from zero
	if fd := core.FuncDecl(rp, "Bitmap", "UnmarshalBinary"); fd != nil {
		reset := map[string]bool{}
		ast.Inspect(fd.Body, func(n ast.Node) bool {
			if as, ok := n.(*ast.AssignStmt); ok && len(as.Lhs) == len(as.Rhs) {
				for i, l := range as.Lhs {
					for _, f := range []string{"opN", "ops"} {
						if _, ok := core.FieldSel(info, l, roaringPath, "Bitmap", f); ok {
							if v, ok := c04ConstInt(info, as.Rhs[i]); ok && v == 0 {
								reset[f] = true
							}
						}
					}
				}
			}
			return true
		})
		r.Check(reset["opN"] && reset["ops"], "R5", "(*Bitmap).UnmarshalBinary resets the counters", p.Pos(fd.Pos()), "opN and ops both start from zero", fmt.Sprintf("the decoder adds the replayed ops to whatever the bitmap counted before (opN reset: %v, ops reset: %v): a bitmap that is decoded again, as a fragment does when it re-reads its file, reports counters that are not those of the file", reset["opN"], reset["ops"]))
	} else {
		r.Undecide("R5", "(*Bitmap).UnmarshalBinary resets the counters", "", "not found")
	}

	// ---- R4
	for _, name := range []string{"AddN", "RemoveN"} {
		fd := core.FuncDecl(rp, "Bitmap", name)
		if fd == nil {
			r.Undecide("R4", "(*Bitmap)."+name, "", "not found")
			continue
		}
		// changed := b.Direct*N(a...) ; values: a[:changed]
		var cntObj, sliceObj types.Object
		ast.Inspect(fd.Body, func(n ast.Node) bool {
			as, ok := n.(*ast.AssignStmt)
			if !ok || len(as.Lhs) != 1 || len(as.Rhs) != 1 {
				return true
			}
			c, ok := ast.Unparen(as.Rhs[0]).(*ast.CallExpr)
			if !ok {
				return true
			}
			fn := core.CalleeOf(info, c)
			if fn == nil || !strings.HasPrefix(fn.Name(), "Direct") || len(c.Args) != 1 {
				return true
			}
			if id, ok := as.Lhs[0].(*ast.Ident); ok {
				cntObj = info.ObjectOf(id)
			}
			if id, ok := ast.Unparen(c.Args[0]).(*ast.Ident); ok {
				sliceObj = info.ObjectOf(id)
			}
			return true
		})
		okVals := false
		ast.Inspect(fd.Body, func(n ast.Node) bool {
			kv, ok := n.(*ast.KeyValueExpr)
			if !ok {
				return true
			}
			if id, ok := kv.Key.(*ast.Ident); !ok || id.Name != "values" {
				return true
			}
			if se, ok := ast.Unparen(kv.Value).(*ast.SliceExpr); ok && se.Low == nil && se.High != nil {
				b, ok1 := ast.Unparen(se.X).(*ast.Ident)
				h, ok2 := ast.Unparen(se.High).(*ast.Ident)
				if ok1 && ok2 && cntObj != nil && info.ObjectOf(b) == sliceObj && info.ObjectOf(h) == cntObj {
					okVals = true
				}
			}
			return true
		})
		r.Check(okVals, "R4", "(*Bitmap)."+name, p.Pos(fd.Pos()), "logs a[:changed] of the slice the direct mutator compacted", "the logged batch values are not the mutated slice truncated by the direct mutator's changed count: replay applies different values than the live bitmap holds")
	}
	if fd := core.FuncDecl(rp, "Bitmap", "ImportRoaringBits"); fd != nil {
		ok := false
		sig := info.Defs[fd.Name].(*types.Func).Type().(*types.Signature)
		var changedObj types.Object
		if sig.Results().Len() > 0 {
			changedObj = sig.Results().At(0)
		}
		ast.Inspect(fd.Body, func(n ast.Node) bool {
			if kv, ok2 := n.(*ast.KeyValueExpr); ok2 {
				if id, ok3 := kv.Key.(*ast.Ident); ok3 && id.Name == "opN" {
					if v, ok4 := ast.Unparen(kv.Value).(*ast.Ident); ok4 && changedObj != nil && info.ObjectOf(v) == changedObj {
						ok = true
					}
				}
			}
			return true
		})
		r.Check(ok, "R4", "(*Bitmap).ImportRoaringBits", p.Pos(fd.Pos()), "op.opN is the function's accumulated changed count", "the logged opN is not the accumulated changed count: the replayed bit-change counter differs from the live one")
	}

	// ---- R5
	for _, name := range []string{"writeOp", "unmarshalPilosaRoaring"} {
		fd := core.FuncDecl(rp, "Bitmap", name)
		if fd == nil {
			r.Undecide("R5", "(*Bitmap)."+name, "", "not found")
			continue
		}
		incOps, addCount := false, false
		ast.Inspect(fd.Body, func(n ast.Node) bool {
			switch x := n.(type) {
			case *ast.IncDecStmt:
				if _, ok := core.FieldSel(info, x.X, roaringPath, "Bitmap", "ops"); ok && x.Tok == token.INC {
					incOps = true
				}
			case *ast.AssignStmt:
				if x.Tok == token.ADD_ASSIGN && len(x.Lhs) == 1 {
					if _, ok := core.FieldSel(info, x.Lhs[0], roaringPath, "Bitmap", "opN"); ok {
						if c, ok := ast.Unparen(x.Rhs[0]).(*ast.CallExpr); ok {
							if fn := core.CalleeOf(info, c); fn != nil && fn.Name() == "count" {
								addCount = true
							}
						}
					}
				}
			}
			return true
		})
		r.Check(incOps && addCount, "R5", "(*Bitmap)."+name, p.Pos(fd.Pos()), "ops++ and opN += op.count()", "the op counters are not advanced by (1, op.count()) here: decoded counters differ from the live ones")
	}
}

// typEqChain recognises `X.typ == a || X.typ == b ...` and returns the values.
func typEqChain(info *types.Info, e ast.Expr) ([]int64, bool) {
	var out []int64
	var walk func(e ast.Expr) bool
	walk = func(e ast.Expr) bool {
		be, ok := ast.Unparen(e).(*ast.BinaryExpr)
		if !ok {
			return false
		}
		if be.Op == token.LOR {
			return walk(be.X) && walk(be.Y)
		}
		if be.Op != token.EQL {
			return false
		}
		t := info.TypeOf(be.X)
		if t == nil || !core.IsNamed(t, roaringPath, "opType") {
			return false
		}
		tv, ok := info.Types[be.Y]
		if !ok || tv.Value == nil {
			return false
		}
		v, _ := constant.Int64Val(tv.Value)
		out = append(out, v)
		return true
	}
	if !walk(e) {
		return nil, false
	}
	sort.Slice(out, func(i, j int) bool { return out[i] < out[j] })
	return out, true
}

type byteRange struct {
	lo, hi int64
	width  int
}

// c05Layout compares constant byte ranges per class between op.WriteTo and op.UnmarshalBinary.
func c05Layout(p *core.Program, r *core.Report, rp *packages.Package) {
	info := rp.TypesInfo
	wfd, rfd := core.FuncDecl(rp, "op", "WriteTo"), core.FuncDecl(rp, "op", "UnmarshalBinary")
	if wfd == nil || rfd == nil {
		r.Undecide("R2", "op.WriteTo/UnmarshalBinary", "", "not found")
		return
	}
	collect := func(fd *ast.FuncDecl, writer bool) (common map[byteRange]bool, perClass map[string]map[byteRange]bool) {
		common, perClass = map[byteRange]bool{}, map[string]map[byteRange]bool{}
		sws := typSwitches(info, fd)
		inClause := func(n ast.Node) string {
			for _, sw := range sws {
				for _, c := range sw.Body.List {
					cc := c.(*ast.CaseClause)
					if cc.Pos() <= n.Pos() && n.End() <= cc.End() {
						return valsKey(clauseVals(info, cc))
					}
				}
			}
			return ""
		}
		ast.Inspect(fd.Body, func(n ast.Node) bool {
			c, ok := n.(*ast.CallExpr)
			if !ok {
				return true
			}
			fn := core.CalleeOf(info, c)
			if fn == nil || fn.Pkg() == nil || fn.Pkg().Path() != "encoding/binary" {
				return true
			}
			width := 0
			name := fn.Name()
			if writer && strings.HasPrefix(name, "PutUint") {
				fmt.Sscanf(name, "PutUint%d", &width)
			} else if !writer && strings.HasPrefix(name, "Uint") {
				fmt.Sscanf(name, "Uint%d", &width)
			}
			if width == 0 || len(c.Args) == 0 {
				return true
			}
			se, ok := ast.Unparen(c.Args[0]).(*ast.SliceExpr)
			if !ok || se.Low == nil || se.High == nil {
				return true
			}
			lo, ok1 := info.Types[se.Low]
			hi, ok2 := info.Types[se.High]
			if !ok1 || !ok2 || lo.Value == nil || hi.Value == nil {
				return true // variable offsets: not compared
			}
			l, _ := constant.Int64Val(lo.Value)
			h, _ := constant.Int64Val(hi.Value)
			br := byteRange{l, h, width}
			if cl := inClause(c); cl != "" {
				if perClass[cl] == nil {
					perClass[cl] = map[byteRange]bool{}
				}
				perClass[cl][br] = true
			} else {
				common[br] = true
			}
			return true
		})
		return
	}
	wc, wp := collect(wfd, true)
	rc, rpc := collect(rfd, false)
	fmtSet := func(m map[byteRange]bool) string {
		var s []string
		for b := range m {
			s = append(s, fmt.Sprintf("[%d:%d]u%d", b.lo, b.hi, b.width))
		}
		sort.Strings(s)
		return strings.Join(s, " ")
	}
	eq := func(a, b map[byteRange]bool) bool {
		if len(a) != len(b) {
			return false
		}
		for k := range a {
			if !b[k] {
				return false
			}
		}
		return true
	}
	// the reader loads [1:9] for every class before the switch; the writer stores it per class.
	classes := map[string]bool{}
	for c := range wp {
		classes[c] = true
	}
	for c := range rpc {
		classes[c] = true
	}
	nCmp := 0
	for c := range classes {
		w := map[byteRange]bool{}
		for k := range wc {
			w[k] = true
		}
		for k := range wp[c] {
			w[k] = true
		}
		rd := map[byteRange]bool{}
		for k := range rc {
			rd[k] = true
		}
		for k := range rpc[c] {
			rd[k] = true
		}
		nCmp++
		r.Check(eq(w, rd), "R2", "op class {"+c+"} fixed fields", p.Pos(wfd.Pos()), "writer and reader agree: "+fmtSet(w), "writer stores "+fmtSet(w)+" but reader loads "+fmtSet(rd)+": the log record is decoded at different offsets or widths than it was written")
	}
	r.Floor("C05/R2 op classes compared", nCmp, 2)
	// size vs encodeSize
	sfd, efd := core.FuncDecl(rp, "op", "size"), core.FuncDecl(rp, "op", "encodeSize")
	if sfd == nil || efd == nil {
		r.Undecide("R2", "op.size/encodeSize", "", "not found")
		return
	}
	constPart := func(fd *ast.FuncDecl) map[string]int64 {
		out := map[string]int64{}
		for _, sw := range typSwitches(info, fd) {
			for _, c := range sw.Body.List {
				cc := c.(*ast.CaseClause)
				key := valsKey(clauseVals(info, cc))
				for _, st := range cc.Body {
					if ret, ok := st.(*ast.ReturnStmt); ok && len(ret.Results) == 1 {
						out[key] = sumConst(info, ret.Results[0])
					}
				}
			}
		}
		return out
	}
	sp, ep := constPart(sfd), constPart(efd)
	for k, v := range sp {
		r.Check(ep[k] == v, "R2", "op class {"+k+"} header size", p.Pos(sfd.Pos()), fmt.Sprintf("size() and encodeSize() agree on %d fixed bytes", v), fmt.Sprintf("size() has %d fixed bytes but encodeSize() %d: the replay loop advances by a different amount than was written", v, ep[k]))
	}
}

// sumConst sums the constant addends of an expression tree of '+'.
func sumConst(info *types.Info, e ast.Expr) int64 {
	if tv, ok := info.Types[e]; ok && tv.Value != nil {
		v, _ := constant.Int64Val(tv.Value)
		return v
	}
	if be, ok := ast.Unparen(e).(*ast.BinaryExpr); ok && be.Op == token.ADD {
		return sumConst(info, be.X) + sumConst(info, be.Y)
	}
	return 0
}

func c05Replay(p *core.Program, r *core.Report, rp *packages.Package, consts map[int64]string) {
	info := rp.TypesInfo
	afd := core.FuncDecl(rp, "op", "apply")
	if afd == nil {
		r.Undecide("R3", "op.apply", "", "not found")
		return
	}
	// replay mutator per type
	replay := map[int64]*ast.CallExpr{}
	for _, sw := range typSwitches(info, afd) {
		for _, c := range sw.Body.List {
			cc := c.(*ast.CaseClause)
			for _, v := range clauseVals(info, cc) {
				for _, st := range cc.Body {
					ast.Inspect(st, func(n ast.Node) bool {
						if call, ok := n.(*ast.CallExpr); ok {
							if fn := core.CalleeOf(info, call); fn != nil && recvNamed(fn, "Bitmap") {
								replay[v] = call
							}
						}
						return true
					})
				}
			}
		}
	}
	// live: where each op type constant is attached to an op, and the mutators called there
	type live struct {
		fd    *ast.FuncDecl
		calls map[string]bool
	}
	lives := map[int64]*live{}
	for _, fd := range core.AllFuncDecls(rp) {
		if fd.Body == nil || core.RecvName(fd) != "Bitmap" {
			continue
		}
		var here []int64
		ast.Inspect(fd.Body, func(n ast.Node) bool {
			var val ast.Expr
			switch x := n.(type) {
			case *ast.KeyValueExpr:
				if id, ok := x.Key.(*ast.Ident); ok && id.Name == "typ" {
					val = x.Value
				}
			case *ast.AssignStmt:
				if len(x.Lhs) == 1 && len(x.Rhs) == 1 {
					if sel, ok := ast.Unparen(x.Lhs[0]).(*ast.SelectorExpr); ok && sel.Sel.Name == "typ" {
						val = x.Rhs[0]
					}
				}
			}
			if val != nil {
				if tv, ok := info.Types[val]; ok && tv.Value != nil && core.IsNamed(tv.Type, roaringPath, "opType") {
					v, _ := constant.Int64Val(tv.Value)
					here = append(here, v)
				}
			}
			return true
		})
		if len(here) == 0 {
			continue
		}
		calls := map[string]bool{}
		ast.Inspect(fd.Body, func(n ast.Node) bool {
			if call, ok := n.(*ast.CallExpr); ok {
				if fn := core.CalleeOf(info, call); fn != nil && (recvNamed(fn, "Bitmap") || recvNamed(fn, "op")) {
					calls[fn.Name()] = true
				}
			}
			return true
		})
		for _, v := range here {
			lives[v] = &live{fd, calls}
		}
	}
	var vals []int64
	for v := range consts {
		vals = append(vals, v)
	}
	sort.Slice(vals, func(i, j int) bool { return vals[i] < vals[j] })
	for _, v := range vals {
		construct := "op type " + consts[v]
		rc, lv := replay[v], lives[v]
		if rc == nil {
			r.Violate("R3", construct, p.Pos(afd.Pos()), "op.apply runs no Bitmap mutator for this type")
			continue
		}
		if lv == nil {
			r.Violate("R3", construct, "", "no live Bitmap method logs this op type: replay of such an op has no live counterpart")
			continue
		}
		rname := core.CalleeOf(info, rc).Name()
		// the live function either is the replay mutator itself (roaring ops), calls it, or calls op.apply
		okLive := lv.fd.Name.Name == rname || lv.calls[rname] || lv.calls["apply"]
		detail := "live " + core.FuncName(lv.fd) + " and replay both use " + rname
		bad := "live " + core.FuncName(lv.fd) + " does not apply " + rname + ", which is what replay runs for this type: the reopened bitmap differs from the live one"
		if okLive && rname == "ImportRoaringBits" {
			// argument discipline on replay: (data, clear, log=false, rowSize)
			sig := core.CalleeOf(info, rc).Type().(*types.Signature)
			for i := 0; i < sig.Params().Len() && i < len(rc.Args); i++ {
				tv := info.Types[rc.Args[i]]
				switch sig.Params().At(i).Name() {
				case "log":
					if tv.Value == nil || constant.BoolVal(tv.Value) {
						okLive, bad = false, "replay passes log != false: every replayed roaring op is appended to the log again"
					}
				case "clear":
					wantClear := strings.Contains(consts[v], "Remove")
					if tv.Value == nil || constant.BoolVal(tv.Value) != wantClear {
						okLive, bad = false, fmt.Sprintf("replay passes clear=%v for %s", !wantClear, consts[v])
					}
				}
			}
		}
		r.Check(okLive, "R3", construct, p.Pos(rc.Pos()), detail, bad)
	}
}
