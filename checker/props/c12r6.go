package props

import (
	"go/ast"
	"go/types"
	"strings"

	"golang.org/x/tools/go/packages"

	"verif/checker/core"
	"verif/checker/flow"
)

// c12NoStaleEntry: rule R6. Add/BulkAdd is how the fragment tells the cache a
// row's new count. Whatever the cache decides to do with it, the count it
// held for that row before is no longer true: every path must store the new
// count under the id, delete the id's entry, or delegate to a sibling
// Add/BulkAdd (of the same object or of a wrapped cache).
func c12NoStaleEntry(p *core.Program, r *core.Report, pk *packages.Package, tn *types.TypeName, fd *ast.FuncDecl) {
	info := pk.TypesInfo
	construct := core.FuncName(fd) + ": every path replaces or drops the row's previous count"
	st, _ := tn.Type().Underlying().(*types.Struct)
	// map-typed fields keyed by row id are the per-row state
	stateFields := map[string]bool{}
	if st != nil {
		for i := 0; i < st.NumFields(); i++ {
			if _, ok := st.Field(i).Type().Underlying().(*types.Map); ok {
				stateFields[st.Field(i).Name()] = true
			}
		}
	}
	if len(stateFields) == 0 {
		r.HoldAt("R6", construct, p.Pos(fd.Pos()), "the type keeps no per-row state")
		return
	}
	var idObj types.Object
	k := 0
	for _, f := range fd.Type.Params.List {
		for _, nm := range f.Names {
			if k == 0 {
				idObj = info.ObjectOf(nm)
			}
			k++
		}
	}
	if idObj == nil {
		r.Undecide("R6", construct, p.Pos(fd.Pos()), "row id parameter unnamed")
		return
	}
	isID := func(e ast.Expr) bool {
		id, ok := ast.Unparen(e).(*ast.Ident)
		return ok && info.ObjectOf(id) == idObj
	}
	isState := func(e ast.Expr) bool {
		sel, ok := ast.Unparen(e).(*ast.SelectorExpr)
		if !ok || !stateFields[sel.Sel.Name] {
			return false
		}
		s, ok := info.Selections[sel]
		return ok && s.Kind() == types.FieldVal && core.NamedOf(s.Recv()) != nil && core.NamedOf(s.Recv()).Obj() == tn
	}
	const bDone flow.State = 1
	var bad []string
	h := flow.Hooks{Info: info}
	h.Atom = func(n ast.Node, s flow.State) []flow.State {
		switch x := n.(type) {
		case *ast.AssignStmt:
			for _, l := range x.Lhs {
				if ix, ok := ast.Unparen(l).(*ast.IndexExpr); ok && isState(ix.X) && isID(ix.Index) {
					s |= bDone
				}
			}
		case *ast.CallExpr:
			if core.BuiltinName(info, x) == "delete" && len(x.Args) == 2 && isState(x.Args[0]) && isID(x.Args[1]) {
				s |= bDone
			}
			if fn := core.CalleeOf(info, x); fn != nil && (fn.Name() == "Add" || fn.Name() == "BulkAdd") && len(x.Args) >= 1 && isID(x.Args[0]) {
				s |= bDone
			}
		}
		return []flow.State{s}
	}
	h.Return = func(ret *ast.ReturnStmt, s flow.State) {
		if s&bDone == 0 {
			pos := p.Pos(fd.End())
			if ret != nil {
				pos = p.Pos(ret.Pos())
			}
			bad = append(bad, pos)
		}
	}
	it := flow.Run(h, fd.Body, 0)
	switch {
	case it.Unsupported != "":
		r.Undecide("R6", construct, p.Pos(fd.Pos()), it.Unsupported)
	case len(bad) > 0:
		bad = dedupe(bad)
		r.Violate("R6", construct, p.Pos(fd.Pos()), "returns at "+strings.Join(bad, ", ")+" without storing the new count or dropping the row's entry: a row that shrank to a count the cache does not admit keeps its old, larger count, and TopN with explicit ids reports it")
	default:
		r.HoldAt("R6", construct, p.Pos(fd.Pos()), "every path stores the count under the id, deletes the id's entry or delegates to a sibling Add")
	}
}

// c12ThresholdRecomputed: rule R7. The admission threshold is a function of
// the current ranking; recalculate must assign it on every path.
func c12ThresholdRecomputed(p *core.Program, r *core.Report, pk *packages.Package) {
	info := pk.TypesInfo
	fd := core.FuncDecl(pk, "rankCache", "recalculate")
	construct := "(*rankCache).recalculate: threshold recomputed on every path"
	if fd == nil {
		r.Undecide("R7", construct, "", "not found")
		return
	}
	const bSet flow.State = 1
	var bad []string
	h := flow.Hooks{Info: info}
	h.Atom = func(n ast.Node, s flow.State) []flow.State {
		if as, ok := n.(*ast.AssignStmt); ok {
			for _, l := range as.Lhs {
				if _, ok := core.FieldSel(info, l, core.ModPath, "rankCache", "thresholdValue"); ok {
					s |= bSet
				}
			}
		}
		return []flow.State{s}
	}
	h.Return = func(ret *ast.ReturnStmt, s flow.State) {
		if s&bSet == 0 {
			pos := p.Pos(fd.End())
			if ret != nil {
				pos = p.Pos(ret.Pos())
			}
			bad = append(bad, pos)
		}
	}
	it := flow.Run(h, fd.Body, 0)
	switch {
	case it.Unsupported != "":
		r.Undecide("R7", construct, p.Pos(fd.Pos()), it.Unsupported)
	case len(bad) > 0:
		bad = dedupe(bad)
		r.Violate("R7", construct, p.Pos(fd.Pos()), "returns at "+strings.Join(bad, ", ")+" without assigning thresholdValue: the admission threshold of an earlier, fuller ranking stays in force, so rows below it are refused although the cache has room, and a freshly recalculated cache misses non-empty rows")
	default:
		r.HoldAt("R7", construct, p.Pos(fd.Pos()), "thresholdValue is assigned on every path")
	}
}
