package props

import (
	"go/ast"
	"go/types"
	"strings"

	"verif/checker/core"
)

func init() { register("C30", c30) }

func c30(p *core.Program, r *core.Report) {
	r.Rule("R1", "one codec, one column order: API.ExportCSV writes records only through encoding/csv.Writer.Write as {row, column} (the row text derived from the row id or its key, the column text from the column id or its key) and checks the writer's Error() after Flush; the import command reads only through encoding/csv.Reader and takes the row from record[0] and the column from record[1]; the key-or-id choice on both sides comes from the same schema options (field keys for rows, index keys for columns)")
	r.Rule("R2", "every parsed record is buffered: in each record-reading loop of the import command, once a field of the loop's Bit/FieldValue was assigned, the iteration appends that value to a buffer or leaves the function")
	c30EveryRecordBuffered(p, r)
	r.NotDecided = "the round trip itself for generated contents (bits and keys after export followed by import)"
	pk, ctl := p.Pkg(""), p.Pkg("ctl")
	if pk == nil || ctl == nil {
		r.Undecide("R1", "packages pilosa/ctl", "", "not loaded")
		return
	}
	info := pk.TypesInfo
	fd := core.FuncDecl(pk, "API", "ExportCSV")
	if fd == nil {
		r.Undecide("R1", "(*API).ExportCSV", "", "not found")
		return
	}
	// the per-bit closure: func(rowID, columnID uint64) error
	var lit *ast.FuncLit
	ast.Inspect(fd.Body, func(n ast.Node) bool {
		if fl, ok := n.(*ast.FuncLit); ok && lit == nil && fl.Type.Params.NumFields() == 2 {
			lit = fl
		}
		return true
	})
	var writes []*ast.CallExpr
	otherOutput := false
	ast.Inspect(fd.Body, func(n ast.Node) bool {
		c, ok := n.(*ast.CallExpr)
		if !ok {
			return true
		}
		fn := core.CalleeOf(info, c)
		if fn == nil || fn.Pkg() == nil {
			return true
		}
		if fn.Pkg().Path() == "encoding/csv" && fn.Name() == "Write" {
			writes = append(writes, c)
		}
		if fn.Pkg().Path() == "fmt" && strings.HasPrefix(fn.Name(), "Fprint") {
			otherOutput = true
		}
		if fn.Name() == "Write" && fn.Pkg().Path() == "io" {
			otherOutput = true
		}
		return true
	})
	okShape := false
	if lit != nil && len(writes) == 1 && !otherOutput {
		var params []types.Object
		for _, f := range lit.Type.Params.List {
			for _, nm := range f.Names {
				params = append(params, info.ObjectOf(nm))
			}
		}
		if cl, ok := ast.Unparen(writes[0].Args[0]).(*ast.CompositeLit); ok && len(cl.Elts) == 2 && len(params) == 2 {
			derives := func(e ast.Expr, from types.Object) bool {
				id, ok := ast.Unparen(e).(*ast.Ident)
				if !ok {
					return false
				}
				obj := info.ObjectOf(id)
				n, good := 0, 0
				ast.Inspect(lit.Body, func(m ast.Node) bool {
					as, ok := m.(*ast.AssignStmt)
					if !ok {
						return true
					}
					for i, l := range as.Lhs {
						if lid, ok := l.(*ast.Ident); ok && info.ObjectOf(lid) == obj {
							n++
							rhs := as.Rhs[0]
							if len(as.Rhs) == len(as.Lhs) {
								rhs = as.Rhs[i]
							}
							uses := false
							ast.Inspect(rhs, func(q ast.Node) bool {
								if qid, ok := q.(*ast.Ident); ok && info.ObjectOf(qid) == from {
									uses = true
								}
								return true
							})
							if uses {
								good++
							}
						}
					}
					return true
				})
				return n > 0 && n == good
			}
			okShape = derives(cl.Elts[0], params[0]) && derives(cl.Elts[1], params[1])
		}
	}
	r.Check(okShape, "R1", "(*API).ExportCSV record", p.Pos(fd.Pos()), "records are {row, column} written through csv.Writer.Write only", "the export no longer writes each bit as a {row text, column text} record through encoding/csv (or the two texts are not derived from the row and the column respectively): the import command reads record[0] as the row and record[1] as the column")
	// key-or-id choice
	usesFieldKeys, usesIndexKeys := false, false
	if lit != nil {
		ast.Inspect(lit.Body, func(n ast.Node) bool {
			if c, ok := n.(*ast.CallExpr); ok {
				if fn := core.CalleeOf(info, c); fn != nil {
					if fn.Name() == "keys" && recvNamed(fn, "Field") {
						usesFieldKeys = true
					}
					if fn.Name() == "Keys" && recvNamed(fn, "Index") {
						usesIndexKeys = true
					}
				}
			}
			return true
		})
	}
	r.Check(usesFieldKeys && usesIndexKeys, "R1", "(*API).ExportCSV key choice", p.Pos(fd.Pos()), "rows use keys iff the field has keys, columns iff the index has keys", "the export's key-or-id choice no longer follows the field's (rows) and the index's (columns) key options")
	// flush then Error()
	isFlush := func(n ast.Node) bool {
		c, ok := n.(*ast.CallExpr)
		if !ok {
			return false
		}
		fn := core.CalleeOf(info, c)
		return fn != nil && fn.Pkg() != nil && fn.Pkg().Path() == "encoding/csv" && fn.Name() == "Flush"
	}
	isError := func(n ast.Node) bool {
		c, ok := n.(*ast.CallExpr)
		if !ok {
			return false
		}
		fn := core.CalleeOf(info, c)
		return fn != nil && fn.Pkg() != nil && fn.Pkg().Path() == "encoding/csv" && fn.Name() == "Error"
	}
	res := runPathRule(pathRuleSpec{info: info, fd: fd, trigger: isFlush, required: []func(ast.Node) bool{isError}})
	switch {
	case !res.triggered:
		r.Violate("R1", "(*API).ExportCSV flush", p.Pos(fd.Pos()), "the CSV writer is never flushed: buffered rows are lost")
	case res.unsupported != "":
		r.Undecide("R1", "(*API).ExportCSV flush", p.Pos(fd.Pos()), res.unsupported)
	case len(res.missing) > 0:
		r.Violate("R1", "(*API).ExportCSV flush", p.Pos(res.witnessPos.Pos()), "csv.Writer.Flush is not followed by a check of Error(): a failed write is reported as a successful export and the importer receives a truncated file")
	default:
		r.HoldAt("R1", "(*API).ExportCSV flush", p.Pos(fd.Pos()), "Error() checked after Flush on every normal path")
	}

	// ---- import side
	cinfo := ctl.TypesInfo
	bfd := core.FuncDecl(ctl, "ImportCommand", "bufferBits")
	if bfd == nil {
		r.Undecide("R1", "(*ImportCommand).bufferBits", "", "not found")
		return
	}
	readsCSV, splits := false, false
	colOK, rowOK := map[string]bool{}, map[string]bool{}
	ast.Inspect(bfd.Body, func(n ast.Node) bool {
		switch x := n.(type) {
		case *ast.CallExpr:
			if fn := core.CalleeOf(cinfo, x); fn != nil && fn.Pkg() != nil {
				if fn.Pkg().Path() == "encoding/csv" && fn.Name() == "Read" {
					readsCSV = true
				}
				if fn.Pkg().Path() == "strings" && strings.HasPrefix(fn.Name(), "Split") {
					splits = true
				}
			}
		case *ast.AssignStmt:
			for i, l := range x.Lhs {
				sel, ok := ast.Unparen(l).(*ast.SelectorExpr)
				if !ok {
					continue
				}
				rhs := x.Rhs[0]
				if len(x.Rhs) == len(x.Lhs) {
					rhs = x.Rhs[i]
				}
				txt := types.ExprString(rhs)
				switch sel.Sel.Name {
				case "RowID", "RowKey":
					rowOK[sel.Sel.Name] = strings.Contains(txt, "record[0]")
				case "ColumnID", "ColumnKey":
					colOK[sel.Sel.Name] = strings.Contains(txt, "record[1]")
				}
			}
		}
		return true
	})
	r.Check(readsCSV && !splits, "R1", "(*ImportCommand).bufferBits reader", p.Pos(bfd.Pos()), "reads records through encoding/csv.Reader", "the import no longer parses records with encoding/csv (quoting of keys containing commas or quotes is lost)")
	r.Check(rowOK["RowID"] && rowOK["RowKey"] && colOK["ColumnID"] && colOK["ColumnKey"], "R1", "(*ImportCommand).bufferBits columns", p.Pos(bfd.Pos()), "row from record[0], column from record[1]", "the import takes the row or the column from a different CSV column than the export writes it to")
	// key choice from schema options
	if rfd := core.FuncDecl(ctl, "ImportCommand", "Run"); rfd != nil {
		okC, okR := false, false
		ast.Inspect(rfd.Body, func(n ast.Node) bool {
			if as, ok := n.(*ast.AssignStmt); ok && len(as.Lhs) == 1 && len(as.Rhs) == 1 {
				if id, ok := as.Lhs[0].(*ast.Ident); ok {
					txt := types.ExprString(as.Rhs[0])
					if id.Name == "useColumnKeys" && strings.HasPrefix(txt, "index.") && strings.HasSuffix(txt, "Options.Keys") {
						okC = true
					}
					if id.Name == "useRowKeys" && strings.HasPrefix(txt, "field.") && strings.HasSuffix(txt, "Options.Keys") {
						okR = true
					}
				}
			}
			return true
		})
		r.Check(okC && okR, "R1", "(*ImportCommand).Run key choice", p.Pos(rfd.Pos()), "column keys follow the index option, row keys the field option", "the import's key-or-id choice is no longer taken from the index (columns) and field (rows) key options")
	} else {
		r.Undecide("R1", "(*ImportCommand).Run", "", "not found")
	}
}
