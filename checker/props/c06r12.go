package props

import (
	"fmt"
	"go/ast"
	"go/token"
	"go/types"
	"strings"

	"verif/checker/core"
)

// c06IndexSumsCannotWrap: R12. The generated wire decoders (package internal)
// advance an int index by lengths read from the input. A length close to
// MaxInt64 makes `index + length` wrap negative; a negative sum passes the
// `> len(data)` test, and the slice or index expression that follows panics.
// Every such sum is therefore tested `< 0` (with a returning body) before it
// is used: right after `postIndex := iNdEx + n`, and right before
// `if (iNdEx + skippy) > l`.
func c06IndexSumsCannotWrap(p *core.Program, r *core.Report) {
	pk := p.Pkg("internal")
	if pk == nil {
		r.Undecide("R12", "package internal", "", "not loaded")
		return
	}
	info := pk.TypesInfo
	isInt := func(e ast.Expr) bool {
		tv, ok := info.Types[e]
		if !ok {
			return false
		}
		b, ok := tv.Type.Underlying().(*types.Basic)
		return ok && b.Kind() == types.Int
	}
	returns := func(b *ast.BlockStmt) bool {
		if len(b.List) == 0 {
			return false
		}
		_, ok := b.List[len(b.List)-1].(*ast.ReturnStmt)
		return ok
	}
	// `<e> < 0` with a returning body, e rendered as text
	negTest := func(st ast.Stmt) (string, bool) {
		is, ok := st.(*ast.IfStmt)
		if !ok || is.Init != nil || !returns(is.Body) {
			return "", false
		}
		be, ok := ast.Unparen(is.Cond).(*ast.BinaryExpr)
		if !ok || be.Op != token.LSS {
			return "", false
		}
		if v, ok := c04ConstInt(info, be.Y); !ok || v != 0 {
			return "", false
		}
		return types.ExprString(ast.Unparen(be.X)), true
	}
	nDef, nCmp := 0, 0
	for _, fd := range core.AllFuncDecls(pk) {
		if fd.Body == nil || fd.Recv == nil || fd.Name.Name != "Unmarshal" || strings.HasSuffix(p.Fset.Position(fd.Pos()).Filename, "_test.go") {
			continue
		}
		var bad []string
		nd, nc := 0, 0
		var walk func(list []ast.Stmt)
		walk = func(list []ast.Stmt) {
			for i, st := range list {
				switch x := st.(type) {
				case *ast.AssignStmt:
					// v := a + b over ints, later used as a slice bound
					if x.Tok == token.DEFINE && len(x.Lhs) == 1 && len(x.Rhs) == 1 {
						id, _ := x.Lhs[0].(*ast.Ident)
						be, _ := ast.Unparen(x.Rhs[0]).(*ast.BinaryExpr)
						if id != nil && be != nil && be.Op == token.ADD && isInt(be) {
							if _, isConst := c04ConstInt(info, be.Y); !isConst {
								nd++
								ok := false
								for _, nx := range list[i+1:] {
									if e, isNeg := negTest(nx); isNeg && e == id.Name {
										ok = true
										break
									}
									// a use of the sum other than in a comparison ends the search
									used := false
									ast.Inspect(nx, func(m ast.Node) bool {
										switch y := m.(type) {
										case *ast.SliceExpr, *ast.IndexExpr:
											ast.Inspect(y, func(k ast.Node) bool {
												if kid, ok := k.(*ast.Ident); ok && info.Uses[kid] == info.Defs[id] {
													used = true
												}
												return true
											})
										case *ast.AssignStmt:
											for _, rh := range y.Rhs {
												if kid, ok := ast.Unparen(rh).(*ast.Ident); ok && info.Uses[kid] == info.Defs[id] {
													used = true
												}
											}
										}
										return true
									})
									if used {
										break
									}
								}
								if !ok {
									bad = append(bad, fmt.Sprintf("%s := %s at %s is used without a `< 0` test", id.Name, types.ExprString(be), p.Pos(x.Pos())))
								}
							}
						}
					}
				case *ast.IfStmt:
					// if (a + b) > l { return }: needs the `< 0` twin right before
					if be, ok := ast.Unparen(x.Cond).(*ast.BinaryExpr); ok && be.Op == token.GTR && x.Init == nil {
						sum, ok := ast.Unparen(be.X).(*ast.BinaryExpr)
						if ok {
							// index + constant cannot wrap: the index is within the buffer
							_, c1 := c04ConstInt(info, sum.X)
							_, c2 := c04ConstInt(info, sum.Y)
							ok = !c1 && !c2
						}
						if ok && sum.Op == token.ADD && isInt(sum) {
							nc++
							ok := false
							want := types.ExprString(sum)
							for j := i - 1; j >= 0 && j >= i-2; j-- {
								if e, isNeg := negTest(list[j]); isNeg && e == want {
									ok = true
								}
							}
							if !ok {
								bad = append(bad, fmt.Sprintf("`%s > %s` at %s has no `< 0` test in front of it", want, types.ExprString(be.Y), p.Pos(x.Pos())))
							}
						}
					}
				}
				// nested blocks
				switch x := st.(type) {
				case *ast.BlockStmt:
					walk(x.List)
				case *ast.IfStmt:
					walk(x.Body.List)
					if x.Else != nil {
						walk([]ast.Stmt{x.Else})
					}
				case *ast.ForStmt:
					walk(x.Body.List)
				case *ast.RangeStmt:
					walk(x.Body.List)
				case *ast.SwitchStmt:
					for _, c := range x.Body.List {
						walk(c.(*ast.CaseClause).Body)
					}
				case *ast.LabeledStmt:
					walk([]ast.Stmt{x.Stmt})
				}
			}
		}
		walk(fd.Body.List)
		if nd+nc == 0 {
			continue
		}
		nDef += nd
		nCmp += nc
		construct := core.FuncName(fd) + ": index sums are tested for wrap-around"
		if len(bad) > 0 {
			extra := ""
			if len(bad) > 3 {
				extra = fmt.Sprintf(" (and %d more)", len(bad)-3)
				bad = bad[:3]
			}
			r.Violate("R12", construct, p.Pos(fd.Pos()), strings.Join(bad, "; ")+extra+": a length varint near MaxInt64 wraps the sum negative, the `> l` test passes and the slice/index expression panics (gossip delivers cluster messages with no recover)")
		} else {
			r.HoldAt("R12", construct, p.Pos(fd.Pos()), fmt.Sprintf("%d end-index definitions and %d skip comparisons guarded", nd, nc))
		}
	}
	r.Floor("C06/R12 end-index definitions in generated decoders", nDef, 100)
	r.Floor("C06/R12 skip comparisons in generated decoders", nCmp, 50)
}
