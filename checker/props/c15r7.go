package props

import (
	"go/ast"
	"go/types"
	"strings"

	"verif/checker/core"
	"verif/checker/flow"
)

// c15EveryShardIsEvaluated: R7. A call is evaluated shard by shard through a
// map function handed to executor.mapReduce; the reduce step knows nothing
// about shards that were skipped. The set-algebra result (and Store's
// "replace the row") needs every shard of the request evaluated: a map
// function literal returns without an error only after it called a per-shard
// evaluator of the executor (a method whose name ends in "Shard").
func c15EveryShardIsEvaluated(p *core.Program, r *core.Report) {
	pk := p.Pkg("")
	if pk == nil {
		r.Undecide("R7", "package pilosa", "", "not loaded")
		return
	}
	info := pk.TypesInfo
	n := 0
	for _, fd := range core.AllFuncDecls(pk) {
		if fd.Body == nil || core.RecvName(fd) != "executor" || strings.HasSuffix(p.Fset.Position(fd.Pos()).Filename, "_test.go") {
			continue
		}
		// map functions: literals func(shard uint64) (interface{}, error) assigned to a variable that is passed to mapReduce
		passed := map[types.Object]bool{}
		ast.Inspect(fd.Body, func(m ast.Node) bool {
			c, ok := m.(*ast.CallExpr)
			if !ok {
				return true
			}
			fn := core.CalleeOf(info, c)
			if fn == nil || fn.Name() != "mapReduce" || !recvNamed(fn, "executor") {
				return true
			}
			for _, a := range c.Args {
				if id, ok := ast.Unparen(a).(*ast.Ident); ok {
					passed[info.ObjectOf(id)] = true
				}
			}
			return true
		})
		ast.Inspect(fd.Body, func(m ast.Node) bool {
			as, ok := m.(*ast.AssignStmt)
			if !ok || len(as.Lhs) != 1 || len(as.Rhs) != 1 {
				return true
			}
			id, ok := as.Lhs[0].(*ast.Ident)
			lit, ok2 := ast.Unparen(as.Rhs[0]).(*ast.FuncLit)
			if !ok || !ok2 || !passed[info.ObjectOf(id)] {
				return true
			}
			sig, _ := info.TypeOf(lit).(*types.Signature)
			if sig == nil || sig.Params().Len() != 1 || sig.Results().Len() != 2 {
				return true // the reduce function
			}
			// a map function that evaluates per shard at all
			calls := false
			isShardEval := func(c *ast.CallExpr) bool {
				fn := core.CalleeOf(info, c)
				return fn != nil && recvNamed(fn, "executor") && strings.HasSuffix(fn.Name(), "Shard")
			}
			ast.Inspect(lit.Body, func(k ast.Node) bool {
				if c, ok := k.(*ast.CallExpr); ok && isShardEval(c) {
					calls = true
				}
				return true
			})
			if !calls {
				return true
			}
			n++
			const bEval flow.State = 1
			var bad []string
			h := flow.Hooks{Info: info}
			h.Atom = func(nd ast.Node, s flow.State) []flow.State {
				if c, ok := nd.(*ast.CallExpr); ok && isShardEval(c) {
					s |= bEval
				}
				return []flow.State{s}
			}
			h.Return = func(ret *ast.ReturnStmt, s flow.State) {
				if s&bEval != 0 || ret == nil || len(ret.Results) != 2 {
					return
				}
				if tv, ok := info.Types[ret.Results[1]]; ok && tv.IsNil() {
					bad = append(bad, p.Pos(ret.Pos()))
				}
			}
			it := flow.Run(h, lit.Body, 0)
			construct := core.FuncName(fd) + ": the map function evaluates every shard it is given"
			switch {
			case it.Unsupported != "":
				r.Undecide("R7", construct, p.Pos(lit.Pos()), it.Unsupported)
			case len(bad) > 0:
				r.Violate("R7", construct, p.Pos(lit.Pos()), "the per-shard map function returns without an error at "+strings.Join(dedupe(bad), ", ")+" before calling the shard evaluator: that shard contributes nothing (for Store: its destination row keeps the old columns, or source columns the skip test did not foresee are lost)")
			default:
				r.HoldAt("R7", construct, p.Pos(lit.Pos()), "every error-free return follows the per-shard evaluation")
			}
			return true
		})
	}
	r.Floor("C15/R7 per-shard map functions", n, 12)
}
