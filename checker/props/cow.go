package props

import (
	"fmt"
	"go/ast"
	"go/token"
	"go/types"
	"sort"
	"strings"

	"golang.org/x/tools/go/packages"

	"verif/checker/core"
	"verif/checker/flow"
)

// Copy-on-write typestate analysis for package roaring.
//
// Containers are shared between bitmaps under a copy-on-write protocol:
//
//   - a container's payload (the array/bitmap/run slice) may be written only
//     while the container is *private*: freshly built, cloned, or returned by
//     Thaw()/unmapOrClone();
//   - its header (n, type, payload pointer, flags) may be written only while it
//     is *unfrozen*: private, or on the false branch of c.frozen();
//   - a container may be placed into a bitmap only when it is *shareable*:
//     private, frozen by Freeze(), or loaded from that same bitmap.
//
// Every function and function literal of the package is interpreted with the
// flow engine. Per container variable and per payload slice variable the state
// holds four bits
//
//	P private   U unfrozen (P => U)   Z shareable (P => Z)
//	O the variable still holds (something derived from) a parameter's entry value
//
// and a package-wide fixpoint derives
//
//	req[F]/reqU[F]  parameters through which F writes payload/header without
//	                establishing P/U itself: the obligation moves to F's callers
//	ret[F]          per result, what is guaranteed (p,u,z), what holds if the
//	                arguments it may return have it (pa,ua,za), and which
//	                parameters it may return
//
// A write through a value that is neither in the required state nor derived
// from an untouched parameter is a violation at that site; so is a call that
// passes such a value to a parameter with a requirement.

type cowClass struct {
	p, u, z bool
	params  map[int]bool
}

type cowRet struct {
	set        bool
	p, u, z    bool
	pa, ua, za bool
	params     map[int]bool
}

type cowWitness struct {
	pos  token.Pos
	what string
}

type cowUnit struct {
	name    string
	decl    *ast.FuncDecl // nil for literals
	lit     *ast.FuncLit
	body    *ast.BlockStmt
	ftype   *ast.FuncType
	recv    *ast.FieldList
	obj     *types.Func
	params  map[types.Object]int
	vars    map[types.Object]int
	nvars   int
	req     map[int]cowWitness
	reqU    map[int]cowWitness
	rets    []cowRet
	link    map[types.Object]map[int]bool
	nilDecl []types.Object
	exempt  bool
	unsup   string
	origin  map[types.Object]map[types.Object]bool
	named   []types.Object
	// construction: containers loaded from the bitmap being decoded are
	// unfrozen (see cowUnderConstruction)
	construction bool
	// sites checked in the final pass
	nWrite, nHeader, nShare, nCallReq int
}

type cowViolation struct {
	unit *cowUnit
	pos  token.Pos
	rule string // "write" or "share"
	what string
}

type cowAnalysis struct {
	pk      *packages.Package
	info    *types.Info
	units   []*cowUnit
	byObj   map[*types.Func]*cowUnit
	byLit   map[*ast.FuncLit]*cowUnit
	related map[types.Object]bool
	changed bool
	viol    map[string]cowViolation
	final   bool
	// statistics (final pass)
	nWrites, nHeader, nShares, nCalls int
}

// trusted protocol primitives (container_stash.go and the constructors), by
// core.FuncName, with the reason.
var cowReturnsPrivate = map[string]string{
	"(*Container).Thaw":         "the container itself if neither frozen nor mapped, otherwise unmapped in place or a clone",
	"(*Container).unmapOrClone": "clone if frozen, otherwise unmapped in place",
	"(*Container).Clone":        "deep copy",
	"NewContainer":              "fresh",
	"NewContainerArrayCopy":     "fresh, copies its argument",
	"NewContainerRunCopy":       "fresh, copies its argument",
	"(*Container).UpdateOrMake": "fresh or thawed",
	"NewContainerBitmapN":       "fresh header; the adopted payload is checked at the call",
	"NewContainerBitmap":        "fresh header; the adopted payload is checked at the call",
	"NewContainerArray":         "fresh header; the adopted payload is checked at the call",
	"NewContainerArrayN":        "fresh header; the adopted payload is checked at the call",
	"NewContainerRun":           "fresh header; the adopted payload is checked at the call",
	"NewContainerRunN":          "fresh header; the adopted payload is checked at the call",
}

// constructors that adopt their slice argument (index) as the payload
var cowAdopts = map[string]int{
	"NewContainerBitmapN": 0, "NewContainerBitmap": 1, "NewContainerArray": 0, "NewContainerArrayN": 0, "NewContainerRun": 0, "NewContainerRunN": 0,
}

// header setters: the receiver must be unfrozen
var cowSetters = map[string]bool{
	"(*Container).setN": true, "(*Container).setTyp": true, "(*Container).setMapped": true,
	"(*Container).setArray": true, "(*Container).setArrayMaybeCopy": true, "(*Container).setBitmap": true,
	"(*Container).setRuns": true, "(*Container).setRunsMaybeCopy": true, "(*Container).Update": true,
}

// setters that adopt their slice argument as payload
var cowSetterAdopts = map[string]bool{
	"(*Container).setArray": true, "(*Container).setArrayMaybeCopy": true, "(*Container).setBitmap": true,
	"(*Container).setRuns": true, "(*Container).setRunsMaybeCopy": true,
}

var cowAccessors = map[string]bool{"(*Container).array": true, "(*Container).runs": true, "(*Container).bitmap": true}

// cowUnderConstruction: decode functions that attach payloads to containers
// of the bitmap they are filling. Every container of that bitmap was
// installed during the same decode by PutContainerValues (after ResetN), which
// stores a fresh or thawed container (checked by R1 on the PutContainerValues
// implementations), so containers obtained from the bitmap's iterator are
// unfrozen. The relation between "installed by PutContainerValues" and
// "returned by the iterator" goes through the Containers data structure and
// is not visible to a per-variable typestate.
var cowUnderConstruction = map[string]string{
	"(*Bitmap).unmarshalPilosaRoaring": "calls ResetN and PutContainerValues for every key before attaching payloads",
	"readOffsets":                      "called by UnmarshalBinary after ResetN and PutContainerValues for every key",
	"readWithRuns":                     "called by UnmarshalBinary after ResetN and PutContainerValues for every key",
}

func cowPayloadSlice(t types.Type) bool {
	if t == nil {
		return false
	}
	if sl, ok := t.Underlying().(*types.Slice); ok {
		switch e := sl.Elem().Underlying().(type) {
		case *types.Basic:
			return e.Kind() == types.Uint16 || e.Kind() == types.Uint64
		case *types.Struct:
			return core.IsNamed(sl.Elem(), core.ModPath+"/roaring", "interval16")
		}
	}
	return false
}

func cowIsContainerPtr(t types.Type) bool {
	if t == nil {
		return false
	}
	if pt, ok := t.Underlying().(*types.Pointer); ok {
		return core.IsNamed(pt.Elem(), core.ModPath+"/roaring", "Container")
	}
	return false
}

func (a *cowAnalysis) calleeName(call *ast.CallExpr) (string, *cowUnit) {
	fn := core.CalleeOf(a.info, call)
	if fn == nil {
		return "", nil
	}
	if u := a.byObj[fn]; u != nil {
		return u.name, u
	}
	return core.FuncKey(fn), nil
}

// computeRelated: slice variables that hold (or become) container payload:
// assigned from an accessor, passed to an adopting constructor/setter, or
// connected to such a variable by assignment or by argument passing.
func (a *cowAnalysis) computeRelated(decls []*ast.FuncDecl) {
	a.related = map[types.Object]bool{}
	info := a.info
	varOf := func(e ast.Expr) types.Object {
		for {
			switch x := ast.Unparen(e).(type) {
			case *ast.SliceExpr:
				e = x.X
				continue
			case *ast.CallExpr:
				if core.BuiltinName(info, x) == "append" && len(x.Args) > 0 {
					e = x.Args[0]
					continue
				}
				return nil
			case *ast.Ident:
				o := info.ObjectOf(x)
				if o != nil && cowPayloadSlice(o.Type()) {
					return o
				}
				return nil
			default:
				return nil
			}
		}
	}
	isAccessor := func(e ast.Expr) bool {
		for {
			switch x := ast.Unparen(e).(type) {
			case *ast.SliceExpr:
				e = x.X
				continue
			case *ast.CallExpr:
				if core.BuiltinName(info, x) == "append" && len(x.Args) > 0 {
					e = x.Args[0]
					continue
				}
				name, _ := a.calleeName(x)
				return cowAccessors[name]
			default:
				return false
			}
		}
	}
	paramObj := func(g *cowUnit, i int) types.Object {
		for o, pi := range g.params {
			if pi == i {
				return o
			}
		}
		return nil
	}
	mark := func(o types.Object) bool {
		if o == nil || a.related[o] {
			return false
		}
		a.related[o] = true
		return true
	}
	for changed := true; changed; {
		changed = false
		for _, fd := range decls {
			ast.Inspect(fd.Body, func(n ast.Node) bool {
				switch x := n.(type) {
				case *ast.AssignStmt:
					if len(x.Lhs) == len(x.Rhs) {
						for i, l := range x.Lhs {
							lo := varOf(l)
							if _, isId := ast.Unparen(l).(*ast.Ident); !isId {
								lo = nil
							}
							ro := varOf(x.Rhs[i])
							if lo != nil && (isAccessor(x.Rhs[i]) || (ro != nil && a.related[ro])) {
								changed = mark(lo) || changed
							}
							if lo != nil && a.related[lo] && ro != nil {
								changed = mark(ro) || changed
							}
						}
					}
				case *ast.CallExpr:
					name, g := a.calleeName(x)
					if ai, ok := cowAdopts[name]; ok && ai < len(x.Args) {
						changed = mark(varOf(x.Args[ai])) || changed
					}
					if cowSetterAdopts[name] && len(x.Args) > 0 {
						changed = mark(varOf(x.Args[0])) || changed
					}
					if g != nil {
						for i, arg := range x.Args {
							po := paramObj(g, i+1)
							if po == nil || !cowPayloadSlice(po.Type()) {
								continue
							}
							ao := varOf(arg)
							if isAccessor(arg) || (ao != nil && a.related[ao]) {
								changed = mark(po) || changed
							}
							if a.related[po] && ao != nil {
								changed = mark(ao) || changed
							}
						}
					}
				case *ast.ReturnStmt:
					// results are not connected: constructors adopt explicitly
				}
				return true
			})
		}
	}
}

func newCowAnalysis(pk *packages.Package) *cowAnalysis {
	a := &cowAnalysis{pk: pk, info: pk.TypesInfo, byObj: map[*types.Func]*cowUnit{}, byLit: map[*ast.FuncLit]*cowUnit{}, viol: map[string]cowViolation{}}
	var decls []*ast.FuncDecl
	for _, fd := range core.AllFuncDecls(pk) {
		obj, _ := a.info.Defs[fd.Name].(*types.Func)
		if obj == nil || fd.Body == nil {
			continue
		}
		if strings.HasSuffix(pk.Fset.Position(fd.Pos()).Filename, "_test.go") {
			continue
		}
		decls = append(decls, fd)
	}
	// first pass: units with parameters (needed by computeRelated)
	mk := func(u *cowUnit) {
		u.params = map[types.Object]int{}
		u.vars = map[types.Object]int{}
		u.req = map[int]cowWitness{}
		u.reqU = map[int]cowWitness{}
		u.link = map[types.Object]map[int]bool{}
		u.origin = map[types.Object]map[types.Object]bool{}
		if u.recv != nil && len(u.recv.List) > 0 && len(u.recv.List[0].Names) > 0 {
			if o := a.info.Defs[u.recv.List[0].Names[0]]; o != nil {
				u.params[o] = 0
			}
		}
		i := 1
		for _, fld := range u.ftype.Params.List {
			if len(fld.Names) == 0 {
				i++
				continue
			}
			for _, nm := range fld.Names {
				if o := a.info.Defs[nm]; o != nil {
					u.params[o] = i
				}
				i++
			}
		}
		nres := 0
		if u.ftype.Results != nil {
			for _, fld := range u.ftype.Results.List {
				n := len(fld.Names)
				if n == 0 {
					n = 1
				}
				for _, nm := range fld.Names {
					if o := a.info.Defs[nm]; o != nil {
						u.named = append(u.named, o)
					}
				}
				nres += n
			}
		}
		u.rets = make([]cowRet, nres)
		for k := range u.rets {
			u.rets[k] = cowRet{p: true, u: true, z: true, pa: true, ua: true, za: true}
		}
		a.units = append(a.units, u)
	}
	for _, fd := range decls {
		obj := a.info.Defs[fd.Name].(*types.Func)
		u := &cowUnit{name: core.FuncName(fd), decl: fd, body: fd.Body, ftype: fd.Type, recv: fd.Recv, obj: obj}
		if strings.HasSuffix(pk.Fset.Position(fd.Pos()).Filename, "container_stash.go") {
			u.exempt = true // the protocol primitives are the trusted base
		}
		if _, ok := cowUnderConstruction[u.name]; ok {
			u.construction = true
		}
		mk(u)
		a.byObj[obj] = u
		n := 0
		ast.Inspect(fd.Body, func(nd ast.Node) bool {
			if fl, ok := nd.(*ast.FuncLit); ok {
				n++
				lu := &cowUnit{name: fmt.Sprintf("%s literal #%d", u.name, n), lit: fl, body: fl.Body, ftype: fl.Type, exempt: u.exempt}
				mk(lu)
				a.byLit[fl] = lu
			}
			return true
		})
	}
	a.computeRelated(decls)
	// tracked variables
	for _, u := range a.units {
		track := func(o types.Object) {
			if o == nil {
				return
			}
			if !cowIsContainerPtr(o.Type()) && !(cowPayloadSlice(o.Type()) && a.related[o]) {
				return
			}
			if _, ok := u.vars[o]; !ok {
				u.vars[o] = u.nvars
				u.nvars++
			}
		}
		var ps []types.Object
		for o := range u.params {
			ps = append(ps, o)
		}
		sort.Slice(ps, func(i, j int) bool { return u.params[ps[i]] < u.params[ps[j]] })
		for _, o := range ps {
			track(o)
		}
		for _, o := range u.named {
			track(o)
		}
		ast.Inspect(u.body, func(n ast.Node) bool {
			switch x := n.(type) {
			case *ast.FuncLit:
				if x != u.lit {
					return false
				}
			case *ast.Ident:
				if o := a.info.Defs[x]; o != nil {
					if _, isVar := o.(*types.Var); isVar {
						track(o)
					}
				}
			case *ast.ValueSpec:
				if len(x.Values) == 0 {
					for _, nm := range x.Names {
						if o := a.info.Defs[nm]; o != nil {
							u.nilDecl = append(u.nilDecl, o)
						}
					}
				}
			}
			return true
		})
		if u.nvars > 16 {
			u.unsup = fmt.Sprintf("%d container/payload variables (limit 16)", u.nvars)
		}
	}
	for _, u := range a.units {
		if cowSetters[u.name] {
			u.reqU[0] = cowWitness{u.body.Pos(), "header setter"}
		}
	}
	for iter := 0; iter < 40; iter++ {
		a.changed = false
		for _, u := range a.units {
			a.run(u)
		}
		if !a.changed {
			break
		}
	}
	a.final = true
	for _, u := range a.units {
		a.run(u)
	}
	return a
}

const (
	cowP = 0
	cowU = 1
	cowZ = 2
	cowO = 3
)

func cowBit(idx, k int) flow.State { return 1 << uint(4*idx+k) }

func (a *cowAnalysis) varClass(u *cowUnit, o types.Object, s flow.State) (cowClass, bool) {
	idx, ok := u.vars[o]
	if !ok || idx >= 16 {
		return cowClass{}, false
	}
	c := cowClass{p: s&cowBit(idx, cowP) != 0, u: s&cowBit(idx, cowU) != 0, z: s&cowBit(idx, cowZ) != 0}
	if s&cowBit(idx, cowO) != 0 {
		c.params = map[int]bool{}
		if pi, isParam := u.params[o]; isParam {
			c.params[pi] = true
		}
		for pi := range u.link[o] {
			c.params[pi] = true
		}
	}
	return c, true
}

// class of an expression under state s.
func (a *cowAnalysis) class(u *cowUnit, e ast.Expr, s flow.State) cowClass {
	fresh := cowClass{p: true, u: true, z: true}
	switch x := ast.Unparen(e).(type) {
	case *ast.Ident:
		if x.Name == "nil" {
			return fresh
		}
		o := a.info.ObjectOf(x)
		if c, ok := a.varClass(u, o, s); ok {
			return c
		}
		if o != nil && o.Name() == "fullContainer" && o.Parent() == a.pk.Types.Scope() {
			return cowClass{z: true}
		}
	case *ast.SliceExpr:
		return a.class(u, x.X, s)
	case *ast.UnaryExpr:
		if x.Op == token.AND {
			switch y := ast.Unparen(x.X).(type) {
			case *ast.CompositeLit:
				return fresh
			case *ast.Ident:
				// address of a local Container value: a header of its own
				// (declared inside this unit: a variable captured from the
				// enclosing function outlives the call and is not fresh)
				if v, ok := a.info.ObjectOf(y).(*types.Var); ok && v.Parent() != a.pk.Types.Scope() && u.body.Pos() <= v.Pos() && v.Pos() < u.body.End() {
					if _, isPtr := v.Type().Underlying().(*types.Pointer); !isPtr {
						// a header copied from another container (x := *c) still
						// points at that container's payload: it is not
						// shareable until the payload pointer is replaced
						return cowClass{u: true, z: !a.headerCopy(u, v)}
					}
				}
			}
		}
	case *ast.CompositeLit:
		return fresh
	case *ast.CallExpr:
		if tv, ok := a.info.Types[x.Fun]; ok && tv.IsType() && len(x.Args) == 1 {
			return a.class(u, x.Args[0], s)
		}
		switch core.BuiltinName(a.info, x) {
		case "make", "new":
			return fresh
		case "append":
			if len(x.Args) > 0 {
				return a.class(u, x.Args[0], s)
			}
		case "":
			return a.callClass(u, x, 0, s)
		}
	}
	return cowClass{}
}

// callClass: class of result k of a call.
func (a *cowAnalysis) callClass(u *cowUnit, call *ast.CallExpr, k int, s flow.State) cowClass {
	name, g := a.calleeName(call)
	if cowAccessors[name] {
		if sel, ok := ast.Unparen(call.Fun).(*ast.SelectorExpr); ok {
			c := a.class(u, sel.X, s)
			// a payload slice is writable only when the container is private
			return cowClass{p: c.p, u: c.p, z: c.p, params: c.params}
		}
	}
	if name == "(*Container).Freeze" {
		return cowClass{z: true}
	}
	if _, ok := cowReturnsPrivate[name]; ok && k == 0 {
		if ai, adopts := cowAdopts[name]; adopts && ai < len(call.Args) {
			ac := a.class(u, call.Args[ai], s)
			if !ac.p {
				// the new container's payload belongs to somebody else
				return cowClass{u: true, params: ac.params}
			}
		}
		return cowClass{p: true, u: true, z: true}
	}
	// containers of a bitmap under construction
	if u.construction && k == 1 && strings.HasSuffix(name, "Iterator).Value") {
		return cowClass{u: true}
	}
	if g == nil || k >= len(g.rets) {
		return cowClass{}
	}
	r := g.rets[k]
	c := cowClass{p: r.p, u: r.u, z: r.z}
	if len(r.params) > 0 {
		ap, au, az := true, true, true
		for pi := range r.params {
			arg := plActual(call, pi)
			if arg == nil {
				ap, au, az = false, false, false
				continue
			}
			ac := a.class(u, arg, s)
			ap, au, az = ap && ac.p, au && (ac.u || ac.p), az && (ac.z || ac.p)
			for q := range ac.params {
				if c.params == nil {
					c.params = map[int]bool{}
				}
				c.params[q] = true
			}
		}
		c.p = c.p || (r.pa && ap)
		c.u = c.u || (r.ua && au)
		c.z = c.z || (r.za && az)
	}
	return c
}

func (a *cowAnalysis) setVar(u *cowUnit, o types.Object, c cowClass, s flow.State) flow.State {
	idx, ok := u.vars[o]
	if !ok || idx >= 16 {
		return s
	}
	s &^= cowBit(idx, cowP) | cowBit(idx, cowU) | cowBit(idx, cowZ) | cowBit(idx, cowO)
	if c.p {
		s |= cowBit(idx, cowP)
	}
	if c.u || c.p {
		s |= cowBit(idx, cowU)
	}
	if c.z || c.p {
		s |= cowBit(idx, cowZ)
	}
	if len(c.params) > 0 {
		own, isParam := u.params[o]
		onlyOwn := isParam && len(c.params) == 1 && c.params[own]
		if !onlyOwn {
			if u.link[o] == nil {
				u.link[o] = map[int]bool{}
			}
			for pi := range c.params {
				if !u.link[o][pi] {
					u.link[o][pi] = true
					a.changed = true
				}
			}
		}
		s |= cowBit(idx, cowO)
	}
	return s
}

func (a *cowAnalysis) violate(u *cowUnit, pos token.Pos, rule, what string) {
	if !a.final {
		return
	}
	key := fmt.Sprintf("%d/%s", pos, rule)
	if _, ok := a.viol[key]; !ok {
		a.viol[key] = cowViolation{u, pos, rule, what}
	}
}

// need: e is written through at pos; header selects the weaker requirement.
func (a *cowAnalysis) need(u *cowUnit, e ast.Expr, header bool, s flow.State, pos token.Pos, what string) {
	if u.exempt {
		return
	}
	if a.final {
		if header {
			a.nHeader++
			u.nHeader++
		} else {
			a.nWrites++
			u.nWrite++
		}
	}
	c := a.class(u, e, s)
	if c.p || (header && c.u) {
		return
	}
	if len(c.params) > 0 && u.decl != nil {
		m := u.req
		if header {
			m = u.reqU
		}
		for pi := range c.params {
			if _, ok := m[pi]; !ok {
				m[pi] = cowWitness{pos, what}
				a.changed = true
			}
		}
		return
	}
	state := "private (fresh, cloned or thawed on every path)"
	if header {
		state = "unfrozen (fresh, cloned, thawed, or checked with frozen() on every path)"
	}
	a.violate(u, pos, "write", what+": "+types.ExprString(e)+" is not known to be "+state+" here")
}

// writeTarget: the container (header write) or payload slice (payload write)
// a store to lhs goes through.
func (a *cowAnalysis) writeTarget(u *cowUnit, lhs ast.Expr) (tgt ast.Expr, header bool) {
	e := ast.Unparen(lhs)
	for {
		switch x := e.(type) {
		case *ast.SelectorExpr:
			if sel := a.info.Selections[x]; sel != nil && sel.Kind() == types.FieldVal {
				if cowIsContainerPtr(a.info.TypeOf(x.X)) {
					return x.X, true
				}
				e = ast.Unparen(x.X)
				continue
			}
			return nil, false
		case *ast.IndexExpr:
			if cowPayloadSlice(a.info.TypeOf(x.X)) && a.payloadExpr(u, x.X) {
				return x.X, false
			}
			e = ast.Unparen(x.X)
			continue
		case *ast.StarExpr:
			if cowIsContainerPtr(a.info.TypeOf(x.X)) {
				return x.X, true
			}
			return nil, false
		default:
			return nil, false
		}
	}
}

// payloadExpr: e denotes container payload (an accessor call or a related
// slice variable, possibly re-sliced or appended to).
func (a *cowAnalysis) payloadExpr(u *cowUnit, e ast.Expr) bool {
	for {
		switch x := ast.Unparen(e).(type) {
		case *ast.SliceExpr:
			e = x.X
		case *ast.Ident:
			_, ok := u.vars[a.info.ObjectOf(x)]
			return ok
		case *ast.CallExpr:
			if core.BuiltinName(a.info, x) == "append" && len(x.Args) > 0 {
				e = x.Args[0]
				continue
			}
			name, _ := a.calleeName(x)
			return cowAccessors[name]
		default:
			return false
		}
	}
}

func (a *cowAnalysis) originOf(u *cowUnit, e ast.Expr, depth int) map[types.Object]bool {
	out := map[types.Object]bool{}
	if depth > 6 {
		return out
	}
	switch x := ast.Unparen(e).(type) {
	case *ast.Ident:
		for r := range u.origin[a.info.ObjectOf(x)] {
			out[r] = true
		}
	case *ast.CallExpr:
		if sel, ok := ast.Unparen(x.Fun).(*ast.SelectorExpr); ok {
			recvT := a.info.TypeOf(sel.X)
			ts := ""
			if recvT != nil {
				ts = types.TypeString(recvT, nil)
			}
			if strings.HasSuffix(ts, "Containers") {
				if root := cowRootIdent(a.info, sel.X); root != nil {
					out[root] = true
				}
				return out
			}
			if strings.Contains(ts, "Iterator") {
				if id, ok := ast.Unparen(sel.X).(*ast.Ident); ok {
					for r := range u.origin[a.info.ObjectOf(id)] {
						out[r] = true
					}
				}
				return out
			}
			if cowIsContainerPtr(recvT) {
				for r := range a.originOf(u, sel.X, depth+1) {
					out[r] = true
				}
			}
		}
		for _, arg := range x.Args {
			if cowIsContainerPtr(a.info.TypeOf(arg)) {
				for r := range a.originOf(u, arg, depth+1) {
					out[r] = true
				}
			}
		}
	}
	return out
}

func cowRootIdent(info *types.Info, e ast.Expr) types.Object {
	b := plBase(e)
	if c, ok := b.(*ast.CallExpr); ok {
		if sel, ok := ast.Unparen(c.Fun).(*ast.SelectorExpr); ok {
			return cowRootIdent(info, sel.X)
		}
	}
	if id, ok := b.(*ast.Ident); ok {
		return info.ObjectOf(id)
	}
	return nil
}

func (a *cowAnalysis) prepassOrigins(u *cowUnit) {
	info := a.info
	note := func(l ast.Expr, rhs ast.Expr) {
		id, ok := ast.Unparen(l).(*ast.Ident)
		if !ok {
			return
		}
		o := info.ObjectOf(id)
		if o == nil {
			return
		}
		add := func(r types.Object) {
			if r == nil {
				return
			}
			if u.origin[o] == nil {
				u.origin[o] = map[types.Object]bool{}
			}
			u.origin[o][r] = true
		}
		if cowIsContainerPtr(o.Type()) {
			for r := range a.originOf(u, rhs, 0) {
				add(r)
			}
		}
		if c, ok := ast.Unparen(rhs).(*ast.CallExpr); ok {
			if sel, ok := ast.Unparen(c.Fun).(*ast.SelectorExpr); ok && sel.Sel.Name == "Iterator" {
				add(cowRootIdent(info, sel.X))
			}
		}
	}
	for pass := 0; pass < 3; pass++ {
		ast.Inspect(u.body, func(n ast.Node) bool {
			switch x := n.(type) {
			case *ast.FuncLit:
				if x != u.lit {
					return false
				}
			case *ast.AssignStmt:
				if len(x.Lhs) == len(x.Rhs) {
					for i, l := range x.Lhs {
						note(l, x.Rhs[i])
					}
				} else if len(x.Rhs) == 1 {
					for _, l := range x.Lhs {
						note(l, x.Rhs[0])
					}
				}
			}
			return true
		})
	}
}

func (a *cowAnalysis) run(u *cowUnit) {
	if u.exempt || u.unsup != "" {
		return
	}
	info := a.info
	if len(u.origin) == 0 {
		a.prepassOrigins(u)
	}
	var init flow.State
	for o := range u.params {
		if idx, ok := u.vars[o]; ok && idx < 16 {
			init |= cowBit(idx, cowO)
		}
	}
	for _, o := range u.nilDecl {
		if idx, ok := u.vars[o]; ok && idx < 16 {
			init |= cowBit(idx, cowP) | cowBit(idx, cowU) | cowBit(idx, cowZ)
		}
	}
	type retAlt struct {
		c cowClass
	}
	alts := make([][]cowClass, len(u.rets))
	h := flow.Hooks{Info: info}
	h.Refine = func(cond ast.Expr, taken bool, s flow.State) (flow.State, bool) {
		// c.frozen() false: the header may be written
		if call, ok := ast.Unparen(cond).(*ast.CallExpr); ok && !taken {
			if name, _ := a.calleeName(call); name == "(*Container).frozen" {
				if sel, ok := ast.Unparen(call.Fun).(*ast.SelectorExpr); ok {
					if id, ok := ast.Unparen(sel.X).(*ast.Ident); ok {
						if idx, ok := u.vars[info.ObjectOf(id)]; ok && idx < 16 {
							s |= cowBit(idx, cowU)
						}
					}
				}
			}
		}
		return s, true
	}
	h.Atom = func(n ast.Node, s flow.State) []flow.State {
		switch x := n.(type) {
		case *ast.AssignStmt:
			plain := x.Tok == token.ASSIGN || x.Tok == token.DEFINE
			for _, l := range x.Lhs {
				if tgt, header := a.writeTarget(u, l); tgt != nil {
					a.need(u, tgt, header, s, x.Pos(), "store to "+types.ExprString(l))
					// replacing the payload pointer of an unfrozen header makes
					// the container this bitmap's own again
					if sel, ok := ast.Unparen(l).(*ast.SelectorExpr); ok && header && sel.Sel.Name == "pointer" {
						if id, ok := ast.Unparen(tgt).(*ast.Ident); ok {
							if idx, ok := u.vars[info.ObjectOf(id)]; ok && idx < 16 && s&cowBit(idx, cowU) != 0 {
								s |= cowBit(idx, cowZ)
							}
						}
					}
				}
			}
			type upd struct {
				o types.Object
				c cowClass
			}
			var ups []upd
			if len(x.Lhs) == len(x.Rhs) {
				for i, l := range x.Lhs {
					if id, ok := ast.Unparen(l).(*ast.Ident); ok {
						o := info.ObjectOf(id)
						if _, tracked := u.vars[o]; tracked && plain {
							ups = append(ups, upd{o, a.class(u, x.Rhs[i], s)})
						}
					}
				}
			} else if len(x.Rhs) == 1 {
				call, _ := ast.Unparen(x.Rhs[0]).(*ast.CallExpr)
				for i, l := range x.Lhs {
					if id, ok := ast.Unparen(l).(*ast.Ident); ok {
						o := info.ObjectOf(id)
						if _, tracked := u.vars[o]; tracked {
							c := cowClass{}
							if call != nil && core.BuiltinName(info, call) == "" {
								if tv, ok := info.Types[call.Fun]; !ok || !tv.IsType() {
									c = a.callClass(u, call, i, s)
								}
							}
							ups = append(ups, upd{o, c})
						}
					}
				}
			}
			for _, up := range ups {
				s = a.setVar(u, up.o, up.c, s)
			}
			return []flow.State{s}
		case *ast.ValueSpec:
			if len(x.Values) == len(x.Names) {
				for i, nm := range x.Names {
					if o := info.Defs[nm]; o != nil {
						s = a.setVar(u, o, a.class(u, x.Values[i], s), s)
					}
				}
			}
			return []flow.State{s}
		case *ast.IncDecStmt:
			if tgt, header := a.writeTarget(u, x.X); tgt != nil {
				a.need(u, tgt, header, s, x.Pos(), "store to "+types.ExprString(x.X))
			}
			return []flow.State{s}
		case *ast.CallExpr:
			if tv, ok := info.Types[x.Fun]; ok && tv.IsType() {
				return []flow.State{s}
			}
			switch core.BuiltinName(info, x) {
			case "copy":
				if len(x.Args) == 2 && a.payloadExpr(u, x.Args[0]) {
					a.need(u, x.Args[0], false, s, x.Pos(), "copy into "+types.ExprString(x.Args[0]))
				}
				return []flow.State{s}
			case "append":
				if len(x.Args) > 0 && a.payloadExpr(u, x.Args[0]) {
					a.need(u, x.Args[0], false, s, x.Pos(), "append to "+types.ExprString(x.Args[0])+" (writes into its spare capacity)")
				}
				return []flow.State{s}
			case "":
			default:
				return []flow.State{s}
			}
			name, g := a.calleeName(x)
			if a.final {
				a.nCalls++
			}
			if g != nil {
				for _, hdr := range []bool{false, true} {
					m := g.req
					if hdr {
						m = g.reqU
					}
					var ps []int
					for pi := range m {
						ps = append(ps, pi)
					}
					sort.Ints(ps)
					for _, pi := range ps {
						arg := plActual(x, pi)
						if arg == nil {
							continue
						}
						// slice arguments that are not payload carry no obligation
						if cowPayloadSlice(info.TypeOf(arg)) && !a.payloadExpr(u, arg) {
							continue
						}
						kind := "payload"
						if hdr {
							kind = "header"
						}
						a.need(u, arg, hdr, s, x.Pos(), "call of "+name+", which writes the "+kind+" of "+cowParamName(g, pi)+" ("+m[pi].what+")")
					}
				}
			}
			// adopting constructors / setters: the adopted slice must be private
			adoptIdx := -1
			if ai, ok := cowAdopts[name]; ok {
				adoptIdx = ai
			} else if cowSetterAdopts[name] {
				adoptIdx = 0
			}
			if adoptIdx >= 0 && adoptIdx < len(x.Args) && !cowIsNilIdent(x.Args[adoptIdx]) {
				ac := a.class(u, x.Args[adoptIdx], s)
				if !ac.p && len(ac.params) == 0 && !a.inputCast(x.Args[adoptIdx]) {
					a.violate(u, x.Pos(), "write", "call of "+name+" adopts "+types.ExprString(x.Args[adoptIdx])+" as a container's payload, but that slice is not private here: two containers (or a container and a caller's slice) share writable storage")
				}
			}
			if name == "(*Container).Freeze" {
				if sel, ok := ast.Unparen(x.Fun).(*ast.SelectorExpr); ok {
					if id, ok := ast.Unparen(sel.X).(*ast.Ident); ok {
						if idx, ok := u.vars[info.ObjectOf(id)]; ok && idx < 16 {
							s &^= cowBit(idx, cowP) | cowBit(idx, cowU) | cowBit(idx, cowO)
							s |= cowBit(idx, cowZ)
						}
					}
				}
			}
			if strings.HasSuffix(name, ".Put") && len(x.Args) == 2 && cowIsContainerPtr(info.TypeOf(x.Args[1])) {
				a.checkShare(u, x, x.Args[1], s)
			}
			return []flow.State{s}
		}
		return []flow.State{s}
	}
	h.EnterRange = func(rs *ast.RangeStmt, s flow.State) flow.State {
		for _, e := range []ast.Expr{rs.Key, rs.Value} {
			if id, ok := e.(*ast.Ident); ok {
				if o := info.ObjectOf(id); o != nil {
					s = a.setVar(u, o, cowClass{}, s)
				}
			}
		}
		return s
	}
	h.PreReturn = func(ret *ast.ReturnStmt, lit *ast.FuncLit, s flow.State) flow.State {
		if lit != nil {
			return s
		}
		var exprs []ast.Expr
		if ret != nil {
			exprs = ret.Results
		}
		n := len(u.rets)
		if len(exprs) == n {
			for k, e := range exprs {
				t := info.TypeOf(e)
				if cowIsContainerPtr(t) || cowPayloadSlice(t) || cowIsNilIdent(e) {
					alts[k] = append(alts[k], a.class(u, e, s))
				}
			}
		} else if len(exprs) == 1 && n > 1 {
			if call, ok := ast.Unparen(exprs[0]).(*ast.CallExpr); ok {
				for k := 0; k < n; k++ {
					alts[k] = append(alts[k], a.callClass(u, call, k, s))
				}
			}
		} else if len(exprs) == 0 && len(u.named) == n {
			for k, o := range u.named {
				if c, ok := a.varClass(u, o, s); ok {
					alts[k] = append(alts[k], c)
				}
			}
		}
		if u.lit != nil && ret != nil && len(ret.Results) == 2 && cowIsContainerPtr(info.TypeOf(ret.Results[0])) {
			a.checkShare(u, nil, ret.Results[0], s)
		}
		return s
	}
	it := flow.Run(h, u.body, init)
	if it.Unsupported != "" {
		u.unsup = it.Unsupported
		return
	}
	for k := range u.rets {
		nr := cowRet{p: true, u: true, z: true, pa: true, ua: true, za: true}
		for _, c := range alts[k] {
			nr.set = true
			hasP := len(c.params) > 0
			nr.p = nr.p && c.p
			nr.u = nr.u && (c.u || c.p)
			nr.z = nr.z && (c.z || c.p)
			nr.pa = nr.pa && (c.p || hasP)
			nr.ua = nr.ua && (c.u || c.p || hasP)
			nr.za = nr.za && (c.z || c.p || hasP)
			if hasP && !c.p {
				if nr.params == nil {
					nr.params = map[int]bool{}
				}
				for pi := range c.params {
					nr.params[pi] = true
				}
			}
		}
		old := u.rets[k]
		if old.p != nr.p || old.u != nr.u || old.z != nr.z || old.pa != nr.pa || old.ua != nr.ua || old.za != nr.za || len(old.params) != len(nr.params) {
			u.rets[k] = nr
			a.changed = true
		}
	}
}

// inputCast: a slice made from decoder input, (*[N]T)(unsafe.Pointer(&data[i]))[:n:n].
// Adopting it is the point of the mapped representation; the mapped flag
// protects it (checked under C04).
func (a *cowAnalysis) inputCast(e ast.Expr) bool {
	found := false
	ast.Inspect(e, func(n ast.Node) bool {
		if c, ok := n.(*ast.CallExpr); ok {
			if tv, ok := a.info.Types[c.Fun]; ok && tv.IsType() {
				if b, ok := tv.Type.Underlying().(*types.Basic); ok && b.Kind() == types.UnsafePointer {
					found = true
				}
			}
		}
		return true
	})
	return found
}

// headerCopy: the local Container value v is (somewhere in the unit) assigned a
// copy of another container's header (`v := *c`, `v = *c`, `v := w`).
func (a *cowAnalysis) headerCopy(u *cowUnit, v *types.Var) bool {
	found := false
	check := func(lhs ast.Expr, rhs ast.Expr) {
		id, ok := ast.Unparen(lhs).(*ast.Ident)
		if !ok || a.info.ObjectOf(id) != v {
			return
		}
		switch ast.Unparen(rhs).(type) {
		case *ast.CompositeLit:
		default:
			found = true
		}
	}
	ast.Inspect(u.body, func(n ast.Node) bool {
		switch x := n.(type) {
		case *ast.AssignStmt:
			if len(x.Lhs) == len(x.Rhs) {
				for i := range x.Lhs {
					check(x.Lhs[i], x.Rhs[i])
				}
			}
		case *ast.ValueSpec:
			for i, nm := range x.Names {
				if i < len(x.Values) {
					check(nm, x.Values[i])
				}
			}
		}
		return true
	})
	return found
}

func cowIsNilIdent(e ast.Expr) bool {
	id, ok := ast.Unparen(e).(*ast.Ident)
	return ok && id.Name == "nil"
}

// checkShare: container e is being placed into a bitmap (Put call, or
// returned by an updater literal).
func (a *cowAnalysis) checkShare(u *cowUnit, put *ast.CallExpr, e ast.Expr, s flow.State) {
	if u.exempt {
		return
	}
	if a.final {
		a.nShares++
		u.nShare++
	}
	c := a.class(u, e, s)
	if c.p || c.z {
		return
	}
	org := a.originOf(u, e, 0)
	if put != nil {
		if sel, ok := ast.Unparen(put.Fun).(*ast.SelectorExpr); ok {
			root := cowRootIdent(a.info, sel.X)
			if root != nil && len(org) > 0 {
				own := true
				for r := range org {
					if r != root {
						own = false
					}
				}
				if own {
					return
				}
			}
		}
	} else {
		// updater literal: (something derived from) its own first parameter,
		// the container the bitmap already holds under that key
		// (the literal's container parameter is that container)
		if len(c.params) > 0 {
			return
		}
	}
	a.violate(u, e.Pos(), "share", "container "+types.ExprString(e)+" is placed into a bitmap without being private, frozen or loaded from that same bitmap on every path: two bitmaps then share a writable container")
}

func cowParamName(g *cowUnit, i int) string {
	for o, p := range g.params {
		if p == i {
			return "its parameter " + o.Name()
		}
	}
	return "a parameter"
}
