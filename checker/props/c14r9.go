package props

import (
	"go/ast"
	"go/constant"
	"go/token"
	"math"
	"strings"

	"verif/checker/core"
)

// c14MagnitudeFits: R9. Values are stored as a sign bit and a magnitude,
// uint64(-v), in at most 63 planes. math.MinInt64 is the one int64 whose
// magnitude does not fit (its negation is itself), and the default field
// bounds admit it. Every range gate of a value write -- a Field method that
// compares the incoming value with the bsiGroup's Min and refuses it with
// ErrBSIGroupValueTooLow -- therefore also
// excludes math.MinInt64 in that same condition.
func c14MagnitudeFits(p *core.Program, r *core.Report) {
	pk := p.Pkg("")
	if pk == nil {
		r.Undecide("R9", "package pilosa", "", "not loaded")
		return
	}
	info := pk.TypesInfo
	n := 0
	for _, fd := range core.AllFuncDecls(pk) {
		if fd.Body == nil || core.RecvName(fd) != "Field" || strings.HasSuffix(p.Fset.Position(fd.Pos()).Filename, "_test.go") {
			continue
		}
		ast.Inspect(fd.Body, func(m ast.Node) bool {
			is, ok := m.(*ast.IfStmt)
			if !ok {
				return true
			}
			// `<value> < <bsiGroup>.Min` somewhere in the condition
			gate := false
			minInt := false
			ast.Inspect(is.Cond, func(k ast.Node) bool {
				be, ok := k.(*ast.BinaryExpr)
				if !ok {
					return true
				}
				if be.Op == token.LSS {
					if _, ok := core.FieldSel(info, be.Y, core.ModPath, "bsiGroup", "Min"); ok {
						gate = true
					}
				}
				if be.Op == token.EQL || be.Op == token.LEQ {
					for _, side := range []ast.Expr{be.X, be.Y} {
						if tv, ok := info.Types[side]; ok && tv.Value != nil && tv.Value.Kind() == constant.Int {
							if v, exact := constant.Int64Val(tv.Value); exact && v == math.MinInt64 {
								minInt = true
							}
						}
					}
				}
				return true
			})
			// a write gate: the branch refuses the value with ErrBSIGroupValueTooLow
			refuses := false
			ast.Inspect(is.Body, func(k ast.Node) bool {
				if id, ok := k.(*ast.Ident); ok && id.Name == "ErrBSIGroupValueTooLow" && info.Uses[id] != nil {
					refuses = true
				}
				return true
			})
			if !gate || !refuses {
				return true
			}
			n++
			r.Check(minInt, "R9", core.FuncName(fd)+": the range gate excludes math.MinInt64", p.Pos(is.Pos()),
				"the condition that refuses values below Min also refuses math.MinInt64",
				"the value is refused when it is below the field's Min, but math.MinInt64 (inside the default bounds) passes: its magnitude does not fit the 63 value planes, uint64(-v) wraps, and the column reads back 0")
			return true
		})
	}
	r.Floor("C14/R9 range gates of value writes", n, 2)
}
