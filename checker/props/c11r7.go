package props

import (
	"go/ast"
	"go/token"
	"go/types"
	"strings"

	"verif/checker/core"
	"verif/checker/flow"
)

// c11BothRepairsSent: rule R7. mergeBlock hands syncBlock, per replica, the
// bits that replica must set and the bits it must clear. An iteration of the
// per-replica loop may leave one of the two unsent only after testing that
// very pair set to be empty.
func c11BothRepairsSent(p *core.Program, r *core.Report) {
	pk := p.Pkg("")
	if pk == nil {
		return
	}
	info := pk.TypesInfo
	fd := core.FuncDecl(pk, "fragmentSyncer", "syncBlock")
	if fd == nil {
		r.Undecide("R7", "(*fragmentSyncer).syncBlock", "", "not found")
		return
	}
	isPairSet := func(t types.Type) bool { return t != nil && core.IsNamed(t, core.ModPath, "pairSet") }
	nLoops := 0
	ast.Inspect(fd.Body, func(n ast.Node) bool {
		loop, ok := n.(*ast.ForStmt)
		if !ok {
			return true
		}
		// pair-set locals defined directly in this loop's body
		var sets []types.Object
		for _, st := range loop.Body.List {
			if as, ok := st.(*ast.AssignStmt); ok && as.Tok == token.DEFINE {
				for _, l := range as.Lhs {
					if id, ok := l.(*ast.Ident); ok {
						if o := info.Defs[id]; o != nil && isPairSet(o.Type()) {
							sets = append(sets, o)
						}
					}
				}
			}
		}
		sends := false
		ast.Inspect(loop.Body, func(m ast.Node) bool {
			if c, ok := m.(*ast.CallExpr); ok {
				if fn := core.CalleeOf(info, c); fn != nil && fn.Name() == "ImportRoaring" {
					sends = true
				}
			}
			return true
		})
		if len(sets) < 2 || !sends || len(sets) > 8 {
			return true
		}
		nLoops++
		// derived[v] = set of pair sets v was computed from
		derived := map[types.Object]map[types.Object]bool{}
		for _, s := range sets {
			derived[s] = map[types.Object]bool{s: true}
		}
		from := func(e ast.Node) map[types.Object]bool {
			out := map[types.Object]bool{}
			ast.Inspect(e, func(m ast.Node) bool {
				if id, ok := m.(*ast.Ident); ok {
					for s := range derived[info.ObjectOf(id)] {
						out[s] = true
					}
				}
				return true
			})
			return out
		}
		for pass := 0; pass < 3; pass++ {
			ast.Inspect(loop.Body, func(m ast.Node) bool {
				as, ok := m.(*ast.AssignStmt)
				if !ok {
					return true
				}
				for i, l := range as.Lhs {
					id, ok := ast.Unparen(l).(*ast.Ident)
					if !ok {
						continue
					}
					o := info.ObjectOf(id)
					if o == nil || derived[o] != nil && isPairSet(o.Type()) {
						continue
					}
					var rhs ast.Expr
					if len(as.Rhs) == len(as.Lhs) {
						rhs = as.Rhs[i]
					} else if len(as.Rhs) == 1 {
						rhs = as.Rhs[0]
					}
					if rhs == nil {
						continue
					}
					for s := range from(rhs) {
						if derived[o] == nil {
							derived[o] = map[types.Object]bool{}
						}
						derived[o][s] = true
					}
				}
				return true
			})
		}
		bit := func(s types.Object, kind int) flow.State { // kind 0: sent, 1: known empty
			for i, o := range sets {
				if o == s {
					return 1 << uint(2*i+kind)
				}
			}
			return 0
		}
		missing := map[string]bool{}
		h := flow.Hooks{Info: info}
		h.Atom = func(nd ast.Node, st flow.State) []flow.State {
			if c, ok := nd.(*ast.CallExpr); ok {
				if fn := core.CalleeOf(info, c); fn != nil && fn.Name() == "ImportRoaring" {
					for _, a := range c.Args {
						for s := range from(a) {
							st |= bit(s, 0)
						}
					}
				}
			}
			return []flow.State{st}
		}
		h.Refine = func(c ast.Expr, taken bool, st flow.State) (flow.State, bool) {
			be, ok := ast.Unparen(c).(*ast.BinaryExpr)
			if !ok {
				return st, true
			}
			call, ok := ast.Unparen(be.X).(*ast.CallExpr)
			if !ok || core.BuiltinName(info, call) != "len" || len(call.Args) != 1 {
				return st, true
			}
			k, ok := c04ConstInt(info, be.Y)
			if !ok {
				return st, true
			}
			// is len == 0 consistent with the outcome?
			sat := func(n int64) bool {
				switch be.Op {
				case token.EQL:
					return n == k
				case token.NEQ:
					return n != k
				case token.GTR:
					return n > k
				case token.GEQ:
					return n >= k
				case token.LSS:
					return n < k
				case token.LEQ:
					return n <= k
				}
				return true
			}
			// the outcome pins the length to 0 when 0 satisfies it and 1 does not
			zeroOnly := (taken && sat(0) && !sat(1)) || (!taken && !sat(0) && sat(1))
			if !zeroOnly {
				return st, true
			}
			sel, ok := ast.Unparen(call.Args[0]).(*ast.SelectorExpr)
			if !ok || sel.Sel.Name != "columnIDs" {
				return st, true
			}
			if id, ok := ast.Unparen(sel.X).(*ast.Ident); ok {
				for _, s := range sets {
					if info.ObjectOf(id) == s {
						st |= bit(s, 1)
					}
				}
			}
			return st, true
		}
		h.Return = func(ret *ast.ReturnStmt, st flow.State) {
			if ret != nil && len(ret.Results) > 0 {
				return // error exit of syncBlock
			}
			for _, s := range sets {
				if st&(bit(s, 0)|bit(s, 1)) == 0 {
					missing[s.Name()] = true
				}
			}
		}
		it := flow.Run(h, c13IterationBody(loop.Body), 0)
		construct := "(*fragmentSyncer).syncBlock: every replica gets its sets and its clears"
		var ms []string
		for k := range missing {
			ms = append(ms, k)
		}
		switch {
		case it.Unsupported != "":
			r.Undecide("R7", construct, p.Pos(loop.Pos()), it.Unsupported)
		case len(ms) > 0:
			r.Violate("R7", construct, p.Pos(loop.Pos()), "an iteration of the per-replica loop can end without sending the pair set "+strings.Join(dedupe(ms), ", ")+" and without having tested that its column list is empty: a replica that needs only that kind of repair keeps its divergent bits and its block checksum never converges")
		default:
			r.HoldAt("R7", construct, p.Pos(loop.Pos()), "each pair set is sent, or tested empty, on every path of an iteration")
		}
		return true
	})
	r.Floor("C11/R7 per-replica repair loops", nLoops, 1)
}
