package props

import (
	"go/ast"
	"go/types"
	"strings"

	"verif/checker/core"
)

// c22NoBlockingSendUnderLock: rule R11. The queue of pending joins and leaves
// is a bounded channel that only the resize loop drains, and the resize loop
// needs cluster.mu for every step. A plain send into that queue from code
// that runs with cluster.mu held blocks, once the queue is full, with the
// lock held -- and the loop that would make room can never take the lock.
func c22NoBlockingSendUnderLock(p *core.Program, r *core.Report) {
	pk := p.Pkg("")
	if pk == nil {
		return
	}
	info := pk.TypesInfo
	la := newLockAnalysis(p, lockSpec{pkgRel: "", typ: "cluster", mutex: "mu", guarded: set("nodes", "jobs", "currentJob", "state"),
		setup: map[string]string{"newCluster": "constructor"}})
	if la == nil {
		r.Undecide("R11", "cluster lock analysis", "", "not available")
		return
	}
	n := 0
	for _, fd := range core.AllFuncDecls(pk) {
		if fd.Body == nil || core.RecvName(fd) != "cluster" || strings.HasSuffix(p.Fset.Position(fd.Pos()).Filename, "_test.go") {
			continue
		}
		parents := parentMap(fd.Body)
		ast.Inspect(fd.Body, func(m ast.Node) bool {
			send, ok := m.(*ast.SendStmt)
			if !ok {
				return true
			}
			if _, ok := core.FieldSel(info, send.Chan, core.ModPath, "cluster", "joiningLeavingNodes"); !ok {
				return true
			}
			n++
			construct := core.FuncName(fd) + ": send into the queue of pending joins and leaves"
			// inside a select with a default case?
			nonBlocking := false
			for q := parents[ast.Node(send)]; q != nil; q = parents[q] {
				if cc, ok := q.(*ast.CommClause); ok && cc.Comm == ast.Stmt(send) {
					if sel, ok := parents[parents[q]].(*ast.SelectStmt); ok {
						for _, c := range sel.Body.List {
							if c.(*ast.CommClause).Comm == nil {
								nonBlocking = true
							}
						}
					}
				}
			}
			fn, _ := info.Defs[fd.Name].(*types.Func)
			underLock := false
			// a send made by a goroutine started here does not run under this function's lock
			inGoroutine := false
			for q := parents[ast.Node(send)]; q != nil; q = parents[q] {
				if fl, ok := q.(*ast.FuncLit); ok {
					if call, ok := parents[ast.Node(fl)].(*ast.CallExpr); ok {
						if _, ok := parents[ast.Node(call)].(*ast.GoStmt); ok {
							inGoroutine = true
						}
					}
				}
			}
			if fn != nil && !inGoroutine {
				s := la.summarize(fn)
				underLock = s.needs || s.takes
			}
			switch {
			case nonBlocking:
				r.HoldAt("R11", construct, p.Pos(send.Pos()), "non-blocking (select with default)")
			case underLock:
				r.Violate("R11", construct, p.Pos(send.Pos()), "a plain send into the bounded queue from a function that runs with cluster.mu held (it accesses the lock's state without taking the lock, or takes it itself): when the queue is full the sender blocks with the lock held, and the resize loop, the only receiver, needs that lock before it receives again -- every cluster message handler then waits forever")
			default:
				r.HoldAt("R11", construct, p.Pos(send.Pos()), "sent without cluster.mu held")
			}
			return true
		})
	}
	r.Floor("C22/R11 sends into the join/leave queue", n, 1)
}
