package props

// A tiny abstract interpreter over *string shapes*: a value is a sequence of
// literal pieces and opaque non-empty symbols ("standard_" + T). It evaluates
// straight-line/if-else code that only tests prefixes and equality, slices off
// a known prefix, and concatenates/Sprintf's. Anything else is "unknown" and
// the obligation using it becomes undecided. No code is executed.

import (
	"go/ast"
	"go/constant"
	"go/token"
	"go/types"
	"strings"

	"verif/checker/core"
)

type atom struct {
	lit string // literal piece, or
	sym string // symbol name (non-empty, arbitrary content)
}

type shape struct {
	atoms []atom
	ok    bool // false: unknown
}

func litShape(s string) shape {
	if s == "" {
		return shape{ok: true}
	}
	return shape{atoms: []atom{{lit: s}}, ok: true}
}

func (s shape) String() string {
	if !s.ok {
		return "<unknown>"
	}
	var b strings.Builder
	for _, a := range s.atoms {
		if a.sym != "" {
			b.WriteString("<" + a.sym + ">")
		} else {
			b.WriteString(a.lit)
		}
	}
	if b.Len() == 0 {
		return `""`
	}
	return b.String()
}

func (s shape) norm() shape {
	var out []atom
	for _, a := range s.atoms {
		if a.sym == "" && a.lit == "" {
			continue
		}
		if n := len(out); n > 0 && a.sym == "" && out[n-1].sym == "" {
			out[n-1].lit += a.lit
			continue
		}
		out = append(out, a)
	}
	return shape{atoms: out, ok: s.ok}
}

func concat(a, b shape) shape {
	if !a.ok || !b.ok {
		return shape{}
	}
	return shape{atoms: append(append([]atom{}, a.atoms...), b.atoms...), ok: true}.norm()
}

func (s shape) equal(o shape) bool {
	s, o = s.norm(), o.norm()
	if !s.ok || !o.ok || len(s.atoms) != len(o.atoms) {
		return false
	}
	for i := range s.atoms {
		if s.atoms[i] != o.atoms[i] {
			return false
		}
	}
	return true
}

type tri int

const (
	triFalse tri = iota
	triTrue
	triUnknown
)

// hasPrefix decides strings.HasPrefix(s, p) for a literal p.
func (s shape) hasPrefix(p string) tri {
	s = s.norm()
	if !s.ok {
		return triUnknown
	}
	if p == "" {
		return triTrue
	}
	if len(s.atoms) == 0 {
		return triFalse
	}
	first := s.atoms[0]
	if first.sym != "" {
		return triUnknown
	}
	if strings.HasPrefix(first.lit, p) {
		return triTrue
	}
	if strings.HasPrefix(p, first.lit) && len(s.atoms) > 1 {
		return triUnknown // the symbol could continue the prefix
	}
	return triFalse
}

// eqLit decides s == lit.
func (s shape) eqLit(lit string) tri {
	s = s.norm()
	if !s.ok {
		return triUnknown
	}
	allLit := true
	for _, a := range s.atoms {
		if a.sym != "" {
			allLit = false
		}
	}
	if allLit {
		got := ""
		for _, a := range s.atoms {
			got += a.lit
		}
		if got == lit {
			return triTrue
		}
		return triFalse
	}
	// contains a non-empty symbol
	if lit == "" {
		return triFalse
	}
	if len(s.atoms) > 0 && s.atoms[0].sym == "" && !strings.HasPrefix(lit, s.atoms[0].lit) {
		return triFalse
	}
	return triUnknown
}

type strEval struct {
	info *types.Info
	env  map[types.Object]shape
	bad  string
}

func (ev *strEval) constString(e ast.Expr) (string, bool) {
	if tv, ok := ev.info.Types[e]; ok && tv.Value != nil && tv.Value.Kind() == constant.String {
		return constant.StringVal(tv.Value), true
	}
	return "", false
}

func (ev *strEval) expr(e ast.Expr) shape {
	if s, ok := ev.constString(e); ok {
		return litShape(s)
	}
	switch x := ast.Unparen(e).(type) {
	case *ast.Ident:
		if s, ok := ev.env[ev.info.ObjectOf(x)]; ok {
			return s
		}
	case *ast.BinaryExpr:
		if x.Op == token.ADD {
			return concat(ev.expr(x.X), ev.expr(x.Y))
		}
	case *ast.SliceExpr:
		// v[len(p):]
		if x.High == nil && x.Low != nil {
			if c, ok := ast.Unparen(x.Low).(*ast.CallExpr); ok && core.BuiltinName(ev.info, c) == "len" && len(c.Args) == 1 {
				p := ev.expr(c.Args[0]).norm()
				v := ev.expr(x.X).norm()
				if p.ok && v.ok && len(p.atoms) <= 1 {
					plit := ""
					if len(p.atoms) == 1 {
						plit = p.atoms[0].lit
					}
					if len(p.atoms) == 1 && p.atoms[0].sym != "" {
						break
					}
					if len(v.atoms) > 0 && v.atoms[0].sym == "" && len(v.atoms[0].lit) >= len(plit) {
						rest := append([]atom{{lit: v.atoms[0].lit[len(plit):]}}, v.atoms[1:]...)
						return shape{atoms: rest, ok: true}.norm()
					}
				}
			}
		}
	case *ast.CallExpr:
		fn := core.CalleeOf(ev.info, x)
		if fn != nil && fn.Pkg() != nil && fn.Pkg().Path() == "fmt" && fn.Name() == "Sprintf" && len(x.Args) >= 1 {
			if f, ok := ev.constString(x.Args[0]); ok {
				out := shape{ok: true}
				args := x.Args[1:]
				for len(f) > 0 {
					i := strings.Index(f, "%s")
					if i < 0 {
						if strings.Contains(f, "%") {
							return shape{}
						}
						out = concat(out, litShape(f))
						break
					}
					if strings.Contains(f[:i], "%") || len(args) == 0 {
						return shape{}
					}
					out = concat(out, litShape(f[:i]))
					out = concat(out, ev.expr(args[0]))
					args = args[1:]
					f = f[i+2:]
				}
				return out
			}
		}
	}
	return shape{}
}

// cond evaluates a boolean condition.
func (ev *strEval) cond(e ast.Expr) tri {
	switch x := ast.Unparen(e).(type) {
	case *ast.CallExpr:
		fn := core.CalleeOf(ev.info, x)
		if fn != nil && fn.Pkg() != nil && fn.Pkg().Path() == "strings" && fn.Name() == "HasPrefix" && len(x.Args) == 2 {
			p := ev.expr(x.Args[1]).norm()
			if p.ok && len(p.atoms) <= 1 && (len(p.atoms) == 0 || p.atoms[0].sym == "") {
				lit := ""
				if len(p.atoms) == 1 {
					lit = p.atoms[0].lit
				}
				return ev.expr(x.Args[0]).hasPrefix(lit)
			}
		}
	case *ast.BinaryExpr:
		if x.Op == token.EQL || x.Op == token.NEQ {
			l, rr := ev.expr(x.X).norm(), ev.expr(x.Y).norm()
			var res tri = triUnknown
			isLit := func(s shape) (string, bool) {
				if !s.ok {
					return "", false
				}
				out := ""
				for _, a := range s.atoms {
					if a.sym != "" {
						return "", false
					}
					out += a.lit
				}
				return out, true
			}
			if lit, ok := isLit(rr); ok {
				res = l.eqLit(lit)
			} else if lit, ok := isLit(l); ok {
				res = rr.eqLit(lit)
			}
			if x.Op == token.NEQ && res != triUnknown {
				res = 1 - res
			}
			return res
		}
	case *ast.UnaryExpr:
		if x.Op == token.NOT {
			if c := ev.cond(x.X); c != triUnknown {
				return 1 - c
			}
		}
	}
	return triUnknown
}

// run executes statements; it returns the returned shape (if a return was
// reached) and whether control fell through.
func (ev *strEval) run(list []ast.Stmt) (ret *shape, fell bool) {
	for _, st := range list {
		switch x := st.(type) {
		case *ast.AssignStmt:
			if len(x.Lhs) != len(x.Rhs) {
				ev.bad = "multi-value assignment"
				return nil, false
			}
			for i, l := range x.Lhs {
				if id, ok := l.(*ast.Ident); ok {
					ev.env[ev.info.ObjectOf(id)] = ev.expr(x.Rhs[i])
				}
			}
		case *ast.IfStmt:
			if x.Init != nil {
				if r, f := ev.run([]ast.Stmt{x.Init}); r != nil || !f {
					return r, f
				}
			}
			switch ev.cond(x.Cond) {
			case triTrue:
				if r, f := ev.run(x.Body.List); r != nil || !f {
					return r, f
				}
			case triFalse:
				if x.Else != nil {
					var r *shape
					var f bool
					switch e := x.Else.(type) {
					case *ast.BlockStmt:
						r, f = ev.run(e.List)
					default:
						r, f = ev.run([]ast.Stmt{e})
					}
					if r != nil || !f {
						return r, f
					}
				}
			default:
				ev.bad = "condition not decidable on this shape: " + types.ExprString(x.Cond)
				return nil, false
			}
		case *ast.ReturnStmt:
			if len(x.Results) != 1 {
				ev.bad = "return with other than one result"
				return nil, false
			}
			s := ev.expr(x.Results[0])
			return &s, false
		case *ast.BlockStmt:
			if r, f := ev.run(x.List); r != nil || !f {
				return r, f
			}
		default:
			ev.bad = "statement outside the interpretable subset"
			return nil, false
		}
	}
	return nil, true
}
