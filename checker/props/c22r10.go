package props

import (
	"go/ast"
	"go/token"
	"strings"

	"verif/checker/core"
	"verif/checker/flow"
)

// c22ResizingIsSticky: rule R10. Node-state reports, rejoins and leave
// events make the coordinator recompute the cluster state from the topology
// (determineClusterState). While a resize is queued or running that
// computation must answer RESIZING whatever else it sees: only the resize
// loop and an abort leave that state. A second condition next to the state
// test opens a window (job queued but not created yet, or between two jobs)
// in which the cluster goes back to NORMAL and cleans up before the job runs.
func c22ResizingIsSticky(p *core.Program, r *core.Report) {
	pk := p.Pkg("")
	if pk == nil {
		return
	}
	info := pk.TypesInfo
	fd := core.FuncDecl(pk, "cluster", "determineClusterState")
	construct := "(*cluster).determineClusterState: RESIZING is kept"
	if fd == nil {
		r.Undecide("R10", construct, "", "not found")
		return
	}
	isResizing := func(e ast.Expr) bool {
		id, ok := ast.Unparen(e).(*ast.Ident)
		return ok && id.Name == "ClusterStateResizing"
	}
	const bResizing flow.State = 1
	var bad []string
	tested := false
	h := flow.Hooks{Info: info}
	h.Refine = func(c ast.Expr, taken bool, s flow.State) (flow.State, bool) {
		be, ok := ast.Unparen(c).(*ast.BinaryExpr)
		if !ok || (be.Op != token.EQL && be.Op != token.NEQ) {
			return s, true
		}
		var other ast.Expr
		if isResizing(be.Y) {
			other = be.X
		} else if isResizing(be.X) {
			other = be.Y
		} else {
			return s, true
		}
		if _, ok := core.FieldSel(info, other, core.ModPath, "cluster", "state"); !ok {
			return s, true
		}
		tested = true
		if (be.Op == token.EQL) == taken {
			return s | bResizing, true
		}
		return s &^ bResizing, true
	}
	h.Return = func(ret *ast.ReturnStmt, s flow.State) {
		if s&bResizing == 0 {
			return
		}
		if ret != nil && len(ret.Results) == 1 && isResizing(ret.Results[0]) {
			return
		}
		pos := p.Pos(fd.End())
		if ret != nil {
			pos = p.Pos(ret.Pos())
		}
		bad = append(bad, pos)
	}
	it := flow.Run(h, fd.Body, 0)
	switch {
	case it.Unsupported != "":
		r.Undecide("R10", construct, p.Pos(fd.Pos()), it.Unsupported)
	case !tested:
		r.Violate("R10", construct, p.Pos(fd.Pos()), "the current state is never compared with ClusterStateResizing: a node-state report during a resize recomputes the state from the topology")
	case len(bad) > 0:
		r.Violate("R10", construct, p.Pos(fd.Pos()), "answers something other than ClusterStateResizing at "+strings.Join(dedupe(bad), ", ")+" on a path where the state is RESIZING: a node-state report or a rejoin that arrives while a resize is queued (its job not created yet) or between two jobs sends the cluster back to NORMAL, the cleanup runs, and the job then runs outside the resizing state")
	default:
		r.HoldAt("R10", construct, p.Pos(fd.Pos()), "every path on which the state is RESIZING returns ClusterStateResizing")
	}
}
