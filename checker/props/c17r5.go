package props

import (
	"fmt"
	"go/ast"
	"go/types"
	"strings"

	"verif/checker/core"
	"verif/checker/ord"
)

// c17PairReducers: rule R5. A reduce function that picks one of two partial
// results by comparing a key (Pair.ID) must not simply return either operand
// when the keys are equal: the other fields (the count) then come from
// whichever shard was reduced last. Decided for every ordering of the keys
// and counts, together with the ordering that has the operands exchanged.
func c17PairReducers(p *core.Program, r *core.Report) {
	pk := p.Pkg("")
	if pk == nil {
		return
	}
	info := pk.TypesInfo
	n := 0
	for _, fd := range core.AllFuncDecls(pk) {
		if fd.Body == nil || strings.HasSuffix(p.Fset.Position(fd.Pos()).Filename, "_test.go") {
			continue
		}
		ast.Inspect(fd.Body, func(nd ast.Node) bool {
			fl, ok := nd.(*ast.FuncLit)
			if !ok || fl.Type.Params.NumFields() != 2 || fl.Type.Results.NumFields() != 1 {
				return true
			}
			// both parameters asserted to the same struct type with ID and Count
			var params []types.Object
			for _, f := range fl.Type.Params.List {
				for _, nm := range f.Names {
					params = append(params, info.Defs[nm])
				}
			}
			if len(params) != 2 {
				return true
			}
			locals := map[types.Object]types.Object{} // local -> parameter it was asserted from
			var T types.Type
			for _, st := range fl.Body.List {
				as, ok := st.(*ast.AssignStmt)
				if !ok || len(as.Rhs) != 1 {
					continue
				}
				ta, ok := ast.Unparen(as.Rhs[0]).(*ast.TypeAssertExpr)
				if !ok || ta.Type == nil {
					continue
				}
				id, ok := ast.Unparen(ta.X).(*ast.Ident)
				if !ok {
					continue
				}
				src := info.ObjectOf(id)
				if src != params[0] && src != params[1] {
					continue
				}
				t := info.TypeOf(ta.Type)
				st2, ok := t.Underlying().(*types.Struct)
				if !ok {
					continue
				}
				hasID, hasCount := false, false
				for i := 0; i < st2.NumFields(); i++ {
					switch st2.Field(i).Name() {
					case "ID":
						hasID = true
					case "Count":
						hasCount = true
					}
				}
				if !hasID || !hasCount {
					continue
				}
				if l, ok := as.Lhs[0].(*ast.Ident); ok {
					locals[info.ObjectOf(l)] = src
					T = t
				}
			}
			if len(locals) != 2 || T == nil {
				return true
			}
			n++
			construct := core.FuncName(fd) + " reduce function"
			name := func(o types.Object) string {
				if locals[o] == params[0] {
					return "a"
				}
				return "b"
			}
			term := func(e ast.Expr) string {
				if sel, ok := ast.Unparen(e).(*ast.SelectorExpr); ok {
					if id, ok := ast.Unparen(sel.X).(*ast.Ident); ok {
						if o := info.ObjectOf(id); locals[o] != nil && (sel.Sel.Name == "ID" || sel.Sel.Name == "Count") {
							return name(o) + "." + sel.Sel.Name
						}
					}
				}
				return ""
			}
			// skip the two assertion statements: ord cannot interpret them
			var body []ast.Stmt
			for _, st := range fl.Body.List {
				if as, ok := st.(*ast.AssignStmt); ok && len(as.Rhs) == 1 {
					if _, ok := ast.Unparen(as.Rhs[0]).(*ast.TypeAssertExpr); ok {
						continue
					}
				}
				body = append(body, st)
			}
			type res struct {
				who   string // "a", "b"
				accum bool
			}
			eval := func(o ord.Ordering) (res, string) {
				in := &ord.Interp{Info: info, O: o, Term: term}
				paths := in.Run(body, nil)
				if in.Unsupported != "" {
					return res{}, in.Unsupported
				}
				if len(paths) != 1 || paths[0].End != ord.EndReturn || len(paths[0].Ret) != 1 {
					return res{}, fmt.Sprintf("%d abstract paths", len(paths))
				}
				id, ok := ast.Unparen(paths[0].Ret[0]).(*ast.Ident)
				if !ok || locals[info.ObjectOf(id)] == nil {
					return res{}, "returns something other than one of the two partial results"
				}
				return res{name(info.ObjectOf(id)), len(paths[0].Accum) > 0}, ""
			}
			swap := func(t string) string {
				switch {
				case strings.HasPrefix(t, "a."):
					return "b." + t[2:]
				case strings.HasPrefix(t, "b."):
					return "a." + t[2:]
				}
				return t
			}
			bad, undec := "", ""
			nOrd := 0
			for _, o := range ord.Orderings([]string{"a.ID", "b.ID", "a.Count", "b.Count", "0"}) {
				if o["a.Count"] < o["0"] || o["b.Count"] < o["0"] {
					continue
				}
				nOrd++
				x, msg := eval(o)
				if msg != "" {
					undec = msg
					break
				}
				so := ord.Ordering{}
				for t, rk := range o {
					so[swap(t)] = rk
				}
				y, msg := eval(so)
				if msg != "" {
					undec = msg
					break
				}
				bothSet := o["a.Count"] > o["0"] && o["b.Count"] > o["0"]
				// the partial chosen must be the same one whichever side it arrives on
				chosenX, chosenY := x.who, swap(y.who+".")[:1]
				if bothSet && o["a.ID"] != o["b.ID"] && chosenX != chosenY && bad == "" {
					bad = fmt.Sprintf("for the ordering %s the result is operand %s, with the operands exchanged it is the other partial result", o, chosenX)
				}
				if bothSet && o["a.ID"] == o["b.ID"] && o["a.Count"] != o["b.Count"] && !(x.accum && y.accum) && bad == "" {
					bad = fmt.Sprintf("for the ordering %s both partial results name the same row with different counts and the function returns one of them unchanged: the count in the answer is that of whichever shard was reduced last", o)
				}
			}
			switch {
			case undec != "":
				r.Undecide("R5", construct, p.Pos(fl.Pos()), undec)
			case bad != "":
				r.Violate("R5", construct, p.Pos(fl.Pos()), bad)
			default:
				r.HoldAt("R5", construct, p.Pos(fl.Pos()), fmt.Sprintf("%d orderings: the choice is symmetric and equal keys combine their counts", nOrd))
			}
			return true
		})
	}
	r.Floor("C17/R5 key-comparing reduce functions", n, 2)
}
