package props

import (
	"fmt"
	"go/ast"
	"go/constant"
	"go/token"
	"go/types"
	"sort"
	"strings"

	"verif/checker/core"
	"verif/checker/flow"
)

func init() { register("C04", c04) }

func c04(p *core.Program, r *core.Report) {
	r.Rule("R1", "the bytes handed to a decoder are never written: (a) no function of package roaring stores (element store, copy destination, or call of a function that writes through that argument) into memory obtained by reinterpreting a []byte through unsafe.Pointer(&b[i]), including containers that were given such a slice and values returned by the roaring iterators; (b) no function on the decode path (UnmarshalBinary, ImportRoaringBits, newRoaringIterator, RemapRoaringStorage, op.UnmarshalBinary and the iterator methods) writes through a []byte parameter or through an iterator receiver")
	r.Rule("R2", "writer/reader layout agreement for Pilosa's format: the widths written by writeToUnoptimized (cookie word, key count, per-container descriptor key:8 type:2 n-1:2, 4-byte offsets) are the widths, offsets, strides and +1 correction read by unmarshalPilosaRoaring and by the Pilosa iterator; the two official-format readers read the same descriptor layout; every fixed-width read decodes exactly the bytes it slices")
	r.Rule("R3", "import accounting: in ImportRoaringBits each updater returns write=true only on paths that add a container-cardinality delta to both `changed` and the per-row map, returns write=false only on paths that touched neither, and every amount added derives from N() of the container being returned")
	r.Rule("R4", "official format, run cookie: the presence of the offset header depends on the container count (present from 4 containers on); both official readers must branch on the container count against that threshold on the run path")
	r.Rule("R5", "stored-minus-one quantities are widened before the increment: in every function of package roaring that reads integers from the wire (encoding/binary UintNN), no sum with a constant is computed in an 8- or 16-bit type")
	c04WidenBeforeIncrement(p, r)
	r.NotDecided = "round-trip equality and import == decode-then-merge for all sets (value level); correctness of the container kernels used by the updaters (C01)"
	rp := p.Pkg("roaring")
	if rp == nil {
		r.Undecide("R1", "package roaring", "", "not loaded")
		return
	}
	info := rp.TypesInfo

	// ---------------- R1
	pa := newPayloadAnalysis(rp)
	decode := c06RoaringDecodePath(rp)
	nInput := 0
	for _, f := range pa.funcs {
		name := core.FuncName(f.decl)
		w, bad := f.writes[plSum{kind: plInput, pay: true}]
		if bad {
			r.Violate("R1", name+" input alias", p.Pos(w.pos), "writes into the decoder's input bytes: "+w.what+" -- the memory aliases the caller's []byte (possibly a read-only mapping); decoding the same bytes again yields a different set")
			nInput++
			continue
		}
		if f.sawInput {
			nInput++
			r.HoldAt("R1", name+" input alias", p.Pos(f.decl.Pos()), "handles input-backed memory and never stores through it")
		}
	}
	r.Floor("C04/R1 functions handling input-backed memory", nInput, 6)
	nDec := 0
	for _, f := range pa.funcs {
		name := core.FuncName(f.decl)
		if !decode[name] {
			continue
		}
		var ps []int
		for o, i := range f.params {
			if i == 0 {
				if strings.HasSuffix(core.RecvName(f.decl), "RoaringIterator") {
					ps = append(ps, 0)
				}
				continue
			}
			if sl, ok := o.Type().Underlying().(*types.Slice); ok {
				if b, ok := sl.Elem().Underlying().(*types.Basic); ok && b.Kind() == types.Uint8 {
					ps = append(ps, i)
				}
			}
		}
		sort.Ints(ps)
		for _, i := range ps {
			nDec++
			c := fmt.Sprintf("%s %s", name, plParamName(f, i))
			// a []byte parameter: its backing array; an iterator receiver:
			// the memory it points into (its own fields may change)
			want := plParam
			if i == 0 {
				want = plParamDeep
			}
			var w plWitness
			bad := false
			var keys []plSum
			for k := range f.writes {
				if k.kind == want && k.idx == i && k.pay {
					keys = append(keys, k)
				}
			}
			sort.Slice(keys, func(x, y int) bool { return f.writes[keys[x]].pos < f.writes[keys[y]].pos })
			if len(keys) > 0 {
				w, bad = f.writes[keys[0]], true
			}
			if bad {
				r.Violate("R1", c, p.Pos(w.pos), "a decode-path function writes through its input: "+w.what)
			} else {
				r.HoldAt("R1", c, p.Pos(f.decl.Pos()), "not written, directly or through callees")
			}
		}
	}
	r.Floor("C04/R1 decode-path byte parameters and iterator receivers", nDec, 10)

	// ---------------- R2
	c04Layout(p, r)

	// ---------------- R3
	c04Updaters(p, r)

	// ---------------- R4
	isThresholdCmp := func(n ast.Node) bool {
		be, ok := n.(*ast.BinaryExpr)
		if !ok {
			return false
		}
		switch be.Op {
		case token.LSS, token.LEQ, token.GTR, token.GEQ:
		default:
			return false
		}
		for _, pair := range [][2]ast.Expr{{be.X, be.Y}, {be.Y, be.X}} {
			tv, ok := info.Types[pair[0]]
			if !ok || tv.Value == nil || tv.Value.Kind() != constant.Int {
				continue
			}
			v, _ := constant.Int64Val(tv.Value)
			if v != 3 && v != 4 {
				continue
			}
			// other side: a plain integer variable (through conversions), not len(...)
			o := ast.Unparen(pair[1])
			for {
				c, ok := o.(*ast.CallExpr)
				if !ok || len(c.Args) != 1 {
					break
				}
				if tv, ok := info.Types[c.Fun]; !ok || !tv.IsType() {
					break
				}
				o = ast.Unparen(c.Args[0])
			}
			switch o.(type) {
			case *ast.Ident, *ast.SelectorExpr:
				return true
			}
		}
		return false
	}
	readerPaths := map[string][][2]string{
		"UnmarshalBinary path":      {{"Bitmap", "UnmarshalBinary"}, {"", "readOfficialHeader"}, {"", "readWithRuns"}},
		"officialRoaringIterator path": {{"", "newOfficialRoaringIterator"}, {"", "readOfficialHeader"}, {"officialRoaringIterator", "Next"}},
	}
	var rnames []string
	for k := range readerPaths {
		rnames = append(rnames, k)
	}
	sort.Strings(rnames)
	for _, k := range rnames {
		found := ""
		missing := false
		for _, fn := range readerPaths[k] {
			fd := core.FuncDecl(rp, fn[0], fn[1])
			if fd == nil {
				missing = true
				r.Undecide("R4", k, "", "function "+fn[1]+" not found")
				break
			}
			ast.Inspect(fd.Body, func(n ast.Node) bool {
				if n != nil && found == "" && isThresholdCmp(n) {
					found = p.Pos(n.Pos())
				}
				return true
			})
		}
		if missing {
			continue
		}
		if found != "" {
			r.HoldAt("R4", k, found, "branches on the container count against the offset-header threshold")
		} else {
			r.Violate("R4", k, "", "this reader never compares the container count with the offset-header threshold: with the run cookie it either always or never expects an offset header, so it misreads valid input with fewer than, or at least, 4 containers")
		}
	}
}

// ---------------------------------------------------------------- R2

type c04Read struct {
	lo, hi int64 // hi == -1: open-ended
	bits   int
	plus1  bool
	pos    token.Pos
}

// c04ConstInt evaluates a constant integer expression.
func c04ConstInt(info *types.Info, e ast.Expr) (int64, bool) {
	if e == nil {
		return 0, false
	}
	tv, ok := info.Types[e]
	if !ok || tv.Value == nil || tv.Value.Kind() != constant.Int {
		return 0, false
	}
	v, ok := constant.Int64Val(tv.Value)
	return v, ok
}

// c04FixedReads collects binary.LittleEndian.UintNN(X[lo:hi]) with constant
// bounds, grouped by the base variable of X.
func c04FixedReads(info *types.Info, fds []*ast.FuncDecl) map[types.Object][]c04Read {
	out := map[types.Object][]c04Read{}
	for _, fd := range fds {
		var stack []ast.Node
		ast.Inspect(fd.Body, func(n ast.Node) bool {
			if n == nil {
				stack = stack[:len(stack)-1]
				return true
			}
			stack = append(stack, n)
			c, ok := n.(*ast.CallExpr)
			if !ok || len(c.Args) != 1 {
				return true
			}
			fn := core.CalleeOf(info, c)
			if fn == nil || fn.Pkg() == nil || fn.Pkg().Path() != "encoding/binary" || !strings.HasPrefix(fn.Name(), "Uint") {
				return true
			}
			bits := 0
			fmt.Sscanf(fn.Name(), "Uint%d", &bits)
			se, ok := ast.Unparen(c.Args[0]).(*ast.SliceExpr)
			if !ok {
				return true
			}
			lo, okLo := int64(0), true
			if se.Low != nil {
				lo, okLo = c04ConstInt(info, se.Low)
			}
			if !okLo {
				return true
			}
			hi := int64(-1)
			if se.High != nil {
				h, ok := c04ConstInt(info, se.High)
				if !ok {
					return true
				}
				hi = h
			}
			base := plBase(se.X)
			var obj types.Object
			switch b := base.(type) {
			case *ast.Ident:
				obj = info.ObjectOf(b)
			}
			if sel, ok := ast.Unparen(se.X).(*ast.SelectorExpr); ok {
				obj = info.ObjectOf(sel.Sel)
			}
			if obj == nil {
				return true
			}
			rd := c04Read{lo: lo, hi: hi, bits: bits, pos: c.Pos()}
			// +1 correction: an enclosing `... + 1`
			for i := len(stack) - 2; i >= 0; i-- {
				if be, ok := stack[i].(*ast.BinaryExpr); ok && be.Op == token.ADD {
					if v, ok := c04ConstInt(info, be.Y); ok && v == 1 {
						rd.plus1 = true
					}
					if v, ok := c04ConstInt(info, be.X); ok && v == 1 {
						rd.plus1 = true
					}
				}
				if _, isStmt := stack[i].(ast.Stmt); isStmt {
					break
				}
			}
			if !rd.plus1 {
				// `v := conv(read)` followed by `v + 1` at its uses: the
				// correction is applied where the value is consumed
				if v := c04DefinedVar(info, stack); v != nil {
					plus, _ := c04UsesOf(info, fd, v)
					rd.plus1 = plus > 0
				}
			}
			out[obj] = append(out[obj], rd)
			return true
		})
	}
	return out
}

// c04DefinedVar: the local variable a read on top of the stack initialises
// through conversions only (`v := int(read)`), or nil.
func c04DefinedVar(info *types.Info, stack []ast.Node) *types.Var {
	i := len(stack) - 2
	for ; i >= 0; i-- {
		switch x := stack[i].(type) {
		case *ast.ParenExpr:
			continue
		case *ast.CallExpr:
			if tv, ok := info.Types[x.Fun]; ok && tv.IsType() {
				continue
			}
			return nil
		case *ast.AssignStmt:
			if len(x.Lhs) != 1 || len(x.Rhs) != 1 {
				return nil
			}
			id, ok := x.Lhs[0].(*ast.Ident)
			if !ok {
				return nil
			}
			v, _ := info.ObjectOf(id).(*types.Var)
			if v == nil || v.IsField() || v.Parent() == v.Pkg().Scope() {
				return nil
			}
			return v
		default:
			return nil
		}
	}
	return nil
}

// c04UsesOf counts the uses of v under a `+ 1` and lists the uses that hand
// the uncorrected value on: a call argument, a store into a field or element,
// a returned value. Comparisons and other arithmetic are not consumers.
func c04UsesOf(info *types.Info, fd *ast.FuncDecl, v *types.Var) (plus int, raw []token.Pos) {
	var stack []ast.Node
	ast.Inspect(fd.Body, func(n ast.Node) bool {
		if n == nil {
			stack = stack[:len(stack)-1]
			return true
		}
		stack = append(stack, n)
		id, ok := n.(*ast.Ident)
		if !ok || info.Uses[id] != v {
			return true
		}
		var child ast.Node = id
		for i := len(stack) - 2; i >= 0; i-- {
			switch x := stack[i].(type) {
			case *ast.ParenExpr:
				child = x
				continue
			case *ast.BinaryExpr:
				if x.Op == token.ADD {
					if c, ok := c04ConstInt(info, x.Y); ok && c == 1 {
						plus++
					} else if c, ok := c04ConstInt(info, x.X); ok && c == 1 {
						plus++
					}
				}
			case *ast.CallExpr:
				if tv, ok := info.Types[x.Fun]; ok && tv.IsType() {
					child = x
					continue
				}
				if child != x.Fun {
					raw = append(raw, id.Pos())
				}
			case *ast.ReturnStmt:
				raw = append(raw, id.Pos())
			case *ast.AssignStmt:
				for j, rhs := range x.Rhs {
					if rhs != child || j >= len(x.Lhs) {
						continue
					}
					switch ast.Unparen(x.Lhs[j]).(type) {
					case *ast.SelectorExpr, *ast.IndexExpr:
						raw = append(raw, id.Pos())
					}
				}
			}
			break
		}
		return true
	})
	return
}

// c04UncorrectedConsumers: a cardinality read that is corrected by `+ 1` at
// some uses of its variable must not reach a consumer without it.
func c04UncorrectedConsumers(info *types.Info, fds []*ast.FuncDecl) (vars int, raw []token.Pos) {
	for _, fd := range fds {
		var stack []ast.Node
		ast.Inspect(fd.Body, func(n ast.Node) bool {
			if n == nil {
				stack = stack[:len(stack)-1]
				return true
			}
			stack = append(stack, n)
			c, ok := n.(*ast.CallExpr)
			if !ok || len(c.Args) != 1 {
				return true
			}
			fn := core.CalleeOf(info, c)
			if fn == nil || fn.Pkg() == nil || fn.Pkg().Path() != "encoding/binary" || !strings.HasPrefix(fn.Name(), "Uint") {
				return true
			}
			v := c04DefinedVar(info, stack)
			if v == nil {
				return true
			}
			plus, rw := c04UsesOf(info, fd, v)
			if plus > 0 {
				vars++
				raw = append(raw, rw...)
			}
			return true
		})
	}
	return
}

// c04Multipliers: constant factors applied to the container count or to a
// container index. The count is the variable (or field) assigned from the
// read of the count word (c04CountVars); an index is anything compared with
// it. only == nil: every constant factor (used for the writer).
func c04Multipliers(info *types.Info, fds []*ast.FuncDecl, only map[types.Object]bool) map[int64]bool {
	out := map[int64]bool{}
	mentions := func(e ast.Expr) bool {
		if only == nil {
			return true
		}
		hit := false
		ast.Inspect(e, func(n ast.Node) bool {
			if id, ok := n.(*ast.Ident); ok && only[info.ObjectOf(id)] {
				hit = true
			}
			return true
		})
		return hit
	}
	for _, fd := range fds {
		ast.Inspect(fd.Body, func(n ast.Node) bool {
			be, ok := n.(*ast.BinaryExpr)
			if !ok || be.Op != token.MUL {
				return true
			}
			if _, whole := c04ConstInt(info, be); whole {
				return false
			}
			if v, ok := c04ConstInt(info, be.X); ok && mentions(be.Y) {
				out[v] = true
			}
			if v, ok := c04ConstInt(info, be.Y); ok && mentions(be.X) {
				out[v] = true
			}
			return true
		})
	}
	return out
}

// c04CountVars: the objects holding the container count (assigned from the
// fixed read [lo:hi]) and the indices compared with it.
func c04CountVars(info *types.Info, fds []*ast.FuncDecl, lo, hi int64) (count, index map[types.Object]bool) {
	out := map[types.Object]bool{}
	index = map[types.Object]bool{}
	objOf := func(e ast.Expr) types.Object {
		e = ast.Unparen(e)
		for {
			c, ok := e.(*ast.CallExpr)
			if !ok || len(c.Args) != 1 {
				break
			}
			if tv, ok := info.Types[c.Fun]; !ok || !tv.IsType() {
				break
			}
			e = ast.Unparen(c.Args[0])
		}
		switch x := e.(type) {
		case *ast.Ident:
			return info.ObjectOf(x)
		case *ast.SelectorExpr:
			return info.ObjectOf(x.Sel)
		}
		return nil
	}
	for _, fd := range fds {
		ast.Inspect(fd.Body, func(n ast.Node) bool {
			as, ok := n.(*ast.AssignStmt)
			if !ok || len(as.Lhs) != len(as.Rhs) {
				return true
			}
			for i, rhs := range as.Rhs {
				isCount := false
				ast.Inspect(rhs, func(m ast.Node) bool {
					if se, ok := m.(*ast.SliceExpr); ok {
						l, okL := c04ConstInt(info, se.Low)
						h, okH := c04ConstInt(info, se.High)
						if okL && okH && l == lo && h == hi {
							isCount = true
						}
					}
					return true
				})
				if isCount {
					if o := objOf(as.Lhs[i]); o != nil {
						out[o] = true
					}
				}
			}
			return true
		})
	}
	for _, fd := range fds {
		ast.Inspect(fd.Body, func(n ast.Node) bool {
			be, ok := n.(*ast.BinaryExpr)
			if !ok {
				return true
			}
			switch be.Op {
			case token.LSS, token.LEQ, token.GTR, token.GEQ, token.EQL, token.NEQ:
			default:
				return true
			}
			x, y := objOf(be.X), objOf(be.Y)
			if x != nil && y != nil {
				if out[x] && !out[y] {
					index[y] = true
				} else if out[y] && !out[x] {
					index[x] = true
				}
			}
			return true
		})
	}
	return out, index
}

func c04Layout(p *core.Program, r *core.Report) {
	rp := p.Pkg("roaring")
	info := rp.TypesInfo
	w := core.FuncDecl(rp, "Bitmap", "writeToUnoptimized")
	if w == nil {
		r.Undecide("R2", "(*Bitmap).writeToUnoptimized", "", "not found")
		return
	}
	// writer: widths of ew.WriteUintNN calls grouped by enclosing loop
	type wr struct {
		bits   int
		minus1 bool
		shift  int64
	}
	var groups [][]wr
	cur := -1
	var loops []*ast.ForStmt
	ast.Inspect(w.Body, func(n ast.Node) bool {
		if fs, ok := n.(*ast.ForStmt); ok {
			loops = append(loops, fs)
		}
		return true
	})
	loopOf := func(pos token.Pos) int {
		for i, l := range loops {
			if l.Pos() <= pos && pos < l.End() {
				return i + 1
			}
		}
		return 0
	}
	ast.Inspect(w.Body, func(n ast.Node) bool {
		c, ok := n.(*ast.CallExpr)
		if !ok {
			return true
		}
		fn := core.CalleeOf(info, c)
		if fn == nil || !strings.HasPrefix(fn.Name(), "WriteUint") || !recvNamed(fn, "errWriter") || len(c.Args) != 2 {
			return true
		}
		x := wr{}
		fmt.Sscanf(fn.Name(), "WriteUint%d", &x.bits)
		ast.Inspect(c.Args[1], func(m ast.Node) bool {
			if be, ok := m.(*ast.BinaryExpr); ok {
				if v, ok := c04ConstInt(info, be.Y); ok {
					if be.Op == token.SUB && v == 1 {
						x.minus1 = true
					}
					if be.Op == token.SHL {
						x.shift = v
					}
				}
			}
			return true
		})
		g := loopOf(c.Pos())
		if g != cur {
			groups = append(groups, nil)
			cur = g
		}
		groups[len(groups)-1] = append(groups[len(groups)-1], x)
		return true
	})
	if len(groups) != 3 {
		r.Undecide("R2", "(*Bitmap).writeToUnoptimized", p.Pos(w.Pos()), fmt.Sprintf("expected a prelude, a descriptor loop and an offset loop of fixed-width writes; found %d groups", len(groups)))
		return
	}
	sum := func(g []wr) int64 {
		var s int64
		for _, x := range g {
			s += int64(x.bits / 8)
		}
		return s
	}
	prelude, desc, offs := groups[0], groups[1], groups[2]
	P, D, O := sum(prelude), sum(desc), sum(offs)
	hb := rp.Types.Scope().Lookup("headerBaseSize")
	if c, ok := hb.(*types.Const); ok {
		v, _ := constant.Int64Val(c.Val())
		r.Check(v == P, "R2", "headerBaseSize", p.Pos(w.Pos()), fmt.Sprintf("prelude written is %d bytes = headerBaseSize", P), fmt.Sprintf("writeToUnoptimized writes a %d-byte prelude but headerBaseSize is %d: every reader starts the descriptor section at the wrong offset", P, v))
	} else {
		r.Undecide("R2", "headerBaseSize", "", "constant not found")
	}
	// the writer's own size arithmetic uses D+O
	wm := c04Multipliers(info, []*ast.FuncDecl{w}, nil)
	r.Check(wm[D+O] && len(wm) == 1, "R2", "(*Bitmap).writeToUnoptimized header size", p.Pos(w.Pos()), fmt.Sprintf("header size uses %d bytes per container = descriptor %d + offset %d", D+O, D, O), fmt.Sprintf("the writer's offset arithmetic uses per-container factors %v but it writes %d+%d bytes per container: container offsets point at the wrong bytes", keysOf(wm), D, O))
	// descriptor layout of the writer
	var wl []c04Read
	var off int64
	for _, x := range desc {
		wl = append(wl, c04Read{lo: off, hi: off + int64(x.bits/8), bits: x.bits, plus1: x.minus1})
		off += int64(x.bits / 8)
	}
	layoutStr := func(l []c04Read) string {
		var s []string
		for _, x := range l {
			t := fmt.Sprintf("[%d:%d]u%d", x.lo, x.hi, x.bits)
			if x.plus1 {
				t += "±1"
			}
			s = append(s, t)
		}
		return strings.Join(s, " ")
	}
	norm := func(l []c04Read) []c04Read {
		out := append([]c04Read{}, l...)
		sort.Slice(out, func(i, j int) bool { return out[i].lo < out[j].lo })
		for i := range out {
			out[i].pos = token.NoPos
		}
		return out
	}
	equal := func(a, b []c04Read) bool {
		if len(a) != len(b) {
			return false
		}
		for i := range a {
			if a[i] != b[i] {
				return false
			}
		}
		return true
	}
	flagShift := int64(-1)
	for _, x := range prelude {
		if x.shift > 0 {
			flagShift = x.shift
		}
	}
	type reader struct {
		name string
		fns  [][2]string
	}
	readers := []reader{
		{"unmarshalPilosaRoaring", [][2]string{{"Bitmap", "unmarshalPilosaRoaring"}}},
		{"pilosaRoaringIterator", [][2]string{{"", "newPilosaRoaringIterator"}, {"pilosaRoaringIterator", "Next"}}},
	}
	for _, rd := range readers {
		var fds []*ast.FuncDecl
		for _, fn := range rd.fns {
			if fd := core.FuncDecl(rp, fn[0], fn[1]); fd != nil {
				fds = append(fds, fd)
			}
		}
		if len(fds) != len(rd.fns) {
			r.Undecide("R2", rd.name, "", "reader function not found")
			continue
		}
		reads := c04FixedReads(info, fds)
		// every fixed-width read decodes the bytes it slices
		okW := true
		for _, l := range reads {
			for _, x := range l {
				if x.hi >= 0 && x.hi-x.lo != int64(x.bits/8) {
					okW = false
					r.Violate("R2", rd.name+" read width", p.Pos(x.pos), fmt.Sprintf("Uint%d applied to a %d-byte slice [%d:%d]", x.bits, x.hi-x.lo, x.lo, x.hi))
				}
			}
		}
		if okW {
			r.Hold("R2", rd.name+" read width", "every fixed-width read decodes exactly the bytes it slices")
		}
		// a variable whose reads are the writer's descriptor layout
		found := false
		var seen []string
		for _, l := range reads {
			n := norm(l)
			if len(n) >= 2 {
				seen = append(seen, layoutStr(n))
			}
			if equal(n, norm(wl)) {
				found = true
			}
		}
		sort.Strings(seen)
		r.Check(found, "R2", rd.name+" descriptor", p.Pos(fds[0].Pos()), "reads the descriptor as written: "+layoutStr(wl), "no descriptor read matches what writeToUnoptimized writes ("+layoutStr(wl)+"); reader has "+strings.Join(seen, " | ")+": keys, types or cardinalities are decoded from the wrong bytes (or without the +1 that undoes the writer's n-1)")
		// key count at offset = first prelude word
		kc := false
		for _, l := range reads {
			for _, x := range l {
				if x.lo == int64(prelude[0].bits/8) && x.hi == P && x.bits == prelude[1].bits {
					kc = true
				}
			}
		}
		r.Check(kc, "R2", rd.name+" key count", p.Pos(fds[0].Pos()), fmt.Sprintf("key count read from [%d:%d]", prelude[0].bits/8, P), "the container count is not read from the bytes the writer puts it in")
		// strides
		cv, iv := c04CountVars(info, fds, int64(prelude[0].bits/8), P)
		ms := c04Multipliers(info, fds, cv)
		is := c04Multipliers(info, fds, iv)
		okM := ms[D]
		for m := range ms {
			if m != D && m != O && m != D+O {
				okM = false
			}
		}
		// an index steps through one section: descriptor or offset stride only
		for m := range is {
			if m != D && m != O {
				okM = false
			}
		}
		r.Check(okM, "R2", rd.name+" strides", p.Pos(fds[0].Pos()), fmt.Sprintf("container-count factors %v within {%d,%d,%d}; container-index factors %v within {%d,%d}", keysOf(ms), D, O, D+O, keysOf(is), D, O), fmt.Sprintf("container-count factors %v / container-index factors %v disagree with the writer's descriptor %d / offset %d bytes: sections or entries are located at the wrong offsets", keysOf(ms), keysOf(is), D, O))
	}
	// flags byte
	if um := core.FuncDecl(rp, "Bitmap", "unmarshalPilosaRoaring"); um != nil && flagShift >= 0 {
		okF := false
		ast.Inspect(um.Body, func(n ast.Node) bool {
			as, ok := n.(*ast.AssignStmt)
			if !ok || len(as.Lhs) != 1 || len(as.Rhs) != 1 {
				return true
			}
			if sel, ok := ast.Unparen(as.Lhs[0]).(*ast.SelectorExpr); ok && sel.Sel.Name == "Flags" {
				if ix, ok := ast.Unparen(as.Rhs[0]).(*ast.IndexExpr); ok {
					if v, ok := c04ConstInt(info, ix.Index); ok && v*8 == flagShift {
						okF = true
					}
				}
			}
			return true
		})
		r.Check(okF, "R2", "flags byte", p.Pos(um.Pos()), fmt.Sprintf("flags written at bit %d, read from byte %d", flagShift, flagShift/8), "the flags byte is read from a different byte than the writer stores it in: flags do not round-trip")
	}
	// official readers agree with each other
	var offA, offB []*ast.FuncDecl
	for _, fn := range [][2]string{{"Bitmap", "UnmarshalBinary"}} {
		if fd := core.FuncDecl(rp, fn[0], fn[1]); fd != nil {
			offA = append(offA, fd)
		}
	}
	for _, fn := range [][2]string{{"", "newOfficialRoaringIterator"}, {"officialRoaringIterator", "Next"}} {
		if fd := core.FuncDecl(rp, fn[0], fn[1]); fd != nil {
			offB = append(offB, fd)
		}
	}
	pick := func(fds []*ast.FuncDecl) []c04Read {
		var best []c04Read
		for _, l := range c04FixedReads(info, fds) {
			n := norm(l)
			// the descriptor is the read group with a +1 correction
			has := false
			for _, x := range n {
				if x.plus1 {
					has = true
				}
			}
			if has && len(n) >= 2 {
				best = n
			}
		}
		return best
	}
	for _, g := range []struct {
		name string
		fds  []*ast.FuncDecl
	}{{"UnmarshalBinary", offA}, {"officialRoaringIterator", offB}} {
		nv, raw := c04UncorrectedConsumers(info, g.fds)
		if len(raw) == 0 {
			r.HoldAt("R2", g.name+" cardinality correction", p.Pos(g.fds[0].Pos()), fmt.Sprintf("%d separately corrected cardinality variable(s); none reaches a call, field or return uncorrected", nv))
		} else {
			r.Violate("R2", g.name+" cardinality correction", p.Pos(raw[0]), "the stored cardinality-minus-one is corrected by +1 at some uses but handed on uncorrected here: the consumer (container typing, sizes) sees N-1 and the boundary cardinality decodes as the wrong container type")
		}
	}
	a, b := pick(offA), pick(offB)
	if a == nil || b == nil {
		r.Undecide("R2", "official descriptor", "", "descriptor reads not recognised in one of the official readers")
	} else {
		r.Check(equal(a, b), "R2", "official descriptor", p.Pos(offA[0].Pos()), "both official readers read "+layoutStr(a), "the official readers disagree: UnmarshalBinary reads "+layoutStr(a)+", the iterator reads "+layoutStr(b)+": the same bytes decode differently when imported and when unmarshalled")
	}
}

func keysOf(m map[int64]bool) []int64 {
	var out []int64
	for k := range m {
		out = append(out, k)
	}
	sort.Slice(out, func(i, j int) bool { return out[i] < out[j] })
	return out
}

// ---------------------------------------------------------------- R3

func c04Updaters(p *core.Program, r *core.Report) {
	rp := p.Pkg("roaring")
	info := rp.TypesInfo
	fd := core.FuncDecl(rp, "Bitmap", "ImportRoaringBits")
	if fd == nil {
		r.Undecide("R3", "(*Bitmap).ImportRoaringBits", "", "not found")
		return
	}
	// result objects
	var changedObj, rowSetObj types.Object
	if fd.Type.Results != nil {
		for _, fld := range fd.Type.Results.List {
			for _, nm := range fld.Names {
				o := info.Defs[nm]
				if o == nil {
					continue
				}
				if b, ok := o.Type().Underlying().(*types.Basic); ok && b.Info()&types.IsInteger != 0 && changedObj == nil {
					changedObj = o
				}
				if _, ok := o.Type().Underlying().(*types.Map); ok && rowSetObj == nil {
					rowSetObj = o
				}
			}
		}
	}
	if changedObj == nil || rowSetObj == nil {
		r.Undecide("R3", "(*Bitmap).ImportRoaringBits", p.Pos(fd.Pos()), "named results for the change count and the per-row map not found")
		return
	}
	var lits []*ast.FuncLit
	ast.Inspect(fd.Body, func(n ast.Node) bool {
		if fl, ok := n.(*ast.FuncLit); ok {
			if fl.Type.Results != nil && fl.Type.Results.NumFields() == 2 && fl.Type.Params.NumFields() == 2 {
				lits = append(lits, fl)
				return false
			}
		}
		return true
	})
	r.Floor("C04/R3 import updaters", len(lits), 2)
	usesObj := func(e ast.Expr, o types.Object) bool {
		found := false
		ast.Inspect(e, func(n ast.Node) bool {
			if id, ok := n.(*ast.Ident); ok && info.ObjectOf(id) == o {
				found = true
			}
			return true
		})
		return found
	}
	for i, lit := range lits {
		construct := fmt.Sprintf("ImportRoaringBits updater #%d", i+1)
		const (
			bChanged flow.State = 1 << iota
			bRow
			bEmpty
		)
		// prior cardinality: locals assigned from <first parameter>.N()
		priorN := map[types.Object]bool{}
		var param0 types.Object
		if len(lit.Type.Params.List) > 0 && len(lit.Type.Params.List[0].Names) > 0 {
			param0 = info.Defs[lit.Type.Params.List[0].Names[0]]
		}
		ast.Inspect(lit.Body, func(n ast.Node) bool {
			if as, ok := n.(*ast.AssignStmt); ok && len(as.Lhs) == len(as.Rhs) {
				for k, l := range as.Lhs {
					id, ok := ast.Unparen(l).(*ast.Ident)
					if !ok {
						continue
					}
					if c, ok := ast.Unparen(as.Rhs[k]).(*ast.CallExpr); ok {
						if fn := core.CalleeOf(info, c); fn != nil && fn.Name() == "N" && recvNamed(fn, "Container") {
							if sel, ok := ast.Unparen(c.Fun).(*ast.SelectorExpr); ok {
								if rid, ok := ast.Unparen(sel.X).(*ast.Ident); ok && info.ObjectOf(rid) == param0 {
									priorN[info.ObjectOf(id)] = true
								}
							}
						}
					}
				}
			}
			return true
		})
		// local definitions for the N()-derivation check
		defs := map[types.Object][]ast.Expr{}
		ast.Inspect(lit.Body, func(n ast.Node) bool {
			if as, ok := n.(*ast.AssignStmt); ok && len(as.Lhs) == len(as.Rhs) {
				for k, l := range as.Lhs {
					if id, ok := ast.Unparen(l).(*ast.Ident); ok {
						if o := info.ObjectOf(id); o != nil {
							defs[o] = append(defs[o], as.Rhs[k])
						}
					}
				}
			}
			return true
		})
		var callsNOn func(e ast.Expr, depth int) map[types.Object]bool
		callsNOn = func(e ast.Expr, depth int) map[types.Object]bool {
			out := map[types.Object]bool{}
			if depth > 4 {
				return out
			}
			ast.Inspect(e, func(n ast.Node) bool {
				switch x := n.(type) {
				case *ast.CallExpr:
					if fn := core.CalleeOf(info, x); fn != nil && fn.Name() == "N" && recvNamed(fn, "Container") {
						if sel, ok := ast.Unparen(x.Fun).(*ast.SelectorExpr); ok {
							if id, ok := ast.Unparen(sel.X).(*ast.Ident); ok {
								out[info.ObjectOf(id)] = true
							}
						}
					}
				case *ast.Ident:
					if o := info.ObjectOf(x); o != nil {
						for _, d := range defs[o] {
							for k := range callsNOn(d, depth+1) {
								out[k] = true
							}
						}
					}
				}
				return true
			})
			return out
		}
		var usesPrior func(e ast.Expr, depth int) bool
		usesPrior = func(e ast.Expr, depth int) bool {
			if depth > 4 {
				return false
			}
			hit := false
			ast.Inspect(e, func(n ast.Node) bool {
				if id, ok := n.(*ast.Ident); ok {
					o := info.ObjectOf(id)
					if priorN[o] {
						hit = true
					}
					for _, d := range defs[o] {
						if usesPrior(d, depth+1) {
							hit = true
						}
					}
				}
				return true
			})
			return hit
		}
		type incr struct {
			pos  token.Pos
			nOf  map[types.Object]bool
			text string
		}
		var incrs []incr
		var bad []string
		h := flow.Hooks{Info: info}
		h.Refine = func(cond ast.Expr, taken bool, s flow.State) (flow.State, bool) {
			// existN == 0 (or the container did not exist): nothing was there before
			if be, ok := ast.Unparen(cond).(*ast.BinaryExpr); ok && be.Op == token.EQL && taken {
				if id, ok := ast.Unparen(be.X).(*ast.Ident); ok && priorN[info.ObjectOf(id)] {
					if v, ok := c04ConstInt(info, be.Y); ok && v == 0 {
						return s | bEmpty, true
					}
				}
			}
			return s, true
		}
		h.Atom = func(n ast.Node, s flow.State) []flow.State {
			as, ok := n.(*ast.AssignStmt)
			if !ok || len(as.Lhs) != 1 {
				return []flow.State{s}
			}
			l := ast.Unparen(as.Lhs[0])
			if id, ok := l.(*ast.Ident); ok && info.ObjectOf(id) == changedObj {
				incrs = append(incrs, incr{as.Pos(), callsNOn(as.Rhs[0], 0), types.ExprString(as.Rhs[0])})
				// the amount is a difference against what was there before, unless nothing was
				if s&bEmpty == 0 && !usesPrior(as.Rhs[0], 0) {
					bad = append(bad, p.Pos(as.Pos())+": adds "+types.ExprString(as.Rhs[0])+" to the change count on a path where the existing container may hold bits, without subtracting its cardinality")
				}
				return []flow.State{s | bChanged}
			}
			if ix, ok := l.(*ast.IndexExpr); ok && usesObj(ix.X, rowSetObj) {
				return []flow.State{s | bRow}
			}
			return []flow.State{s}
		}
		h.PreReturn = func(ret *ast.ReturnStmt, l *ast.FuncLit, s flow.State) flow.State {
			if l != nil || ret == nil || len(ret.Results) != 2 {
				return s
			}
			id, ok := ast.Unparen(ret.Results[1]).(*ast.Ident)
			if !ok || (id.Name != "true" && id.Name != "false") {
				bad = append(bad, p.Pos(ret.Pos())+": the write flag is not a literal, cannot pair it with the accounting")
				return s
			}
			if id.Name == "true" {
				if s&bChanged == 0 || s&bRow == 0 {
					bad = append(bad, p.Pos(ret.Pos())+": returns write=true on a path that did not add the delta to both the change count and the per-row map")
				}
				// the returned container's N() feeds the amount
				if rid, ok := ast.Unparen(ret.Results[0]).(*ast.Ident); ok {
					o := info.ObjectOf(rid)
					okN := false
					for _, in := range incrs {
						if in.nOf[o] {
							okN = true
						}
					}
					if !okN {
						bad = append(bad, p.Pos(ret.Pos())+": the amount added to the change count does not derive from N() of the returned container "+rid.Name)
					}
				}
			} else if s&(bChanged|bRow) != 0 {
				bad = append(bad, p.Pos(ret.Pos())+": returns write=false on a path that already changed the accounting")
			}
			return s
		}
		it := flow.Run(h, lit.Body, 0)
		switch {
		case it.Unsupported != "":
			r.Undecide("R3", construct, p.Pos(lit.Pos()), it.Unsupported)
		case len(bad) > 0:
			r.Violate("R3", construct, p.Pos(lit.Pos()), strings.Join(bad, "; ")+" -- the reported number of changed bits (and the op-log record built from it) no longer equals what the import did")
		default:
			r.HoldAt("R3", construct, p.Pos(lit.Pos()), fmt.Sprintf("write flag paired with accounting on every path; %d increments derive from N() of the returned container", len(incrs)))
		}
	}
}

// c04WidenBeforeIncrement: rule R5. Both formats store counts minus one in 16
// bits (container count with the run cookie, cardinality, run count), and the
// maximum 0xFFFF is a valid value. Adding the one back in the stored type
// wraps it to 0.
func c04WidenBeforeIncrement(p *core.Program, r *core.Report) {
	rp := p.Pkg("roaring")
	if rp == nil {
		return
	}
	info := rp.TypesInfo
	nFuncs, nAdds := 0, 0
	for _, fd := range core.AllFuncDecls(rp) {
		if fd.Body == nil || strings.HasSuffix(p.Fset.Position(fd.Pos()).Filename, "_test.go") {
			continue
		}
		readsWire := false
		ast.Inspect(fd.Body, func(n ast.Node) bool {
			if c, ok := n.(*ast.CallExpr); ok {
				if fn := core.CalleeOf(info, c); fn != nil && fn.Pkg() != nil && fn.Pkg().Path() == "encoding/binary" && strings.HasPrefix(fn.Name(), "Uint") {
					readsWire = true
				}
			}
			return true
		})
		if !readsWire {
			continue
		}
		nFuncs++
		ast.Inspect(fd.Body, func(n ast.Node) bool {
			ar, ok := n.(*ast.BinaryExpr)
			if !ok || ar.Op != token.ADD {
				return true
			}
			if tv, ok := info.Types[ar]; ok && tv.Value != nil {
				return true
			}
			_, cx := c04ConstInt(info, ar.X)
			_, cy := c04ConstInt(info, ar.Y)
			if !cx && !cy {
				return true
			}
			nAdds++
			b, ok := info.TypeOf(ar).Underlying().(*types.Basic)
			if !ok {
				return true
			}
			switch b.Kind() {
			case types.Uint8, types.Uint16, types.Int8, types.Int16:
				r.Violate("R5", core.FuncName(fd)+" `"+types.ExprString(ar)+"`", p.Pos(ar.Pos()), "a constant is added in "+b.Name()+" in a function that decodes integers from the wire: the formats store counts minus one and 0xFFFF (2^16 containers, values or runs) is valid, so the sum wraps to 0 and the maximum decodes as nothing")
			}
			return true
		})
	}
	r.Floor("C04/R5 wire-reading functions", nFuncs, 6)
	r.Floor("C04/R5 constant increments in wire-reading functions", nAdds, 10)
	if nAdds > 0 {
		r.HoldAt("R5", "constant increments in wire-reading functions", "", fmt.Sprintf("%d increments examined; none outside the reported ones is computed in 8 or 16 bits", nAdds))
	}
}

// DebugNarrowAdds lists 8/16-bit non-constant sums/products on the roaring decode path.
func DebugNarrowAdds(p *core.Program) {
	rp := p.Pkg("roaring")
	info := rp.TypesInfo
	decode := c06RoaringDecodePath(rp)
	for _, fd := range core.AllFuncDecls(rp) {
		if fd.Body == nil || !decode[core.FuncName(fd)] {
			continue
		}
		ast.Inspect(fd.Body, func(n ast.Node) bool {
			ar, ok := n.(*ast.BinaryExpr)
			if !ok || (ar.Op != token.ADD && ar.Op != token.MUL && ar.Op != token.SUB) {
				return true
			}
			if tv, ok := info.Types[ar]; ok && tv.Value != nil {
				return true
			}
			if b, ok := info.TypeOf(ar).Underlying().(*types.Basic); ok {
				switch b.Kind() {
				case types.Uint8, types.Uint16, types.Int8, types.Int16:
					println(p.Pos(ar.Pos()), core.FuncName(fd), types.ExprString(ar), b.Name())
				}
			}
			return true
		})
	}
}
