package props

import (
	"go/ast"
	"go/types"
	"strings"

	"verif/checker/core"
)

// c03DerivedOwnsItsIndex: rule R6. Copy-on-write protects container payloads;
// the collection's own bookkeeping (the key and container slices of
// sliceContainers, the tree of bTreeContainers) is edited in place by inserts
// and removals. A Clone or Freeze that hands the derived collection a
// (re)slice of the source's bookkeeping makes an insert into one side shift
// the other side's keys under its containers.
func c03DerivedOwnsItsIndex(p *core.Program, r *core.Report) {
	rp := p.Pkg("roaring")
	if rp == nil {
		return
	}
	info := rp.TypesInfo
	ifaceObj := rp.Types.Scope().Lookup("Containers")
	if ifaceObj == nil {
		r.Undecide("R6", "interface Containers", "", "not found")
		return
	}
	iface, _ := ifaceObj.Type().Underlying().(*types.Interface)
	n := 0
	for _, fd := range core.AllFuncDecls(rp) {
		if fd.Body == nil || fd.Recv == nil || (fd.Name.Name != "Clone" && fd.Name.Name != "Freeze") || strings.HasSuffix(p.Fset.Position(fd.Pos()).Filename, "_test.go") {
			continue
		}
		rt := info.TypeOf(fd.Recv.List[0].Type)
		if rt == nil || iface == nil || !types.Implements(rt, iface) {
			continue
		}
		if len(fd.Recv.List[0].Names) == 0 {
			continue
		}
		recv := info.Defs[fd.Recv.List[0].Names[0]]
		n++
		rooted := func(e ast.Expr) bool { // an expression that denotes (part of) the receiver's own memory
			for {
				switch x := ast.Unparen(e).(type) {
				case *ast.SliceExpr:
					e = x.X
				case *ast.SelectorExpr:
					if s, ok := info.Selections[x]; !ok || s.Kind() != types.FieldVal {
						return false
					}
					e = x.X
				case *ast.StarExpr:
					e = x.X
				case *ast.Ident:
					return info.ObjectOf(x) == recv
				default:
					return false
				}
			}
		}
		var bad []string
		nAssign := 0
		ast.Inspect(fd.Body, func(m ast.Node) bool {
			as, ok := m.(*ast.AssignStmt)
			if !ok || len(as.Lhs) != len(as.Rhs) {
				return true
			}
			for i, l := range as.Lhs {
				sel, ok := ast.Unparen(l).(*ast.SelectorExpr)
				if !ok {
					continue
				}
				s, ok := info.Selections[sel]
				if !ok || s.Kind() != types.FieldVal {
					continue
				}
				// a field of a local of the receiver's type (the derived collection)
				id, ok := ast.Unparen(sel.X).(*ast.Ident)
				if !ok || info.ObjectOf(id) == recv {
					continue
				}
				if !types.Identical(core.NamedOf(info.TypeOf(id)), core.NamedOf(rt)) {
					continue
				}
				switch info.TypeOf(sel).Underlying().(type) {
				case *types.Slice, *types.Map, *types.Pointer:
				default:
					continue
				}
				nAssign++
				if rooted(as.Rhs[i]) {
					bad = append(bad, types.ExprString(l)+" = "+types.ExprString(as.Rhs[i])+" at "+p.Pos(as.Pos()))
				}
			}
			return true
		})
		construct := core.FuncName(fd) + ": the derived collection owns its bookkeeping"
		if len(bad) > 0 {
			r.Violate("R6", construct, p.Pos(fd.Pos()), "the derived collection is given the source's own bookkeeping ("+strings.Join(dedupe(bad), "; ")+"): inserts and removals edit that memory in place, so a later change of the set of containers on one side re-pairs the other side's keys and containers although only one of them was written")
		} else {
			r.HoldAt("R6", construct, p.Pos(fd.Pos()), "slice, map and pointer fields of the result are not (re)slices of the receiver's")
		}
	}
	r.Floor("C03/R6 Clone/Freeze methods of container collections", n, 3)
}
